(* engine `keys`: multisig verification and keybase operations on the ideal-primitive model *)
open Model
open Util

(* parsers for key trees "(0,(1,2))" and signature trees "(p0:1,(g,p2:1))" *)
let parse_tree (leaf : string -> 'a) (node : 'a list -> 'a) (s : string) : 'a =
  let n = String.length s in
  let pos = ref 0 in
  let rec item () =
    if s.[!pos] = '(' && !pos + 1 < n && s.[!pos + 1] = ')' then begin
      pos := !pos + 2; node []                                  (* "()": every component dropped *)
    end else if s.[!pos] = '(' then begin
      incr pos;
      let acc = ref [] in
      let fin = ref false in
      while not !fin do
        acc := item () :: !acc;
        if s.[!pos] = ',' then incr pos else (incr pos; fin := true)
      done;
      node (List.rev !acc)
    end else begin
      let st = !pos in
      while !pos < n && s.[!pos] <> ',' && s.[!pos] <> ')' do incr pos done;
      leaf (String.sub s st (!pos - st))
    end in
  item ()

let key_of s = parse_tree (fun l -> PK (n_of_int (int_of_string l))) (fun l -> PMulti l) s
let sig_of s = parse_tree (fun l ->
    if l = "g" || l = "" then SGarbage else
    match String.split_on_char ':' (String.sub l 1 (String.length l - 1)) with
    | [b; m] -> SPlain (n_of_int (int_of_string b), n_of_int (int_of_string m))
    | _ -> SGarbage) (fun l -> SMulti l) s

let bz s = if s = "." then [] else bytes_of_hex s
let hx b = if b = [] then "." else hex_of_bytes b

let run () =
  let kbs : kb ref = ref [] in
  let list () = "[" ^ String.concat "," (List.map string_of_int (List.sort compare (List.map (fun (_, (id, _)) -> int_of_n id) !kbs))) ^ "]" in
  let step o = let (s', r) = kstep !kbs o in kbs := s'; r in
  let addr id = [n_of_int (int_of_string id)] in
  (try
    while true do
      let line = input_line stdin in
      match String.split_on_char ' ' line with
      | [id; "V"; k; m; s] ->
        Printf.printf "%s %s\n" id (if verify (key_of k) (n_of_int (int_of_string m)) (sig_of s) then "true" else "false")
      | id :: "K" :: rest ->
        let res = (match rest with
          | ["reset"] -> kbs := []; "ok"
          | ["create"; kid; p] -> if kid = "9999999" then "err" else (ignore (step (KCreate (n_of_int (int_of_string kid), bz p))); "ok")
          | ["sign"; kid; p; m] -> (match step (KSign (addr kid, bz p, n_of_int (int_of_string m))) with KSig _ -> "sig verifies=true" | _ -> "err")
          | ["update"; kid; o; np] -> (match step (KUpdate (addr kid, bz o, bz np)) with KOk -> "ok" | _ -> "err")
          | ["delete"; kid; p] -> (match step (KDelete (addr kid, bz p)) with KOk -> "ok" | _ -> "err")
          | ["export"; kid; dp; ep] -> (match step (KExport (addr kid, bz dp, bz ep)) with
              | KArmor (i, p) -> Printf.sprintf "armor %d/%s" (int_of_n i) (hx p) | _ -> "err")
          | ["import"; ma; dp; np] ->
            (match String.split_on_char '/' ma with
             | [i; p] -> (match step (KImport ((n_of_int (int_of_string i), bz p), bz dp, bz np)) with KOk -> "ok" | _ -> "err")
             | _ -> "?")
          | _ -> "?") in
        Printf.printf "%s %s %s\n" id res (list ())
      | _ -> ()
    done
  with End_of_file -> ())
