let () =
  match Sys.argv with
  | [| _; "num" |] -> Run_num.run ()
  | _ -> prerr_endline "usage: modelrun <engine> < ops"; exit 2
