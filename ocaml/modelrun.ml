let () =
  match Sys.argv with
  | [| _; "num" |] -> Run_num.run ()
  | [| _; "kv" |] -> Run_kv.run ()
  | [| _; "app" |] -> Run_app.run ()
  | [| _; "ms" |] -> Run_ms.run ()
  | [| _; "keys" |] -> Run_keys.run ()
  | [| _; "codec" |] -> Run_codec.run ()
  | _ -> prerr_endline "usage: modelrun <engine> < ops"; exit 2
