(* engine `app`: replays the histories of the Go app driver on the extracted L1 model and
   prints, after every op, "<hist>.<idx> <result> <state sections>" in the driver's format. *)
open Model
open Util

let bz s = if s = "." || s = "-" || s = "" then [] else bytes_of_hex s
let hx b = if b = [] then "." else hex_of_bytes b
let zs = string_of_z
let zo = z_of_string
let kv s = match String.index_opt s '=' with
  | Some i -> (String.sub s 0 i, String.sub s (i + 1) (String.length s - i - 1))
  | None -> (s, "")
let field line name =           (* value of "name=..." among space separated fields *)
  let fs = String.split_on_char ' ' line in
  let pre = name ^ "=" in
  let n = String.length pre in
  match List.find_opt (fun f -> String.length f >= n && String.sub f 0 n = pre) fs with
  | Some f -> String.sub f n (String.length f - n)
  | None -> ""
let csv s = if s = "" then [] else String.split_on_char ',' s
let colon s = String.split_on_char ':' s

let billion = zo "1000000000"
let z_of_be (b : bytes) : z = List.fold_left (fun acc x -> Z.add (Z.mul acc (zo "256")) (Z.of_N x)) Z0 b

let dump (s : state) : string =
  let b = Buffer.create 4096 in
  let sec name items = Buffer.add_string b (" " ^ name ^ ":" ^ String.concat "," items) in
  Buffer.add_string b ("A:" ^ String.concat "," (List.map (fun (a, v) -> hx a ^ "=" ^ zs v) s.accts));
  Buffer.add_string b (" S:" ^ zs s.supply);
  sec "V" (List.map (fun (a, v) -> Printf.sprintf "%s=%d/%d/%s/%s" (hx a) (int_of_n v.v_status)
                        (if v.v_jailed then 1 else 0) (zs v.v_tokens) (zs v.v_unstime)) s.vals);
  sec "I" (List.map (fun (k, a) -> hx k ^ "=" ^ hx a) s.powidx);
  sec "P" (List.map (fun (a, p) -> hx a ^ "=" ^ zs p) s.prevpow);
  Buffer.add_string b (";" ^ zs s.prevtotal);
  sec "Q" (List.map (fun (k, l) -> zs (z_of_be k) ^ "=" ^ String.concat "+" (List.map hx l)) s.unstq);
  sec "G" (List.map (fun (a, si) ->
      let (q, r) = Z.div_eucl si.si_jailed_until billion in
      let rs = zs r in
      Printf.sprintf "%s=%s/%s/%s.%s%s/%d/%s" (hx a) (zs si.si_start) (zs si.si_offset) (zs q)
        (String.make (9 - String.length rs) '0') rs (if si.si_tomb then 1 else 0) (zs si.si_missed)) s.sinfo);
  sec "M" (List.map (fun (k, m) -> hx k ^ "=" ^ (if m then "1" else "0")) s.missed);
  sec "W" (List.map (fun (a, v) -> hx a ^ "=" ^ zs v) s.awards);
  sec "B" (List.map (fun (a, v) -> hx a ^ "=" ^ zs v) s.burns);
  Buffer.add_string b (" R:" ^ (match s.proposer with Some p -> hx p | None -> "-"));
  Buffer.contents b

let ups_string ups = "U[" ^ String.concat "," (List.map (fun (a, p) -> hx a ^ ":" ^ zs p) ups) ^ "]"

let parse_msg (spec : string) : msg =
  match colon spec with
  | ["stake"; pk; a; amt] -> MStake (bz pk, bz a, zo amt)
  | ["unstake"; a] -> MUnstake (bz a)
  | ["unjail"; a] -> MUnjail (bz a)
  | ["send"; f; t; amt] -> MSend (bz f, bz t, zo amt)
  | ["dao"; f; t; amt; act] -> MDao (bz f, bz t, zo amt, n_of_int (int_of_string act))
  | ["upgrade"; f; h; raw] -> MUpgrade (bz f, zo h, bz raw)
  | "param" :: f :: key :: kind :: rest ->
    (match kind, rest with
     | "pos", [fld; v; raw; wf] -> MChangeParam (bz f, bz key, PVpos (n_of_int (int_of_string fld), zo v), bz raw, wf = "1")
     | "auth", [fld; v; raw; wf] -> MChangeParam (bz f, bz key, PVauth (n_of_int (int_of_string fld), zo v), bz raw, wf = "1")
     | "addr", [a; raw; wf] -> MChangeParam (bz f, bz key, PVaddr (bz a), bz raw, wf = "1")
     | "acl", [pairs; raw; wf] ->
       let l = List.map (fun kv -> match String.split_on_char '=' kv with [k; a] -> (bz k, bz a) | _ -> failwith "acl pair")
           (List.filter (fun x -> x <> "") (String.split_on_char ';' pairs)) in
       MChangeParam (bz f, bz key, PVacl l, bz raw, wf = "1")
     | "raw", [_; raw; wf] -> MChangeParam (bz f, bz key, PVraw, bz raw, wf = "1")
     | _ -> failwith ("bad param spec " ^ spec))
  | _ -> failwith ("bad msg spec " ^ spec)

let run () =
  let hid = ref "" and idx = ref 0 and dead = ref false in
  let st : state option ref = ref None in
  let govfee = ref Z0 in
  let only_ed25519 = ref false in     (* the consensus parameters of InitChain admit ed25519 validator keys only *)
  (* header accumulation *)
  let ma = ref { m_fee = []; m_pool = []; m_pos = []; m_dao = [] } in
  let pp = ref None and ap = ref None and acl = ref [] and dao_owner = ref [] and dao_tokens = ref Z0 in
  let accs = ref [] and sup = ref Z0 and gvals = ref [] and pkof = ref [] in
  let out res = (match !st with
      | Some s -> Printf.printf "%s.%d %s %s\n" !hid !idx res (dump s)
      | None -> Printf.printf "%s.%d %s\n" !hid !idx res);
    incr idx in
  let abort () = Printf.printf "%s.%d ABORT\n" !hid !idx; incr idx; dead := true in
  (try
    while true do
      let line = input_line stdin in
      let toks = String.split_on_char ' ' line in
      match toks with
      | "H" :: id :: _ ->
        hid := id; idx := 0; dead := false; st := None; accs := []; gvals := []; pkof := [];
        ma := { m_fee = bz (field line "fee"); m_pool = bz (field line "pool"); m_pos = bz (field line "pos"); m_dao = bz (field line "dao") };
        govfee := zo (field line "govfee"); only_ed25519 := false
      | ["PKT"; "ed25519"] -> only_ed25519 := true
      | ["PP"; a; b; c; d; e; f; g; h; i] ->
        pp := Some { p_unstaking_time = zo a; p_max_validators = zo b; p_min_stake = zo c; p_max_evidence_age = zo d;
                     p_window = zo e; p_min_signed = zo f; p_downtime_jail = zo g; p_slash_ds = zo h; p_slash_dt = zo i }
      | "AP" :: a :: b :: c :: rest ->
        let fms = match rest with [x] -> csv x | _ -> [] in
        ap := Some { a_max_memo = zo a; a_sig_limit = zo b; a_fee_default = zo c;
                     a_fee_multis = List.map (fun it -> match colon it with
                         | [t; m] -> ([n_of_int (int_of_string t)], zo m) | _ -> failwith "fm") fms }
      | ["ACL"; l] -> acl := List.map (fun it -> let (k, v) = kv it in (bz k, bz v)) (csv l)
      | ["DAO"; o; t] -> dao_owner := bz o; dao_tokens := zo t
      | ["ACC"; a; b] -> accs := (bz a, zo b) :: !accs
      | ["PKOF"; a; k] -> pkof := (bz a, bz k) :: !pkof
      | ["SUP"; s] -> sup := zo s
      | ["VAL"; a; pk; t] -> gvals := !gvals @ [((bz a, bz pk), zo t)]
      | ["INIT"] ->
        let acct_map = List.fold_left (fun m (a, b) -> aset m a b) [] !accs in
        let haspk = List.fold_left (fun m (a, _) -> if a = !ma.m_pool then m else
                                       aset m a (match List.assoc_opt a !pkof with Some k -> k | None -> a)) [] !accs in
        let s0 = { accts = acct_map; supply = !sup; vals = []; powidx = []; prevpow = []; prevtotal = Z0;
                   unstq = []; sinfo = []; missed = []; awards = []; burns = []; proposer = None; pkrel = [];
                   pp = (match !pp with Some p -> p | None -> failwith "no PP");
                   ap = (match !ap with Some p -> p | None -> failwith "no AP");
                   ma = !ma; acl = !acl; dao_owner = !dao_owner; params_raw = []; height = Z0; btime = Z0;
                   haspk = haspk } in
        (match init_chain s0 !gvals !dao_tokens with
         | Some (s1, ups) -> st := Some s1; out (ups_string ups)
         | None -> abort ())
      | "BB" :: h :: t :: prop :: _ when not !dead ->
        let votes = List.map (fun it -> match colon it with
            | [a; p; sg] -> { vo_addr = bz a; vo_power = zo p; vo_signed = (sg = "1") } | _ -> failwith "vote") (csv (field line "votes")) in
        let evs = List.map (fun it -> match colon it with
            | [a; eh; et; p] -> { ev_addr = bz a; ev_height = zo eh; ev_time = zo et; ev_power = zo p } | _ -> failwith "ev") (csv (field line "ev")) in
        (match !st with
         | Some s -> (match begin_block s (zo h) (zo t) (bz prop) votes evs with
             | Some s1 -> st := Some s1; out "ok"
             | None -> abort ())
         | None -> ())
      | "TX" :: spec :: _ when not !dead ->
        (match !st with
         | Some s ->
           let att = field line "att" in
           let t = { t_msg = parse_msg spec; t_fee = zo (field line "fee"); t_memo_len = zo (field line "memo");
                     t_attached = (if att = "-" then None else Some (bz att));
                     t_multi_count = zo (field line "multi"); t_signed_by = bz (field line "by");
                     t_mutated = (field line "mut" = "1"); t_sig_empty = (field line "sigempty" = "1");
                     t_in_index = (field line "dup" = "1"); t_gov_fee = !govfee } in
           (match deliver_tx_cp !only_ed25519 s t with
            | DOk s1 -> st := Some s1; out "ok"
            | DRejected s1 -> st := Some s1; out "err"
            | DHandlerErr s1 -> st := Some s1; out "err")
         | None -> ())
      | "HM" :: spec :: _ when not !dead ->      (* a message handed to the handler directly: no ante handler, no fee *)
        (match !st with
         | Some s -> (match handle s (parse_msg spec) with
             | HOk s1 -> st := Some s1; out "ok"
             | HErr s1 -> st := Some s1; out "err")
         | None -> ())
      | ["AW"; a; amt] when not !dead ->
        (match !st with Some s -> st := Some (k_award s (bz a) (zo amt)); out "ok" | None -> ())
      | ["BU"; a; sev] when not !dead ->
        (match !st with Some s -> st := Some (k_burn s (bz a) (zo sev)); out "ok" | None -> ())
      | ["EB"] when not !dead ->
        (match !st with
         | Some s -> (match end_block s with
             | Some (s1, ups) -> st := Some s1; out (ups_string ups)
             | None -> abort ())
         | None -> ())
      | ["CM"] when not !dead -> out "ok"
      | ["RS"] when not !dead -> out "ok"     (* the process is stopped and reopened from its database: nothing the model holds changes *)
      | _ -> ()
    done
  with End_of_file -> ())
