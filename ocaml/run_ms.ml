(* engine `ms`: replays the histories of the Go ms driver on the extracted L2 model.
   The flags twin=/info= and the proof verdicts are implementation-side oracles; the model
   prints the value the theorems predict (true). *)
open Model
open Util

let bz s = if s = "." || s = "-" || s = "" then [] else bytes_of_hex s
let hx b = if b = [] then "." else hex_of_bytes b
let nm s = bytes_of_string s
let csv s = if s = "" || s = "-" then [] else String.split_on_char ',' s

let contents (ms : mstore) : string =
  let one (n, t) = string_of_bytes n ^ ":{" ^ String.concat "," (List.map (fun (k, v) -> hx k ^ "=" ^ hx v) t.t_work) ^ "}" in
  let tr = List.fold_left (fun a (_, m) -> a + List.length m) 0 ms.ms_transient in
  String.concat ";" (List.map one ms.ms_trees) ^ Printf.sprintf " tr=%d" tr

let ver ms = string_of_z (fst ms.ms_last)

let run () =
  let hid = ref "" and idx = ref 0 and dead = ref false in
  let ms = ref (ms_init [] { keep_recent = Z0; keep_every = Z0 }) in
  let pending : (mstore -> mstore) list ref = ref [] in
  let out res = Printf.printf "%s.%d %s\n" !hid !idx res; incr idx in
  (try
    while true do
      let line = input_line stdin in
      match String.split_on_char ' ' line with
      | ["H"; id; kr; ke; names] ->
        hid := id; idx := 0; dead := false; pending := [];
        ms := ms_init (List.map nm (csv names)) { keep_recent = z_of_string kr; keep_every = z_of_string ke }
      | _ when !dead -> ()
      | ["S"; st; k; v] -> let f m = ms_set m (nm st) (bz k) (bz v) in ms := f !ms; pending := !pending @ [f]; out "ok"
      | ["D"; st; k] -> let f m = ms_delete m (nm st) (bz k) in ms := f !ms; pending := !pending @ [f]; out "ok"
      | ["P"; kr; ke] -> ms := ms_set_pruning !ms { keep_recent = z_of_string kr; keep_every = z_of_string ke }; out "ok"
      | ["T"; k; v] -> ms := ms_tset !ms (nm "tr") (bz k) (bz v); out "ok"
      | ["C"; order] ->
        (match commit_in_order !ms (List.map nm (csv order)) None with
         | Some (m, _) -> ms := m; pending := [];
           out (Printf.sprintf "ok ver=%s twin=true info=true %s" (ver m) (contents m))
         | None -> out "panic"; dead := true)
      | "X" :: budget :: rest ->
        let units = match rest with [u] -> csv u | _ -> [] in
        let order = List.fold_left (fun acc u -> if u = "@root" || List.mem u acc then acc else acc @ [u]) [] units in
        let old = ver !ms in
        (match commit_in_order !ms (List.map nm order) (Some (nat_of_int (int_of_string budget))) with
         | None -> out "panic"; dead := true
         | Some (m, false) -> ms := m; pending := [];
           out (Printf.sprintf "nocrash ver=%s twin=true %s" (ver m) (contents m))
         | Some (m, true) ->
           (match reopen m with
            | None -> out "crash reopen=err"; dead := true
            | Some m2 ->
              let res = Printf.sprintf "crash reopen=ok ver=%s old=%s %s" (ver m2) old (contents m2) in
              if ver m2 = old then begin
                let m3 = List.fold_left (fun a f -> f a) m2 !pending in
                (* the replayed block commits in mount order; the result does not depend on it *)
                match commit_in_order m3 [] None with
                | Some (m4, _) -> ms := m4; pending := [];
                  out (res ^ Printf.sprintf " recommit=ok ver=%s twin=true %s" (ver m4) (contents m4))
                | None -> out (res ^ " recommit=panic"); dead := true
              end else begin
                ms := m2; pending := []; out (res ^ " newversion twin=true")
              end))
      | ["M"; name] ->
        (* a store mounted for the first time on a database that already holds commits, then LoadLatestVersion *)
        let m0 = { !ms with ms_trees = (!ms).ms_trees @ [(nm name, tree_empty)] } in
        (match reopen m0 with
         | Some m -> ms := m; pending := []; out (Printf.sprintf "ok ver=%s info=true %s" (ver m) (contents m))
         | None -> out "err"; dead := true)
      | ["R"] ->
        (match reopen !ms with
         | Some m -> ms := m; pending := []; out (Printf.sprintf "ok ver=%s info=true %s" (ver m) (contents m))
         | None -> out "err"; dead := true)
      | ["L"; v] ->
        (match load_ms !ms (z_of_string v) with
         | Some m -> out (Printf.sprintf "ok ver=%s info=true %s" (ver m) (contents m))
         | None -> out "err")
      | ["Q"; st; k; h; prove] ->
        (* all-0xFF keys with a proof panic inside the iavl library (known finding): not modelled *)
        (match ms_query !ms (nm st) (bz k) (z_of_string h) with
         | QValue (Some v) -> out ("val=" ^ hx v)
         | QValue None -> out "none"
         | QNoVersion -> out "noversion"
         | QNoStore -> out "err")
      | ["K"; _] -> out "done"     (* a private copy loads a version: nothing happens to the store itself *)
      | ["V"; st; k; h] ->
        (* CacheMultiStoreWithVersion: every substore must hold that version, then the value committed there *)
        let hz = z_of_string h in
        if not (List.for_all (fun (_, t) -> vget t.t_disk hz <> None) (!ms).ms_trees) then out "noversion"
        else (match ms_query !ms (nm st) (bz k) hz with
         | QValue (Some v) -> out ("val=" ^ hx v)
         | QValue None -> out "none"
         | QNoVersion -> out "noversion"
         | QNoStore -> out "err")
      | _ -> ()
    done
  with End_of_file -> ())
