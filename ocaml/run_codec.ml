(* engine `codec`: key builders, uvarint and canonical JSON on the extracted model *)
open Model
open Util

let bz s = if s = "." then [] else bytes_of_hex s
let hx b = if b = [] then "." else hex_of_bytes b
let cmp_s c = match c with Eq -> "0" | Lt -> "-1" | Gt -> "1"

(* tree tokens: N T F S:<hex> A:<n> items.. O:<n> (K:<hex> item).. *)
let rec parse_tree (toks : string list) : json * string list =
  match toks with
  | "N" :: r -> (JNull, r)
  | "T" :: r -> (JBool true, r)
  | "F" :: r -> (JBool false, r)
  | t :: r when String.length t >= 2 && t.[0] = 'S' -> (JStr (bz (String.sub t 2 (String.length t - 2))), r)
  | t :: r when String.length t >= 2 && t.[0] = 'A' ->
    let n = int_of_string (String.sub t 2 (String.length t - 2)) in
    let rec go n r acc = if n = 0 then (List.rev acc, r) else let (x, r') = parse_tree r in go (n - 1) r' (x :: acc) in
    let (l, r') = go n r [] in (JArr l, r')
  | t :: r when String.length t >= 2 && t.[0] = 'O' ->
    let n = int_of_string (String.sub t 2 (String.length t - 2)) in
    let rec go n r acc =
      if n = 0 then (List.rev acc, r) else
      match r with
      | k :: r1 -> let (x, r') = parse_tree r1 in go (n - 1) r' ((bz (String.sub k 2 (String.length k - 2)), x) :: acc)
      | [] -> failwith "tree" in
    let (l, r') = go n r [] in (JObj l, r')
  | _ -> failwith "tree"

let tf = function
  | [y; mo; d; h; mi; s; ns] -> { t_year = z_of_string y; t_month = z_of_string mo; t_day = z_of_string d; t_hour = z_of_string h;
                                  t_min = z_of_string mi; t_sec = z_of_string s; t_nano = z_of_string ns }
  | _ -> failwith "time"

let run () =
  (try
    while true do
      let line = input_line stdin in
      match String.split_on_char ' ' line with
      | [id; "KR"; t; a] -> Printf.printf "%s %s back=true\n" id (hx (rank_key (z_of_string t) (bz a)))
      | [id; "KM"; a; i] -> Printf.printf "%s %s\n" id (hx (missed_key (bz a) (z_of_string i)))
      | [id; "KO"; t1; a1; t2; a2] ->
        Printf.printf "%s %s\n" id (cmp_s (bcompare (rank_key (z_of_string t1) (bz a1)) (rank_key (z_of_string t2) (bz a2))))
      | id :: "KT" :: y :: mo :: d :: h :: mi :: s :: ns :: rest ->
        let a = tf [y; mo; d; h; mi; s; ns] and b = tf rest in
        Printf.printf "%s %s %s back=true\n" id (hx (time_text a)) (cmp_s (bcompare (time_text a) (time_text b)))
      | [id; "LP"; n] -> Printf.printf "%s %s\n" id (hx (uvarint (z_of_string n)))
      | [id; "LD"; b] ->
        (match uvarint_decode (bz b) with
         | Some (v, r) -> Printf.printf "%s %s rest=%d\n" id (string_of_z v) (List.length r)
         | None -> Printf.printf "%s error\n" id)
      | [id; "DS"; z] -> Printf.printf "%s %s\n" id (hx (dec_to_text (z_of_string z)))
      | [id; "DP"; b] ->
        (match text_to_dec (bz b) with
         | Some v -> Printf.printf "%s %s\n" id (string_of_z v)
         | None -> Printf.printf "%s error\n" id)
      | id :: "SJ" :: toks -> let (j, _) = parse_tree toks in Printf.printf "%s %s\n" id (hx (sort_json j))
      | id :: "SD" :: c :: e :: m :: toks ->
        let (fee, r) = parse_tree toks in
        let (msg, _) = parse_tree r in
        Printf.printf "%s %s\n" id (hx (sign_bytes (bz c) (bytes_of_string e) (bz m) fee msg))
      | _ -> ()
    done
  with End_of_file -> ())
