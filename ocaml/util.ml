(* Conversions between the extracted Coq numbers and text. Uses Zarith only for
   parsing/printing decimal text; all model arithmetic runs on the extracted datatypes. *)
module ZA = Z
open Model

let rec pos_of_zarith (x : ZA.t) : positive =
  if ZA.equal x ZA.one then XH
  else if ZA.is_even x then XO (pos_of_zarith (ZA.shift_right x 1))
  else XI (pos_of_zarith (ZA.shift_right x 1))

let z_of_zarith (x : ZA.t) : z =
  if ZA.sign x = 0 then Z0 else if ZA.sign x > 0 then Zpos (pos_of_zarith x) else Zneg (pos_of_zarith (ZA.neg x))

let rec zarith_of_pos (p : positive) : ZA.t =
  match p with
  | XH -> ZA.one
  | XO q -> ZA.shift_left (zarith_of_pos q) 1
  | XI q -> ZA.succ (ZA.shift_left (zarith_of_pos q) 1)

let zarith_of_z (x : z) : ZA.t =
  match x with Z0 -> ZA.zero | Zpos p -> zarith_of_pos p | Zneg p -> ZA.neg (zarith_of_pos p)

let z_of_string (s : string) : z = z_of_zarith (ZA.of_string s)
let string_of_z (x : z) : string = ZA.to_string (zarith_of_z x)

let n_of_int (i : int) : n = if i = 0 then N0 else Npos (pos_of_zarith (ZA.of_int i))
let int_of_n (x : n) : int = match x with N0 -> 0 | Npos p -> ZA.to_int (zarith_of_pos p)
let z_of_int (i : int) : z = z_of_zarith (ZA.of_int i)
let int_of_z (x : z) : int = ZA.to_int (zarith_of_z x)
let rec nat_of_int (i : int) : nat = if i <= 0 then O else S (nat_of_int (i - 1))
let rec int_of_nat (x : nat) : int = match x with O -> 0 | S y -> 1 + int_of_nat y

let bytes_of_string (s : string) : bytes = List.init (String.length s) (fun i -> n_of_int (Char.code s.[i]))
let string_of_bytes (b : bytes) : string =
  String.concat "" (List.map (fun x -> String.make 1 (Char.chr (int_of_n x))) b)
let hex_of_bytes (b : bytes) : string =
  String.concat "" (List.map (fun x -> Printf.sprintf "%02x" (int_of_n x)) b)
let bytes_of_hex (s : string) : bytes =
  List.init (String.length s / 2) (fun i -> n_of_int (int_of_string ("0x" ^ String.sub s (2 * i) 2)))

let split_on c s = if s = "" then [] else String.split_on_char c s
let b2s b = if b then "1" else "0"
