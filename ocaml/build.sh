#!/bin/bash
# builds ocaml/modelrun from the model extracted by `make -C coq` (coq/model.ml, coq/model.mli)
set -e
cd "$(dirname "$0")"
mkdir -p gen
if ! cmp -s ../coq/model.ml gen/model.ml 2>/dev/null; then cp ../coq/model.ml ../coq/model.mli gen/; fi
cp util.ml run_*.ml modelrun.ml gen/
cd gen
SRCS="model.mli model.ml util.ml $(ls run_*.ml) modelrun.ml"
ocamlfind ocamlopt -w -a -O2 -package zarith -linkpkg $SRCS -o ../modelrun 2>/dev/null || \
ocamlfind ocamlopt -w -a -package zarith -linkpkg $SRCS -o ../modelrun
