(* engine `kv`: replays the programs of the Go kv driver on the extracted store model.
   Output: "<prog>.<idx> <result> g=<gas> t=<trace lines>" exactly as the driver prints. *)
open Model
open Util

let bz s = if s = "." || s = "-" then [] else bytes_of_hex s
let obz s = if s = "-" then None else Some (bz s)
let hx b = if b = [] then "." else hex_of_bytes b
let hxo = function None -> "-" | Some b -> hx b

let pk = function POutOfGas -> "P:oog" | PGasOverflow -> "P:ovf" | PInvalidIter -> "P:inv" | POther -> "P:other"
let show_list l = "[" ^ String.concat "," (List.map (fun (k, v) -> hx k ^ "=" ^ hx v) l) ^ "]"
let opname = function 0 -> "write" | 1 -> "read" | 2 -> "delete" | 3 -> "iterKey" | _ -> "iterValue"

let run () =
  let st = ref (Base []) in
  let w = ref { w_limit = None; w_consumed = N0; w_trace = []; w_cfg = kv_gas_config } in
  let iters : iter0 option array ref = ref [||] in
  let pid = ref "" and idx = ref 0 in
  let out res =
    Printf.printf "%s.%d %s g=%s t=%d\n" !pid !idx res
      (string_of_z (Z.of_N !w.w_consumed)) (List.length !w.w_trace);
    incr idx in
  let depth s = nat_of_int (int_of_string s) in
  (try
    while true do
      let line = input_line stdin in
      match String.split_on_char ' ' line with
      | "P" :: id :: lim :: layers ->
        pid := id; idx := 0; iters := [||];
        let limit = if lim = "inf" then None else Some (Z.to_N (z_of_string lim)) in
        w := { w_limit = limit; w_consumed = N0; w_trace = []; w_cfg = kv_gas_config };
        st := List.fold_left (fun s l ->
          if l = "cache" then Cache (c_empty, s)
          else if l = "gas" then Gas s
          else if l = "trace" then Trace s
          else if String.length l >= 7 && String.sub l 0 7 = "prefix:" then
            Prefix (bz (String.sub l 7 (String.length l - 7)), s)
          else s) (Base []) layers
      | ["B"; k; v] ->
        (* initial content goes straight into the base map *)
        let rec put s = match s with
          | Base m -> Base (aset m (bz k) (bz v))
          | Cache (c, p) -> Cache (c, put p)
          | Prefix (x, p) -> Prefix (x, put p)
          | Gas p -> Gas (put p)
          | Trace p -> Trace (put p) in
        st := put !st
      | ["G"; d; k] ->
        let ((r, s'), w') = at_depth (depth d) (fun s w -> s_get s (bz k) w) !st !w in
        st := s'; w := w';
        out (match r with Ok v -> hxo v | Panic p -> pk p)
      | ["H"; d; k] ->
        let ((r, s'), w') = at_depth (depth d) (fun s w -> s_has s (bz k) w) !st !w in
        st := s'; w := w';
        out (match r with Ok b -> if b then "true" else "false" | Panic p -> pk p)
      | ["S"; d; k; v] ->
        let ((r, s'), w') = at_depth (depth d) (fun s w -> s_set s (bz k) (bz v) w) !st !w in
        st := s'; w := w';
        out (match r with Ok _ -> "ok" | Panic p -> pk p)
      | ["D"; d; k] ->
        let ((r, s'), w') = at_depth (depth d) (fun s w -> s_delete s (bz k) w) !st !w in
        st := s'; w := w';
        out (match r with Ok _ -> "ok" | Panic p -> pk p)
      | ["A"; d; s; e; asc] ->
        let ((r, s'), w') = at_depth (depth d) (fun st w -> s_iter_all st (bz s) (obz e) (asc = "true") w) !st !w in
        st := s'; w := w';
        out (match r with Ok l -> show_list l | Panic p -> pk p)
      | ["I"; d; s; e; asc] ->
        let ((r, s'), w') = at_depth (depth d) (fun st w -> s_iter st (bz s) (obz e) (asc = "true") w) !st !w in
        st := s'; w := w';
        (match r with
         | Ok it -> iters := Array.append !iters [| Some it |]; out "ok"
         | Panic p -> iters := Array.append !iters [| None |]; out (pk p))
      | ["V"; h] ->
        (match !iters.(int_of_string h) with
         | Some it -> out (if it_valid it then "true" else "false")
         | None -> out "?noiter")
      | ["K"; h] ->
        (match !iters.(int_of_string h) with
         | Some it -> let (r, w') = it_key it !w in w := w';
           out (match r with Ok k -> hx k | Panic p -> pk p)
         | None -> out "?noiter")
      | ["U"; h] ->
        (match !iters.(int_of_string h) with
         | Some it -> let (r, w') = it_value it !w in w := w';
           out (match r with Ok k -> hx k | Panic p -> pk p)
         | None -> out "?noiter")
      | ["N"; h] ->
        (match !iters.(int_of_string h) with
         | Some it -> let ((r, it'), w') = it_next it !w in w := w';
           !iters.(int_of_string h) <- Some it';
           out (match r with Ok _ -> "ok" | Panic p -> pk p)
         | None -> out "?noiter")
      | ["W"; d] ->
        let ((r, s'), w') = at_depth (depth d) c_write !st !w in
        st := s'; w := w';
        out (match r with Ok _ -> "ok" | Panic p -> pk p)
      | ["C"; amt] ->
        let (r, w') = consume (Z.to_N (z_of_string amt)) !w in
        w := w';
        out (match r with Ok _ -> "ok" | Panic p -> pk p)
      | ["T"] ->
        let lines = List.rev_map (fun ((op, k), v) -> opname (int_of_n op) ^ ":" ^ hx k ^ ":" ^ hx v) !w.w_trace in
        out ("[" ^ String.concat "," lines ^ "]")
      | _ -> ()
    done
  with End_of_file -> ())
