(* engine `num`: evaluates the L0 numeric models on the ops the Go driver wrote.
   Output: <id> <model result> <spec result>   (spec = what C18 states; "=" when identical) *)
open Model
open Util

let coins_of_string (s : string) : coins =
  if s = "-" then [] else
  List.map (fun it -> match String.split_on_char ':' it with
    | [d; a] -> (bytes_of_string d, z_of_string a)
    | _ -> failwith ("bad coin " ^ it)) (String.split_on_char ',' s)
let string_of_coins (cs : coins) : string =
  if cs = [] then "-" else
  String.concat "," (List.map (fun (d, a) -> string_of_bytes d ^ ":" ^ string_of_z a) cs)

let oz = function Some z -> string_of_z z | None -> "P"
let ob = function Some b -> b2s b | None -> "P"
let oc = function Some c -> string_of_coins c | None -> "P"
(* JSON decoders return an error, not a panic *)
let oe = function Some z -> string_of_z z | None -> "E"

let eval (op : string) (args : string list) : string * string =
  let z i = z_of_string (List.nth args i) in
  let c i = coins_of_string (List.nth args i) in
  let same r = (r, "=") in
  match op with
  | "iadd" -> same (oz (int_add (z 0) (z 1)))
  | "isub" -> same (oz (int_sub (z 0) (z 1)))
  | "imul" -> same (oz (int_mul (z 0) (z 1)))
  | "iquo" -> same (oz (int_quo (z 0) (z 1)))
  | "imod" -> same (oz (int_mod (z 0) (z 1)))
  | "imin" -> same (string_of_z (int_min (z 0) (z 1)))
  | "imax" -> same (string_of_z (int_max (z 0) (z 1)))
  | "ineg" -> same (string_of_z (int_neg (z 0)))
  | "iint64" -> same (oz (int_int64 (z 0)))
  | "inew" -> same (oz (int_new_from_big (z 0)))
  | "t2p" -> same (oz (tokens_to_power (z 0)))
  | "p2t" -> same (oz (tokens_from_power (z 0)))
  | "iaddraw" -> same (oz (int_add (z 0) (z 1)))
  | "isubraw" -> same (oz (int_sub (z 0) (z 1)))
  | "imulraw" -> same (oz (int_mul (z 0) (z 1)))
  | "iquoraw" -> same (oz (int_quo (z 0) (z 1)))
  | "imodraw" -> same (oz (int_mod (z 0) (z 1)))
  | "igt" -> same (b2s (Z.ltb (z 1) (z 0)))
  | "igte" -> same (b2s (Z.leb (z 1) (z 0)))
  | "ilt" -> same (b2s (Z.ltb (z 0) (z 1)))
  | "ilte" -> same (b2s (Z.leb (z 0) (z 1)))
  | "ieq" -> same (b2s (Z.eqb (z 0) (z 1)))
  | "isign" -> same (if z 0 = Z0 then "0" else if Z.ltb (z 0) Z0 then "-1" else "1")
  | "alias" -> same ("0,1,0,1,0,1000000000000000000,1,7000000000000000000,0")
  | "ijson" -> same (oe (int_unmarshal (z 0)))
  | "uadd" -> same (oz (uint_add (z 0) (z 1)))
  | "usub" -> same (oz (uint_sub (z 0) (z 1)))
  | "umul" -> same (oz (uint_mul (z 0) (z 1)))
  | "uquo" -> same (oz (uint_quo (z 0) (z 1)))
  | "uu64" -> same (oz (uint_uint64 (z 0)))
  | "unew" -> same (oz (uint_chk (z 0)))
  | "ujson" -> (oe (uint_unmarshal (z 0)), (if in_uint_b (z 0) then string_of_z (z 0) else "E"))
  | "dadd" -> same (oz (dec_add (z 0) (z 1)))
  | "dsub" -> same (oz (dec_sub (z 0) (z 1)))
  | "dmul" -> (oz (dec_mul (z 0) (z 1)), oz (dec_chk (spec_mul (z 0) (z 1))))
  | "dmult" -> same (oz (dec_mul_truncate (z 0) (z 1)))
  | "dquo" -> (oz (dec_quo (z 0) (z 1)),
               (if z 1 = Z0 then "P" else oz (dec_chk (spec_quo (z 0) (z 1)))))
  | "dquot" -> (oz (dec_quo_truncate (z 0) (z 1)),
                (if z 1 = Z0 then "P" else oz (dec_chk (spec_quo_truncate (z 0) (z 1)))))
  | "dquoru" -> (oz (dec_quo_round_up (z 0) (z 1)),
                 (if z 1 = Z0 then "P" else oz (dec_chk (spec_quo_round_up (z 0) (z 1)))))
  | "dmulint" -> same (oz (dec_mul_int (z 0) (z 1)))
  | "dquoint" -> same (oz (dec_quo_int (z 0) (z 1)))
  | "dround64" -> same (oz (dec_round_int64 (z 0)))
  | "droundint" -> same (oz (dec_round_int (z 0)))
  | "dtrunc64" -> same (oz (dec_truncate_int64 (z 0)))
  | "dtruncint" -> same (oz (dec_truncate_int (z 0)))
  | "dtruncdec" -> same (string_of_z (dec_truncate_dec (z 0)))
  | "dceil" -> same (string_of_z (dec_ceil (z 0)))
  | "disint" -> same (b2s (dec_is_integer (z 0)))
  | "i2d" -> same (string_of_z (dec_from_int (z 0)))
  | "cadd" -> same (oc (safe_add (c 0) (c 1)))
  | "csub" -> same (oc (coins_sub (c 0) (c 1)))
  | "csafesub" -> same (match safe_sub (c 0) (c 1) with
                        | Some (d, f) -> string_of_coins d ^ "|" ^ b2s f | None -> "P")
  | "cvalid" -> same (b2s (coins_valid (c 0)))
  | "camount" -> same (oz (amount_of (c 0) (bytes_of_string (List.nth args 1))))
  | "cgte" -> same (b2s (is_all_gte (c 0) (c 1)))
  | "cgt" -> same (b2s (is_all_gt (c 0) (c 1)))
  | "canygte" -> same (b2s (is_any_gte (c 0) (c 1)))
  | "cequal" -> same (ob (coins_equal (c 0) (c 1)))
  | "cnew" -> same (oc (new_coins (c 0)))
  | "czero" -> same (b2s (coins_is_zero (c 0)))
  | _ -> ("?unknown-op", "=")

let run () =
  try
    while true do
      let line = input_line stdin in
      match String.split_on_char ' ' line with
      | id :: op :: args ->
        let (m, s) = (try eval op args with Failure e -> ("?" ^ e, "=")) in
        Printf.printf "%s %s %s\n" id m s
      | _ -> ()
    done
  with End_of_file -> ()
