// Package simapp assembles the real BaseApp + x/auth + x/pos + x/gov on a dbm.DB, with a fake
// Tendermint node (config only) so that the ante handler's tx-index lookup has an address to call.
package simapp

import (
	"encoding/json"
	"fmt"
	"net/http"
	"net/http/httptest"
	"reflect"
	"strings"
	"sync"
	"unsafe"

	amino "github.com/tendermint/go-amino"
	ctypes "github.com/tendermint/tendermint/rpc/core/types"
	rpcserver "github.com/tendermint/tendermint/rpc/lib/server"
	rpctypes "github.com/tendermint/tendermint/rpc/lib/types"
	tmtypes "github.com/tendermint/tendermint/types"

	abci "github.com/tendermint/tendermint/abci/types"
	tmcfg "github.com/tendermint/tendermint/config"
	"github.com/tendermint/tendermint/libs/log"
	"github.com/tendermint/tendermint/node"
	dbm "github.com/tendermint/tm-db"

	bam "github.com/pokt-network/posmint/baseapp"
	"github.com/pokt-network/posmint/codec"
	sdk "github.com/pokt-network/posmint/types"
	"github.com/pokt-network/posmint/types/module"
	"github.com/pokt-network/posmint/x/auth"
	"github.com/pokt-network/posmint/x/gov"
	govKeeper "github.com/pokt-network/posmint/x/gov/keeper"
	govTypes "github.com/pokt-network/posmint/x/gov/types"
	"github.com/pokt-network/posmint/x/pos"
	posKeeper "github.com/pokt-network/posmint/x/pos/keeper"
	posTypes "github.com/pokt-network/posmint/x/pos/types"
)

const ChainID = "verif-chain"

// TxIndex stands in for the node's transaction index, which the ante handler asks (over Tendermint's JSON-RPC route
// "tx", served here by Tendermint's own RPC server code) whether a transaction has been included before. The driver
// adds a block's transactions, with their results, when the block is committed.
type TxIndex struct {
	mu  sync.Mutex
	txs map[string]*ctypes.ResultTx
	srv *httptest.Server
}

func NewTxIndex() *TxIndex {
	ix := &TxIndex{txs: map[string]*ctypes.ResultTx{}}
	cdc := amino.NewCodec()
	ctypes.RegisterAmino(cdc)
	mux := http.NewServeMux()
	rpcserver.RegisterRPCFuncs(mux, map[string]*rpcserver.RPCFunc{"tx": rpcserver.NewRPCFunc(ix.tx, "hash,prove")}, cdc, log.NewNopLogger())
	ix.srv = httptest.NewServer(mux)
	return ix
}
func (ix *TxIndex) tx(_ *rpctypes.Context, hash []byte, prove bool) (*ctypes.ResultTx, error) {
	ix.mu.Lock()
	defer ix.mu.Unlock()
	if r, ok := ix.txs[string(hash)]; ok {
		return r, nil
	}
	return nil, fmt.Errorf("Tx (%X) not found", hash)
}
func (ix *TxIndex) Addr() string { return "tcp://" + strings.TrimPrefix(ix.srv.URL, "http://") }
func (ix *TxIndex) Add(txBz []byte, height int64, res abci.ResponseDeliverTx) {
	ix.mu.Lock()
	defer ix.mu.Unlock()
	h := tmtypes.Tx(txBz).Hash()
	ix.txs[string(h)] = &ctypes.ResultTx{Hash: h, Height: height, Index: 0, TxResult: res, Tx: txBz}
}
func (ix *TxIndex) Close() { ix.srv.CloseClientConnections(); ix.srv.Close() }

type Genesis struct {
	Auth auth.GenesisState
	Pos  posTypes.GenesisState
	Gov  govTypes.GenesisState
	// PosFirst: initialise pos before auth (an exported state: auth then derives the supply from every account,
	// the staked pool included, which is auth.InitGenesis's stated contract)
	PosFirst bool
}

type App struct {
	*bam.BaseApp
	Cdc    *codec.Codec
	Keys   map[string]*sdk.KVStoreKey
	TKeys  map[string]*sdk.TransientStoreKey
	AK     auth.Keeper
	PK     posKeeper.Keeper
	GK     govKeeper.Keeper
	MM     *module.Manager
	Gen    *Genesis
	Header abci.Header
}

func MakeCodec() *codec.Codec {
	cdc := codec.New()
	module.NewBasicManager(auth.AppModuleBasic{}, pos.AppModuleBasic{}, gov.AppModuleBasic{}).RegisterCodec(cdc)
	sdk.RegisterCodec(cdc)
	codec.RegisterCrypto(cdc)
	return cdc
}

// fakeNode builds a node.Node whose only populated part is the config the ante handler reads
func fakeNode(rpcAddr string) *node.Node {
	n := &node.Node{}
	cfg := tmcfg.DefaultConfig()
	cfg.RPC.ListenAddress = rpcAddr
	f := reflect.ValueOf(n).Elem().FieldByName("config")
	reflect.NewAt(f.Type(), unsafe.Pointer(f.UnsafeAddr())).Elem().Set(reflect.ValueOf(cfg))
	return n
}

var MaccPerms = map[string][]string{
	auth.FeeCollectorName:     nil,
	posTypes.StakedPoolName:   {auth.Burner, auth.Staking, auth.Minter},
	posTypes.ModuleName:       nil,
	govTypes.DAOAccountName:   {auth.Burner, auth.Staking, auth.Minter},
}

// New builds the application on db. rpcAddr is where the ante handler looks for the tx index.
func New(db dbm.DB, rpcAddr string, gen *Genesis, opts ...func(*bam.BaseApp)) *App {
	cdc := MakeCodec()
	bApp := bam.NewBaseApp("verif", log.NewNopLogger(), db, auth.DefaultTxDecoder(cdc), opts...)
	bApp.SetAppVersion("0.0.1")
	keys := sdk.NewKVStoreKeys(bam.MainStoreKey, auth.StoreKey, posTypes.StoreKey, govTypes.StoreKey)
	tkeys := sdk.NewTransientStoreKeys(govTypes.TStoreKey)
	app := &App{BaseApp: bApp, Cdc: cdc, Keys: keys, TKeys: tkeys, Gen: gen}
	authSub := sdk.NewSubspace(auth.DefaultParamspace)
	posSub := sdk.NewSubspace(posKeeper.DefaultParamspace)
	app.AK = auth.NewKeeper(cdc, keys[auth.StoreKey], authSub, MaccPerms)
	app.PK = posKeeper.NewKeeper(cdc, keys[posTypes.StoreKey], app.AK, posSub, posTypes.DefaultCodespace)
	app.GK = govKeeper.NewKeeper(cdc, keys[govTypes.StoreKey], tkeys[govTypes.TStoreKey], govTypes.DefaultCodespace, app.AK, authSub, posSub)
	app.MM = module.NewManager(auth.NewAppModule(app.AK), pos.NewAppModule(app.PK, app.AK), gov.NewAppModule(app.GK))
	app.MM.SetOrderBeginBlockers(posTypes.ModuleName, govTypes.ModuleName)
	app.MM.SetOrderEndBlockers(posTypes.ModuleName)
	app.MM.RegisterRoutes(app.Router(), app.QueryRouter())
	app.SetInitChainer(app.initChainer)
	app.SetBeginBlocker(func(ctx sdk.Ctx, req abci.RequestBeginBlock) abci.ResponseBeginBlock { return app.MM.BeginBlock(ctx, req) })
	app.SetEndBlocker(func(ctx sdk.Ctx, req abci.RequestEndBlock) abci.ResponseEndBlock { return app.MM.EndBlock(ctx, req) })
	app.SetAnteHandler(auth.NewAnteHandler(app.AK))
	app.MountKVStores(keys)
	app.MountTransientStores(tkeys)
	app.SetTendermintNode(fakeNode(rpcAddr))
	if err := app.LoadLatestVersion(keys[bam.MainStoreKey]); err != nil {
		panic(err)
	}
	return app
}

// initChainer applies the three module genesis states directly (pos.AppModule.InitGenesis
// would overwrite the parameters with the defaults)
func (app *App) initChainer(ctx sdk.Ctx, req abci.RequestInitChain) abci.ResponseInitChain {
	g := app.Gen
	if len(req.AppStateBytes) > 0 {
		var gg Genesis
		if err := json.Unmarshal(req.AppStateBytes, &gg); err == nil && false {
			g = &gg
		}
	}
	var ups []abci.ValidatorUpdate
	if g.PosFirst {
		ups = pos.InitGenesis(ctx, app.PK, app.AK, g.Pos)
		auth.InitGenesis(ctx, app.AK, g.Auth)
	} else {
		auth.InitGenesis(ctx, app.AK, g.Auth)
		ups = pos.InitGenesis(ctx, app.PK, app.AK, g.Pos)
	}
	app.GK.InitGenesis(ctx, g.Gov)
	return abci.ResponseInitChain{Validators: ups}
}
