// Package rng: one deterministic PRNG (splitmix64) from which every random choice of a
// driver is derived, so that a seed replays exactly.
package rng

import "math/big"

type R struct{ s uint64 }

func New(seed uint64) *R { return &R{s: seed*0x9E3779B97F4A7C15 + 0x1234567} }

func (r *R) U64() uint64 {
	r.s += 0x9E3779B97F4A7C15
	z := r.s
	z = (z ^ (z >> 30)) * 0xBF58476D1CE4E5B9
	z = (z ^ (z >> 27)) * 0x94D049BB133111EB
	return z ^ (z >> 31)
}

// Intn returns a value in [0,n)
func (r *R) Intn(n int) int {
	if n <= 0 {
		return 0
	}
	return int(r.U64() % uint64(n))
}

func (r *R) Bool() bool { return r.U64()&1 == 1 }

// Chance returns true with probability num/den
func (r *R) Chance(num, den int) bool { return r.Intn(den) < num }

// Bits returns a uniformly random non-negative integer below 2^n
func (r *R) Bits(n int) *big.Int {
	z := new(big.Int)
	for i := 0; i < n; i += 64 {
		z.Lsh(z, 64)
		z.Or(z, new(big.Int).SetUint64(r.U64()))
	}
	if n%64 != 0 || true {
		z.And(z, new(big.Int).Sub(new(big.Int).Lsh(big.NewInt(1), uint(n)), big.NewInt(1)))
	}
	return z
}

func (r *R) Bytes(n int) []byte {
	b := make([]byte, n)
	for i := range b {
		b[i] = byte(r.U64())
	}
	return b
}
