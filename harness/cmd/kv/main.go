// Command kv: correspondence driver for the KVStore wrappers (engine `kv`, C15/C16):
// cachekv, prefix, gaskv, tracekv, dbadapter over MemDB, in random stackings.
// Output files in <out>:
//
//	kv.ops   programs:  "P <id> <limit|inf> <layers...>" then "B <k> <v>" initial base content,
//	         then one op per line (see below), "E" ends a program            (input of the model)
//	kv.impl  one line per op: "<prog>.<idx> <result> g=<gas consumed> t=<trace lines>"
//	kv.stats.json
//
// bytes are hex, "." is the empty string, "-" is nil (only for iterator end).
package main

import (
	"bufio"
	"encoding/base64"
	"encoding/hex"
	"encoding/json"
	"flag"
	"fmt"
	"os"
	"strings"

	dbm "github.com/tendermint/tm-db"

	"github.com/pokt-network/posmint/store/cachekv"
	"github.com/pokt-network/posmint/store/cachemulti"
	"github.com/pokt-network/posmint/store/dbadapter"
	"github.com/pokt-network/posmint/store/gaskv"
	"github.com/pokt-network/posmint/store/prefix"
	"github.com/pokt-network/posmint/store/tracekv"
	stypes "github.com/pokt-network/posmint/store/types"
	"verif/harness/internal/rng"
)

var stats = map[string]int{}

func hx(b []byte) string {
	if b == nil {
		return "-"
	}
	if len(b) == 0 {
		return "."
	}
	return hex.EncodeToString(b)
}

var alphabet = []byte{0x00, 0x01, 0x61, 0x62, 0xfe, 0xff}

func randKey(r *rng.R) []byte {
	n := r.Intn(4)
	if r.Chance(1, 12) {
		n = 0
	}
	k := make([]byte, n)
	for i := range k {
		k[i] = alphabet[r.Intn(len(alphabet))]
	}
	return k
}
func randVal(r *rng.R) []byte {
	n := r.Intn(5)
	if r.Chance(1, 10) {
		n = 20 + r.Intn(60)
	}
	v := make([]byte, n)
	for i := range v {
		v[i] = byte(r.Intn(256))
	}
	return v
}
func randPrefix(r *rng.R) []byte {
	switch r.Intn(6) {
	case 0:
		return []byte{0xff}
	case 1:
		return []byte{0xff, 0xff}
	case 2:
		return []byte{0x61, 0xff}
	case 3:
		return []byte{}
	default:
		n := 1 + r.Intn(2)
		k := make([]byte, n)
		for i := range k {
			k[i] = alphabet[r.Intn(len(alphabet))]
		}
		return k
	}
}

type layer struct {
	kind string // base cache prefix gas trace
	pfx  []byte
	st   stypes.KVStore
	ms   stypes.CacheMultiStore // set when the cache layer is a cache multistore's wrapper: Write goes through the multistore
}

type traceBuf struct{ lines []string }

func (t *traceBuf) Write(p []byte) (int, error) {
	s := string(p)
	if s == "\n" {
		return 1, nil
	}
	t.lines = append(t.lines, s)
	return len(p), nil
}

func classify(rec interface{}) string {
	switch rec.(type) {
	case stypes.ErrorOutOfGas:
		return "P:oog"
	case stypes.ErrorGasOverflow:
		return "P:ovf"
	}
	s := fmt.Sprint(rec)
	if strings.Contains(s, "invalid") || strings.Contains(s, "Invalid") {
		return "P:inv"
	}
	return "P:other"
}

func try(f func() string) (res string) {
	defer func() {
		if rec := recover(); rec != nil {
			res = classify(rec)
		}
	}()
	return f()
}

func main() {
	seed := flag.Uint64("seed", 1, "seed")
	n := flag.Int("n", 2000, "number of programs")
	out := flag.String("out", ".", "output directory")
	flag.Parse()
	r := rng.New(*seed)
	fo, _ := os.Create(*out + "/kv.ops")
	fi, _ := os.Create(*out + "/kv.impl")
	wo, wi := bufio.NewWriter(fo), bufio.NewWriter(fi)
	defer func() { wo.Flush(); wi.Flush(); fo.Close(); fi.Close() }()
	for p := 0; p < *n; p++ {
		runProgram(r, p, wo, wi)
	}
	js, _ := json.MarshalIndent(stats, "", " ")
	_ = os.WriteFile(*out+"/kv.stats.json", js, 0644)
}

func runProgram(r *rng.R, pid int, wo, wi *bufio.Writer) {
	// ---- choose a stacking (bottom to top)
	var kinds []string
	noIter := false
	viaCacheMulti := false
	switch r.Intn(11) {
	case 10: // a cache multistore branched from a cache multistore, tracing on (what runTx does per transaction)
		kinds = []string{"trace", "cache", "trace", "cache"}
		noIter = true
		viaCacheMulti = true
	case 9: // the stores' own CacheWrap / CacheWrapWithTrace over a prefix store
		kinds = []string{"prefix", "trace", "cache"}
		if r.Bool() {
			kinds = []string{"cache", "prefix", "trace", "cache"}
		}
		noIter = true
	case 0, 1:
		kinds = []string{"cache"}
		for r.Chance(1, 2) && len(kinds) < 3 {
			kinds = append(kinds, "cache")
		}
	case 2:
		kinds = []string{"prefix", "cache"}
		if r.Bool() {
			kinds = append(kinds, "cache")
		}
	case 3:
		kinds = []string{"cache", "prefix"}
		if r.Bool() {
			kinds = append(kinds, "cache")
		}
	case 4:
		kinds = []string{"gas"}
		if r.Bool() {
			kinds = []string{"cache", "gas"}
		}
		if r.Bool() {
			kinds = append(kinds, "prefix")
		}
	case 5:
		kinds = []string{"trace"}
		if r.Bool() {
			kinds = []string{"cache", "trace"}
		}
		if r.Bool() {
			kinds = append(kinds, "gas")
		}
		if r.Bool() {
			kinds = append(kinds, "prefix")
		}
	case 6:
		kinds = []string{"prefix", "prefix"}
		if r.Bool() {
			kinds = append(kinds, "gas")
		}
	case 7:
		kinds = []string{"cache", "trace", "cache"} // CacheWrapWithTrace; no iteration on top
		noIter = true
	case 8:
		kinds = []string{"prefix", "gas", "prefix"}
		if r.Bool() {
			kinds = []string{"cache", "prefix", "gas", "trace"}
			kinds = []string{"cache", "prefix", "trace", "gas"}
		}
	}
	hasGas := false
	for _, k := range kinds {
		if k == "gas" {
			hasGas = true
		}
	}
	// ---- gas meter
	var meter stypes.GasMeter
	limStr := "inf"
	if hasGas && r.Chance(2, 3) {
		lim := uint64(1000 + r.Intn(60000))
		if r.Chance(1, 6) {
			lim = ^uint64(0) - uint64(r.Intn(5000))
		}
		meter = stypes.NewGasMeter(lim)
		limStr = fmt.Sprint(lim)
	} else {
		meter = stypes.NewInfiniteGasMeter()
	}
	tb := &traceBuf{}
	var wantMeta map[string]interface{} // the metadata every trace record must carry (nil: none)
	db := dbm.NewMemDB()
	layers := []layer{{kind: "base", st: dbadapter.Store{DB: db}}}
	desc := []string{}
	if viaCacheMulti {
		// level 1 = cachemulti over the base store, level 2 = level1.CacheMultiStore(); every level wraps each store as
		// cache-over-trace. The two trace layers stay addressable through equivalent (stateless) instances.
		var key stypes.StoreKey = stypes.NewKVStoreKey("k")
		if r.Bool() { // the key type a transient substore is mounted under
			key = stypes.NewTransientStoreKey("k")
			stats["built/cachemulti-transient-key"]++
		}
		base := layers[0].st
		// a tracing context as BaseApp builds it: the block height is there from the start, the transaction hash is added to
		// the branch afterwards - every record written from then on must carry both
		var tc stypes.TraceContext
		if r.Bool() {
			tc = stypes.TraceContext{"blockHeight": 7}
			wantMeta = map[string]interface{}{"blockHeight": float64(7), "txHash": "ab"}
			stats["built/cachemulti-with-a-tracing-context"]++
		}
		l1 := cachemulti.NewStore(db, map[stypes.StoreKey]stypes.CacheWrapper{key: base}, map[string]stypes.StoreKey{"k": key}, tb, tc)
		st1 := l1.GetKVStore(key)
		var l2 stypes.CacheMultiStore = l1.CacheMultiStore()
		if tc != nil {
			l2 = l2.SetTracingContext(stypes.TraceContext{"txHash": "ab"}).(stypes.CacheMultiStore)
		}
		st2 := l2.GetKVStore(key)
		layers = append(layers, layer{kind: "trace", st: tracekv.NewStore(base, tb, tc)}, layer{kind: "cache", st: st1, ms: l1},
			layer{kind: "trace", st: tracekv.NewStore(st1, tb, tc)}, layer{kind: "cache", st: st2, ms: l2})
		desc = append(desc, "trace", "cache", "trace", "cache")
		kinds = nil
		stats["built/cachemulti-two-levels"]++
	}
	for _, k := range kinds {
		top := layers[len(layers)-1].st
		switch k {
		case "cache":
			// half of the time through the wrapped store's own method instead of the constructor: below.CacheWrapWithTrace
			// for a cache on a trace layer (the trace layer itself stays addressable through an equivalent, stateless
			// instance), top.CacheWrap otherwise (a gas store refuses both)
			var st stypes.KVStore = nil
			n := len(layers)
			if layers[n-1].kind == "trace" && layers[n-2].kind != "gas" && r.Bool() {
				st = layers[n-2].st.CacheWrapWithTrace(tb, nil).(stypes.KVStore)
				stats["built/CacheWrapWithTrace-of-"+layers[n-2].kind]++
			} else if layers[n-1].kind != "gas" && layers[n-1].kind != "trace" && r.Bool() {
				st = top.CacheWrap().(stypes.KVStore)
				stats["built/CacheWrap-of-"+layers[n-1].kind]++
			} else {
				st = cachekv.NewStore(top)
			}
			layers = append(layers, layer{kind: k, st: st})
			desc = append(desc, "cache")
		case "prefix":
			pf0 := randPrefix(r)
			// spare capacity, as append(name, '/') in types/param.go produces: exposes aliasing of the prefix slice
			pf := make([]byte, len(pf0), len(pf0)+16)
			copy(pf, pf0)
			layers = append(layers, layer{kind: k, pfx: pf, st: prefix.NewStore(top, pf)})
			desc = append(desc, "prefix:"+hx(pf))
		case "gas":
			layers = append(layers, layer{kind: k, st: gaskv.NewStore(top, meter, stypes.KVGasConfig())})
			desc = append(desc, "gas")
		case "trace":
			layers = append(layers, layer{kind: k, st: tracekv.NewStore(top, tb, nil)})
			desc = append(desc, "trace")
		}
	}
	fmt.Fprintf(wo, "P %d %s %s\n", pid, limStr, strings.Join(desc, " "))
	stats["shape/"+strings.Join(kinds, "+")]++
	// ---- initial base content
	nb := r.Intn(8)
	for i := 0; i < nb; i++ {
		k, v := randKey(r), randVal(r)
		// make some keys live under the prefixes used above
		for _, l := range layers {
			if l.kind == "prefix" && r.Chance(1, 2) {
				k = append(append([]byte{}, l.pfx...), k...)
			}
		}
		db.Set(k, v)
		fmt.Fprintf(wo, "B %s %s\n", hx(k), hx(v))
	}
	// ---- ops
	type itent struct {
		it    stypes.Iterator
		depth int
	}
	var iters []itent
	nops := 5 + r.Intn(40)
	top := len(layers) - 1
	idx := 0
	emit := func(op string, res string) {
		fmt.Fprintf(wo, "%s\n", op)
		fmt.Fprintf(wi, "%d.%d %s g=%d t=%d\n", pid, idx, res, meter.GasConsumed(), len(tb.lines))
		kind := strings.SplitN(op, " ", 2)[0]
		oc := "ok"
		if strings.HasPrefix(res, "P:") {
			oc = res
		}
		stats["op/"+kind+"/"+oc]++
		idx++
	}
	pickDepth := func() int {
		if r.Chance(3, 4) {
			return top
		}
		return r.Intn(top + 1)
	}
	// open iterators on a layer make writes BELOW that layer a violation of the model's
	// hypothesis (parent not modified while an iterator is open): track and avoid
	anyOpen := func() bool {
		for _, e := range iters {
			if e.it != nil {
				return true
			}
		}
		return false
	}
	// a write at layer d lands in the highest cache layer at or below d, else in the base
	sinkIsCache := func(d int) bool {
		for ; d > 0; d-- {
			if layers[d].kind == "cache" {
				return true
			}
		}
		return false
	}
	// the model's hypothesis: MemDB is not modified while an iterator is open
	writeOK := func(d int) bool { return sinkIsCache(d) || !anyOpen() }
	iterAllowed := func(d int) bool {
		if !noIter {
			return true
		}
		for j := 1; j <= d; j++ { // no iteration through a cache that sits on a trace store (the model does not describe its trace)
			if layers[j].kind == "cache" && layers[j-1].kind == "trace" {
				return false
			}
		}
		return true
	}
	for i := 0; i < nops; i++ {
		d := pickDepth()
		st := layers[d].st
		rel := top - d // the model addresses layers from the top
		switch c := r.Intn(20); {
		case c < 3:
			k := randKey(r)
			emit(fmt.Sprintf("G %d %s", rel, hx(k)), try(func() string { return hx(st.Get(k)) }))
		case c < 4:
			k := randKey(r)
			emit(fmt.Sprintf("H %d %s", rel, hx(k)), try(func() string { return fmt.Sprint(st.Has(k)) }))
		case c < 8:
			if !writeOK(d) {
				continue
			}
			k, v := randKey(r), randVal(r)
			emit(fmt.Sprintf("S %d %s %s", rel, hx(k), hx(v)), try(func() string { st.Set(k, v); return "ok" }))
		case c < 10:
			if !writeOK(d) {
				continue
			}
			k := randKey(r)
			emit(fmt.Sprintf("D %d %s", rel, hx(k)), try(func() string { st.Delete(k); return "ok" }))
		case c < 14: // iterate all
			if !iterAllowed(d) {
				continue
			}
			s, e := randKey(r), randKey(r)
			if r.Chance(1, 3) {
				s = nil
			}
			if r.Chance(1, 3) {
				e = nil
			}
			asc := r.Bool()
			emit(fmt.Sprintf("A %d %s %s %v", rel, hx0(s), hx(e), asc), try(func() string {
				var it stypes.Iterator
				if asc {
					it = st.Iterator(s, e)
				} else {
					it = st.ReverseIterator(s, e)
				}
				defer it.Close()
				var parts []string
				for ; it.Valid(); it.Next() {
					parts = append(parts, hx(it.Key())+"="+hx(it.Value()))
				}
				return "[" + strings.Join(parts, ",") + "]"
			}))
		case c < 15: // open a stepwise iterator
			if !iterAllowed(d) || len(iters) >= 3 {
				continue
			}
			s, e := randKey(r), randKey(r)
			if r.Chance(1, 2) {
				s = nil
			}
			if r.Chance(1, 2) {
				e = nil
			}
			asc := r.Bool()
			h := len(iters)
			iters = append(iters, itent{})
			emit(fmt.Sprintf("I %d %s %s %v", rel, hx0(s), hx(e), asc), try(func() string {
				var it stypes.Iterator
				if asc {
					it = st.Iterator(s, e)
				} else {
					it = st.ReverseIterator(s, e)
				}
				iters[h] = itent{it: it, depth: d}
				return "ok"
			}))
		case c < 18: // step an open iterator
			if len(iters) == 0 {
				continue
			}
			h := r.Intn(len(iters))
			it := iters[h].it
			if it == nil {
				continue
			}
			switch r.Intn(5) {
			case 0:
				emit(fmt.Sprintf("V %d", h), try(func() string { return fmt.Sprint(it.Valid()) }))
			case 1:
				emit(fmt.Sprintf("K %d", h), try(func() string { return hx(it.Key()) }))
			case 2:
				emit(fmt.Sprintf("U %d", h), try(func() string { return hx(it.Value()) }))
			default:
				emit(fmt.Sprintf("N %d", h), try(func() string { it.Next(); return "ok" }))
			}
		case c < 19: // Write a cache layer
			if layers[d].kind != "cache" {
				continue
			}
			// Write modifies the parent: every open iterator is abandoned first
			for h := range iters {
				iters[h].it = nil
			}
			if ms := layers[d].ms; ms != nil && r.Chance(2, 3) {
				emit(fmt.Sprintf("W %d", rel), try(func() string { ms.Write(); return "ok" }))
				stats["op/W-through-the-cache-multistore"]++
			} else {
				emit(fmt.Sprintf("W %d", rel), try(func() string { st.(stypes.CacheKVStore).Write(); return "ok" }))
			}
		default: // consume gas directly (drives the meter towards its limit / overflow)
			if !hasGas {
				continue
			}
			amt := uint64(r.Intn(3000))
			if r.Chance(1, 5) {
				amt = ^uint64(0) - meter.GasConsumed() - uint64(r.Intn(4000))
			}
			emit(fmt.Sprintf("C %d", amt), try(func() string { meter.ConsumeGas(amt, "x"); return "ok" }))
		}
	}
	// final observations: full content at every layer (parent untouched / written), trace
	for d := top; d >= 0; d-- {
		if !iterAllowed(d) {
			continue
		}
		st := layers[d].st
		emit(fmt.Sprintf("A %d - - true", top-d), try(func() string {
			it := st.Iterator(nil, nil)
			defer it.Close()
			var parts []string
			for ; it.Valid(); it.Next() {
				parts = append(parts, hx(it.Key())+"="+hx(it.Value()))
			}
			return "[" + strings.Join(parts, ",") + "]"
		}))
	}
	// decoded trace: op:key:value per line
	var tl []string
	for _, l := range tb.lines {
		var o struct {
			Operation string                 `json:"operation"`
			Key       string                 `json:"key"`
			Value     string                 `json:"value"`
			Metadata  map[string]interface{} `json:"metadata"`
		}
		_ = json.Unmarshal([]byte(l), &o)
		k, _ := base64.StdEncoding.DecodeString(o.Key)
		v, _ := base64.StdEncoding.DecodeString(o.Value)
		if fmt.Sprint(o.Metadata) != fmt.Sprint(wantMeta) { // (fmt prints maps in key order)
			o.Operation += fmt.Sprintf("!metadata=%v-expected=%v", o.Metadata, wantMeta)
			o.Operation = strings.ReplaceAll(o.Operation, " ", "_")
		}
		tl = append(tl, o.Operation+":"+hx0(k)+":"+hx0(v))
	}
	emit("T", "["+strings.Join(tl, ",")+"]")
	fmt.Fprintf(wo, "E\n")
}

// hx0: nil and empty both print as "." (start bounds, trace values)
func hx0(b []byte) string {
	if len(b) == 0 {
		return "."
	}
	return hex.EncodeToString(b)
}
