// Command keys: correspondence driver for C19 (engine `keys`): real ed25519/secp256k1 keys, nested
// positional multisignature keys (crypto/multisig.go) and the keybase (crypto/keys) against the
// ideal-primitive model. Output: <out>/keys.ops, <out>/keys.impl, <out>/keys.stats.json
package main

import (
	"bufio"
	"bytes"
	"crypto/sha256"
	"crypto/sha512"
	"encoding/json"
	"flag"
	"fmt"
	"os"
	"sort"
	"strings"

	"github.com/pokt-network/posmint/crypto"
	"github.com/pokt-network/posmint/crypto/keys"
	"github.com/pokt-network/posmint/types"
	"verif/harness/internal/rng"
)

var stats = map[string]int{}

// ---------------------------------------------------------------- multisig
type knode struct {
	id   int // leaf: index into the key pool
	kids []*knode
}
type snode struct {
	by, msg int // leaf: who signed which message (ids); by<0: garbage
	garb     int // which garbage: 0 random bytes, 1 nothing at all, 2 the honest signature plus one byte, 3 minus its last byte
	orig     int
	kids    []*snode
	leaf    bool
}

var pool []crypto.PrivateKey

func (k *knode) pub() crypto.PublicKey {
	if k.kids == nil {
		return pool[k.id].PublicKey()
	}
	var ks []crypto.PublicKey
	for _, c := range k.kids {
		ks = append(ks, c.pub())
	}
	return crypto.PublicKeyMultiSignature{PublicKeys: ks}
}
func (k *knode) String() string {
	if k.kids == nil {
		return fmt.Sprint(k.id)
	}
	var xs []string
	for _, c := range k.kids {
		xs = append(xs, c.String())
	}
	return "(" + strings.Join(xs, ",") + ")"
}
func (s *snode) String() string {
	if s.leaf {
		if s.by < 0 {
			return "g"
		}
		return fmt.Sprintf("p%d:%d", s.by, s.msg)
	}
	var xs []string
	for _, c := range s.kids {
		xs = append(xs, c.String())
	}
	return "(" + strings.Join(xs, ",") + ")"
}

var msgs = [][]byte{[]byte("message zero"), []byte("message one"), []byte("message one "), {}, []byte("\x00")}

func init() {
	// long messages, their digests (a verifier that digests first must not take one for the other), and two long messages
	// that differ in the last byte only
	for _, n := range []int{4096, 4097, 70000} {
		m := bytes.Repeat([]byte("0123456789abcdef"), n/16+1)[:n]
		msgs = append(msgs, m)
		d256, d512 := sha256.Sum256(m), sha512.Sum512(m)
		msgs = append(msgs, d256[:], d512[:])
	}
	m := append([]byte{}, msgs[len(msgs)-3]...)
	m[len(m)-1] ^= 1
	msgs = append(msgs, m)
}

func (s *snode) bytes(r *rng.R) []byte {
	if s.leaf {
		if s.by < 0 {
			switch s.garb {
			case 1:
				return nil
			case 2:
				sig, _ := pool[s.orig].Sign(msgs[s.msg])
				return append(sig, byte(r.Intn(256)))
			case 3:
				sig, _ := pool[s.orig].Sign(msgs[s.msg])
				return sig[:len(sig)-1]
			}
			return r.Bytes(1 + r.Intn(70))
		}
		sig, _ := pool[s.by].Sign(msgs[s.msg])
		return sig
	}
	ms := crypto.MultiSignature{}
	for _, c := range s.kids {
		ms.Sigs = append(ms.Sigs, c.bytes(r))
	}
	return ms.Marshal()
}

func genKey(r *rng.R, depth int) *knode {
	if depth == 0 || r.Chance(1, 3) {
		return &knode{id: r.Intn(len(pool))}
	}
	n := 2 + r.Intn(3)
	k := &knode{}
	for i := 0; i < n; i++ {
		k.kids = append(k.kids, genKey(r, depth-1))
	}
	return k
}
func honest(k *knode, msg int) *snode {
	if k.kids == nil {
		return &snode{leaf: true, by: k.id, msg: msg}
	}
	s := &snode{}
	for _, c := range k.kids {
		s.kids = append(s.kids, honest(c, msg))
	}
	return s
}

// pick a random inner or leaf node of the signature tree and damage it
func mutate(r *rng.R, s *snode) string {
	var nodes []*snode
	var walk func(*snode)
	walk = func(x *snode) {
		nodes = append(nodes, x)
		for _, c := range x.kids {
			walk(c)
		}
	}
	walk(s)
	x := nodes[r.Intn(len(nodes))]
	if x.leaf {
		switch r.Intn(3) {
		case 0:
			x.by = r.Intn(len(pool))
			return "other-key"
		case 1:
			x.msg = r.Intn(len(msgs))
			return "other-message"
		default:
			if x.by >= 0 {
				x.orig = x.by
			}
			x.by, x.garb = -1, r.Intn(4)
			return fmt.Sprintf("garbage-%d", x.garb)
		}
	}
	switch r.Intn(5) {
	case 0:
		if len(x.kids) >= 2 {
			i, j := r.Intn(len(x.kids)), r.Intn(len(x.kids))
			x.kids[i], x.kids[j] = x.kids[j], x.kids[i]
		}
		return "swapped"
	case 1:
		x.kids = x.kids[:len(x.kids)-1]
		return "dropped"
	case 2:
		x.kids = append(x.kids, x.kids[r.Intn(len(x.kids))])
		return "duplicated"
	case 3:
		x.kids, x.leaf, x.by, x.msg = nil, true, r.Intn(len(pool)), 0
		return "flattened"
	default:
		x.kids[0] = x.kids[len(x.kids)-1]
		return "overwritten"
	}
}

func main() {
	seed := flag.Uint64("seed", 1, "seed")
	nv := flag.Int("verifications", 4000, "multisig verification cases")
	nk := flag.Int("keybase", 120, "keybase operations")
	out := flag.String("out", ".", "output directory")
	flag.Parse()
	r := rng.New(*seed)
	fo, _ := os.Create(*out + "/keys.ops")
	fi, _ := os.Create(*out + "/keys.impl")
	wo, wi := bufio.NewWriter(fo), bufio.NewWriter(fi)
	defer func() { wo.Flush(); wi.Flush(); fo.Close(); fi.Close() }()
	for i := 0; i < 8; i++ {
		if i%2 == 0 {
			pool = append(pool, crypto.GenerateEd25519PrivKey())
		} else {
			pool = append(pool, crypto.GenerateSecp256k1PrivKey())
		}
	}
	id := 0
	emit := func(op, res string) {
		fmt.Fprintf(wo, "%d %s\n", id, op)
		fmt.Fprintf(wi, "%d %s\n", id, res)
		id++
	}
	for i := 0; i < *nv; i++ {
		k := genKey(r, 3)
		m := r.Intn(len(msgs))
		s := honest(k, m)
		kind := "honest"
		for n := r.Intn(3); n > 0; n-- {
			kind = mutate(r, s)
		}
		if r.Chance(1, 8) { // everybody signs a long message (or its digest); the verifier is given the other one
			m = 5 + r.Intn(len(msgs)-5)
			o := m + 1 + r.Intn(2)
			if (m-5)%3 != 0 || o >= len(msgs) {
				o = 5 + 3*((m-5)/3)
			}
			if m == len(msgs)-1 {
				o = len(msgs) - 4
			}
			s = honest(k, o)
			kind = "related-long-message"
			if o == m {
				kind = "honest-long-message"
			}
		}
		res := "false"
		func() {
			defer func() {
				if rec := recover(); rec != nil {
					res = "panic"
				}
			}()
			if k.pub().VerifyBytes(msgs[m], s.bytes(r)) {
				res = "true"
			}
		}()
		stats["verify/"+kind+"/"+res]++
		emit(fmt.Sprintf("V %s %d %s", k.String(), m, s.String()), res)
	}
	// ---------------- keybase
	for round := 0; round < 2; round++ {
		kb := keys.NewInMemory()
		if round == 1 { // the on-disk keybase behind its open-per-call wrapper
			dir, err := os.MkdirTemp("", "verif-keys")
			if err != nil {
				panic(err)
			}
			defer os.RemoveAll(dir)
			kb = keys.New("kb", dir)
			stats["keybase/kind/lazy-on-disk"]++
			emit("K reset", "ok []")
		} else {
			stats["keybase/kind/in-memory"]++
		}
		type ent struct {
			id   int
			addr types.Address
		}
		var known []ent               // keys ever created (id = order of creation)
		armors := map[string]string{} // model armor "id/pass" -> real armor
		long := strings.Repeat("long", 40)
		// long passphrases that agree on a long prefix: a wrong one must not open what the right one sealed
		passes := []string{"", "pw", "pässwörd-ünïcode", long, "x", long + "!", long[:len(long)-1] + "X", long[:72], long[:56] + "?"}
		pass := func() string { return passes[r.Intn(len(passes))] }
		cur := map[int]string{} // passphrase each key is currently sealed under (driver bookkeeping for generation only)
		passFor := func(id int) string {
			if p, ok := cur[id]; ok && r.Chance(7, 10) {
				return p
			}
			return pass()
		}
		hexs := func(s string) string {
			if s == "" {
				return "."
			}
			return fmt.Sprintf("%x", s)
		}
		list := func() string {
			kps, _ := kb.List()
			var xs []string
			for _, kp := range kps {
				for _, e := range known {
					if e.addr.Equals(kp.GetAddress()) {
						xs = append(xs, fmt.Sprint(e.id))
					}
				}
			}
			sort.Slice(xs, func(i, j int) bool {
				var a, b int
				fmt.Sscan(xs[i], &a)
				fmt.Sscan(xs[j], &b)
				return a < b
			})
			return "[" + strings.Join(xs, ",") + "]"
		}
		var lastArmor []string // model armors exported so far
		for i := 0; i < *nk; i++ {
			pick := func() ent {
				if len(known) == 0 || r.Chance(1, 10) {
					return ent{id: 9999999, addr: types.Address(crypto.GenerateEd25519PrivKey().PublicKey().Address())}
				}
				return known[r.Intn(len(known))]
			}
			// unobserved side traffic: selecting / reading the coinbase key must not change what any key does
			if r.Chance(1, 3) {
				if r.Bool() {
					_ = kb.SetCoinbase(pick().addr)
					stats["keybase/side/SetCoinbase"]++
				} else {
					_, _ = kb.GetCoinbase()
					stats["keybase/side/GetCoinbase"]++
				}
			}
			switch c := r.Intn(12); {
			case c < 2:
				p := pass()
				kp, err := kb.Create(p)
				if err != nil {
					emit("K create 9999999 "+hexs(p), "err "+list())
					continue
				}
				e := ent{id: len(known), addr: kp.GetAddress()}
				known = append(known, e)
				cur[e.id] = p
				stats["keybase/create"]++
				emit(fmt.Sprintf("K create %d %s", e.id, hexs(p)), "ok "+list())
			case c < 4:
				e, m := pick(), r.Intn(len(msgs))
				p := passFor(e.id)
				sig, pub, err := kb.Sign(e.addr, p, msgs[m])
				res := "err"
				if err == nil {
					res = fmt.Sprintf("sig verifies=%v", pub.VerifyBytes(msgs[m], sig))
				}
				stats["keybase/sign/"+strings.SplitN(res, " ", 2)[0]]++
				emit(fmt.Sprintf("K sign %d %s %d", e.id, hexs(p), m), res+" "+list())
			case c < 6:
				e, np := pick(), pass()
				if r.Chance(1, 4) {
					np = "" // the empty passphrase is a passphrase like any other
				}
				op := passFor(e.id)
				err := kb.Update(e.addr, op, np)
				res := "ok"
				if err != nil {
					res = "err"
				} else {
					cur[e.id] = np
				}
				stats["keybase/update/"+res]++
				emit(fmt.Sprintf("K update %d %s %s", e.id, hexs(op), hexs(np)), res+" "+list())
				if err == nil { // ... and the key must now open under exactly the new passphrase, not under the old one
					for _, p := range []string{np, op} {
						m := r.Intn(len(msgs))
						sig, pub, err := kb.Sign(e.addr, p, msgs[m])
						res := "err"
						if err == nil {
							res = fmt.Sprintf("sig verifies=%v", pub.VerifyBytes(msgs[m], sig))
						}
						stats["keybase/sign-after-update/"+strings.SplitN(res, " ", 2)[0]]++
						emit(fmt.Sprintf("K sign %d %s %d", e.id, hexs(p), m), res+" "+list())
					}
				}
			case c < 7:
				e := pick()
				p := passFor(e.id)
				err := kb.Delete(e.addr, p)
				res := "ok"
				if err != nil {
					res = "err"
				} else {
					delete(cur, e.id)
				}
				stats["keybase/delete/"+res]++
				emit(fmt.Sprintf("K delete %d %s", e.id, hexs(p)), res+" "+list())
			case c < 10:
				e, ep := pick(), pass()
				dp := passFor(e.id)
				a, err := kb.ExportPrivKeyEncryptedArmor(e.addr, dp, ep, "hint")
				res := "err"
				if err == nil {
					ma := fmt.Sprintf("%d/%s", e.id, hexs(ep))
					armors[ma] = a
					lastArmor = append(lastArmor, ma)
					res = "armor " + ma
				}
				stats["keybase/export/"+strings.SplitN(res, " ", 2)[0]]++
				emit(fmt.Sprintf("K export %d %s %s", e.id, hexs(dp), hexs(ep)), res+" "+list())
			default:
				if len(lastArmor) == 0 {
					continue
				}
				ma := lastArmor[r.Intn(len(lastArmor))]
				dp, np := pass(), pass()
				if r.Bool() { // mostly the right passphrase
					dp = ""
					parts := strings.SplitN(ma, "/", 2)
					if parts[1] != "." {
						fmt.Sscanf(parts[1], "%x", &dp)
					}
				}
				_, err := kb.ImportPrivKey(armors[ma], dp, np)
				res := "ok"
				if err != nil {
					res = "err"
				} else {
					var kid int
					fmt.Sscan(strings.SplitN(ma, "/", 2)[0], &kid)
					cur[kid] = np
				}
				stats["keybase/import/"+res]++
				emit(fmt.Sprintf("K import %s %s %s", ma, hexs(dp), hexs(np)), res+" "+list())
				if err == nil { // the imported key opens under the passphrase it was imported under, and not under the armor's
					var kid int
					fmt.Sscan(strings.SplitN(ma, "/", 2)[0], &kid)
					for _, e := range known {
						if e.id != kid {
							continue
						}
						for _, p := range []string{np, dp} {
							m := r.Intn(len(msgs))
							sig, pub, err := kb.Sign(e.addr, p, msgs[m])
							res := "err"
							if err == nil {
								res = fmt.Sprintf("sig verifies=%v", pub.VerifyBytes(msgs[m], sig))
							}
							stats["keybase/sign-after-import/"+strings.SplitN(res, " ", 2)[0]]++
							emit(fmt.Sprintf("K sign %d %s %d", e.id, hexs(p), m), res+" "+list())
						}
					}
				}
			}
		}
	}
	js, _ := json.MarshalIndent(stats, "", " ")
	_ = os.WriteFile(*out+"/keys.stats.json", js, 0644)
}
