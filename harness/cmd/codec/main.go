// Command codec: driver for C20 (engine `codec`): amino binary/JSON round trips of every wire and
// storage type, canonical sign bytes, decoders on arbitrary / truncated / mutated bytes (also through
// CheckTx/DeliverTx of a live application), and the store key builders against the Coq key model.
//
//	<out>/codec.ops   one case per line (model input for the K* cases)
//	<out>/codec.impl  "<id> <result>"
package main

import (
	"bufio"
	"bytes"
	"encoding/hex"
	"encoding/json"
	"flag"
	"fmt"
	"math/big"
	"os"
	"sort"
	"strings"
	"time"
	"unicode/utf8"

	amino "github.com/tendermint/go-amino"
	abci "github.com/tendermint/tendermint/abci/types"
	dbm "github.com/tendermint/tm-db"

	"github.com/pokt-network/posmint/crypto"
	sdk "github.com/pokt-network/posmint/types"
	"github.com/pokt-network/posmint/x/auth"
	authTypes "github.com/pokt-network/posmint/x/auth/types"
	govTypes "github.com/pokt-network/posmint/x/gov/types"
	posTypes "github.com/pokt-network/posmint/x/pos/types"
	"verif/harness/internal/rng"
	"verif/harness/internal/simapp"
)

var stats = map[string]int{}
var cdc = simapp.MakeCodec()

func hx(b []byte) string {
	if len(b) == 0 {
		return "."
	}
	return hex.EncodeToString(b)
}

func guard(f func() string) (res string) {
	defer func() {
		if r := recover(); r != nil {
			res = "PANIC:" + strings.ReplaceAll(fmt.Sprint(r), " ", "_")
			if len(res) > 100 {
				res = res[:100]
			}
		}
	}()
	return f()
}

func randAddr(r *rng.R) sdk.Address {
	switch r.Intn(8) {
	case 0:
		return sdk.Address{}
	case 1:
		return sdk.Address(bytes.Repeat([]byte{0xff}, 20))
	case 2:
		return sdk.Address(bytes.Repeat([]byte{0x00}, 20))
	}
	return sdk.Address(r.Bytes(20))
}
func randInt(r *rng.R) sdk.Int {
	switch r.Intn(6) {
	case 0:
		return sdk.ZeroInt()
	case 1:
		return sdk.NewIntFromBigInt(new(big.Int).Sub(new(big.Int).Lsh(big.NewInt(1), 255), big.NewInt(1)))
	case 2:
		return sdk.NewInt(1)
	}
	return sdk.NewIntFromBigInt(r.Bits(1 + r.Intn(254)))
}
func randDec(r *rng.R) sdk.Dec {
	z := r.Bits(1 + r.Intn(200))
	if r.Bool() {
		z.Neg(z)
	}
	if r.Chance(1, 6) {
		z = big.NewInt(0)
	}
	return sdk.Dec{Int: z}
}
func randPub(r *rng.R) crypto.PublicKey {
	switch r.Intn(3) {
	case 0:
		return crypto.GenerateSecp256k1PrivKey().PublicKey()
	case 1:
		return crypto.PublicKeyMultiSignature{PublicKeys: []crypto.PublicKey{crypto.GenerateEd25519PrivKey().PublicKey(), crypto.GenerateSecp256k1PrivKey().PublicKey()}}
	}
	return crypto.GenerateEd25519PrivKey().PublicKey()
}
func randMemo(r *rng.R) string {
	switch r.Intn(5) {
	case 0:
		return ""
	case 1:
		return strings.Repeat("m", 256)
	case 2:
		return "ünï\"cödé\\ \n{}"
	case 3: // white space around the text: part of what is signed
		return []string{" ", "\n", "\t ", ""}[r.Intn(4)] + asciiString(r, r.Intn(12)) + []string{" ", "\n", " \t", "\r\n"}[r.Intn(4)]
	}
	return asciiString(r, r.Intn(30))
}

// strings the model's escape function is exact on: ASCII (all of it, control characters, quotes,
// backslashes and the HTML-escaped three included) and a few valid multi-byte runes
func asciiString(r *rng.R, n int) string {
	var sb strings.Builder
	for i := 0; i < n; i++ {
		switch r.Intn(12) {
		case 0:
			sb.WriteByte("\"\\<>&\n\r\t"[r.Intn(8)])
		case 1:
			sb.WriteByte(byte(r.Intn(32)))
		case 2:
			sb.WriteString([]string{"é", "ü", "→", "𝄞", "\x7f"}[r.Intn(5)])
		default:
			sb.WriteByte(byte(32 + r.Intn(95)))
		}
	}
	return sb.String()
}
func randTime(r *rng.R) time.Time {
	switch r.Intn(6) {
	case 0:
		return time.Unix(0, 0).UTC()
	case 1:
		return time.Unix(253402300799, 999999999).UTC()
	case 2:
		return time.Unix(int64(r.Intn(2000000000)), 0).UTC()
	}
	t := time.Unix(int64(r.Intn(2000000000)), int64(r.Intn(1000000000))).UTC()
	if r.Chance(1, 3) { // the same instant carried in another zone
		t = t.In(time.FixedZone("z", (r.Intn(27)-13)*3600+r.Intn(2)*1800))
	}
	return t
}
func tfields(t time.Time) string {
	u := t.UTC()
	return fmt.Sprintf("%d %d %d %d %d %d %d", u.Year(), int(u.Month()), u.Day(), u.Hour(), u.Minute(), u.Second(), u.Nanosecond())
}

// ---- JSON trees for the canonical-JSON model
type jnode struct {
	kind byte // N T F S A O
	s    string
	arr  []*jnode
	keys []string
	vals []*jnode
}

func randTree(r *rng.R, depth int) *jnode {
	k := r.Intn(8)
	if depth <= 0 && k >= 4 {
		k = 3
	}
	switch k {
	case 0:
		return &jnode{kind: 'N'}
	case 1:
		return &jnode{kind: 'T'}
	case 2:
		return &jnode{kind: 'F'}
	case 3:
		return &jnode{kind: 'S', s: asciiString(r, r.Intn(8))}
	case 4, 5:
		n := &jnode{kind: 'A'}
		for i, m := 0, r.Intn(4); i < m; i++ {
			n.arr = append(n.arr, randTree(r, depth-1))
		}
		return n
	}
	n := &jnode{kind: 'O'}
	for i, m := 0, r.Intn(5); i < m; i++ {
		key := asciiString(r, 1+r.Intn(3))
		if len(n.keys) > 0 && r.Chance(1, 6) {
			key = n.keys[r.Intn(len(n.keys))] // a duplicate key: the last binding wins
		}
		n.keys = append(n.keys, key)
		n.vals = append(n.vals, randTree(r, depth-1))
	}
	return n
}
func (n *jnode) tokens(sb *strings.Builder) {
	switch n.kind {
	case 'N', 'T', 'F':
		sb.WriteString(" " + string(n.kind))
	case 'S':
		sb.WriteString(" S:" + hx([]byte(n.s)))
	case 'A':
		fmt.Fprintf(sb, " A:%d", len(n.arr))
		for _, x := range n.arr {
			x.tokens(sb)
		}
	case 'O':
		fmt.Fprintf(sb, " O:%d", len(n.keys))
		for i := range n.keys {
			sb.WriteString(" K:" + hx([]byte(n.keys[i])))
			n.vals[i].tokens(sb)
		}
	}
}

// one of the many JSON texts of a string: each rune literally (when allowed), or escaped some other way
func jsonString(r *rng.R, s string) string {
	var sb strings.Builder
	sb.WriteByte('"')
	for _, c := range s {
		switch {
		case c == '"' || c == '\\':
			if r.Bool() {
				sb.WriteByte('\\')
				sb.WriteRune(c)
			} else {
				fmt.Fprintf(&sb, "\\u%04x", c)
			}
		case c < 0x20:
			switch {
			case c == '\n' && r.Bool():
				sb.WriteString("\\n")
			case c == '\t' && r.Bool():
				sb.WriteString("\\t")
			case c == '\r' && r.Bool():
				sb.WriteString("\\r")
			default:
				fmt.Fprintf(&sb, "\\u%04X", c)
			}
		case c == '/' && r.Bool():
			sb.WriteString("\\/")
		case c < 0x10000 && r.Chance(1, 5):
			fmt.Fprintf(&sb, "\\u%04x", c)
		default:
			sb.WriteRune(c)
		}
	}
	sb.WriteByte('"')
	return sb.String()
}
func ws(r *rng.R) string { return []string{"", "", " ", "\n", "\t ", "  "}[r.Intn(6)] }

// one of the many JSON texts of a tree: whitespace and string escapes vary; fields keep their order
// (the tree's order already is arbitrary, duplicates included)
func (n *jnode) text(r *rng.R, sb *strings.Builder) {
	sb.WriteString(ws(r))
	switch n.kind {
	case 'N':
		sb.WriteString("null")
	case 'T':
		sb.WriteString("true")
	case 'F':
		sb.WriteString("false")
	case 'S':
		sb.WriteString(jsonString(r, n.s))
	case 'A':
		sb.WriteByte('[')
		for i, x := range n.arr {
			if i > 0 {
				sb.WriteByte(',')
			}
			x.text(r, sb)
		}
		sb.WriteString(ws(r) + "]")
	case 'O':
		sb.WriteByte('{')
		for i := range n.keys {
			if i > 0 {
				sb.WriteByte(',')
			}
			sb.WriteString(ws(r) + jsonString(r, n.keys[i]) + ws(r) + ":")
			n.vals[i].text(r, sb)
		}
		sb.WriteString(ws(r) + "}")
	}
	sb.WriteString(ws(r))
}

// tree of a JSON text produced by the code under test (no duplicate keys there); object fields in
// a shuffled order - the model sorts them itself
func treeOf(r *rng.R, v interface{}) *jnode {
	switch x := v.(type) {
	case nil:
		return &jnode{kind: 'N'}
	case bool:
		if x {
			return &jnode{kind: 'T'}
		}
		return &jnode{kind: 'F'}
	case string:
		return &jnode{kind: 'S', s: x}
	case []interface{}:
		n := &jnode{kind: 'A'}
		for _, e := range x {
			n.arr = append(n.arr, treeOf(r, e))
		}
		return n
	case map[string]interface{}:
		n := &jnode{kind: 'O'}
		ks := make([]string, 0, len(x))
		for k := range x {
			ks = append(ks, k)
		}
		sort.Strings(ks)
		for i := len(ks) - 1; i > 0; i-- {
			j := r.Intn(i + 1)
			ks[i], ks[j] = ks[j], ks[i]
		}
		for _, k := range ks {
			n.keys = append(n.keys, k)
			n.vals = append(n.vals, treeOf(r, x[k]))
		}
		return n
	}
	return &jnode{kind: 'S', s: fmt.Sprintf("<<number:%v>>", v)} // bare numbers are outside the model: shows up as a mismatch
}
func modelExact(s string) bool {
	return utf8.ValidString(s) && !strings.ContainsAny(s, "\u2028\u2029")
}

func randMsg(r *rng.R) sdk.Msg {
	switch r.Intn(7) {
	case 0:
		return posTypes.MsgStake{PubKey: crypto.GenerateEd25519PrivKey().PublicKey(), Value: randInt(r)}
	case 1:
		return posTypes.MsgBeginUnstake{Address: randAddr(r)}
	case 2:
		return posTypes.MsgUnjail{ValidatorAddr: randAddr(r)}
	case 3:
		return posTypes.MsgSend{FromAddress: randAddr(r), ToAddress: randAddr(r), Amount: randInt(r)}
	case 4:
		return govTypes.MsgChangeParam{FromAddress: randAddr(r), ParamKey: "pos/MaxValidators", ParamVal: []byte(`"5"`)}
	case 5:
		return govTypes.MsgDAOTransfer{FromAddress: randAddr(r), ToAddress: randAddr(r), Amount: randInt(r), Action: govTypes.DAOTransferString}
	}
	return govTypes.MsgUpgrade{Address: randAddr(r), Upgrade: govTypes.NewUpgrade(int64(1+r.Intn(1000)), "1.2.3")}
}
func randCoins(r *rng.R) sdk.Coins {
	cs := sdk.Coins{}
	if r.Chance(1, 4) {
		return cs
	}
	if r.Bool() {
		cs = append(cs, sdk.NewCoin("aaa", sdk.NewIntFromBigInt(r.Bits(1+r.Intn(250))).Add(sdk.OneInt())))
	}
	cs = append(cs, sdk.NewCoin(sdk.DefaultStakeDenom, sdk.NewIntFromBigInt(r.Bits(1+r.Intn(200))).Add(sdk.OneInt())))
	return cs
}
func randTx(r *rng.R) authTypes.StdTx {
	priv := crypto.GenerateEd25519PrivKey()
	sig := authTypes.StdSignature{Signature: r.Bytes(64)}
	if r.Bool() {
		sig.PublicKey = priv.PublicKey()
	}
	return authTypes.NewStdTx(randMsg(r), randCoins(r), sig, randMemo(r), int64(r.U64()>>1))
}

// a value of every wire / storage type, as an interface for the binary codec
type typed struct {
	name string
	mk   func(r *rng.R) interface{}
	ptr  func() interface{}
}

var types = []typed{
	{"StdTx", func(r *rng.R) interface{} { return randTx(r) }, func() interface{} { return &authTypes.StdTx{} }},
	{"BaseAccount", func(r *rng.R) interface{} {
		return &authTypes.BaseAccount{Address: randAddr(r), Coins: randCoins(r), PubKey: randPub(r)}
	}, func() interface{} { return &authTypes.BaseAccount{} }},
	{"ModuleAccount", func(r *rng.R) interface{} {
		return authTypes.NewEmptyModuleAccount("pool", authTypes.Burner, authTypes.Minter)
	}, func() interface{} { return &authTypes.ModuleAccount{} }},
	{"Validator", func(r *rng.R) interface{} {
		pk := crypto.GenerateEd25519PrivKey().PublicKey()
		v := posTypes.NewValidator(sdk.Address(pk.Address()), pk, randInt(r))
		v.Jailed = r.Bool()
		v.Status = sdk.StakeStatus(r.Intn(3))
		v.UnstakingCompletionTime = randTime(r)
		return v
	}, func() interface{} { return &posTypes.Validator{} }},
	{"SigningInfo", func(r *rng.R) interface{} {
		return posTypes.ValidatorSigningInfo{Address: randAddr(r), StartHeight: int64(r.Intn(1000)), IndexOffset: int64(r.Intn(1000)), JailedUntil: randTime(r), Tombstoned: r.Bool(), MissedBlocksCounter: int64(r.Intn(100))}
	}, func() interface{} { return &posTypes.ValidatorSigningInfo{} }},
	{"Coins", func(r *rng.R) interface{} { return randCoins(r) }, func() interface{} { return &sdk.Coins{} }},
	{"Int", func(r *rng.R) interface{} { return randInt(r) }, func() interface{} { return &sdk.Int{} }},
	{"Dec", func(r *rng.R) interface{} { return randDec(r) }, func() interface{} { return &sdk.Dec{} }},
	{"Address", func(r *rng.R) interface{} { return randAddr(r) }, func() interface{} { return &sdk.Address{} }},
	{"GovParams", func(r *rng.R) interface{} {
		acl := govTypes.ACL{}
		acl.SetOwner("pos/MaxValidators", randAddr(r))
		acl.SetOwner("gov/acl", randAddr(r))
		return govTypes.Params{ACL: acl, DAOOwner: randAddr(r), Upgrade: govTypes.NewUpgrade(int64(r.Intn(100)), "0.1.0")}
	}, func() interface{} { return &govTypes.Params{} }},
	{"PosParams", func(r *rng.R) interface{} { return posTypes.DefaultParams() }, func() interface{} { return &posTypes.Params{} }},
}

func deref(p interface{}) interface{} {
	switch v := p.(type) {
	case *authTypes.StdTx:
		return *v
	case *posTypes.Validator:
		return *v
	case *posTypes.ValidatorSigningInfo:
		return *v
	case *sdk.Coins:
		return *v
	case *sdk.Int:
		return *v
	case *sdk.Dec:
		return *v
	case *sdk.Address:
		return *v
	case *govTypes.Params:
		return *v
	case *posTypes.Params:
		return *v
	}
	return p
}

// round trip through binary and JSON: decode(encode x) re-encodes to the same bytes and to the same JSON
func roundTrip(t typed, x interface{}) string {
	bz, err := cdc.MarshalBinaryLengthPrefixed(x)
	if err != nil {
		return "encode-error"
	}
	p := t.ptr()
	if err := cdc.UnmarshalBinaryLengthPrefixed(bz, p); err != nil {
		return "binary-decode-error:" + strings.ReplaceAll(err.Error(), " ", "_")
	}
	bz2, err := cdc.MarshalBinaryLengthPrefixed(deref(p))
	if err != nil || !bytes.Equal(bz, bz2) {
		return "binary-roundtrip-mismatch"
	}
	js, err := cdc.MarshalJSON(x)
	if err != nil {
		return "json-encode-error"
	}
	q := t.ptr()
	if err := cdc.UnmarshalJSON(js, q); err != nil {
		return "json-decode-error:" + strings.ReplaceAll(err.Error(), " ", "_")
	}
	js2, _ := cdc.MarshalJSON(deref(q))
	if !bytes.Equal(js, js2) {
		return "json-roundtrip-mismatch"
	}
	bz3, _ := cdc.MarshalBinaryLengthPrefixed(deref(q))
	if !bytes.Equal(bz, bz3) {
		return "json-vs-binary-mismatch"
	}
	return "ok"
}

// decoding arbitrary bytes: an error, or a value that re-encodes consistently; never a crash
func decodeFuzz(t typed, bz []byte) string {
	p := t.ptr()
	if err := cdc.UnmarshalBinaryLengthPrefixed(bz, p); err != nil {
		return "error"
	}
	b1, err := cdc.MarshalBinaryLengthPrefixed(deref(p))
	if err != nil {
		return "error-on-reencode"
	}
	q := t.ptr()
	if err := cdc.UnmarshalBinaryLengthPrefixed(b1, q); err != nil {
		return "INCONSISTENT:reencoded-value-does-not-decode"
	}
	b2, _ := cdc.MarshalBinaryLengthPrefixed(deref(q))
	if !bytes.Equal(b1, b2) {
		return "INCONSISTENT:reencoding-not-stable"
	}
	return "value"
}

func mutateBytes(r *rng.R, bz []byte) []byte {
	out := append([]byte{}, bz...)
	switch r.Intn(5) {
	case 0:
		if len(out) > 0 {
			out = out[:r.Intn(len(out))]
		}
	case 1:
		if len(out) > 0 {
			out[r.Intn(len(out))] ^= byte(1 << uint(r.Intn(8)))
		}
	case 2:
		out = append(out, r.Bytes(1+r.Intn(8))...)
	case 3:
		if len(out) > 2 {
			i := r.Intn(len(out) - 1)
			out = append(out[:i], out[i+1:]...)
		}
	default:
		if len(out) > 0 {
			out[0] = byte(r.Intn(256))
		}
	}
	return out
}

func main() {
	seed := flag.Uint64("seed", 1, "seed")
	n := flag.Int("n", 5000, "cases per stream")
	out := flag.String("out", ".", "output directory")
	only := flag.String("only", "", "emit only this stream (KM)")
	flag.Parse()
	r := rng.New(*seed)
	fo, _ := os.Create(*out + "/codec.ops")
	fi, _ := os.Create(*out + "/codec.impl")
	wo, wi := bufio.NewWriter(fo), bufio.NewWriter(fi)
	defer func() { wo.Flush(); wi.Flush(); fo.Close(); fi.Close() }()
	id := 0
	emit := func(op, res string) {
		fmt.Fprintf(wo, "%d %s\n", id, op)
		fmt.Fprintf(wi, "%d %s\n", id, res)
		kind := strings.SplitN(op, " ", 2)[0]
		rk := strings.SplitN(strings.SplitN(res, ":", 2)[0], " ", 2)[0]
		if strings.Trim(rk, "0123456789abcdef.-") == "" && !(kind == "KO") {
			rk = "bytes"
		}
		stats[kind+"/"+rk]++
		id++
	}
	// ---- 7b. the text form of Dec: String() and NewDecFromStr against the model
	decText := func(cases int) {
		for i := 0; i < cases; i++ {
			d := randDec(r)
			if r.Chance(1, 4) { // around the eighteen-digit boundary
				d = sdk.Dec{Int: new(big.Int).Add(new(big.Int).Exp(big.NewInt(10), big.NewInt(int64(16+r.Intn(5))), nil), big.NewInt(int64(r.Intn(3)-1)))}
				if r.Bool() {
					d.Int.Neg(d.Int)
				}
			}
			if r.Chance(1, 6) { // magnitudes below one, of either sign and every number of leading fraction zeros
				k := r.Intn(18)
				m := new(big.Int).Exp(big.NewInt(10), big.NewInt(int64(k)), nil)
				m.Mul(m, big.NewInt(int64(1+r.Intn(9))))
				m.Add(m, new(big.Int).Rem(r.Bits(60), new(big.Int).Exp(big.NewInt(10), big.NewInt(int64(k)), nil)))
				if r.Bool() {
					m.Neg(m)
				}
				d = sdk.Dec{Int: m}
			}
			emit("DS "+d.Int.String(), guard(func() string { return hx([]byte(d.String())) }))
			str := d.String()
			switch r.Intn(6) {
			case 0: // fewer decimals
				str = strings.TrimRight(str, "0")
				if strings.HasSuffix(str, ".") {
					str += "0"
				}
			case 1: // no fraction at all
				str = strings.SplitN(str, ".", 2)[0]
			case 2: // leading zeros
				if strings.HasPrefix(str, "-") {
					str = "-00" + str[1:]
				} else {
					str = "00" + str
				}
			case 3: // malformed (no sign characters: what big.Int.SetString does with an inner sign is not modelled)
				alphabet := "0123456789..xe "
				bs := []byte(str)
				switch r.Intn(4) {
				case 0:
					if len(bs) > 0 {
						bs = bs[:r.Intn(len(bs))]
					}
				case 1:
					j := r.Intn(len(bs) + 1)
					bs = append(bs[:j], append([]byte{alphabet[r.Intn(len(alphabet))]}, bs[j:]...)...)
				case 2:
					bs = append(bs, []byte("0000000000000000000")[:r.Intn(19)]...)
				default:
					bs = []byte(strings.Replace(string(bs), ".", "", 1))
				}
				str = string(bs)
			}
			emit("DP "+hx([]byte(str)), guard(func() string {
				v, err := sdk.NewDecFromStr(str)
				if err != nil {
					return "error"
				}
				return v.Int.String()
			}))
		}
	}
	if *only == "DS" {
		decText(*n)
		return
	}
	// ---- 0. the missed-block key of (address, window index): every index of the int64 range has its own key
	km := func() {
		addr := sdk.Address(r.Bytes(20))
		var i int64
		switch r.Intn(6) {
		case 0:
			i = int64(r.Intn(300))
		case 1:
			i = int64(1)<<uint(r.Intn(63)) + int64(r.Intn(3)) - 1
		case 2:
			i = int64(r.Intn(1 << 20))
		case 3:
			i = int64(r.U64() >> 1)
		case 4:
			i = int64(65536*(1+r.Intn(5)) + r.Intn(4))
		default:
			i = int64(r.U64()>>1) >> uint(r.Intn(63))
		}
		emit(fmt.Sprintf("KM %s %d", hx(addr), i), guard(func() string {
			k := posTypes.GetValMissedBlockKey(addr, i)
			if !bytes.HasPrefix(k, posTypes.GetValMissedBlockPrefixKey(addr)) {
				return "key-outside-the-validator-prefix"
			}
			for _, j := range []int64{i & 0xffff, i & 0xffffffff, i & 0xffffffffffff, i >> 8, i >> 16, i + 1} {
				if j != i && j >= 0 && bytes.Equal(posTypes.GetValMissedBlockKey(addr, j), k) {
					return fmt.Sprintf("COLLISION position %d has the same key", j)
				}
			}
			return hx(k[1:])
		}))
	}
	if *only == "KM" {
		for i := 0; i < *n; i++ {
			km()
		}
		return
	}
	for i := 0; i < *n/16; i++ {
		km()
	}
	// ---- 1. round trips
	for i := 0; i < *n/4; i++ {
		t := types[r.Intn(len(types))]
		x := t.mk(r)
		emit("RT "+t.name, guard(func() string { return roundTrip(t, x) }))
	}
	// ---- 1b. "absent and empty values are equivalent": values whose integer fields were never set (nil inside) - what a
	// binary decode of a message without that field yields - must go through JSON and come back
	absent := []struct {
		name string
		mk   func() interface{}
		ptr  func() interface{}
	}{
		{"Int", func() interface{} { return sdk.Int{} }, func() interface{} { return &sdk.Int{} }},
		{"Coin", func() interface{} { return sdk.Coin{Denom: "upokt"} }, func() interface{} { return &sdk.Coin{} }},
		{"MsgSend", func() interface{} { return posTypes.MsgSend{FromAddress: randAddr(r), ToAddress: randAddr(r)} }, func() interface{} { return &posTypes.MsgSend{} }},
		{"MsgDAOTransfer", func() interface{} {
			return govTypes.MsgDAOTransfer{FromAddress: randAddr(r), ToAddress: randAddr(r), Action: govTypes.DAOTransferString}
		}, func() interface{} { return &govTypes.MsgDAOTransfer{} }},
		{"MsgStake", func() interface{} { return posTypes.MsgStake{PubKey: crypto.GenerateEd25519PrivKey().PublicKey()} }, func() interface{} { return &posTypes.MsgStake{} }},
		{"GovGenesis", func() interface{} { return govTypes.GenesisState{Params: govParams()} }, func() interface{} { return &govTypes.GenesisState{} }},
	}
	for i := 0; i < 60; i++ {
		t := absent[i%len(absent)]
		emit("RZ "+t.name, guard(func() string {
			js, err := cdc.MarshalJSON(t.mk())
			if err != nil {
				return "json-encode-error:" + strings.ReplaceAll(err.Error(), " ", "_")
			}
			q := t.ptr()
			if err := cdc.UnmarshalJSON(js, q); err != nil {
				return "json-decode-error:" + strings.ReplaceAll(err.Error(), " ", "_") + ":" + strings.ReplaceAll(string(js), " ", "")
			}
			return "ok"
		}))
	}
	// ---- 1c. malformed JSON must be refused: a public key of the wrong length under a key-type tag
	for i := 0; i < 80; i++ {
		priv := crypto.GenerateEd25519PrivKey()
		var v interface{}
		var p func() interface{}
		switch i % 3 {
		case 0:
			v, p = posTypes.MsgStake{PubKey: priv.PublicKey(), Value: randInt(r)}, func() interface{} { return &posTypes.MsgStake{} }
		case 1:
			v, p = authTypes.StdSignature{PublicKey: priv.PublicKey(), Signature: r.Bytes(64)}, func() interface{} { return &authTypes.StdSignature{} }
		default:
			v, p = &authTypes.BaseAccount{Address: sdk.Address(priv.PublicKey().Address()), Coins: randCoins(r), PubKey: priv.PublicKey()}, func() interface{} { return &authTypes.BaseAccount{} }
		}
		js, _ := cdc.MarshalJSON(v)
		good := hex.EncodeToString(priv.PublicKey().RawBytes())
		n := []int{31, 33, 1, 64, 0, 30}[r.Intn(6)]
		bad := hex.EncodeToString(r.Bytes(n))
		if !strings.Contains(string(js), good) {
			emit("MJ", "key-not-found-in-json")
			continue
		}
		mal := []byte(strings.Replace(string(js), good, bad, 1))
		emit(fmt.Sprintf("MJ %d", n), guard(func() string {
			q := p()
			if err := cdc.UnmarshalJSON(mal, q); err != nil {
				return "rejected"
			}
			return fmt.Sprintf("accepted-a-%d-byte-ed25519-key", n)
		}))
	}
	// ---- 2. sign bytes: same logical content => same bytes; different content => different bytes
	for i := 0; i < *n/8; i++ {
		tx := randTx(r)
		emit("SB", guard(func() string {
			sb1, err := auth.StdSignBytes("chain", tx.Entropy, tx.Fee, tx.Msg, tx.Memo)
			if err != nil {
				return "error"
			}
			// another encoding of the same content: JSON, re-indented and with reordered keys, decoded again
			js, _ := cdc.MarshalJSON(tx)
			var any interface{}
			_ = json.Unmarshal(js, &any)
			js2, _ := json.MarshalIndent(any, " ", "\t") // Go sorts map keys: a different key order and whitespace
			var tx2 authTypes.StdTx
			if err := cdc.UnmarshalJSON(js2, &tx2); err != nil {
				return "reencoded-json-does-not-decode"
			}
			sb2, _ := auth.StdSignBytes("chain", tx2.Entropy, tx2.Fee, tx2.Msg, tx2.Memo)
			if !bytes.Equal(sb1, sb2) {
				return "NOT-CANONICAL"
			}
			// different content
			for k := 0; k < 5; k++ {
				var sb3 []byte
				switch k {
				case 0:
					sb3, _ = auth.StdSignBytes("chain2", tx.Entropy, tx.Fee, tx.Msg, tx.Memo)
				case 1:
					sb3, _ = auth.StdSignBytes("chain", tx.Entropy+1, tx.Fee, tx.Msg, tx.Memo)
				case 2:
					sb3, _ = auth.StdSignBytes("chain", tx.Entropy, tx.Fee.Add(sdk.NewCoins(sdk.NewCoin(sdk.DefaultStakeDenom, sdk.OneInt()))), tx.Msg, tx.Memo)
				case 3:
					sb3, _ = auth.StdSignBytes("chain", tx.Entropy, tx.Fee, tx.Msg, tx.Memo+"x")
				default:
					sb3, _ = auth.StdSignBytes("chain", tx.Entropy, tx.Fee, posTypes.MsgUnjail{ValidatorAddr: sdk.Address(r.Bytes(20))}, tx.Memo)
				}
				if bytes.Equal(sb1, sb3) {
					return fmt.Sprintf("COLLISION:field-%d", k)
				}
			}
			return "ok"
		}))
	}
	// ---- 3. hostile bytes through every decoder
	for i := 0; i < *n/2; i++ {
		t := types[r.Intn(len(types))]
		var bz []byte
		kind := ""
		switch r.Intn(3) {
		case 0:
			bz, kind = r.Bytes(r.Intn(80)), "random"
		default:
			good, _ := cdc.MarshalBinaryLengthPrefixed(t.mk(r))
			bz, kind = mutateBytes(r, good), "mutated"
		}
		emit("FZ "+t.name+" "+kind, guard(func() string { return decodeFuzz(t, bz) }))
	}
	// ---- 3a. hostile JSON: a good document with one value replaced by a short token of another shape (or cut short), through
	// the amino JSON decoder of every type and through the key types' own UnmarshalJSON: an error or a value, never a panic
	tokens := []string{"7", "0", "-", "\"", "\"\"", "\"a\"", "true", "null", "[]", "{}", "1e5", "\"zz\"", "[1]", "{\"a\":1}", " ", "\"\\u00\""}
	for i := 0; i < *n/4; i++ {
		t := types[r.Intn(len(types))]
		js, err := cdc.MarshalJSON(t.mk(r))
		if err != nil || len(js) < 2 {
			continue
		}
		doc := string(js)
		// the JSON values of the document: quoted strings and bare tokens after a colon or inside an array
		var spans [][2]int
		for j := 0; j < len(doc); j++ {
			if doc[j] == ':' || doc[j] == '[' || doc[j] == ',' {
				k := j + 1
				if k < len(doc) && doc[k] == '"' {
					e := k + 1
					for e < len(doc) && (doc[e] != '"' || doc[e-1] == '\\') {
						e++
					}
					if e < len(doc) {
						spans = append(spans, [2]int{k, e + 1})
					}
				} else if k < len(doc) && (doc[k] == '-' || (doc[k] >= '0' && doc[k] <= '9') || doc[k] == 't' || doc[k] == 'f' || doc[k] == 'n') {
					e := k
					for e < len(doc) && doc[e] != ',' && doc[e] != '}' && doc[e] != ']' {
						e++
					}
					spans = append(spans, [2]int{k, e})
				}
			}
		}
		mal := doc
		kind := "cut"
		if len(spans) > 0 && r.Chance(4, 5) {
			sp := spans[r.Intn(len(spans))]
			mal = doc[:sp[0]] + tokens[r.Intn(len(tokens))] + doc[sp[1]:]
			kind = "token"
		} else {
			mal = doc[:r.Intn(len(doc))]
		}
		emit("FJ "+t.name+" "+kind, guard(func() string {
			if err := cdc.UnmarshalJSON([]byte(mal), t.ptr()); err != nil {
				return "error"
			}
			return "value"
		}))
	}
	for i := 0; i < 120; i++ {
		tok := tokens[r.Intn(len(tokens))]
		if r.Chance(1, 4) {
			tok = hex.EncodeToString(r.Bytes(r.Intn(40)))
			if r.Bool() {
				tok = "\"" + tok + "\""
			}
		}
		which := i % 4
		emit(fmt.Sprintf("FJ key%d direct", which), guard(func() string {
			var err error
			switch which {
			case 0:
				var k crypto.Secp256k1PublicKey
				err = k.UnmarshalJSON([]byte(tok))
			case 1:
				var k crypto.Ed25519PublicKey
				err = k.UnmarshalJSON([]byte(tok))
			case 2:
				var k crypto.Secp256k1PublicKey
				err = json.Unmarshal([]byte(tok), &k)
			default:
				var k crypto.Ed25519PublicKey
				err = json.Unmarshal([]byte(tok), &k)
			}
			if err != nil {
				return "error"
			}
			return "value"
		}))
	}
	// ---- 3b. hostile bytes through CheckTx / DeliverTx of a live application
	gen := &simapp.Genesis{
		Auth: authTypes.GenesisState{Params: authTypes.DefaultParams(), Accounts: authTypes.Accounts{authTypes.NewEmptyModuleAccount(posTypes.StakedPoolName, authTypes.Burner, authTypes.Staking, authTypes.Minter)}},
		Pos:  posTypes.GenesisState{Params: posTypes.DefaultParams(), PrevStateTotalPower: sdk.ZeroInt()},
		Gov:  govTypes.GenesisState{Params: govParams(), DAOTokens: sdk.ZeroInt()},
	}
	app := simapp.New(dbm.NewMemDB(), "tcp://127.0.0.1:1", gen)
	app.InitChain(abci.RequestInitChain{ChainId: simapp.ChainID, Time: time.Unix(1600000000, 0).UTC()})
	app.BeginBlock(abci.RequestBeginBlock{Header: abci.Header{ChainID: simapp.ChainID, Height: 1, Time: time.Unix(1600000001, 0).UTC(), ProposerAddress: bytes.Repeat([]byte{1}, 20)}})
	for i := 0; i < *n/8; i++ {
		good, _ := cdc.MarshalBinaryLengthPrefixed(randTx(r))
		bz := mutateBytes(r, good)
		if r.Chance(1, 4) {
			bz = r.Bytes(r.Intn(120))
		}
		emit("AB", guard(func() string {
			c := app.CheckTx(abci.RequestCheckTx{Tx: bz})
			d := app.DeliverTx(abci.RequestDeliverTx{Tx: bz})
			if c.Code == 0 || d.Code == 0 {
				return "accepted" // a mutated tx has no valid signature any more
			}
			return "rejected"
		}))
	}
	// ---- 4. key builders against the Coq model
	for i := 0; i < *n/4; i++ {
		switch r.Intn(3) {
		case 0: // power rank key bytes, parse back
			addr := sdk.Address(r.Bytes(20))
			tokens := new(big.Int).Mul(big.NewInt(int64(r.Intn(5000))), big.NewInt(1000000))
			tokens.Add(tokens, big.NewInt(int64(r.Intn(1000000))))
			if r.Chance(1, 5) {
				tokens = r.Bits(1 + r.Intn(80))
			}
			v := posTypes.Validator{Address: addr, StakedTokens: sdk.NewIntFromBigInt(tokens)}
			emit(fmt.Sprintf("KR %s %s", tokens.String(), hx(addr)), guard(func() string {
				k := posTypes.KeyForValidatorInStakingSet(v)
				back := posTypes.ParseValidatorPowerRankKey(k)
				return fmt.Sprintf("%s back=%v", hx(k[1:]), bytes.Equal(back, addr))
			}))
		case 1: // two rank keys order like (power, inverted address)
			a1, a2 := sdk.Address(r.Bytes(20)), sdk.Address(r.Bytes(20))
			if r.Chance(1, 3) {
				a2 = append(sdk.Address{}, a1...)
				a2[r.Intn(20)] ^= byte(1 << uint(r.Intn(8)))
			}
			t1 := big.NewInt(int64(r.Intn(400)) * 1000000)
			t2 := big.NewInt(int64(r.Intn(400)) * 1000000)
			if r.Bool() {
				t2 = new(big.Int).Add(t1, big.NewInt(int64(r.Intn(1000000))))
			}
			emit(fmt.Sprintf("KO %s %s %s %s", t1, hx(a1), t2, hx(a2)), guard(func() string {
				k1 := posTypes.KeyForValidatorInStakingSet(posTypes.Validator{Address: a1, StakedTokens: sdk.NewIntFromBigInt(t1)})
				k2 := posTypes.KeyForValidatorInStakingSet(posTypes.Validator{Address: a2, StakedTokens: sdk.NewIntFromBigInt(t2)})
				return fmt.Sprint(bytes.Compare(k1, k2))
			}))
		default: // unstaking-queue time keys: order like the times, parse back
			t1, t2 := randTime(r), randTime(r)
			if r.Chance(1, 3) {
				t2 = t1.Add(time.Duration(r.Intn(3)-1) * time.Duration(1+r.Intn(1000)))
				if t2.UTC().Year() > 9999 || t2.UTC().Year() < 0 { // the format has four year digits: outside its domain
					t2 = t1.Add(-time.Duration(1 + r.Intn(1000)))
				}
			}
			emit(fmt.Sprintf("KT %s %s", tfields(t1), tfields(t2)), guard(func() string {
				k1, k2 := posTypes.KeyForUnstakingValidators(t1), posTypes.KeyForUnstakingValidators(t2)
				b1, err := sdk.ParseTimeBytes(k1[1:])
				// the key's order must also be the order of the instants themselves
				chron := 0
				if t1.Before(t2) {
					chron = -1
				} else if t1.After(t2) {
					chron = 1
				}
				if chron != bytes.Compare(k1, k2) {
					return fmt.Sprintf("ORDER-DISAGREES-WITH-TIME key=%d time=%d", bytes.Compare(k1, k2), chron)
				}
				return fmt.Sprintf("%s %d back=%v", hx(k1[1:]), bytes.Compare(k1, k2), err == nil && b1.Equal(t1))
			}))
		}
	}
	// ---- 5. amino's uvarint length prefix against the model
	for i := 0; i < *n/8; i++ {
		if r.Bool() {
			u := r.U64() >> uint(r.Intn(64))
			emit(fmt.Sprintf("LP %d", u), guard(func() string {
				var buf bytes.Buffer
				if err := amino.EncodeUvarint(&buf, u); err != nil {
					return "error"
				}
				return hx(buf.Bytes())
			}))
		} else {
			var bz []byte
			if r.Bool() {
				var buf bytes.Buffer
				_ = amino.EncodeUvarint(&buf, r.U64()>>uint(r.Intn(64)))
				bz = mutateBytes(r, buf.Bytes())
			} else {
				bz = r.Bytes(r.Intn(13))
				for j := range bz {
					if r.Bool() {
						bz[j] |= 0x80
					}
				}
			}
			emit("LD "+hx(bz), guard(func() string {
				u, nn, err := amino.DecodeUvarint(bz)
				if err != nil {
					return "error"
				}
				return fmt.Sprintf("%d rest=%d", u, len(bz)-nn)
			}))
		}
	}
	// the frame of a real transaction is uvarint(len(bare)) ++ bare
	for i := 0; i < *n/16; i++ {
		tx := randTx(r)
		bare, _ := cdc.MarshalBinaryBare(tx)
		emit(fmt.Sprintf("LP %d", len(bare)), guard(func() string {
			full, err := cdc.MarshalBinaryLengthPrefixed(tx)
			if err != nil || !bytes.HasSuffix(full, bare) {
				return "frame-is-not-prefix++bare"
			}
			return hx(full[:len(full)-len(bare)])
		}))
	}
	// ---- 6. canonical JSON: SortJSON of some text of a tree = the model's rendering of the tree
	for i := 0; i < *n/4; i++ {
		t := randTree(r, 3)
		var tk strings.Builder
		t.tokens(&tk)
		var tx1, tx2 strings.Builder
		t.text(r, &tx1)
		t.text(r, &tx2)
		emit("SJ"+tk.String(), guard(func() string {
			a, err := sdk.SortJSON([]byte(tx1.String()))
			if err != nil {
				return "error:" + strings.ReplaceAll(err.Error(), " ", "_")
			}
			b, err := sdk.SortJSON([]byte(tx2.String()))
			if err != nil || !bytes.Equal(a, b) {
				return "NOT-CANONICAL"
			}
			return hx(a)
		}))
	}
	// ---- 7. sign bytes of real transactions = the model's sign bytes of (chain, entropy, memo, fee, msg)
	for i := 0; i < *n/8; i++ {
		tx := randTx(r)
		chain := asciiString(r, 1+r.Intn(10))
		feeJS, _ := tx.Fee.MarshalJSON()
		var feeV, msgV interface{}
		_ = json.Unmarshal(feeJS, &feeV)
		_ = json.Unmarshal(tx.Msg.GetSignBytes(), &msgV)
		var tk strings.Builder
		treeOf(r, feeV).tokens(&tk)
		treeOf(r, msgV).tokens(&tk)
		emit(fmt.Sprintf("SD %s %d %s%s", hx([]byte(chain)), tx.Entropy, hx([]byte(tx.Memo)), tk.String()), guard(func() string {
			sb, err := auth.StdSignBytes(chain, tx.Entropy, tx.Fee, tx.Msg, tx.Memo)
			if err != nil {
				return "error"
			}
			// ... and the verifier (the ante handler's GetSignBytes) computes the very same bytes from the decoded transaction
			full, _ := cdc.MarshalBinaryLengthPrefixed(tx)
			var back authTypes.StdTx
			if err := cdc.UnmarshalBinaryLengthPrefixed(full, &back); err != nil {
				return "error-decoding-the-transaction"
			}
			vb, err := auth.GetSignBytes(chain, back)
			if err != nil || !bytes.Equal(vb, sb) {
				return "VERIFIER-SIGNS-OTHER-BYTES"
			}
			return hx(sb)
		}))
	}
	decText(*n / 8)
	// ---- 8. strings JSON cannot carry (invalid UTF-8): different content must still give different sign bytes
	for i := 0; i < 40; i++ {
		tx := randTx(r)
		m1 := asciiString(r, r.Intn(5)) + string([]byte{byte(0x80 + r.Intn(0x40))})
		m2 := m1[:len(m1)-1] + string([]byte{byte(0xc0 + r.Intn(0x40))})
		emit("SU memo", guard(func() string {
			a, _ := auth.StdSignBytes("chain", tx.Entropy, tx.Fee, tx.Msg, m1)
			b, _ := auth.StdSignBytes("chain", tx.Entropy, tx.Fee, tx.Msg, m2)
			// and the wire format does carry both memos unchanged
			t1 := authTypes.NewStdTx(tx.Msg, tx.Fee, tx.Signature, m1, tx.Entropy)
			bz, _ := cdc.MarshalBinaryLengthPrefixed(t1)
			var back authTypes.StdTx
			if err := cdc.UnmarshalBinaryLengthPrefixed(bz, &back); err != nil {
				return "rejected-on-the-wire" // a decoder that refuses such strings closes the gap
			}
			if back.Memo == m1 && bytes.Equal(a, b) {
				return "COLLISION:invalid-utf8-memo"
			}
			return "ok"
		}))
	}
	_ = modelExact
	js, _ := json.MarshalIndent(stats, "", " ")
	_ = os.WriteFile(*out+"/codec.stats.json", js, 0644)
}

func govParams() govTypes.Params {
	acl := govTypes.ACL{}
	o := sdk.Address(bytes.Repeat([]byte{7}, 20))
	for _, p := range []string{"auth/MaxMemoCharacters", "auth/TxSigLimit", "auth/FeeMultipliers", "gov/daoOwner", "gov/acl", "gov/upgrade",
		"pos/UnstakingTime", "pos/MaxValidators", "pos/StakeDenom", "pos/StakeMinimum", "pos/ProposerRewardPercentage", "pos/MaxEvidenceAge",
		"pos/SignedBlocksWindow", "pos/MinSignedPerWindow", "pos/DowntimeJailDuration", "pos/SlashFractionDoubleSign", "pos/SlashFractionDowntime"} {
		acl.SetOwner(p, o)
	}
	return govTypes.Params{ACL: acl, DAOOwner: o, Upgrade: govTypes.NewUpgrade(0, "")}
}
