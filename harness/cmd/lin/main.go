// Command lin: schedule-directed stream for C15 (engine `lin`): two goroutines call one cachekv wrapper
// while the parent read of the first is held open, so that the second call really is concurrent with it.
// Each scenario must be explained by ONE of the two sequential orders of the two calls on the proved
// model (every call takes effect atomically):
//   <out>/lin.ops   two programs per scenario in the kv engine's format (order a: reader first, order b: writer first)
//   <out>/lin.impl  "<n> r1=<reader result>|<get>|<has>|<iteration>|<parent after Write>"
package main

import (
	"bufio"
	"encoding/hex"
	"encoding/json"
	"flag"
	"fmt"
	"io"
	"os"
	"strings"
	"sync"
	"time"

	dbm "github.com/tendermint/tm-db"

	"github.com/pokt-network/posmint/store/cachekv"
	"github.com/pokt-network/posmint/store/dbadapter"
	stypes "github.com/pokt-network/posmint/store/types"
	"verif/harness/internal/rng"
)

var stats = map[string]int{}

func hx(b []byte) string {
	if b == nil {
		return "-"
	}
	if len(b) == 0 {
		return "."
	}
	return hex.EncodeToString(b)
}

// a parent store whose read of one armed key can be held open
type gate struct {
	stypes.KVStore
	mu      sync.Mutex
	armed   []byte
	entered chan struct{}
	release chan struct{}
}

func (g *gate) hold(key []byte) {
	g.mu.Lock()
	hit := g.armed != nil && string(g.armed) == string(key)
	if hit {
		g.armed = nil
	}
	g.mu.Unlock()
	if hit {
		close(g.entered)
		<-g.release
	}
}
func (g *gate) Get(key []byte) []byte { v := g.KVStore.Get(key); g.hold(key); return v }
func (g *gate) Has(key []byte) bool   { v := g.KVStore.Has(key); g.hold(key); return v }
func (g *gate) CacheWrap() stypes.CacheWrap { return cachekv.NewStore(g) }
func (g *gate) CacheWrapWithTrace(w io.Writer, tc stypes.TraceContext) stypes.CacheWrap {
	return cachekv.NewStore(g)
}

func dump(st stypes.KVStore) string {
	it := st.Iterator(nil, nil)
	defer it.Close()
	var parts []string
	for ; it.Valid(); it.Next() {
		parts = append(parts, hx(it.Key())+"="+hx(it.Value()))
	}
	return "[" + strings.Join(parts, ",") + "]"
}

func main() {
	seed := flag.Uint64("seed", 1, "seed")
	n := flag.Int("n", 300, "scenarios")
	out := flag.String("out", ".", "output directory")
	flag.Parse()
	r := rng.New(*seed)
	fo, _ := os.Create(*out + "/lin.ops")
	fi, _ := os.Create(*out + "/lin.impl")
	wo, wi := bufio.NewWriter(fo), bufio.NewWriter(fi)
	defer func() { wo.Flush(); wi.Flush(); fo.Close(); fi.Close() }()
	alphabet := []byte{0x00, 0x01, 0x61, 0x62, 0xfe, 0xff}
	key := func() []byte {
		k := make([]byte, 1+r.Intn(2))
		for i := range k {
			k[i] = alphabet[r.Intn(len(alphabet))]
		}
		return k
	}
	for sc := 0; sc < *n; sc++ {
		db := dbm.NewMemDB()
		g := &gate{KVStore: dbadapter.Store{DB: db}, entered: make(chan struct{}), release: make(chan struct{})}
		st := cachekv.NewStore(g)
		var base, pre []string
		k := key()
		for i, m := 0, r.Intn(5); i < m; i++ {
			bk, bv := key(), []byte{byte(1 + r.Intn(250))}
			db.Set(bk, bv)
			base = append(base, fmt.Sprintf("B %s %s", hx(bk), hx(bv)))
		}
		if r.Bool() { // the contested key exists in the parent
			bv := []byte{0x70, byte(r.Intn(250))}
			db.Set(k, bv)
			base = append(base, fmt.Sprintf("B %s %s", hx(k), hx(bv)))
		}
		for i, m := 0, r.Intn(3); i < m; i++ { // unrelated dirty entries in the wrapper
			pk := key()
			if string(pk) == string(k) {
				continue
			}
			if r.Bool() {
				pv := []byte{0x71, byte(r.Intn(250))}
				st.Set(pk, pv)
				pre = append(pre, fmt.Sprintf("S 0 %s %s", hx(pk), hx(pv)))
			} else {
				st.Delete(pk)
				pre = append(pre, fmt.Sprintf("D 0 %s", hx(pk)))
			}
		}
		readHas := r.Bool()
		writeDel := r.Chance(1, 3)
		v1 := []byte{0x72, byte(r.Intn(250))}
		rop, wop := "G 0 "+hx(k), fmt.Sprintf("S 0 %s %s", hx(k), hx(v1))
		if readHas {
			rop = "H 0 " + hx(k)
		}
		if writeDel {
			wop = "D 0 " + hx(k)
		}
		// ---- the concurrent run
		g.mu.Lock()
		g.armed = append([]byte{}, k...)
		g.mu.Unlock()
		var r1 string
		var wg sync.WaitGroup
		wg.Add(1)
		go func() {
			defer wg.Done()
			if readHas {
				r1 = fmt.Sprint(st.Has(k))
			} else {
				r1 = hx(st.Get(k))
			}
		}()
		select {
		case <-g.entered:
		case <-time.After(2 * time.Second):
			fmt.Fprintln(os.Stderr, "reader never reached the parent")
			os.Exit(3)
		}
		done2 := make(chan struct{})
		wg.Add(1)
		go func() {
			defer wg.Done()
			if writeDel {
				st.Delete(k)
			} else {
				st.Set(k, v1)
			}
			close(done2)
		}()
		overlapped := "writer-waited-for-the-reader"
		select {
		case <-done2:
			overlapped = "writer-ran-inside-the-read"
		case <-time.After(15 * time.Millisecond):
		}
		stats[overlapped]++
		close(g.release)
		wg.Wait()
		get, has, iter := hx(st.Get(k)), fmt.Sprint(st.Has(k)), dump(st)
		st.Write()
		parent := dump(dbadapter.Store{DB: db})
		fmt.Fprintf(wi, "%d r1=%s|%s|%s|%s|%s\n", sc, r1, get, has, iter, parent)
		// ---- the two sequential explanations, as kv programs for the model
		for _, ord := range []string{"a", "b"} {
			fmt.Fprintf(wo, "P %d%s inf cache\n", sc, ord)
			for _, l := range base {
				fmt.Fprintln(wo, l)
			}
			for _, l := range pre {
				fmt.Fprintln(wo, l)
			}
			if ord == "a" {
				fmt.Fprintln(wo, rop)
				fmt.Fprintln(wo, wop)
			} else {
				fmt.Fprintln(wo, wop)
				fmt.Fprintln(wo, rop)
			}
			fmt.Fprintf(wo, "G 0 %s\nH 0 %s\nA 0 - - true\nW 0\nA 1 - - true\nE\n", hx(k), hx(k))
		}
		fmt.Fprintf(wo, "# %d npre=%d\n", sc, len(pre))
		stats["scenario/"+map[bool]string{true: "has", false: "get"}[readHas]+"+"+map[bool]string{true: "delete", false: "set"}[writeDel]]++
	}
	js, _ := json.MarshalIndent(stats, "", " ")
	_ = os.WriteFile(*out+"/lin.stats.json", js, 0644)
}
