// Command num: correspondence driver for types.Int / Uint / Dec / Coins (engine `num`, C18).
// It generates seeded cases, runs the real code, and writes
//   <out>/num.ops   one case per line:  <id> <op> <operands...>       (input of the model)
//   <out>/num.impl  one line per case:  <id> <result>                 (what the code did)
//   <out>/num.stats.json  distribution of ops and outcome kinds
// Results: decimal number, 0/1 for booleans, P for a panic, coins as d:a,d:a (or "-" if empty),
// "M!" prefix if an operand was mutated by the call.
package main

import (
	"bufio"
	"encoding/json"
	"flag"
	"fmt"
	"math/big"
	"os"
	"sort"
	"strings"

	sdk "github.com/pokt-network/posmint/types"
	"verif/harness/internal/rng"
)

var (
	one   = big.NewInt(1)
	ten   = big.NewInt(10)
	P     = new(big.Int).Exp(ten, big.NewInt(18), nil)
	half  = new(big.Int).Quo(P, big.NewInt(2))
	stats = map[string]int{}
)

func pow2(k int) *big.Int  { return new(big.Int).Lsh(big.NewInt(1), uint(k)) }
func pow10(k int) *big.Int { return new(big.Int).Exp(ten, big.NewInt(int64(k)), nil) }

// special values around every bound and tie the property names
func specials() []*big.Int {
	var v []*big.Int
	add := func(z *big.Int) {
		for _, d := range []int64{-1, 0, 1} {
			x := new(big.Int).Add(z, big.NewInt(d))
			v = append(v, x, new(big.Int).Neg(x))
		}
	}
	add(big.NewInt(0))
	for _, k := range []int{18, 36, 6, 17, 19, 1, 2} {
		add(pow10(k))
	}
	for _, k := range []int{63, 64, 127, 128, 254, 255, 256, 314, 315, 195, 196, 60, 61} {
		add(pow2(k))
	}
	add(half)
	add(new(big.Int).Mul(big.NewInt(3), half))
	add(new(big.Int).Mul(big.NewInt(5), half))
	return v
}

var sp = specials()

func randBig(r *rng.R, maxBits int) *big.Int {
	switch r.Intn(10) {
	case 0, 1, 2:
		return new(big.Int).Set(sp[r.Intn(len(sp))])
	case 3: // a rounding tie +-1: (2m+1)*P/2 + {-1,0,1}
		m := r.Bits(1 + r.Intn(40))
		z := new(big.Int).Mul(new(big.Int).Add(new(big.Int).Lsh(m, 1), one), half)
		z.Add(z, big.NewInt(int64(r.Intn(3)-1)))
		if r.Bool() {
			z.Neg(z)
		}
		return z
	case 4: // small
		z := big.NewInt(int64(r.Intn(2001) - 1000))
		return z
	default:
		bits := 1 + r.Intn(maxBits)
		z := r.Bits(bits)
		if r.Bool() {
			z.Neg(z)
		}
		return z
	}
}

func inInt(z *big.Int) bool  { return z.BitLen() <= 255 }
func inUint(z *big.Int) bool { return z.Sign() >= 0 && z.BitLen() <= 256 }
func inDec(z *big.Int) bool  { return z.BitLen() <= 315 }

func randInt(r *rng.R) *big.Int {
	for {
		z := randBig(r, 256)
		if inInt(z) {
			return z
		}
	}
}
func randUint(r *rng.R) *big.Int {
	for {
		z := randBig(r, 257)
		z.Abs(z)
		if inUint(z) {
			return z
		}
	}
}
func randDec(r *rng.R) *big.Int {
	for {
		z := randBig(r, 316)
		if inDec(z) {
			return z
		}
	}
}

var denomPool = []string{"aaa", "aab", "aba", "abc", "abcd", "ab0", "b12", "upokt", "upoku", "zzz", "zzzzzzzzzzzzzzzz", "a00"}

func randCoins(r *rng.R, valid bool) sdk.Coins {
	n := r.Intn(5)
	if r.Chance(1, 10) {
		n = 5 + r.Intn(6)
	}
	perm := append([]string{}, denomPool...)
	for i := range perm {
		j := i + r.Intn(len(perm)-i)
		perm[i], perm[j] = perm[j], perm[i]
	}
	if n > len(perm) {
		n = len(perm)
	}
	ds := perm[:n]
	sort.Strings(ds)
	cs := sdk.Coins{}
	for _, d := range ds {
		var a *big.Int
		switch r.Intn(6) {
		case 0:
			a = big.NewInt(1)
		case 1:
			a = new(big.Int).Sub(pow2(255), big.NewInt(int64(1+r.Intn(3))))
		case 2:
			a = big.NewInt(int64(1 + r.Intn(100)))
		default:
			a = r.Bits(1 + r.Intn(254))
			if a.Sign() == 0 {
				a = big.NewInt(7)
			}
		}
		if !valid {
			switch r.Intn(8) {
			case 0:
				a = big.NewInt(0)
			case 1:
				a = new(big.Int).Neg(a)
			}
		}
		cs = append(cs, sdk.Coin{Denom: d, Amount: sdk.NewIntFromBigInt(a)})
	}
	return cs
}

// derive b from a so that results land on interesting relations
func relatedCoins(r *rng.R, a sdk.Coins) sdk.Coins {
	b := sdk.Coins{}
	for _, c := range a {
		switch r.Intn(5) {
		case 0: // drop
		case 1:
			b = append(b, c)
		case 2:
			x := new(big.Int).Add(c.Amount.BigInt(), big.NewInt(int64(r.Intn(3)-1)))
			if x.Sign() > 0 && inInt(x) {
				b = append(b, sdk.Coin{Denom: c.Denom, Amount: sdk.NewIntFromBigInt(x)})
			}
		default:
			x := r.Bits(1 + r.Intn(254))
			if x.Sign() > 0 {
				b = append(b, sdk.Coin{Denom: c.Denom, Amount: sdk.NewIntFromBigInt(x)})
			}
		}
	}
	if r.Chance(1, 3) {
		extra := randCoins(r, true)
		for _, c := range extra {
			found := false
			for _, y := range b {
				if y.Denom == c.Denom {
					found = true
				}
			}
			if !found {
				b = append(b, c)
			}
		}
		sort.Sort(b)
	}
	return b
}

func coinsStr(cs sdk.Coins) string {
	if len(cs) == 0 {
		return "-"
	}
	var parts []string
	for _, c := range cs {
		parts = append(parts, c.Denom+":"+c.Amount.String())
	}
	return strings.Join(parts, ",")
}

func copyCoins(cs sdk.Coins) sdk.Coins {
	out := make(sdk.Coins, len(cs))
	for i, c := range cs {
		out[i] = sdk.Coin{Denom: c.Denom, Amount: sdk.NewIntFromBigInt(c.Amount.BigInt())}
	}
	return out
}

func b2s(b bool) string {
	if b {
		return "1"
	}
	return "0"
}

func try(f func() string) (res string) {
	defer func() {
		if r := recover(); r != nil {
			res = "P"
		}
	}()
	return f()
}

// the wrappers share the *big.Int with the caller, so a mutation of an operand is visible
func mkInt(z *big.Int) sdk.Int   { return sdk.NewIntFromBigInt(z) }
func mkUint(z *big.Int) sdk.Uint { return sdk.NewUintFromBigInt(z) }
func mkDec(z *big.Int) sdk.Dec   { return sdk.Dec{Int: z} }

type opdef struct {
	name string
	kind string // "ii" two ints, "i" one int, "uu", "u", "dd", "d", "di", "raw" one big, "cc", "c", "cd"
	f    func(a, b *big.Int) string
}

var ops = []opdef{
	{"iadd", "ii", func(a, b *big.Int) string { return mkInt(a).Add(mkInt(b)).String() }},
	{"isub", "ii", func(a, b *big.Int) string { return mkInt(a).Sub(mkInt(b)).String() }},
	{"imul", "ii", func(a, b *big.Int) string { return mkInt(a).Mul(mkInt(b)).String() }},
	{"iquo", "ii", func(a, b *big.Int) string { return mkInt(a).Quo(mkInt(b)).String() }},
	{"imod", "ii", func(a, b *big.Int) string { return mkInt(a).Mod(mkInt(b)).String() }},
	{"imin", "ii", func(a, b *big.Int) string { return sdk.MinInt(mkInt(a), mkInt(b)).String() }},
	{"imax", "ii", func(a, b *big.Int) string { return sdk.MaxInt(mkInt(a), mkInt(b)).String() }},
	{"ineg", "i", func(a, _ *big.Int) string { return mkInt(a).Neg().String() }},
	{"iint64", "i", func(a, _ *big.Int) string { return fmt.Sprint(mkInt(a).Int64()) }},
	{"inew", "raw", func(a, _ *big.Int) string { return sdk.NewIntFromBigInt(new(big.Int).Set(a)).String() }},
	{"t2p", "i", func(a, _ *big.Int) string { return fmt.Sprint(sdk.TokensToConsensusPower(mkInt(a))) }},
	{"p2t", "i64", func(a, _ *big.Int) string { return sdk.TokensFromConsensusPower(a.Int64()).String() }},
	// the int64-operand variants and the comparisons
	{"iaddraw", "i6", func(a, b *big.Int) string { return mkInt(a).AddRaw(b.Int64()).String() }},
	{"isubraw", "i6", func(a, b *big.Int) string { return mkInt(a).SubRaw(b.Int64()).String() }},
	{"imulraw", "i6", func(a, b *big.Int) string { return mkInt(a).MulRaw(b.Int64()).String() }},
	{"iquoraw", "i6", func(a, b *big.Int) string { return mkInt(a).QuoRaw(b.Int64()).String() }},
	{"imodraw", "i6", func(a, b *big.Int) string { return mkInt(a).ModRaw(b.Int64()).String() }},
	{"igt", "ii", func(a, b *big.Int) string { return b2s(mkInt(a).GT(mkInt(b))) }},
	{"igte", "ii", func(a, b *big.Int) string { return b2s(mkInt(a).GTE(mkInt(b))) }},
	{"ilt", "ii", func(a, b *big.Int) string { return b2s(mkInt(a).LT(mkInt(b))) }},
	{"ilte", "ii", func(a, b *big.Int) string { return b2s(mkInt(a).LTE(mkInt(b))) }},
	{"ieq", "ii", func(a, b *big.Int) string { return b2s(mkInt(a).Equal(mkInt(b))) }},
	{"isign", "i", func(a, _ *big.Int) string { return fmt.Sprint(mkInt(a).Sign()) }},
	// the shared constants must stay what they are whatever is decoded into a value obtained from them
	{"alias", "raw", func(a, _ *big.Int) string {
		js := []byte(`"` + a.String() + `"`)
		zi, oi, zu, ou := sdk.ZeroInt(), sdk.OneInt(), sdk.ZeroUint(), sdk.OneUint()
		_ = zi.UnmarshalJSON(js)
		_ = oi.UnmarshalJSON(js)
		_ = zu.UnmarshalJSON(js)
		_ = ou.UnmarshalJSON(js)
		zi2, oi2 := sdk.ZeroInt(), sdk.OneInt()
		_ = zi2.UnmarshalAmino(a.String())
		_ = oi2.UnmarshalAmino(a.String())
		zd, od := sdk.ZeroDec(), sdk.OneDec()
		_ = zd.UnmarshalJSON([]byte(`"` + new(big.Int).Abs(a).String() + `.5"`))
		_ = od.UnmarshalJSON([]byte(`"` + new(big.Int).Abs(a).String() + `.5"`))
		return sdk.ZeroInt().String() + "," + sdk.OneInt().String() + "," + sdk.ZeroUint().String() + "," + sdk.OneUint().String() + "," +
			sdk.ZeroDec().Int.String() + "," + sdk.OneDec().Int.String() + "," + sdk.SmallestDec().Int.String() + "," +
			sdk.NewDec(7).Ceil().Int.String() + "," + sdk.NewInt(0).String()
	}},
	{"ijson", "raw", func(a, _ *big.Int) string {
		var i sdk.Int
		if err := i.UnmarshalJSON([]byte(`"` + a.String() + `"`)); err != nil {
			return "E"
		}
		return i.String()
	}},
	{"uadd", "uu", func(a, b *big.Int) string { return mkUint(a).Add(mkUint(b)).String() }},
	{"usub", "uu", func(a, b *big.Int) string { return mkUint(a).Sub(mkUint(b)).String() }},
	{"umul", "uu", func(a, b *big.Int) string { return mkUint(a).Mul(mkUint(b)).String() }},
	{"uquo", "uu", func(a, b *big.Int) string { return mkUint(a).Quo(mkUint(b)).String() }},
	{"uu64", "u", func(a, _ *big.Int) string { return fmt.Sprint(mkUint(a).Uint64()) }},
	{"unew", "raw", func(a, _ *big.Int) string { return sdk.NewUintFromBigInt(new(big.Int).Set(a)).String() }},
	{"ujson", "raw", func(a, _ *big.Int) string {
		var u sdk.Uint
		if err := u.UnmarshalJSON([]byte(`"` + a.String() + `"`)); err != nil {
			return "E"
		}
		return u.String()
	}},
	{"dadd", "dd", func(a, b *big.Int) string { return mkDec(a).Add(mkDec(b)).Int.String() }},
	{"dsub", "dd", func(a, b *big.Int) string { return mkDec(a).Sub(mkDec(b)).Int.String() }},
	{"dmul", "dd", func(a, b *big.Int) string { return mkDec(a).Mul(mkDec(b)).Int.String() }},
	{"dmult", "dd", func(a, b *big.Int) string { return mkDec(a).MulTruncate(mkDec(b)).Int.String() }},
	{"dquo", "dd", func(a, b *big.Int) string { return mkDec(a).Quo(mkDec(b)).Int.String() }},
	{"dquot", "dd", func(a, b *big.Int) string { return mkDec(a).QuoTruncate(mkDec(b)).Int.String() }},
	{"dquoru", "dd", func(a, b *big.Int) string { return mkDec(a).QuoRoundUp(mkDec(b)).Int.String() }},
	{"dmulint", "di", func(a, b *big.Int) string { return mkDec(a).MulInt(mkInt(b)).Int.String() }},
	{"dquoint", "di", func(a, b *big.Int) string { return mkDec(a).QuoInt(mkInt(b)).Int.String() }},
	{"dround64", "d", func(a, _ *big.Int) string { return fmt.Sprint(mkDec(a).RoundInt64()) }},
	{"droundint", "d", func(a, _ *big.Int) string { return mkDec(a).RoundInt().String() }},
	{"dtrunc64", "d", func(a, _ *big.Int) string { return fmt.Sprint(mkDec(a).TruncateInt64()) }},
	{"dtruncint", "d", func(a, _ *big.Int) string { return mkDec(a).TruncateInt().String() }},
	{"dtruncdec", "d", func(a, _ *big.Int) string { return mkDec(a).TruncateDec().Int.String() }},
	{"dceil", "d", func(a, _ *big.Int) string { return mkDec(a).Ceil().Int.String() }},
	{"disint", "d", func(a, _ *big.Int) string { return b2s(mkDec(a).IsInteger()) }},
	{"i2d", "i", func(a, _ *big.Int) string { return mkInt(a).ToDec().Int.String() }},
}

// hazard generators for the double rounding in Quo / QuoRoundUp (F9)
func quoHazard(r *rng.R) (a, b *big.Int) {
	if r.Bool() { // family (m, 2mP-1): quotient just above one half
		m := big.NewInt(int64(1 + r.Intn(1000)))
		b = new(big.Int).Mul(new(big.Int).Lsh(m, 1), P)
		b.Sub(b, one)
		return m, b
	}
	// b > P^2, t = k*P + P/2, a = ceil(t*b / P^2)
	P2 := new(big.Int).Mul(P, P)
	b = new(big.Int).Add(P2, r.Bits(1+r.Intn(120)))
	b.Add(b, one)
	k := r.Bits(1 + r.Intn(30))
	t := new(big.Int).Add(new(big.Int).Mul(k, P), half)
	tb := new(big.Int).Mul(t, b)
	a = new(big.Int).Quo(tb, P2)
	a.Add(a, one)
	return a, b
}
func quoRuHazard(r *rng.R) (a, b *big.Int) {
	P2 := new(big.Int).Mul(P, P)
	b = new(big.Int).Add(P2, r.Bits(1+r.Intn(120)))
	b.Add(b, one)
	k := r.Bits(r.Intn(30))
	tb := new(big.Int).Mul(new(big.Int).Mul(k, P), b)
	a = new(big.Int).Quo(tb, P2)
	a.Add(a, one)
	return a, b
}

func main() {
	seed := flag.Uint64("seed", 1, "seed")
	n := flag.Int("n", 20000, "number of cases")
	out := flag.String("out", ".", "output directory")
	flag.Parse()
	r := rng.New(*seed)
	fo, _ := os.Create(*out + "/num.ops")
	fi, _ := os.Create(*out + "/num.impl")
	wo, wi := bufio.NewWriter(fo), bufio.NewWriter(fi)
	defer func() { wo.Flush(); wi.Flush(); fo.Close(); fi.Close() }()

	id := 0
	emit := func(op string, args []string, res string) {
		fmt.Fprintf(wo, "%d %s %s\n", id, op, strings.Join(args, " "))
		fmt.Fprintf(wi, "%d %s\n", id, res)
		kind := "value"
		if res == "P" {
			kind = "panic"
		} else if res == "E" {
			kind = "error"
		} else if strings.HasPrefix(res, "M!") {
			kind = "mutated"
		}
		stats[op+"/"+kind]++
		id++
	}

	coinOps := []string{"cadd", "csub", "csafesub", "cvalid", "camount", "cgte", "cgt", "canygte", "cequal", "czero", "cnew", "cadd"}
	for id < *n {
		if r.Chance(3, 10) {
			// coins
			op := coinOps[r.Intn(len(coinOps))]
			valid := true
			if op == "cvalid" {
				valid = r.Bool()
			}
			if (op == "cadd" || op == "cnew" || op == "czero") && r.Chance(1, 3) {
				valid = false // sorted operands that contain zero (and negative) amounts, often adjacent
			}
			a := randCoins(r, valid)
			var b sdk.Coins
			if r.Chance(2, 3) {
				b = relatedCoins(r, a)
			} else {
				b = randCoins(r, true)
			}
			if !valid && r.Bool() { // runs of adjacent zero coins
				for i := range a {
					if r.Chance(1, 2) {
						a[i].Amount = sdk.ZeroInt()
					}
				}
			}
			if r.Chance(1, 4) {
				a, b = b, a
			}
			if op == "cnew" { // arbitrary order, possibly duplicates
				a = append(a, b...)
				for i := range a {
					j := i + r.Intn(len(a)-i)
					a[i], a[j] = a[j], a[i]
				}
			}
			if op == "cvalid" && r.Chance(1, 4) && len(a) >= 2 { // unsorted / duplicate
				if r.Bool() {
					a[0], a[1] = a[1], a[0]
				} else {
					a[1].Denom = a[0].Denom
				}
			}
			if op == "cvalid" && r.Chance(1, 8) && len(a) >= 1 {
				a[0].Denom = []string{"Abc", "ab", "1abc", "abcdefghijklmnopq", "a_c"}[r.Intn(5)]
			}
			a0, b0 := copyCoins(a), copyCoins(b)
			den := denomPool[r.Intn(len(denomPool))]
			if len(a) > 0 && r.Bool() {
				den = a[r.Intn(len(a))].Denom
			}
			var args []string
			res := try(func() string {
				switch op {
				case "cadd":
					args = []string{coinsStr(a), coinsStr(b)}
					return coinsStr(a.Add(b))
				case "csub":
					args = []string{coinsStr(a), coinsStr(b)}
					return coinsStr(a.Sub(b))
				case "csafesub":
					args = []string{coinsStr(a), coinsStr(b)}
					d, neg := a.SafeSub(b)
					return coinsStr(d) + "|" + b2s(neg)
				case "cvalid":
					args = []string{coinsStr(a)}
					return b2s(a.IsValid())
				case "camount":
					args = []string{coinsStr(a), den}
					return a.AmountOf(den).String()
				case "cgte":
					args = []string{coinsStr(a), coinsStr(b)}
					return b2s(a.IsAllGTE(b))
				case "cgt":
					args = []string{coinsStr(a), coinsStr(b)}
					return b2s(a.IsAllGT(b))
				case "canygte":
					args = []string{coinsStr(a), coinsStr(b)}
					return b2s(a.IsAnyGTE(b))
				case "cequal":
					args = []string{coinsStr(a), coinsStr(b)}
					return b2s(a.IsEqual(b))
				case "cnew":
					args = []string{coinsStr(a)}
					return coinsStr(sdk.NewCoins(copyCoins(a)...))
				case "czero":
					args = []string{coinsStr(a)}
					return b2s(a.IsZero())
				}
				return "?"
			})
			// operands of valid coin sets must not be mutated
			if a0.IsValid() && b0.IsValid() && (coinsStr(a0) != coinsStr(a) || coinsStr(b0) != coinsStr(b)) {
				res = "M!" + res
			}
			emit(op, args, res)
			continue
		}
		o := ops[r.Intn(len(ops))]
		for o.name == "alias" { // run at the very end: should a shared constant be damaged, everything after it would be too
			o = ops[r.Intn(len(ops))]
		}
		var a, b *big.Int
		switch o.kind {
		case "ii":
			a, b = randInt(r), randInt(r)
			if (o.name == "imul" || o.name == "imulraw") && r.Chance(1, 5) {
				// operands whose bit lengths add up to 255..257: the product straddles the 255-bit bound
				ka := 64 + r.Intn(129)
				kb := 255 + r.Intn(3) - ka
				a = new(big.Int).SetBit(r.Bits(ka), ka-1, 1)
				b = new(big.Int).SetBit(r.Bits(kb), kb-1, 1)
				if r.Bool() { // all-ones operands: the largest products for their lengths
					a = new(big.Int).Sub(pow2(ka), one)
					b = new(big.Int).Sub(pow2(kb), one)
				}
				if r.Bool() {
					a.Neg(a)
				}
				if r.Bool() {
					b.Neg(b)
				}
			}
			if r.Chance(1, 8) && b.Sign() != 0 { // exact multiples for quo/mod
				a = new(big.Int).Mul(b, big.NewInt(int64(r.Intn(7)-3)))
				if !inInt(a) {
					a = randInt(r)
				}
			}
		case "i":
			a = randInt(r)
			if o.name == "t2p" && r.Bool() {
				a = new(big.Int).Mul(pow2(63), pow10(6))
				a.Add(a, big.NewInt(int64(r.Intn(5)-2)))
			}
		case "i6":
			a = randInt(r)
			b = new(big.Int).SetInt64([]int64{-9223372036854775808, 9223372036854775807, -1, 0, 1, -9223372036854775807, 2, int64(r.U64()), int64(r.Intn(1000)) - 500}[r.Intn(9)])
		case "i64":
			a = new(big.Int).SetInt64(int64(r.U64()))
			if r.Bool() {
				a = big.NewInt(int64(r.Intn(1000000)))
			}
		case "uu":
			a, b = randUint(r), randUint(r)
			if o.name == "umul" && r.Chance(1, 4) {
				// bit lengths adding up to 255..258: the product straddles the 256-bit bound
				ka := 64 + r.Intn(129)
				kb := 255 + r.Intn(4) - ka
				a = new(big.Int).SetBit(r.Bits(ka), ka-1, 1)
				b = new(big.Int).SetBit(r.Bits(kb), kb-1, 1)
				if r.Chance(1, 3) { // exact powers of two: the smallest products for their lengths
					a, b = pow2(ka-1), pow2(kb-1)
				} else if r.Chance(1, 3) {
					a = new(big.Int).Sub(pow2(ka), one)
					b = new(big.Int).Sub(pow2(kb), one)
				}
			}
		case "u":
			a = randUint(r)
		case "raw":
			a = randBig(r, 320)
		case "dd":
			a, b = randDec(r), randDec(r)
			if o.name == "dquo" && r.Chance(1, 3) {
				a, b = quoHazard(r)
			}
			if o.name == "dquoru" && r.Chance(1, 3) {
				a, b = quoRuHazard(r)
			}
			if (o.name == "dquo" || o.name == "dquoru" || o.name == "dquot") && r.Chance(1, 5) {
				// a quotient a hair (less than 10^-18 of a unit in the last place) away from a multiple of 10^-18, on either
				// side and with either sign: b = m (an integer above 10^18), a = (k*m + d) * 10^-18, so a/b = k*10^-18 + d/(m*10^18):
				// decimals 19..36 of the exact quotient are all 9s (d < 0) or all 0s followed by a digit (d > 0)
				m := new(big.Int).Mul(pow10(18), big.NewInt(int64(1+r.Intn(100))))
				m.Add(m, big.NewInt(int64(r.Intn(1000))))
				b = new(big.Int).Mul(m, P)
				a = new(big.Int).Mul(big.NewInt(int64(1+r.Intn(1000))), m)
				a.Add(a, big.NewInt(int64([]int{-2, -1, 1, 2}[r.Intn(4)])))
				if r.Bool() {
					a.Neg(a)
				}
				if r.Chance(1, 3) {
					b.Neg(b)
				}
			}
			if (o.name == "dquo" || o.name == "dquoru" || o.name == "dquot") && r.Chance(1, 4) {
				// quotients that are exact ties or exact at 18 digits
				b = new(big.Int).Mul(big.NewInt(int64(1+r.Intn(50))), pow10(r.Intn(19)))
				a = new(big.Int).Mul(b, big.NewInt(int64(r.Intn(2001)-1000)))
				a.Quo(a, big.NewInt(2))
				if r.Bool() {
					b.Neg(b)
				}
			}
		case "d":
			a = randDec(r)
			if (o.name == "dround64" || o.name == "dtrunc64") && r.Chance(1, 3) {
				// around the int64 bound on the integer part, at and beside the rounding tie
				a = new(big.Int).Mul(new(big.Int).Add(pow2(63), big.NewInt(int64(r.Intn(5)-3))), P)
				a.Add(a, new(big.Int).Mul(half, big.NewInt(int64(r.Intn(3)))))
				a.Add(a, big.NewInt(int64(r.Intn(3)-1)))
				if r.Bool() {
					a.Neg(a)
				}
			}
		case "di":
			a, b = randDec(r), randInt(r)
		}
		args := []string{a.String()}
		a0 := new(big.Int).Set(a)
		var b0 *big.Int
		if b != nil {
			args = append(args, b.String())
			b0 = new(big.Int).Set(b)
		}
		res := try(func() string { return o.f(a, b) })
		if a.Cmp(a0) != 0 || (b != nil && b.Cmp(b0) != 0) {
			res = "M!" + res
		}
		emit(o.name, args, res)
	}
	for _, o := range ops {
		if o.name != "alias" {
			continue
		}
		for j := 0; j < 40; j++ {
			a := randBig(r, 200)
			if j == 0 {
				a = big.NewInt(5)
			}
			emit(o.name, []string{a.String()}, try(func() string { return o.f(a, nil) }))
		}
	}
	js, _ := json.MarshalIndent(stats, "", " ")
	_ = os.WriteFile(*out+"/num.stats.json", js, 0644)
}
