// Command app: correspondence driver for the full application (engine `app`, C02-C11, C17):
// real BaseApp + x/auth + x/pos + x/gov on MemDB driven through ABCI, with an emulated Tendermint
// validator set. After EVERY op it dumps the state decoded from a raw iteration of the stores.
//
//	<out>/app.ops   input of the model (see DESIGN.md, engine `app`)
//	<out>/app.impl  one observation per op: "<hist>.<idx> <result> <state sections> T:<tm set>"
//	<out>/app.stats.json
package main

import (
	"bufio"
	"bytes"
	"encoding/hex"
	"encoding/json"
	"flag"
	"fmt"
	"math/big"
	"os"
	"runtime"
	"sort"
	"strings"
	"time"

	abci "github.com/tendermint/tendermint/abci/types"
	"github.com/tendermint/tendermint/crypto/ed25519"
	"github.com/tendermint/tendermint/crypto/secp256k1"
	"github.com/tendermint/tendermint/libs/log"
	tmtypes "github.com/tendermint/tendermint/types"
	dbm "github.com/tendermint/tm-db"

	bam "github.com/pokt-network/posmint/baseapp"
	"github.com/pokt-network/posmint/crypto"
	stypes "github.com/pokt-network/posmint/store/types"
	sdk "github.com/pokt-network/posmint/types"
	"github.com/pokt-network/posmint/x/auth"
	authExported "github.com/pokt-network/posmint/x/auth/exported"
	authTypes "github.com/pokt-network/posmint/x/auth/types"
	"github.com/pokt-network/posmint/x/gov"
	govTypes "github.com/pokt-network/posmint/x/gov/types"
	"github.com/pokt-network/posmint/x/pos"
	posTypes "github.com/pokt-network/posmint/x/pos/types"
	"verif/harness/internal/rng"
	"verif/harness/internal/simapp"
)

var stats = map[string]int{}

type key struct {
	priv crypto.PrivateKey
	pub  crypto.PublicKey
	addr sdk.Address
	subs []key // non-empty: an N-of-N multisignature key over these keys
}

// sign produces the signature of this key over msg; wrong >= 0 damages position `wrong` of a multisignature: mode 0 another
// key signs there, 1 the slot is left empty, 2 every slot is left empty, 3 the slot's signature carries one more byte
func (k key) sign(msg []byte, wrong, mode int) []byte {
	if len(k.subs) == 0 {
		sig, _ := k.priv.Sign(msg)
		return sig
	}
	ms := crypto.MultiSignature{}
	for i, s := range k.subs {
		signer := s
		if i == wrong && mode == 0 {
			signer = k.subs[(i+1)%len(k.subs)]
		}
		sg := signer.sign(msg, -1, 0)
		if i == wrong && mode == 3 {
			sg = append(sg, 0x01)
		}
		if (i == wrong && mode == 1) || (wrong >= 0 && mode == 2) {
			sg = nil
		}
		ms.Sigs = append(ms.Sigs, sg)
	}
	return ms.Marshal()
}

func mkMulti(subs []key) key {
	var pks []crypto.PublicKey
	for _, s := range subs {
		pks = append(pks, s.pub)
	}
	pub := crypto.PublicKeyMultiSignature{PublicKeys: pks}
	return key{pub: pub, addr: sdk.Address(pub.Address()), subs: subs}
}

func hx(b []byte) string {
	if len(b) == 0 {
		return "."
	}
	return hex.EncodeToString(b)
}

func mkKeys(n int, salt uint64) []key {
	ks := make([]key, n)
	for i := range ks {
		p := ed25519.GenPrivKeyFromSecret([]byte(fmt.Sprintf("verif-key-%d-%d", salt, i)))
		var priv crypto.PrivateKey = crypto.Ed25519PrivateKey(p)
		if i%4 == 3 { // the other key type
			priv = crypto.Secp256k1PrivateKey(secp256k1.GenPrivKeySecp256k1([]byte(fmt.Sprintf("verif-key-%d-%d", salt, i))))
		}
		ks[i] = key{priv: priv, pub: priv.PublicKey(), addr: sdk.Address(priv.PublicKey().Address())}
	}
	sort.Slice(ks, func(i, j int) bool { return string(ks[i].addr) < string(ks[j].addr) })
	return ks
}

func coins(n int64) sdk.Coins { return sdk.NewCoins(sdk.NewCoin(sdk.DefaultStakeDenom, sdk.NewInt(n))) }

// one recorded ABCI-level request of a history, for replay on other instances (C01)
type request struct {
	kind string // INIT BB AW BU TX EB CM
	bb   abci.RequestBeginBlock
	tx   []byte
	addr sdk.Address
	amt  int64
	sev  sdk.Dec
	hdr  abci.Header
	resA string  // consensus-relevant response of instance A
	acl  bool    // an accepted change of gov/acl
	msg  sdk.Msg // HM: a message handed to the governance handler directly
}

type hist struct {
	reqs   []request
	gen    *simapp.Genesis
	r      *rng.R
	id     int
	idx    int
	app    *simapp.App
	keys   []key
	wo, wi *bufio.Writer
	// emulated Tendermint validator set: address -> power, as of the latest applied batch
	tm      map[string]int64
	tmErr   string
	sets    map[int64]map[string]int64 // validator set per height: updates of EndBlock(H) define the set of H+2
	height  int64
	now     time.Time
	dead    bool
	pubAddr map[string]string // pubkey bytes -> address
	// hand-overs proposed by the latest gov/acl change: (parameter, previous owner, next owner)
	dupho     [][3]string // keys the latest gov/acl change lists twice: (parameter, owner by the first entry, owner by the later entry)
	handover  [][3]string
	forced    []txSpec
	db        dbm.DB
	cp        *abci.ConsensusParams // given at InitChain (nil: none)
	slotMates []key                 // validators that began unstaking in one block (one queue slot), in the order they were queued
	stranded  *key                  // a jailed, staked validator whose stake a parameter change has just put below the minimum
	// genesis accounts whose recorded public key is somebody else's (address -> that key)
	foreignKey map[string]key
	// the node's transaction index (filled at Commit) and the committed transactions that may be replayed
	index     *simapp.TxIndex
	blockTxs  []sentTx
	committed []sentTx
}

type sentTx struct {
	bz  []byte
	op  string
	res abci.ResponseDeliverTx
}

func (h *hist) modAddr(name string) sdk.Address { return authTypes.NewModuleAddress(name) }

// ---------------------------------------------------------------- state dump from raw stores
func (h *hist) dump() string { return dumpApp(h.app) }

func dumpApp(app *simapp.App) string {
	ms := app.Store()
	var sb strings.Builder
	// auth
	as := ms.GetKVStore(app.Keys[auth.StoreKey])
	it := as.Iterator(nil, nil)
	var accs []string
	supply := "?"
	for ; it.Valid(); it.Next() {
		k, v := it.Key(), it.Value()
		switch k[0] {
		case 0x00:
			var s authExported.SupplyI
			app.Cdc.MustUnmarshalBinaryLengthPrefixed(v, &s)
			supply = s.GetTotal().AmountOf(sdk.DefaultStakeDenom).String()
		case 0x01:
			var acc auth.Account
			app.Cdc.MustUnmarshalBinaryBare(v, &acc)
			accs = append(accs, hx(k[1:])+"="+acc.GetCoins().AmountOf(sdk.DefaultStakeDenom).String())
		default:
			accs = append(accs, "UNKNOWNKEY"+hx(k))
		}
	}
	it.Close()
	sb.WriteString("A:" + strings.Join(accs, ",") + " S:" + supply)
	// pos
	ps := ms.GetKVStore(app.Keys[posTypes.StoreKey])
	it = ps.Iterator(nil, nil)
	sec := map[byte][]string{}
	prop := "-"
	total := "0"
	for ; it.Valid(); it.Next() {
		k, v := it.Key(), it.Value()
		switch k[0] {
		case 0x01:
			var a sdk.Address
			app.Cdc.MustUnmarshalBinaryLengthPrefixed(v, &a)
			prop = hx(a)
		case 0x11:
			var si posTypes.ValidatorSigningInfo
			app.Cdc.MustUnmarshalBinaryLengthPrefixed(v, &si)
			tomb := 0
			if si.Tombstoned {
				tomb = 1
			}
			sec['G'] = append(sec['G'], fmt.Sprintf("%s=%d/%d/%d.%09d/%d/%d", hx(k[1:]), si.StartHeight, si.IndexOffset, si.JailedUntil.Unix(), si.JailedUntil.Nanosecond(), tomb, si.MissedBlocksCounter))
		case 0x12:
			var m bool
			app.Cdc.MustUnmarshalBinaryLengthPrefixed(v, &m)
			b := 0
			if m {
				b = 1
			}
			sec['M'] = append(sec['M'], fmt.Sprintf("%s=%d", hx(k[1:]), b))
		case 0x13:
			sec['K'] = append(sec['K'], hx(k[1:]))
		case 0x21:
			val := posTypes.MustUnmarshalValidator(app.Cdc, v)
			j := 0
			if val.Jailed {
				j = 1
			}
			sec['V'] = append(sec['V'], fmt.Sprintf("%s=%d/%d/%s/%d", hx(k[1:]), val.Status, j, val.StakedTokens.String(), val.UnstakingCompletionTime.UnixNano()))
		case 0x23:
			sec['I'] = append(sec['I'], hx(k[1:])+"="+hx(v))
		case 0x31:
			var p int64
			app.Cdc.MustUnmarshalBinaryLengthPrefixed(v, &p)
			sec['P'] = append(sec['P'], fmt.Sprintf("%s=%d", hx(k[1:]), p))
		case 0x32:
			var t sdk.Int
			app.Cdc.MustUnmarshalBinaryLengthPrefixed(v, &t)
			total = t.String()
		case 0x41:
			t, err := sdk.ParseTimeBytes(k[1:])
			var addrs []sdk.Address
			app.Cdc.MustUnmarshalBinaryLengthPrefixed(v, &addrs)
			var as []string
			for _, a := range addrs {
				as = append(as, hx(a))
			}
			ts := "BADTIME"
			if err == nil {
				ts = fmt.Sprint(t.UnixNano())
			}
			sec['Q'] = append(sec['Q'], ts+"="+strings.Join(as, "+"))
		case 0x51:
			var a sdk.Int
			app.Cdc.MustUnmarshalBinaryBare(v, &a)
			sec['W'] = append(sec['W'], hx(k[1:])+"="+a.String())
		case 0x52:
			var d sdk.Dec
			app.Cdc.MustUnmarshalBinaryBare(v, &d)
			sec['B'] = append(sec['B'], hx(k[1:])+"="+d.Int.String())
		default:
			sec['V'] = append(sec['V'], "UNKNOWNKEY"+hx(k))
		}
	}
	it.Close()
	for _, c := range []byte("VIPQGMWB") {
		sb.WriteString(" " + string(c) + ":" + strings.Join(sec[c], ","))
		if c == 'P' {
			sb.WriteString(";" + total)
		}
	}
	sb.WriteString(" R:" + prop)
	// params (raw JSON of every parameter of every subspace)
	prs := ms.GetKVStore(app.Keys[sdk.ParamsKey.Name()])
	it = prs.Iterator(nil, nil)
	var xs []string
	for ; it.Valid(); it.Next() {
		xs = append(xs, hx(it.Key())+"="+hx(it.Value()))
	}
	it.Close()
	sb.WriteString(" X:" + strings.Join(xs, ","))
	return sb.String()
}

func (h *hist) tmString() string {
	var xs []string
	for a, p := range h.tm {
		xs = append(xs, fmt.Sprintf("%s=%d", hx([]byte(a)), p))
	}
	sort.Strings(xs)
	s := "T:" + strings.Join(xs, ",")
	if h.tmErr != "" {
		s += " TERR:" + h.tmErr
	}
	return s
}

func (h *hist) emit(op string, res string) {
	fmt.Fprintln(h.wo, op)
	fmt.Fprintf(h.wi, "%d.%d %s %s %s\n", h.id, h.idx, res, h.dump(), h.tmString())
	h.idx++
	stats["op/"+strings.SplitN(op, " ", 2)[0]+"/"+strings.SplitN(res, "[", 2)[0]]++
}
func (h *hist) emitDead(op string) {
	fmt.Fprintln(h.wo, op)
	fmt.Fprintf(h.wi, "%d.%d ABORT\n", h.id, h.idx)
	h.idx++
	h.dead = true
	stats["op/"+strings.SplitN(op, " ", 2)[0]+"/ABORT"]++
}

// apply a batch of validator updates to the emulated Tendermint set, recording the three
// conditions C05 names (duplicate key, removal of an absent validator, negative power)
func (h *hist) applyUpdates(ups []abci.ValidatorUpdate) {
	seen := map[string]bool{}
	for _, u := range ups {
		pk, _ := tmtypes.PB2TM.PubKey(u.PubKey)
		a := string(pk.Address())
		if seen[a] {
			h.tmErr = "duplicate-key-in-batch"
		}
		seen[a] = true
		if u.Power < 0 {
			h.tmErr = "negative-power"
		} else if u.Power == 0 {
			if _, ok := h.tm[a]; !ok {
				h.tmErr = "removal-of-absent-validator"
			}
			delete(h.tm, a)
		} else {
			h.tm[a] = u.Power
		}
	}
}

func updatesString(ups []abci.ValidatorUpdate) string {
	var xs []string
	for _, u := range ups {
		pk, _ := tmtypes.PB2TM.PubKey(u.PubKey)
		xs = append(xs, fmt.Sprintf("%s:%d", hx(pk.Address()), u.Power))
	}
	return "U[" + strings.Join(xs, ",") + "]"
}

func try(f func()) (panicked bool) {
	defer func() {
		if r := recover(); r != nil {
			panicked = true
		}
	}()
	f()
	return false
}

// ---------------------------------------------------------------- transactions
type txSpec struct {
	msg       sdk.Msg
	spec      string // model encoding of the message
	signer    key    // who signs
	attached  *key   // key carried in the signature (nil: none)
	fee       int64
	memo      string
	mutate    int // 0 none, 1 fee, 2 memo, 3 entropy (after signing)
	sigEmpty  bool
	feeOther  int64 // additional fee coins in the second denomination "aaa" (the model ignores them)
	wrongSub  int   // multisig: index of the damaged sub-signature (-1: none)
	subMode   int   // how it is damaged (see key.sign)
	sigDamage int   // a single key's signature after signing: 1 one byte appended, 2 last byte dropped, 3 one bit flipped
}

func zzzCoins(n int64) sdk.Coins {
	if n == 0 {
		return nil
	}
	return sdk.Coins{sdk.NewCoin("zzz", sdk.NewInt(n))}
}

func feeCoins(upokt, other int64) sdk.Coins {
	cs := sdk.Coins{}
	if other > 0 {
		cs = append(cs, sdk.NewCoin("aaa", sdk.NewInt(other)))
	}
	if upokt > 0 {
		cs = append(cs, sdk.NewCoin(sdk.DefaultStakeDenom, sdk.NewInt(upokt)))
	}
	return cs
}

func (h *hist) buildTx(t txSpec) ([]byte, string) {
	entropy := int64(h.r.U64() >> 1)
	fee := feeCoins(t.fee, t.feeOther)
	signBytes, err := auth.StdSignBytes(simapp.ChainID, entropy, fee, t.msg, t.memo)
	if err != nil {
		panic(err)
	}
	sig := t.signer.sign(signBytes, t.wrongSub, t.subMode)
	switch t.sigDamage {
	case 1:
		sig = append(sig, byte(h.r.Intn(256)))
	case 2:
		sig = sig[:len(sig)-1]
	case 3:
		sig[h.r.Intn(len(sig))] ^= byte(1 << uint(h.r.Intn(8)))
	}
	memo := t.memo
	switch t.mutate {
	case 4: // white space only: the signed memo and the carried memo differ in nothing a reader would notice
		memo = []string{memo + " ", " " + memo, memo + "\n", memo + "\t ", "\u00a0" + memo}[h.r.Intn(5)]
	case 1:
		fee = feeCoins(t.fee+1, t.feeOther)
		t.fee = t.fee + 1
	case 2:
		memo = memo + "x"
	case 3:
		entropy++
	}
	if t.sigEmpty {
		sig = nil
	}
	ss := auth.StdSignature{Signature: sig}
	att := "-"
	if t.attached != nil {
		ss.PublicKey = t.attached.pub
		att = hx(t.attached.addr)
	}
	tx := authTypes.NewStdTx(t.msg, fee, ss, memo, entropy)
	bz, err := auth.DefaultTxEncoder(h.app.Cdc)(tx)
	if err != nil {
		panic(err)
	}
	mut := 0
	if t.mutate != 0 {
		mut = 1
	}
	se := 0
	if t.sigEmpty {
		se = 1
	}
	multi := 0
	if t.attached != nil && len(t.attached.subs) > 0 {
		multi = 1 + len(t.attached.subs) // what recSignDepth counts for a flat multisig key
	}
	if t.attached == nil { // the key is looked up from the signer's account
		for _, k := range h.keys {
			if k.addr.Equals(t.msg.GetSigner()) && len(k.subs) > 0 {
				multi = 1 + len(k.subs)
			}
		}
	}
	by := hx(t.signer.addr)
	if (len(t.signer.subs) > 0 && t.wrongSub >= 0) || t.sigDamage != 0 {
		by = "00" // one position was signed by another key, or the signature was damaged: nobody's valid signature
	}
	op := fmt.Sprintf("TX %s fee=%d memo=%d att=%s multi=%d by=%s mut=%d sigempty=%d dup=0", t.spec, t.fee, len(memo), att, multi, by, mut, se)
	return bz, op
}

// nearMiss returns the address itself, a stranger's, or one that differs from it in the case of one ASCII letter or in one
// byte above 0x7f (nil when the address offers no such byte)
func nearMiss(r *rng.R, a sdk.Address) sdk.Address {
	b := append(sdk.Address{}, a...)
	if len(b) == 0 {
		return nil
	}
	switch r.Intn(5) {
	case 0:
		return b
	case 1:
		b[r.Intn(len(b))] ^= 0x01
		return b
	case 2, 3:
		var at []int
		for i, c := range b {
			if (c >= 'a' && c <= 'z') || (c >= 'A' && c <= 'Z') {
				at = append(at, i)
			}
		}
		if len(at) == 0 {
			return nil
		}
		b[at[r.Intn(len(at))]] ^= 0x20
		return b
	default:
		var at []int
		for i, c := range b {
			if c >= 0x80 {
				at = append(at, i)
			}
		}
		if len(at) == 0 {
			return nil
		}
		i := at[r.Intn(len(at))]
		b[i] = 0x80 + (b[i]+1+byte(r.Intn(0x7e)))%0x80
		return b
	}
}

func (h *hist) pick() key { return h.keys[h.r.Intn(len(h.keys))] }

func (h *hist) balance(a sdk.Address) int64 {
	ctx := sdk.NewContext(h.app.Store(), abci.Header{}, false, nil)
	return h.app.AK.GetCoins(ctx, a).AmountOf(sdk.DefaultStakeDenom).Int64()
}

type valView struct {
	status int
	jailed bool
	tokens int64
}

func (h *hist) validator(a sdk.Address) (valView, bool) {
	bz := h.app.Store().GetKVStore(h.app.Keys[posTypes.StoreKey]).Get(posTypes.KeyForValByAllVals(a))
	if bz == nil {
		return valView{}, false
	}
	v := posTypes.MustUnmarshalValidator(h.app.Cdc, bz)
	return valView{int(v.Status), v.Jailed, v.StakedTokens.Int64()}, true
}

var allParamNames = []string{"auth/MaxMemoCharacters", "auth/TxSigLimit", "auth/FeeMultipliers", "gov/daoOwner", "gov/acl", "gov/upgrade",
	"pos/UnstakingTime", "pos/MaxValidators", "pos/StakeDenom", "pos/StakeMinimum", "pos/ProposerRewardPercentage", "pos/MaxEvidenceAge",
	"pos/SignedBlocksWindow", "pos/MinSignedPerWindow", "pos/DowntimeJailDuration", "pos/SlashFractionDoubleSign", "pos/SlashFractionDowntime"}

// the generator's key for an address (generation only), or the fallback
func (h *hist) keyOf(a sdk.Address, fallback key) key {
	for _, k := range h.keys {
		if k.addr.Equals(a) {
			return k
		}
	}
	return fallback
}

func (h *hist) genTx(pp posTypes.Params, govOwner map[string]key, daoOwner key, paramPool []paramChoice) txSpec {
	r := h.r
	if len(h.forced) > 0 {
		t := h.forced[0]
		h.forced = h.forced[1:]
		return t
	}
	k := h.pick()
	t := txSpec{signer: k, attached: &k, fee: 0, wrongSub: -1}
	minStake := pp.StakeMinimum
	// a validator convicted of double signing tries to come back: stake again, begin unstaking, stake once more
	if r.Chance(1, 5) {
		ctx := sdk.NewContext(h.app.Store(), abci.Header{}, false, nil)
		for _, c := range h.keys {
			si, ok := h.app.PK.GetValidatorSigningInfo(ctx, c.addr)
			if !ok || !si.Tombstoned || len(c.subs) > 0 {
				continue
			}
			cc := c
			ft := txSpec{signer: cc, attached: &cc, wrongSub: -1}
			if v, found := h.validator(c.addr); found && v.status == 2 {
				ft.msg = posTypes.MsgBeginUnstake{Address: c.addr}
				ft.spec = "unstake:" + hx(c.addr)
			} else {
				amt := minStake + int64(r.Intn(1000))
				ft.msg = posTypes.MsgStake{PubKey: c.pub, Value: sdk.NewInt(amt)}
				ft.spec = fmt.Sprintf("stake:%s:%s:%d", hx(c.pub.RawBytes()), hx(c.addr), amt)
			}
			stats["tx/tombstoned-comeback"]++
			return ft
		}
	}
	// the minimum stake is raised just above a jailed (and still staked) validator: when its term is over it must stay out
	if h.stranded == nil && r.Chance(1, 16) {
		for _, c := range h.keys {
			v, ok := h.validator(c.addr)
			if !ok || v.status != 2 || !v.jailed || h.tombstoned(c.addr) || len(c.subs) > 0 || v.tokens < minStake {
				continue
			}
			ctx := sdk.NewContext(h.app.Store(), abci.Header{}, false, nil)
			from := h.keyOf(h.app.GK.GetACL(ctx).GetOwner("pos/StakeMinimum"), govOwner["pos/StakeMinimum"])
			nv := v.tokens + 1 + int64(r.Intn(2))*500000
			js := []byte(fmt.Sprintf(`"%d"`, nv))
			ft := txSpec{signer: from, attached: &from, wrongSub: -1}
			ft.msg = govTypes.MsgChangeParam{FromAddress: from.addr, ParamKey: "pos/StakeMinimum", ParamVal: js}
			ft.spec = fmt.Sprintf("param:%s:%s:pos:2:%d:%s:1", hx(from.addr), hx([]byte("pos/StakeMinimum")), nv, hx(js))
			ft.fee = h.app.AK.GetParams(ctx).FeeMultiplier.GetFee(ft.msg).Int64()
			stats["param/minimum-raised-above-a-jailed-validator"]++
			return ft
		}
	}
	switch c := r.Intn(21); {
	case c == 20: // schedule an upgrade (the owner of gov/upgrade, sometimes somebody else; sometimes height 0: invalid)
		from := h.keyOf(h.app.GK.GetACL(sdk.NewContext(h.app.Store(), abci.Header{}, false, nil)).GetOwner("gov/upgrade"), govOwner["gov/upgrade"])
		if r.Chance(1, 4) {
			from = k
		}
		// (a height no history reaches: at the upgrade height the gov module's BeginBlock interrupts the process, by design)
		up := govTypes.NewUpgrade(h.height+int64(1000+r.Intn(100000)), fmt.Sprintf("0.%d.%d", r.Intn(5), r.Intn(10)))
		if r.Chance(1, 6) {
			up.Height = 0
		}
		raw, _ := h.app.Cdc.MarshalJSON(up)
		t.signer, t.attached = from, &from
		t.msg = govTypes.MsgUpgrade{Address: from.addr, Upgrade: up}
		t.spec = fmt.Sprintf("upgrade:%s:%d:%s", hx(from.addr), up.Height, hx(raw))
	case c < 6: // stake (a consensus key: never a multisig key)
		for len(k.subs) > 0 {
			k = h.pick()
			t.signer, t.attached = k, &k
		}
		bal := h.balance(k.addr)
		var amt int64
		switch r.Intn(7) {
		case 0:
			amt = minStake
		case 1:
			amt = minStake - 1
		case 2:
			amt = bal
		case 3:
			amt = bal + 1
		case 4:
			amt = minStake + int64(r.Intn(3000000))
		case 5:
			amt = 1
		default:
			amt = minStake*int64(1+r.Intn(4)) + int64(r.Intn(1000))
		}
		if amt <= 0 && r.Chance(9, 10) {
			amt = minStake
		}
		t.msg = posTypes.MsgStake{PubKey: k.pub, Value: sdk.NewInt(amt)}
		t.spec = fmt.Sprintf("stake:%s:%s:%d", hx(k.pub.RawBytes()), hx(k.addr), amt)
	case c < 9: // begin unstake (mostly by a validator that is staked, so that several unstake in one block)
		if r.Chance(7, 10) {
			var cands []key
			for _, c := range h.keys {
				if v, ok := h.validator(c.addr); ok && v.status == 2 {
					cands = append(cands, c)
				}
			}
			if len(cands) > 0 {
				k = cands[r.Intn(len(cands))]
				// a validator that fell below a raised minimum stake is the case the handler must refuse cleanly
				for _, c := range cands {
					if v, _ := h.validator(c.addr); v.tokens < minStake && r.Chance(2, 3) {
						k = c
					}
				}
				t.signer, t.attached = k, &k
			}
		}
		t.msg = posTypes.MsgBeginUnstake{Address: k.addr}
		t.spec = "unstake:" + hx(k.addr)
	case c < 12: // unjail (mostly by a validator that is jailed)
		if r.Chance(7, 10) {
			var cands []key
			for _, c := range h.keys {
				if v, ok := h.validator(c.addr); ok && v.jailed {
					cands = append(cands, c)
				}
			}
			if len(cands) > 0 {
				k = cands[r.Intn(len(cands))]
				t.signer, t.attached = k, &k
			}
		}
		t.msg = posTypes.MsgUnjail{ValidatorAddr: k.addr}
		t.spec = "unjail:" + hx(k.addr)
	case c < 16: // send
		to := h.pick()
		if r.Chance(1, 12) || (h.height <= 2 && r.Chance(1, 2)) { // a module account's raw address as the recipient (early on it may not have been materialised yet)
			to = key{addr: h.modAddr([]string{auth.FeeCollectorName, posTypes.ModuleName, posTypes.StakedPoolName, govTypes.DAOAccountName}[r.Intn(4)])}
		}
		if r.Chance(1, 14) { // a recipient nobody has seen yet whose address is longer (or shorter) than the usual twenty bytes
			to = key{addr: [][]byte{append(append([]byte{}, to.addr...), byte(r.Intn(256))), to.addr[:19], append(append([]byte{}, to.addr...), to.addr...), {0x51}}[r.Intn(4)]}
			stats["tx/send-to-an-address-of-unusual-length"]++
		}
		bal := h.balance(k.addr)
		var amt int64
		switch r.Intn(5) {
		case 0:
			amt = bal
		case 1:
			amt = bal + 1
		case 2:
			amt = 1
		default:
			amt = 1 + int64(r.Intn(2000000))
		}
		if amt <= 0 {
			amt = 1
		}
		if r.Chance(1, 12) {
			amt = 0
			stats["tx/basic-invalid/send"]++
		}
		t.msg = posTypes.MsgSend{FromAddress: k.addr, ToAddress: to.addr, Amount: sdk.NewInt(amt)}
		t.spec = fmt.Sprintf("send:%s:%s:%d", hx(k.addr), hx(to.addr), amt)
	case c < 18: // dao transfer / burn
		from := h.keyOf(h.app.GK.GetDAOOwner(sdk.NewContext(h.app.Store(), abci.Header{}, false, nil)), daoOwner)
		if r.Chance(1, 4) {
			from = k
		}
		if r.Chance(1, 6) { // whoever may CHANGE the gov/daoOwner parameter is not thereby the DAO owner
			from = h.keyOf(h.app.GK.GetACL(sdk.NewContext(h.app.Store(), abci.Header{}, false, nil)).GetOwner("gov/daoOwner"), govOwner["gov/daoOwner"])
			stats["tx/dao-by-the-owner-of-the-daoOwner-parameter"]++
		}
		to := h.pick()
		if r.Chance(1, 10) {
			to = key{addr: append(append([]byte{}, to.addr...), byte(r.Intn(256)))}
		}
		if r.Chance(1, 8) { // the DAO pays itself: must be a no-op on its balance
			to = key{addr: h.modAddr(govTypes.DAOAccountName)}
		}
		daoBal := h.balance(h.modAddr(govTypes.DAOAccountName))
		amt := int64(1 + r.Intn(100000))
		if r.Chance(1, 5) {
			amt = daoBal
		}
		if r.Chance(1, 6) {
			amt = daoBal + 1
		}
		action := govTypes.DAOTransferString
		an := 1
		if r.Chance(1, 3) {
			action = govTypes.DAOBurnString
			an = 2
		}
		if amt <= 0 {
			amt = 1
		}
		if r.Chance(1, 8) { // statelessly invalid, everything else in order: must leave no trace (not even the fee)
			if r.Bool() {
				amt = 0
			} else {
				action, an = "dao_party", 3
			}
			stats["tx/basic-invalid/dao"]++
		}
		t.signer, t.attached = from, &from
		t.msg = govTypes.MsgDAOTransfer{FromAddress: from.addr, ToAddress: to.addr, Amount: sdk.NewInt(amt), Action: action}
		t.spec = fmt.Sprintf("dao:%s:%s:%d:%d", hx(from.addr), hx(to.addr), amt, an)
		if r.Chance(1, 15) { // an amount that does not fit an int64: the stateless validation itself panics (Int64()), runTx must recover
			huge := new(big.Int).Lsh(big.NewInt(1), uint(63+r.Intn(3)))
			huge.Add(huge, big.NewInt(int64(r.Intn(5))))
			t.msg = govTypes.MsgDAOTransfer{FromAddress: from.addr, ToAddress: to.addr, Amount: sdk.NewIntFromBigInt(huge), Action: action}
			t.spec = fmt.Sprintf("dao:%s:%s:%s:%d", hx(from.addr), hx(to.addr), huge.String(), an)
			stats["tx/basic-invalid/dao-amount-beyond-int64"]++
		}
		t.fee = govTypes.GovFeeMap[govTypes.MsgDAOTransferName]
	default: // change param
		pc := paramPool[r.Intn(len(paramPool))]
		if r.Chance(1, 5) {
			pc = paramPool[1] // pos/StakeMinimum: raising it strands validators below the new minimum
		}
		// the owner as of the last commit (inside a block this may already be the PREVIOUS owner: such a
		// message must be refused)
		from := h.keyOf(h.app.GK.GetACL(sdk.NewContext(h.app.Store(), abci.Header{}, false, nil)).GetOwner(pc.key), govOwner[pc.key])
		if r.Chance(1, 3) {
			from = k
		}
		val, model := pc.gen(h)
		if r.Chance(1, 8) { // a key nobody owns (not in the ACL): refused from everybody, the owners of OTHER parameters included
			from = k
			if r.Chance(2, 3) {
				from = h.keys[r.Intn(3)]
			}
			pc.key = []string{"gov/acl/x", "pos/MaxValidators/x", "pos/Nope", "auth/acl", "nosuch/x", "bank/denom", "noslash", "/", ""}[r.Intn(9)]
			grab := govTypes.ACL{}
			for _, p := range allParamNames {
				grab.SetOwner(p, from.addr)
			}
			val, _ = h.app.Cdc.MarshalJSON(grab)
			model = fmt.Sprintf("raw::%s:1", hx(val))
		}
		t.signer, t.attached = from, &from
		t.msg = govTypes.MsgChangeParam{FromAddress: from.addr, ParamKey: pc.key, ParamVal: val}
		t.spec = fmt.Sprintf("param:%s:%s:%s", hx(from.addr), hx([]byte(pc.key)), model)
		t.fee = govTypes.GovFeeMap[govTypes.MsgChangeParamName]
	}
	// the fee the current multipliers ask for (generation only; the variations below move away from it)
	if t.msg != nil {
		t.fee = h.app.AK.GetParams(sdk.NewContext(h.app.Store(), abci.Header{}, false, nil)).FeeMultiplier.GetFee(t.msg).Int64()
	}
	// the holder of a key that the genesis file recorded for ANOTHER address signs for that address, no key attached
	if o, ok := h.foreignKey[string(t.msg.GetSigner())]; ok && r.Chance(2, 3) {
		t.signer, t.attached = o, nil
		stats["tx/signed-with-the-foreign-key-on-record"]++
		return t
	}
	// a multisignature with one position (or all) damaged: an otherwise valid, properly paid transaction
	if len(t.signer.subs) > 0 && t.attached != nil && r.Chance(1, 3) {
		t.wrongSub, t.subMode = r.Intn(len(t.signer.subs)), r.Intn(4)
		stats[fmt.Sprintf("tx/variation/multisig-slot-damaged/%d", t.subMode)]++
		return t
	}
	// fee / signature variations
	switch r.Intn(24) {
	case 0:
		o := h.pick() // attacker key attached, attacker signs
		t.signer, t.attached = o, &o
	case 1:
		o := h.pick() // right key attached, somebody else signs
		t.signer = o
	case 2:
		t.mutate = 1 + r.Intn(4)
	case 3:
		t.attached = nil
	case 4:
		if t.fee > 0 {
			t.fee--
		}
	case 5:
		t.fee += int64(1 + r.Intn(5000))
	case 6:
		t.fee = h.balance(t.signer.addr) + 1
	case 7:
		t.sigEmpty = true
	case 8:
		t.memo = strings.Repeat("m", 250+r.Intn(12))
	case 9: // part (or all) of the fee in another denomination (only what the signer can pay: the model ignores it)
		ctx := sdk.NewContext(h.app.Store(), abci.Header{}, false, nil)
		have := h.app.AK.GetCoins(ctx, t.msg.GetSigner()).AmountOf("aaa").Int64()
		if have < 2 {
			break
		}
		t.feeOther = 1 + int64(r.Intn(int(have)/2))
		stats["tx/variation/other-denom-fee/"+strings.SplitN(t.spec, ":", 2)[0]]++
		if r.Bool() {
			t.fee = 0
		} else if r.Bool() && t.fee > 0 {
			t.fee = 1
		}
	case 12, 13: // a message with a fee, paid (partly) in the other denomination
		ctx := sdk.NewContext(h.app.Store(), abci.Header{}, false, nil)
		have := h.app.AK.GetCoins(ctx, t.msg.GetSigner()).AmountOf("aaa").Int64()
		if have < 2 || t.fee == 0 {
			break
		}
		t.feeOther = 1 + int64(r.Intn(int(have)/2))
		stats["tx/variation/other-denom-fee/"+strings.SplitN(t.spec, ":", 2)[0]]++
		t.fee = []int64{0, 1, t.fee - 1, t.fee}[r.Intn(4)]
	case 10: // a multisig attacker key for somebody else's message
		for _, m := range h.keys {
			if len(m.subs) > 0 && len(m.subs) < 7 {
				mm := m
				t.signer, t.attached = mm, &mm
			}
		}
	case 11, 14:
		if len(t.signer.subs) > 0 {
			t.wrongSub, t.subMode = r.Intn(len(t.signer.subs)), r.Intn(4)
			stats[fmt.Sprintf("tx/variation/multisig-slot-damaged/%d", t.subMode)]++
		} else {
			t.sigDamage = 1 + r.Intn(3)
			stats[fmt.Sprintf("tx/variation/signature-damaged/%d", t.sigDamage)]++
		}
	}
	return t
}

func (h *hist) validatorFull(a sdk.Address) (posTypes.Validator, bool) {
	bz := h.app.Store().GetKVStore(h.app.Keys[posTypes.StoreKey]).Get(posTypes.KeyForValByAllVals(a))
	if bz == nil {
		return posTypes.Validator{}, false
	}
	return posTypes.MustUnmarshalValidator(h.app.Cdc, bz), true
}
func (h *hist) jailedUntil(a sdk.Address) (time.Time, bool) {
	bz := h.app.Store().GetKVStore(h.app.Keys[posTypes.StoreKey]).Get(posTypes.GetValidatorSigningInfoKey(a))
	if bz == nil {
		return time.Time{}, false
	}
	var si posTypes.ValidatorSigningInfo
	h.app.Cdc.MustUnmarshalBinaryLengthPrefixed(bz, &si)
	return si.JailedUntil, true
}

func (h *hist) tombstoned(a sdk.Address) bool {
	bz := h.app.Store().GetKVStore(h.app.Keys[posTypes.StoreKey]).Get(posTypes.GetValidatorSigningInfoKey(a))
	if bz == nil {
		return false
	}
	var si posTypes.ValidatorSigningInfo
	h.app.Cdc.MustUnmarshalBinaryLengthPrefixed(bz, &si)
	return si.Tombstoned
}

type paramChoice struct {
	key string
	gen func(h *hist) (jsonVal []byte, model string)
}

// the model part is  <kind>:<args>:<stored raw hex>:<wellformed>
func posNum(field int, f func(h *hist) int64, dur bool) func(h *hist) ([]byte, string) {
	return func(h *hist) ([]byte, string) {
		v := f(h)
		js := []byte(fmt.Sprintf(`"%d"`, v))
		return js, fmt.Sprintf("pos:%d:%d:%s:1", field, v, hx(js))
	}
}

// The IAVL store's iterator feeds its consumer from a goroutine that runs one node ahead and is only told to stop by
// Close(): after an iteration that ends early (UpdateTendermintValidators at the MaxValidators cut-off) that goroutine may
// still be reading tree nodes when Commit prunes them ("Value missing for hash ..." panic in the background goroutine,
// seen once in four runs under load). The driver therefore runs Go code on one processor and lets every other goroutine
// run to its next blocking point before each Commit, so that its own runs are reproducible.
func quiesce() {
	for i := 0; i < 8; i++ {
		runtime.Gosched()
	}
}

func main() {
	runtime.GOMAXPROCS(1)
	seed := flag.Uint64("seed", 1, "seed")
	n := flag.Int("n", 100, "number of histories")
	blocks := flag.Int("blocks", 25, "max blocks per history")
	out := flag.String("out", ".", "output directory")
	idbase := flag.Int("idbase", 0, "id of the first history (shards of one run use disjoint ranges)")
	flag.Parse()
	r := rng.New(*seed)
	inflight = *out + "/app.inflight"
	fo, _ := os.Create(*out + "/app.ops")
	fi, _ := os.Create(*out + "/app.impl")
	wo, wi := bufio.NewWriter(fo), bufio.NewWriter(fi)
	fd, _ := os.Create(*out + "/app.det")
	det = bufio.NewWriter(fd)
	fx, _ := os.Create(*out + "/app.xi")
	xi = bufio.NewWriter(fx)
	fg, _ := os.Create(*out + "/app.gv")
	gv = bufio.NewWriter(fg)
	defer func() { gv.Flush(); fg.Close() }()
	fq, _ := os.Create(*out + "/app.qry")
	qry = bufio.NewWriter(fq)
	defer func() { qry.Flush(); fq.Close() }()
	defer func() {
		wo.Flush()
		wi.Flush()
		det.Flush()
		xi.Flush()
		fo.Close()
		fi.Close()
		fd.Close()
		fx.Close()
	}()
	for i := 0; i < *n; i++ {
		runHistory(r, *idbase+i, *blocks, wo, wi)
	}
	js, _ := json.MarshalIndent(stats, "", " ")
	_ = os.WriteFile(*out+"/app.stats.json", js, 0644)
	_ = os.Remove(inflight)
}

func decRaw(num, den int64) sdk.Dec { return sdk.NewDec(num).Quo(sdk.NewDec(den)) }

func runHistory(r *rng.R, id, maxBlocks int, wo, wi *bufio.Writer) {
	h := &hist{r: r, id: id, wo: wo, wi: wi, tm: map[string]int64{}, pubAddr: map[string]string{}}
	h.keys = mkKeys(8+r.Intn(4), r.U64()%5)
	nPlain := len(h.keys)
	h.keys = append(h.keys, mkMulti([]key{h.keys[0], h.keys[1]}), mkMulti([]key{h.keys[2], h.keys[3], h.keys[4]}),
		mkMulti([]key{h.keys[0], h.keys[1], h.keys[2], h.keys[3], h.keys[4], h.keys[5], h.keys[6]}))
	// ---------------- parameters
	windows := []int64{2, 3, 4, 5, 7, 8}
	minSigned := []sdk.Dec{decRaw(1, 2), decRaw(1, 4), decRaw(3, 4), decRaw(9, 10), decRaw(0, 1), decRaw(1, 1), decRaw(1, 3)}
	fractions := []sdk.Dec{decRaw(1, 100), decRaw(1, 20), decRaw(1, 2), decRaw(1, 1), decRaw(0, 1), decRaw(1, 3), decRaw(999, 1000)}
	pp := posTypes.DefaultParams()
	pp.UnstakingTime = time.Duration(1+r.Intn(40)) * time.Second
	zeroUnstaking := r.Chance(1, 10) // the stake is due back in the very block of the begin-unstake
	if r.Chance(1, 3) {
		pp.UnstakingTime += time.Duration(r.Intn(1000000000))
	}
	if zeroUnstaking {
		pp.UnstakingTime = 0
		stats["genesis/unstaking-time-0"]++
	}
	pp.MaxValidators = uint64(1 + r.Intn(6))
	pp.StakeMinimum = 1000000
	pp.MaxEvidenceAge = time.Duration(5+r.Intn(60)) * time.Second
	pp.SignedBlocksWindow = windows[r.Intn(len(windows))]
	pp.MinSignedPerWindow = minSigned[r.Intn(len(minSigned))]
	pp.DowntimeJailDuration = time.Duration(1+r.Intn(30)) * time.Second
	pp.SlashFractionDoubleSign = fractions[r.Intn(len(fractions))]
	pp.SlashFractionDowntime = fractions[r.Intn(len(fractions))]
	ap := authTypes.DefaultParams()
	ap.FeeMultiplier.Default = int64(1 + r.Intn(3))
	if r.Bool() {
		ap.FeeMultiplier.FeeMultis = []authTypes.FeeMultiplier{{Key: govTypes.MsgDAOTransferName, Multiplier: int64(1 + r.Intn(4))}}
		if r.Bool() { // several entries, in any order: every one of them applies, not only the first
			all := []string{govTypes.MsgDAOTransferName, govTypes.MsgChangeParamName, govTypes.MsgUpgradeName}
			ap.FeeMultiplier.FeeMultis = nil
			for _, j := range []int{r.Intn(3), r.Intn(3), r.Intn(3)} {
				dupKey := false
				for _, fm := range ap.FeeMultiplier.FeeMultis {
					dupKey = dupKey || fm.Key == all[j]
				}
				if !dupKey {
					ap.FeeMultiplier.FeeMultis = append(ap.FeeMultiplier.FeeMultis, authTypes.FeeMultiplier{Key: all[j], Multiplier: int64(1 + r.Intn(5))})
				}
			}
		}
	}
	// ---------------- accounts, validators
	var accs authTypes.Accounts
	var vals posTypes.Validators
	supply := int64(0)
	otherSupply, zzzSupply := int64(0), int64(0)
	nv := 1 + r.Intn(5)
	// a quarter of the histories start with a tie in power exactly at the MaxValidators cut-off: every validator has
	// the same power, stakes differ below the power unit, and one candidate does not fit
	cutoffTie := r.Chance(1, 4)
	tiePower := int64(1 + r.Intn(3))
	if cutoffTie {
		nv = 2 + r.Intn(4)
	}
	staked := int64(0)
	type accline struct {
		addr string
		bal  int64
	}
	var acclines []accline
	var vallines []string
	var pkof []string
	for i, k := range h.keys {
		bal := int64(0)
		switch r.Intn(5) {
		case 0:
			bal = 0
		case 1:
			bal = int64(r.Intn(1000000))
		default:
			bal = 1000000*int64(1+r.Intn(8)) + int64(r.Intn(500000))
		}
		if i < 3 && r.Chance(4, 5) { // the governance owners come from the first three keys: mostly able to pay the fee
			bal = 1000000*int64(2+r.Intn(8)) + int64(r.Intn(500000))
		}
		if r.Chance(1, 8) && i >= nv {
			continue // no account at all
		}
		accCoins := sdk.Coins{sdk.NewCoin("aaa", sdk.NewInt(100000))}
		if bal > 0 {
			accCoins = append(accCoins, sdk.NewCoin(sdk.DefaultStakeDenom, sdk.NewInt(bal)))
		}
		otherSupply += 100000
		if r.Chance(1, 3) { // a third denomination that sorts AFTER the staking one (an account may hold nothing else)
			accCoins = append(accCoins, sdk.NewCoin("zzz", sdk.NewInt(7)))
			zzzSupply += 7
			if bal == 0 {
				stats["genesis/account-holding-only-other-denominations"]++
			}
		}
		rec := k.pub
		if i >= 3 && i < nPlain && h.foreignKey == nil && r.Chance(1, 6) {
			// the genesis file records ANOTHER key for this account (InitGenesis stores accounts verbatim): whoever
			// holds that key must still not be able to act for this address
			o := h.keys[(i+1+r.Intn(nPlain-1))%nPlain]
			if !o.addr.Equals(k.addr) {
				rec = o.pub
				h.foreignKey = map[string]key{string(k.addr): o}
				pkof = append(pkof, fmt.Sprintf("PKOF %s %s", hx(k.addr), hx(o.addr)))
				stats["genesis/account-with-foreign-key"]++
			}
		}
		accs = append(accs, &authTypes.BaseAccount{Address: k.addr, Coins: accCoins, PubKey: rec})
		acclines = append(acclines, accline{hx(k.addr), bal})
		supply += bal
		h.pubAddr[string(k.pub.RawBytes())] = string(k.addr)
	}
	perm := r.Intn(nPlain)
	for i := 0; i < nv; i++ {
		k := h.keys[(perm+i*3)%nPlain]
		dup := false
		for _, v := range vals {
			if v.Address.Equals(k.addr) {
				dup = true
			}
		}
		if dup {
			continue
		}
		tokens := 1000000*int64(1+r.Intn(4)) + int64(r.Intn(3))*int64(r.Intn(900000))
		if r.Chance(1, 3) && len(vals) > 0 {
			tokens = vals[len(vals)-1].StakedTokens.Int64() // equal powers at the cut-off
			if r.Bool() {                                   // ... with different stakes below the power unit
				tokens = tokens/1000000*1000000 + int64(r.Intn(1000000))
			}
		}
		if cutoffTie {
			tokens = tiePower*1000000 + int64(r.Intn(1000000))
		}
		vals = append(vals, posTypes.NewValidator(k.addr, k.pub, sdk.NewInt(tokens)))
		vallines = append(vallines, fmt.Sprintf("VAL %s %s %d", hx(k.addr), hx(k.pub.RawBytes()), tokens))
		staked += tokens
	}
	if cutoffTie && len(vals) > 1 {
		pp.MaxValidators = uint64(len(vals) - 1)
		stats["genesis/cutoff-tie"]++
	}
	daoTokens := int64(r.Intn(3000000))
	if r.Chance(1, 4) {
		daoTokens = 0 // the default genesis: the DAO starts empty
	}
	fee, pool, posm, dao := h.modAddr(auth.FeeCollectorName), h.modAddr(posTypes.StakedPoolName), h.modAddr(posTypes.ModuleName), h.modAddr(govTypes.DAOAccountName)
	poolAcc := authTypes.NewEmptyModuleAccount(posTypes.StakedPoolName, auth.Burner, auth.Staking, auth.Minter)
	_ = poolAcc.SetCoins(coins(staked))
	if r.Chance(1, 5) {
		// the pool pre-funded as an ORDINARY account in the auth genesis (pos's InitGenesis allows it): the first use
		// must turn it into the module account with its permissions, balance kept
		accs = append(accs, &authTypes.BaseAccount{Address: pool, Coins: coins(staked)})
		stats["genesis/pool-as-plain-account"]++
	} else {
		accs = append(accs, poolAcc)
	}
	acclines = append(acclines, accline{hx(pool), staked})
	supply += staked
	// ---------------- gov
	allParams := []string{"auth/MaxMemoCharacters", "auth/TxSigLimit", "auth/FeeMultipliers", "gov/daoOwner", "gov/acl", "gov/upgrade",
		"pos/UnstakingTime", "pos/MaxValidators", "pos/StakeDenom", "pos/StakeMinimum", "pos/ProposerRewardPercentage", "pos/MaxEvidenceAge",
		"pos/SignedBlocksWindow", "pos/MinSignedPerWindow", "pos/DowntimeJailDuration", "pos/SlashFractionDoubleSign", "pos/SlashFractionDowntime"}
	acl := govTypes.ACL{}
	govOwner := map[string]key{}
	var aclParts []string
	for _, p := range allParams {
		o := h.keys[r.Intn(3)]
		acl.SetOwner(p, o.addr)
		govOwner[p] = o
		aclParts = append(aclParts, hx([]byte(p))+"="+hx(o.addr))
	}
	daoOwner := h.keys[r.Intn(3)]
	gp := govTypes.Params{ACL: acl, DAOOwner: daoOwner.addr, Upgrade: govTypes.NewUpgrade(0, "")}
	gen := &simapp.Genesis{
		Auth: authTypes.GenesisState{Params: ap, Accounts: accs, Supply: append(feeCoins(supply, otherSupply), zzzCoins(zzzSupply)...)},
		Pos:  posTypes.GenesisState{Params: pp, PrevStateTotalPower: sdk.ZeroInt(), Validators: vals},
		Gov:  govTypes.GenesisState{Params: gp, DAOTokens: sdk.NewInt(daoTokens)},
	}
	// ---------------- header for the model
	fmt.Fprintf(wo, "H %d fee=%s pool=%s pos=%s dao=%s govfee=%d\n", id, hx(fee), hx(pool), hx(posm), hx(dao), govTypes.GovFeeMap[govTypes.MsgChangeParamName])
	fmt.Fprintf(wo, "PP %d %d %d %d %d %s %d %s %s\n", int64(pp.UnstakingTime), pp.MaxValidators, pp.StakeMinimum, int64(pp.MaxEvidenceAge),
		pp.SignedBlocksWindow, pp.MinSignedPerWindow.Int.String(), int64(pp.DowntimeJailDuration), pp.SlashFractionDoubleSign.Int.String(), pp.SlashFractionDowntime.Int.String())
	var fms []string
	for _, fm := range ap.FeeMultiplier.FeeMultis {
		fms = append(fms, fmt.Sprintf("%d:%d", msgTypeID(fm.Key), fm.Multiplier))
	}
	fmt.Fprintf(wo, "AP %d %d %d %s\n", ap.MaxMemoCharacters, ap.TxSigLimit, ap.FeeMultiplier.Default, strings.Join(fms, ","))
	fmt.Fprintf(wo, "ACL %s\n", strings.Join(aclParts, ","))
	fmt.Fprintf(wo, "DAO %s %d\n", hx(daoOwner.addr), daoTokens)
	for _, a := range acclines {
		fmt.Fprintf(wo, "ACC %s %d\n", a.addr, a.bal)
	}
	for _, l := range pkof {
		fmt.Fprintln(wo, l)
	}
	fmt.Fprintf(wo, "SUP %d\n", supply)
	if r.Chance(1, 3) { // consensus parameters at InitChain that admit ed25519 validator keys only (no block gas limit)
		h.cp = &abci.ConsensusParams{Block: &abci.BlockParams{MaxBytes: 200000, MaxGas: -1}, Evidence: &abci.EvidenceParams{MaxAge: 100000},
			Validator: &abci.ValidatorParams{PubKeyTypes: []string{"ed25519"}}}
		fmt.Fprintln(wo, "PKT ed25519")
		stats["genesis/consensus-params-admit-ed25519-only"]++
	}
	for _, l := range vallines {
		fmt.Fprintln(wo, l)
	}
	stats["genesis/validators="+fmt.Sprint(len(vals))]++
	stats["genesis/maxvals="+fmt.Sprint(pp.MaxValidators)]++
	// ---------------- run
	h.index = simapp.NewTxIndex()
	defer h.index.Close()
	h.genesisWithADuplicate(gen)
	h.db = dbm.NewMemDB()
	h.app = simapp.New(h.db, h.index.Addr(), gen)
	h.now = time.Unix(1600000000, int64(r.Intn(1000000000))).UTC()
	var initRes abci.ResponseInitChain
	if try(func() {
		initRes = h.app.InitChain(abci.RequestInitChain{ChainId: simapp.ChainID, Time: time.Unix(1600000000, 0).UTC(), ConsensusParams: h.cp})
	}) {
		h.emitDead("INIT")
		fmt.Fprintln(wo, "E")
		return
	}
	h.applyUpdates(initRes.Validators)
	h.gen = gen
	h.reqs = append(h.reqs, request{kind: "INIT", resA: updatesString(initRes.Validators)})
	h.emit("INIT", updatesString(initRes.Validators))
	h.sets = map[int64]map[string]int64{1: copySet(h.tm), 2: copySet(h.tm)}
	paramPool := []paramChoice{
		{"pos/MaxValidators", posNum(1, func(h *hist) int64 { return int64(1 + h.r.Intn(6)) }, false)},
		{"pos/StakeMinimum", posNum(2, func(h *hist) int64 { return []int64{1000000, 2000000, 1500000}[h.r.Intn(3)] }, false)},
		{"pos/SignedBlocksWindow", posNum(4, func(h *hist) int64 { return []int64{2, 3, 5, 8}[h.r.Intn(4)] }, false)},
		{"pos/UnstakingTime", posNum(0, func(h *hist) int64 { return int64(time.Duration(1+h.r.Intn(30)) * time.Second) }, true)},
		{"pos/DowntimeJailDuration", posNum(6, func(h *hist) int64 { return int64(time.Duration(1+h.r.Intn(30)) * time.Second) }, true)},
		{"auth/MaxMemoCharacters", func(h *hist) ([]byte, string) {
			v := 200 + h.r.Intn(100)
			js := []byte(fmt.Sprintf(`"%d"`, v))
			return js, fmt.Sprintf("auth:0:%d:%s:1", v, hx(js))
		}},
		{"gov/daoOwner", func(h *hist) ([]byte, string) {
			o := h.keys[h.r.Intn(3)]
			js, _ := h.app.Cdc.MarshalJSON(o.addr)
			return js, fmt.Sprintf("addr:%s:%s:1", hx(o.addr), hx(js))
		}},
		{"gov/acl", func(h *hist) ([]byte, string) { // hand some parameters over to other owners, sometimes drop one
			cur := h.app.GK.GetACL(sdk.NewContext(h.app.Store(), abci.Header{}, false, nil))
			next := govTypes.ACL{}
			h.handover = nil
			h.dupho = nil
			drop := -1
			if h.r.Chance(1, 3) {
				drop = h.r.Intn(len(cur) + 1)
			}
			var parts []string
			for i, p := range cur {
				if i == drop && p.Key != "gov/acl" {
					continue
				}
				a := p.Addr
				if h.r.Chance(1, 3) {
					a = h.keys[h.r.Intn(3)].addr
				}
				if !a.Equals(p.Addr) {
					h.handover = append(h.handover, [3]string{p.Key, string(p.Addr), string(a)})
				}
				next = append(next, govTypes.ACLPair{Key: p.Key, Addr: a})
				parts = append(parts, hx([]byte(p.Key))+"="+hx(a))
			}
			if len(next) > 0 && h.r.Chance(1, 2) { // the same key a second time, further down, with another address: the FIRST entry owns
				p := next[h.r.Intn(len(next))]
				a := h.keys[h.r.Intn(3)].addr
				next = append(next, govTypes.ACLPair{Key: p.Key, Addr: a})
				parts = append(parts, hx([]byte(p.Key))+"="+hx(a))
				stats["tx/acl-with-a-key-listed-twice"]++
				// followed up like a hand-over: the owner named by the FIRST entry must be accepted, the one named further down refused
				for _, q := range next {
					if q.Key == p.Key {
						if !a.Equals(q.Addr) {
							h.dupho = append(h.dupho, [3]string{p.Key, string(q.Addr), string(a)})
							stats["tx/acl-with-a-key-listed-twice-under-two-owners"]++
						}
						break
					}
				}
			}
			js, _ := h.app.Cdc.MarshalJSON(next)
			return js, fmt.Sprintf("acl:%s:%s:1", strings.Join(parts, ";"), hx(js))
		}},
		{"gov/upgrade", func(h *hist) ([]byte, string) { // a struct value malformed only in its LAST field: nothing may change
			js := []byte(fmt.Sprintf(`{"Height":"%d","Version":5}`, 700+h.r.Intn(100)))
			return js, fmt.Sprintf("raw::%s:0", hx(js))
		}},
		{"auth/FeeMultipliers", func(h *hist) ([]byte, string) {
			js := []byte(`{"fee_multiplier":[{"key":"send","multiplier":"7"}],"default":true}`)
			return js, fmt.Sprintf("raw::%s:0", hx(js))
		}},
		{"pos/MaxValidators", func(h *hist) ([]byte, string) { // malformed value: accepted, nothing changes
			js := []byte(`{"not":"a number"}`)
			return js, fmt.Sprintf("raw::%s:0", hx(js))
		}},
	}
	committed := false
	for b := 0; b < maxBlocks && !h.dead; b++ {
		h.height++
		// ---- time
		switch r.Intn(6) {
		case 0:
		case 1:
			h.now = h.now.Add(time.Duration(1+r.Intn(60)) * time.Second)
		default:
			h.now = h.now.Add(time.Duration(1+r.Intn(6000)) * time.Millisecond).Add(time.Duration(r.Intn(1000)))
		}
		// aim some block times at the instants the rules are about: jailed-until and unstaking completion, +- a little
		if r.Chance(1, 3) {
			var instants []time.Time
			var who []*key // the jailed validator an instant belongs to (nil for an unstaking completion)
			for i := range h.keys {
				k := h.keys[i]
				if v, ok := h.validatorFull(k.addr); ok {
					if v.Status == sdk.Unstaking {
						instants = append(instants, v.UnstakingCompletionTime)
						who = append(who, nil)
					}
					if v.Jailed {
						if ju, ok := h.jailedUntil(k.addr); ok && ju.Year() < 3000 {
							instants = append(instants, ju)
							who = append(who, &h.keys[i])
						}
					}
				}
			}
			if len(instants) > 0 {
				j := r.Intn(len(instants))
				x := instants[j]
				d := []time.Duration{0, 1, -1, 400 * time.Millisecond, -400 * time.Millisecond, -900 * time.Millisecond, time.Second}[r.Intn(7)]
				if t := x.Add(d); t.After(h.now) {
					h.now = t
					if who[j] != nil { // and the validator asks to be unjailed in exactly this block
						k := *who[j]
						ft := txSpec{signer: k, attached: &k, wrongSub: -1}
						ft.msg = posTypes.MsgUnjail{ValidatorAddr: k.addr}
						ft.spec = "unjail:" + hx(k.addr)
						h.forced = append(h.forced, ft)
						stats["tx/unjail-at-jailed-until"]++
					}
				}
			}
		}
		// a jailed validator stranded below a raised minimum: once its jail term is over it asks to come back (must be refused)
		if h.stranded != nil {
			k := *h.stranded
			if v, ok := h.validator(k.addr); ok && v.jailed && v.status == 2 {
				if ju, ok := h.jailedUntil(k.addr); ok && ju.Year() < 3000 {
					if t := ju.Add(time.Duration(1+r.Intn(2000)) * time.Millisecond); t.After(h.now) {
						h.now = t
					}
					ft := txSpec{signer: k, attached: &k, wrongSub: -1}
					ft.msg = posTypes.MsgUnjail{ValidatorAddr: k.addr}
					ft.spec = "unjail:" + hx(k.addr)
					h.forced = append(h.forced, ft)
					stats["tx/unjail-below-a-raised-minimum"]++
				}
			}
			h.stranded = nil
		}
		// LastCommitInfo of BeginBlock(H) are the votes for block H-1, cast by the set of H-1
		signers := h.sets[h.height-1]
		h.tm = copySet(h.sets[h.height+1]) // the set the next batch will be applied to
		// ---- votes
		var votes []abci.VoteInfo
		var vparts []string
		var addrs []string
		for a := range signers {
			addrs = append(addrs, a)
		}
		sort.Strings(addrs)
		if h.height > 1 {
			for _, a := range addrs {
				signed := !r.Chance(2, 5)
				vp := signers[a]
				if r.Chance(1, 25) { // Tendermint reports a power whose token amount no longer fits 63 bits (a legal voting power)
					vp = []int64{9223372036854, 9223372036855, 1 << 62}[r.Intn(3)]
					stats["vote/huge-power"]++
				}
				votes = append(votes, abci.VoteInfo{Validator: abci.Validator{Address: []byte(a), Power: vp}, SignedLastBlock: signed})
				s := 0
				if signed {
					s = 1
				}
				vparts = append(vparts, fmt.Sprintf("%s:%d:%d", hx([]byte(a)), vp, s))
			}
		}
		// ---- evidence (rare; may abort the block)
		var evs []abci.Evidence
		var eparts []string
		mates := h.slotMates
		h.slotMates = nil
		if len(mates) == 2 {
			v0, ok0 := h.validator(mates[0].addr)
			v1, ok1 := h.validator(mates[1].addr)
			if !(ok0 && ok1 && v0.status == 1 && v1.status == 1 && !h.tombstoned(mates[0].addr) && r.Chance(2, 3)) {
				mates = nil
			}
		}
		if h.height > 2 && (r.Chance(1, 10) || len(mates) == 2) {
			k := h.pick()
			skipEv := false
			// mostly evidence the application can act on (known, not unstaked, not tombstoned);
			// anything else aborts the block (and ends the history)
			var cands []key
			if r.Chance(9, 10) {
				for _, c := range h.keys {
					if v, ok := h.validator(c.addr); ok && v.status != 0 && !h.tombstoned(c.addr) {
						cands = append(cands, c)
					}
				}
				if len(cands) > 0 {
					k = cands[r.Intn(len(cands))]
				}
				// evidence against validators that are unstaking is the rarer, more interesting case
				var un []key
				for _, c := range cands {
					if v, _ := h.validator(c.addr); v.status == 1 {
						un = append(un, c)
					}
				}
				if len(un) > 0 && r.Chance(1, 2) {
					k = un[0]
				}
				if len(mates) == 2 { // the validator queued first of two that share a slot
					k = mates[0]
					stats["evidence/against-the-first-of-two-in-one-queue-slot"]++
				}
				if len(cands) == 0 && r.Chance(7, 8) {
					skipEv = true // nobody to convict: unusable evidence would only end the history here
				}
			}
			evTime := h.now.Add(-time.Duration(r.Intn(int(pp.MaxEvidenceAge))))
			if r.Chance(1, 25) {
				evTime = h.now.Add(-pp.MaxEvidenceAge - time.Duration(1+r.Intn(1000)))
			}
			evH := h.height - int64(r.Intn(2))
			pw := int64(1 + r.Intn(5))
			if v, ok := h.validator(k.addr); ok && r.Bool() {
				pw = v.tokens / 1000000
			}
			if r.Chance(1, 8) { // a power whose token amount no longer fits 63 bits (still a legal voting power)
				pw = []int64{9223372036854, 9223372036855, 1 << 62, 9223372036854775807}[r.Intn(4)]
				stats["evidence/huge-power"]++
			}
			if !skipEv {
				evs = append(evs, abci.Evidence{Type: tmtypes.ABCIEvidenceTypeDuplicateVote, Validator: abci.Validator{Address: k.addr, Power: pw}, Height: evH, Time: evTime})
				eparts = append(eparts, fmt.Sprintf("%s:%d:%d:%d", hx(k.addr), evH, evTime.UnixNano(), pw))
				// evidence against further validators in the same block: handled in the order given
				for _, c := range cands {
					if !c.addr.Equals(k.addr) && r.Chance(1, 2) {
						pw2 := int64(1 + r.Intn(5))
						evs = append(evs, abci.Evidence{Type: tmtypes.ABCIEvidenceTypeDuplicateVote, Validator: abci.Validator{Address: c.addr, Power: pw2}, Height: evH, Time: evTime})
						eparts = append(eparts, fmt.Sprintf("%s:%d:%d:%d", hx(c.addr), evH, evTime.UnixNano(), pw2))
						stats["evidence/second-validator-in-the-block"]++
					}
				}
			}
		}
		prop := h.pick().addr
		if len(addrs) > 0 && r.Chance(3, 4) {
			prop = sdk.Address(addrs[r.Intn(len(addrs))])
		}
		hdr := abci.Header{ChainID: simapp.ChainID, Height: h.height, Time: h.now, ProposerAddress: prop}
		op := fmt.Sprintf("BB %d %d %s votes=%s ev=%s", h.height, h.now.UnixNano(), hx(prop), strings.Join(vparts, ","), strings.Join(eparts, ","))
		bbReq := abci.RequestBeginBlock{Header: hdr, LastCommitInfo: abci.LastCommitInfo{Votes: votes}, ByzantineValidators: evs}
		var bbRes abci.ResponseBeginBlock
		if m := tryMsg(func() { bbRes = h.app.BeginBlock(bbReq) }); m != "" {
			if len(m) > 60 {
				m = m[:60]
			}
			stats["abort/"+m]++
			h.reqs = append(h.reqs, request{kind: "BB", bb: bbReq, hdr: hdr, resA: "ABORT"})
			h.emitDead(op)
			break
		}
		h.reqs = append(h.reqs, request{kind: "BB", bb: bbReq, hdr: hdr, resA: eventsString(bbRes.Events)})
		h.emit(op, "ok")
		// ---- keeper entry points used by other modules
		// other modules call these keeper entry points from their handlers, which run on the root store
		ctx := sdk.NewContext(h.app.Store(), hdr, false, log.NewNopLogger())
		for i := r.Intn(3); i > 0; i-- {
			k := h.pick()
			amt := int64(r.Intn(500000))
			if r.Chance(1, 6) {
				amt = 0
			}
			to := k.addr
			if r.Chance(1, 10) { // recipients nobody holds a key for: no address at all, a module's own address, a longer address
				to = []sdk.Address{{}, h.modAddr(posTypes.StakedPoolName), h.modAddr(govTypes.DAOAccountName), append(append(sdk.Address{}, k.addr...), 0x01)}[r.Intn(4)]
				stats["award/unusual-recipient"]++
			}
			h.app.PK.AwardCoinsTo(ctx, sdk.NewInt(amt), to)
			h.reqs = append(h.reqs, request{kind: "AW", addr: to, amt: amt, hdr: hdr, resA: "ok"})
			h.emit(fmt.Sprintf("AW %s %d", hx(to), amt), "ok")
		}
		if r.Chance(1, 4) {
			// burn an EXISTING validator (a missing one panics the next BeginBlock)
			var cands []key
			for _, k := range h.keys {
				if _, ok := h.validator(k.addr); ok {
					cands = append(cands, k)
				}
			}
			if len(cands) > 0 {
				k := cands[r.Intn(len(cands))]
				sev := fractions[r.Intn(len(fractions))]
				if v, ok := h.validator(k.addr); ok && v.tokens >= 1000000 && r.Chance(1, 6) {
					// a severity that asks for exactly ONE token (or just under): power * 10^6 * severity = 1
					sev = decRaw(1, (v.tokens/1000000)*1000000)
					stats["burn/one-token"]++
				}
				op := fmt.Sprintf("BU %s %s", hx(k.addr), sev.Int.String())
				if try(func() { h.app.PK.BurnValidator(ctx, k.addr, sev) }) {
					h.reqs = append(h.reqs, request{kind: "BU", addr: k.addr, sev: sev, hdr: hdr, resA: "panic"})
					h.emit(op, "panic")
				} else {
					h.reqs = append(h.reqs, request{kind: "BU", addr: k.addr, sev: sev, hdr: hdr, resA: "ok"})
					h.emit(op, "ok")
				}
			}
		}
		// ---- transactions
		curPP := h.app.PK.GetParams(sdk.NewContext(h.app.Store(), hdr, false, nil))
		for i := r.Intn(5); i > 0 || len(h.forced) > 0; i-- {
			t := h.genTx(curPP, govOwner, daoOwner, paramPool)
			bz, op := h.buildTx(t)
			if len(h.forced) == 0 && len(h.committed) > 0 && r.Chance(1, 10) {
				// the very bytes of a transaction of an earlier, committed block are sent again: the index knows them,
				// whatever their result was then
				old := h.committed[r.Intn(len(h.committed))]
				bz, op = old.bz, strings.Replace(old.op, " dup=0", " dup=1", 1)
				t.spec = strings.SplitN(strings.TrimPrefix(op, "TX "), " ", 2)[0]
				stats[fmt.Sprintf("tx/replayed/earlier-code-%d", old.res.Code)]++
			}
			// should the process end inside this call (os.Exit cannot be recovered from), the observation files are complete up
			// to here and app.inflight names the transaction
			h.wo.Flush()
			h.wi.Flush()
			_ = os.WriteFile(inflight, []byte(fmt.Sprintf("%d\n%s\n", h.id, op)), 0644)
			res := h.app.DeliverTx(abci.RequestDeliverTx{Tx: bz})
			if !strings.Contains(op, " dup=1") {
				h.blockTxs = append(h.blockTxs, sentTx{bz, op, res})
			}
			rs := "ok"
			if res.Code != 0 {
				rs = "err"
			}
			h.reqs = append(h.reqs, request{kind: "TX", tx: bz, resA: deliverString(res), acl: res.Code == 0 && strings.Contains(t.spec, ":acl:")})
			stats[fmt.Sprintf("tx/%s/%s:%d", strings.SplitN(t.spec, ":", 2)[0], res.Codespace, res.Code)]++
			// right after an accepted hand-over, in the same block: the previous owner must be refused, the next one accepted
			if res.Code == 0 && strings.Contains(t.spec, ":acl:") && len(h.handover)+len(h.dupho) > 0 && (r.Chance(4, 5) || len(h.dupho) > 0) {
				var cands []paramChoice
				var who [][3]string
				list := h.handover
				if len(h.dupho) > 0 { // a key listed twice under two owners: both of them try, the first entry's owner first
					list = h.dupho
				}
				for _, ho := range list {
					for _, pc := range paramPool {
						if pc.key == ho[0] {
							cands = append(cands, pc)
							who = append(who, ho)
						}
					}
				}
				if len(cands) > 0 {
					j := r.Intn(len(cands))
					senders := []int{1 + r.Intn(2)}
					if len(h.dupho) > 0 {
						senders = []int{1, 2}
					}
					for _, si := range senders {
						from := h.keyOf(sdk.Address(who[j][si]), h.keys[0])
						val, model := cands[j].gen(h)
						ft := txSpec{signer: from, attached: &from, wrongSub: -1}
						ft.msg = govTypes.MsgChangeParam{FromAddress: from.addr, ParamKey: cands[j].key, ParamVal: val}
						ft.spec = fmt.Sprintf("param:%s:%s:%s", hx(from.addr), hx([]byte(cands[j].key)), model)
						ft.fee = h.app.AK.GetParams(sdk.NewContext(h.app.Store(), abci.Header{}, false, nil)).FeeMultiplier.GetFee(ft.msg).Int64()
						h.forced = append(h.forced, ft)
						stats["tx/followup-after-handover"]++
						if len(h.dupho) > 0 {
							stats["tx/followup-after-key-listed-twice"]++
						}
					}
				}
			}
			h.dupho = nil
			h.handover = nil
			// two validators in one slot of the unstaking queue: right after an accepted begin-unstake another staked validator
			// begins unstaking in the same block (same completion time); evidence against the one queued FIRST follows
			if res.Code == 0 && strings.HasPrefix(t.spec, "unstake:") && len(h.forced) == 0 && r.Chance(1, 5) {
				first := h.keyOf(t.msg.GetSigner(), t.signer)
				for _, c := range h.keys {
					if v, ok := h.validator(c.addr); ok && v.status == 2 && !v.jailed && len(c.subs) == 0 && !c.addr.Equals(first.addr) {
						cc := c
						ft := txSpec{signer: cc, attached: &cc, wrongSub: -1}
						ft.msg = posTypes.MsgBeginUnstake{Address: c.addr}
						ft.spec = "unstake:" + hx(c.addr)
						h.forced = append(h.forced, ft)
						h.slotMates = []key{first, cc}
						stats["tx/second-unstake-in-the-same-block"]++
						break
					}
				}
			}
			if res.Code == 0 && strings.Contains(t.spec, ":"+hx([]byte("pos/StakeMinimum"))+":") {
				// the minimum has just changed: a staked validator that is now below it asks to begin unstaking (must be
				// refused without a trace, or handled, but never half-way)
				nm := h.app.PK.GetParams(sdk.NewContext(h.app.Store(), abci.Header{}, false, nil)).StakeMinimum
				for i, c := range h.keys {
					if v, ok := h.validator(c.addr); ok && v.status == 2 && v.jailed && v.tokens < nm && len(c.subs) == 0 && !h.tombstoned(c.addr) {
						h.stranded = &h.keys[i]
						stats["param/jailed-validator-stranded-below-the-minimum"]++
					}
				}
				for _, c := range h.keys {
					if v, ok := h.validator(c.addr); ok && v.status == 2 && v.tokens < nm && len(c.subs) == 0 && (h.stranded == nil || !h.stranded.addr.Equals(c.addr)) {
						cc := c
						ft := txSpec{signer: cc, attached: &cc, wrongSub: -1}
						ft.msg = posTypes.MsgBeginUnstake{Address: c.addr}
						ft.spec = "unstake:" + hx(c.addr)
						h.forced = append(h.forced, ft)
						stats["tx/unstake-below-a-raised-minimum"]++
						break
					}
				}
			}
			h.emit(op, rs)
		}
		// ---- governance messages handed to the module's handler directly (no transaction around them, so the sender need not
		// hold a key): the owner itself, a stranger, and addresses that differ from the owner's in one letter's case or in one
		// byte that is no valid text - nobody but the very owner may pass
		if r.Chance(1, 5) {
			ctx := sdk.NewContext(h.app.Store(), hdr, false, log.NewNopLogger())
			own := h.app.GK.GetACL(ctx).GetOwner("pos/MaxValidators")
			var m sdk.Msg
			var spec string
			from := nearMiss(r, own)
			if r.Chance(1, 3) {
				dao := h.app.GK.GetDAOOwner(ctx)
				from = nearMiss(r, dao)
				to := h.pick()
				amt := int64(1 + r.Intn(1000))
				m = govTypes.MsgDAOTransfer{FromAddress: from, ToAddress: to.addr, Amount: sdk.NewInt(amt), Action: govTypes.DAOTransferString}
				spec = fmt.Sprintf("dao:%s:%s:%d:1", hx(from), hx(to.addr), amt)
			} else {
				nv := int64(1 + r.Intn(6))
				js := []byte(fmt.Sprintf(`"%d"`, nv))
				m = govTypes.MsgChangeParam{FromAddress: from, ParamKey: "pos/MaxValidators", ParamVal: js}
				spec = fmt.Sprintf("param:%s:%s:pos:1:%d:%s:1", hx(from), hx([]byte("pos/MaxValidators")), nv, hx(js))
			}
			if from != nil {
				res := "err"
				var out sdk.Result
				if msg := tryMsg(func() { out = gov.NewHandler(h.app.GK)(ctx, m) }); msg == "" && out.IsOK() {
					res = "ok"
				}
				h.reqs = append(h.reqs, request{kind: "HM", msg: m, hdr: hdr, resA: res})
				h.emit("HM "+spec+" fee=0 memo=0 att=- multi=0 by=- mut=0 sigempty=0 dup=0", res)
			}
		}
		// ---- end block / commit
		var eb abci.ResponseEndBlock
		if try(func() { eb = h.app.EndBlock(abci.RequestEndBlock{Height: h.height}) }) {
			h.reqs = append(h.reqs, request{kind: "EB", amt: h.height, resA: "ABORT"})
			h.emitDead("EB")
			break
		}
		h.reqs = append(h.reqs, request{kind: "EB", amt: h.height, resA: updatesString(eb.ValidatorUpdates) + eventsString(eb.Events)})
		// C05: the batch is applied to the set Tendermint currently has for H+1, giving the set of H+2
		h.applyUpdates(eb.ValidatorUpdates)
		h.sets[h.height+2] = copySet(h.tm)
		h.emit("EB", updatesString(eb.ValidatorUpdates))
		var cm abci.ResponseCommit
		quiesce()
		if try(func() { cm = h.app.Commit() }) {
			h.emitDead("CM")
			break
		}
		h.reqs = append(h.reqs, request{kind: "CM", resA: hx(cm.Data)})
		for _, x := range h.blockTxs { // Tendermint indexes every transaction of a committed block, with its result
			h.index.Add(x.bz, h.height, x.res)
			h.committed = append(h.committed, x)
		}
		h.blockTxs = nil
		committed = true
		h.emit("CM", "ok")
		// the process is stopped and started again from its database: everything observed from here on comes from what was
		// persisted (the model knows no restarts: to it this is the identity)
		if r.Chance(1, 8) {
			if m := tryMsg(func() { h.app = simapp.New(h.db, h.index.Addr(), h.gen) }); m != "" {
				h.emitDead("RS")
				break
			}
			h.reqs = append(h.reqs, request{kind: "RS"})
			h.emit("RS", "ok")
		}
		// C14 through BaseApp: what a store query (no proof) returns right after a Commit - at the default height and at the
		// height just committed - is what the store holds; the first block included
		if qry != nil && (h.height == 1 || r.Chance(1, 5)) {
			st := h.app.Store().GetKVStore(h.app.Keys[posTypes.StoreKey])
			for _, key := range [][]byte{{0x01}, posTypes.KeyForValByAllVals(h.keys[0].addr), posTypes.KeyForValByAllVals(h.keys[len(h.keys)/2].addr)} {
				direct := st.Get(key)
				for _, hq := range []int64{0, h.height} {
					var q abci.ResponseQuery
					verdict := "same"
					if m := tryMsg(func() { q = h.app.Query(abci.RequestQuery{Path: "/store/pos/key", Data: key, Height: hq}) }); m != "" {
						verdict = "DIFF panic " + m
					} else if q.Code != 0 || !bytes.Equal(q.Value, direct) || q.Height != h.height {
						verdict = fmt.Sprintf("DIFF code=%d height=%d value=%s stored=%s log=%.80s", q.Code, q.Height, hx(q.Value), hx(direct), strings.ReplaceAll(q.Log, " ", "_"))
					}
					fmt.Fprintf(qry, "%d after-commit last=%d asked=%d key=%s %s\n", h.id, h.height, hq, hx(key), verdict)
				}
			}
		}
	}
	_ = big.NewInt
	fmt.Fprintln(wo, "E")
	if committed {
		h.exportImport()
	}
	// ---- C01: the same request sequence on other instances
	if det != nil {
		for _, variant := range []string{"fresh", "restart", "interleaved", "crash"} {
			res, _ := h.replay(variant, h.cp, nil)
			fmt.Fprintf(det, "%d %s %s\n", id, variant, res)
		}
		// with genesis consensus parameters (a block gas limit that binds, the allowed consensus key types): an
		// uninterrupted instance against one that is stopped after some Commit and reopened
		cp := &abci.ConsensusParams{Block: &abci.BlockParams{MaxBytes: 200000, MaxGas: []int64{60000, 200000, 500000}[r.Intn(3)]},
			Validator: &abci.ValidatorParams{PubKeyTypes: []string{"ed25519"}}}
		_, ref := h.replay("record", cp, nil)
		for _, x := range ref {
			if strings.HasPrefix(x, "code=12/") {
				stats["det/block-gas-limit-hit"]++
				break
			}
		}
		res, _ := h.replay("restart", cp, ref)
		fmt.Fprintf(det, "%d consensus-params-restart %s\n", id, res)
		res, _ = h.replay("interleaved", cp, ref)
		fmt.Fprintf(det, "%d consensus-params-interleaved %s\n", id, res)
		res, _ = h.replay("crash", cp, ref)
		fmt.Fprintf(det, "%d consensus-params-crash %s\n", id, res)
	}
}

var det, xi, qry, gv *bufio.Writer

// C05 at InitChain: a genesis file that lists one validator key twice (with another stake, at any position, the last one
// included) must be refused by the module's genesis validation - started from it, InitChain hands Tendermint one key twice
func (h *hist) genesisWithADuplicate(gen *simapp.Genesis) {
	vals := gen.Pos.Validators
	if gv == nil || len(vals) == 0 {
		return
	}
	r := h.r
	dup := vals[r.Intn(len(vals))]
	dup.StakedTokens = dup.StakedTokens.Add(sdk.NewInt(int64(1+r.Intn(3)) * 1000000))
	at := r.Intn(len(vals) + 1)
	if r.Chance(1, 3) {
		at = len(vals)
	}
	bad := gen.Pos
	bad.Validators = append(append(append([]posTypes.Validator{}, vals[:at]...), dup), vals[at:]...)
	for i := range bad.Validators { // nothing else to object to: every stake above the minimum
		if bad.Validators[i].StakedTokens.LTE(sdk.NewInt(bad.Params.StakeMinimum)) {
			bad.Validators[i].StakedTokens = sdk.NewInt(bad.Params.StakeMinimum + 1 + int64(i))
		}
	}
	// ... and shipped parameters; the same file without the repeated entry is the control: it must be accepted
	bad.Params = posTypes.DefaultParams()
	bad.Params.StakeMinimum = gen.Pos.Params.StakeMinimum
	ctl := bad
	ctl.Validators = append(append([]posTypes.Validator{}, bad.Validators[:at]...), bad.Validators[at+1:]...)
	if err := pos.ValidateGenesis(ctl); err != nil {
		fmt.Fprintf(gv, "%d duplicate-of-a-listed-validator at=%d of=%d control-refused %s\n", h.id, at, len(vals)+1, strings.ReplaceAll(err.Error(), " ", "_"))
		return
	}
	verdict := "refused"
	if m := tryMsg(func() {
		if err := pos.ValidateGenesis(bad); err == nil {
			verdict = "ACCEPTED"
		}
	}); m != "" {
		verdict = "refused-by-panic"
	}
	if verdict == "ACCEPTED" { // what InitChain then returns
		g2 := *gen
		g2.Pos = bad
		app := simapp.New(dbm.NewMemDB(), "tcp://127.0.0.1:1", &g2)
		var res abci.ResponseInitChain
		if m := tryMsg(func() {
			res = app.InitChain(abci.RequestInitChain{ChainId: simapp.ChainID, Time: time.Unix(1600000000, 0).UTC()})
		}); m != "" {
			verdict += " InitChain-panics"
		} else {
			verdict += " InitChain-returns=" + strings.ReplaceAll(updatesString(res.Validators), " ", "_")
		}
	}
	fmt.Fprintf(gv, "%d duplicate-of-a-listed-validator at=%d of=%d %s\n", h.id, at, len(vals)+1, verdict)
}

var inflight string

func tryMsg(f func()) (msg string) {
	defer func() {
		if r := recover(); r != nil {
			msg = strings.ReplaceAll(strings.ReplaceAll(fmt.Sprint(r), " ", "_"), "\n", "_")
			if len(msg) > 300 {
				msg = msg[:300]
			}
			if msg == "" {
				msg = "panic"
			}
		}
	}()
	f()
	return ""
}

// exportImport: the state after the last Commit is exported with every module's ExportGenesis, written and read back as
// JSON (as a genesis file would be), and a fresh application is initialised from it (pos, auth, gov: auth's InitGenesis
// derives the supply from the accounts the others created). One line in app.xi:
//
//	<id> ok PRE <dump> POST <dump> UPS <updates>     |   <id> export-panic:<msg>   |   <id> import-panic:<msg> PRE <dump>
func (h *hist) exportImport() {
	if xi == nil || h.dead {
		return
	}
	pre := h.dump()
	ctx := sdk.NewContext(h.app.Store(), abci.Header{ChainID: simapp.ChainID, Height: h.height, Time: h.now}, false, log.NewNopLogger())
	var ga authTypes.GenesisState
	var gp posTypes.GenesisState
	var gg govTypes.GenesisState
	if m := tryMsg(func() {
		ga = auth.ExportGenesis(ctx, h.app.AK)
		gp = pos.ExportGenesis(ctx, h.app.PK)
		gg = h.app.GK.ExportGenesis(ctx)
	}); m != "" {
		fmt.Fprintf(xi, "%d export-panic:%s\n", h.id, m)
		stats["xi/export-panic"]++
		return
	}
	if err := gg.Params.ACL.Validate(h.app.GK.GetAllParamNames(ctx)); err != nil {
		// gov's InitGenesis exits the process on an access-control list that does not cover every parameter
		stats["xi/skipped-acl-incomplete"]++
		return
	}
	var ga2 authTypes.GenesisState
	var gp2 posTypes.GenesisState
	var gg2 govTypes.GenesisState
	if m := tryMsg(func() {
		cdc := h.app.Cdc
		cdc.MustUnmarshalJSON(cdc.MustMarshalJSON(ga), &ga2)
		cdc.MustUnmarshalJSON(cdc.MustMarshalJSON(gp), &gp2)
		cdc.MustUnmarshalJSON(cdc.MustMarshalJSON(gg), &gg2)
	}); m != "" {
		fmt.Fprintf(xi, "%d json-panic:%s\n", h.id, m)
		stats["xi/json-panic"]++
		return
	}
	// InitGenesis refuses unstaked validators ("we shouldn't have unstaked validators in the genesis file"): the operator's
	// step of removing the force-unstaked, zero-stake records from the exported file is done here
	var keep posTypes.Validators
	for _, v := range gp2.Validators {
		if v.Status != sdk.Unstaked {
			keep = append(keep, v)
		} else {
			stats["xi/unstaked-records-dropped"]++
		}
	}
	gp2.Validators = keep
	gen2 := &simapp.Genesis{Auth: ga2, Pos: gp2, Gov: gg2, PosFirst: true}
	app2 := simapp.New(dbm.NewMemDB(), "tcp://127.0.0.1:1", gen2)
	var res abci.ResponseInitChain
	if m := tryMsg(func() {
		res = app2.InitChain(abci.RequestInitChain{ChainId: simapp.ChainID, Time: h.now})
	}); m != "" {
		fmt.Fprintf(xi, "%d import-panic:%s PRE %s\n", h.id, m, pre)
		stats["xi/import-panic"]++
		return
	}
	post := dumpApp(app2)
	// accounts that never signed have no public key on record
	var nopub []string
	h.app.AK.IterateAccounts(ctx, func(acc authExported.Account) bool {
		if acc.GetPubKey() == nil {
			nopub = append(nopub, hx(acc.GetAddress()))
		}
		return false
	})
	// C01: a second node initialised from the same file must arrive at the same application hash
	hashes := []string{"?", "?"}
	for i, a := range []*simapp.App{app2, simapp.New(dbm.NewMemDB(), "tcp://127.0.0.1:1", gen2)} {
		a := a
		if m := tryMsg(func() {
			if i == 1 {
				a.InitChain(abci.RequestInitChain{ChainId: simapp.ChainID, Time: h.now})
			}
			hdr := abci.Header{ChainID: simapp.ChainID, Height: 1, Time: h.now}
			a.BeginBlock(abci.RequestBeginBlock{Header: hdr})
			a.EndBlock(abci.RequestEndBlock{Height: 1})
			quiesce()
			hashes[i] = hx(a.Commit().Data)
		}); m != "" {
			hashes[i] = "panic:" + m
		}
	}
	fmt.Fprintf(xi, "%d ok PRE %s POST %s UPS %s TM %s NOPUB %s HASHES %s %s\n", h.id, pre, post, updatesString(res.Validators), h.tmString(),
		strings.Join(nopub, ","), hashes[0], hashes[1])
	stats["xi/ok"]++
}

func eventsString(evs []abci.Event) string {
	js, _ := json.Marshal(evs)
	return string(js)
}
func deliverString(r abci.ResponseDeliverTx) string {
	return fmt.Sprintf("code=%d/%s data=%s events=%s", r.Code, r.Codespace, hx(r.Data), eventsString(r.Events))
}

// replay runs the recorded requests on another instance and reports the first consensus-relevant difference
// replays the recorded requests on another instance; responses are compared with [ref] (the main run's when nil)
// ---------------------------------------------------------------- a database that can kill the process at a chosen write
type crashDB struct {
	dbm.DB
	armed  bool
	budget int
}
type crashSignal struct{}

func (c *crashDB) unit() {
	if !c.armed {
		return
	}
	if c.budget == 0 {
		panic(crashSignal{})
	}
	c.budget--
}
func (c *crashDB) Set(k, v []byte)     { c.unit(); c.DB.Set(k, v) }
func (c *crashDB) SetSync(k, v []byte) { c.unit(); c.DB.SetSync(k, v) }
func (c *crashDB) Delete(k []byte)     { c.unit(); c.DB.Delete(k) }
func (c *crashDB) DeleteSync(k []byte) { c.unit(); c.DB.DeleteSync(k) }
func (c *crashDB) NewBatch() dbm.Batch { return &crashBatch{c: c, b: c.DB.NewBatch()} }

type crashBatch struct {
	c *crashDB
	b dbm.Batch
	n int
}

func (b *crashBatch) Set(k, v []byte) { b.n++; b.b.Set(k, v) }
func (b *crashBatch) Delete(k []byte) { b.n++; b.b.Delete(k) }
func (b *crashBatch) Write() {
	if b.n > 0 {
		b.c.unit()
	}
	b.b.Write()
}
func (b *crashBatch) WriteSync() {
	if b.n > 0 {
		b.c.unit()
	}
	b.b.WriteSync()
}
func (b *crashBatch) Close() { b.b.Close() }

func crashed(f func()) (died bool, other interface{}) {
	defer func() {
		if r := recover(); r != nil {
			if _, ok := r.(crashSignal); ok {
				died = true
			} else {
				other = r
			}
		}
	}()
	f()
	return
}

func (h *hist) replay(variant string, cp *abci.ConsensusParams, ref []string) (string, []string) {
	var got_all []string
	var db dbm.DB = dbm.NewMemDB()
	ix := simapp.NewTxIndex()
	defer ix.Close()
	rr := rng.New(uint64(h.id)*7919 + uint64(len(variant)))
	var cdb *crashDB
	var opts []func(*bam.BaseApp)
	crashAt := -1
	if variant == "crash" {
		// the process dies at a random database write of a random Commit (not the first one: F18) and is reopened; pruning
		// policies that keep the previous version until the new one is flushed (keepRecent = 0 is finding F8)
		cdb = &crashDB{DB: db}
		db = cdb
		po := []stypes.PruningOptions{stypes.PruneNothing, stypes.PruneSyncable, stypes.NewPruningOptions(2, 3), stypes.NewPruningOptions(1, 0)}[rr.Intn(4)]
		opts = append(opts, bam.SetPruning(po))
		var cms []int
		for i, q := range h.reqs {
			if q.kind == "CM" {
				cms = append(cms, i)
			}
		}
		if len(cms) > 1 {
			crashAt = cms[1+rr.Intn(len(cms)-1)]
		}
	}
	app := simapp.New(db, ix.Addr(), h.gen, opts...)
	var blockTxs []sentTx
	seen := map[string]bool{}
	curHeight := int64(0)
	restartAt := -1
	if variant == "restart" {
		var cms []int
		for i, q := range h.reqs {
			if q.kind == "CM" {
				cms = append(cms, i)
			}
		}
		if len(cms) > 0 {
			restartAt = cms[rr.Intn(len(cms))]
		}
	}
	var txs [][]byte
	for _, q := range h.reqs {
		if q.kind == "TX" {
			txs = append(txs, q.tx)
		}
	}
	noise := func() {
		if variant != "interleaved" || !rr.Chance(1, 2) {
			return
		}
		try(func() {
			switch rr.Intn(6) {
			case 4:
				app.Query(abci.RequestQuery{Path: "/custom/gov/" + []string{"acl", "daoOwner", "upgrade", "dao"}[rr.Intn(4)]})
			case 5:
				app.Query(abci.RequestQuery{Path: "/custom/pos/" + []string{"parameters", "staked_validators", "signingInfos", "stakedPool"}[rr.Intn(4)], Data: []byte("{}"),
					Height: []int64{0, 1, app.LastBlockHeight()}[rr.Intn(3)]})
			case 0:
				if len(txs) > 0 {
					app.CheckTx(abci.RequestCheckTx{Tx: txs[rr.Intn(len(txs))]})
				}
			case 1:
				if len(txs) > 0 {
					app.Query(abci.RequestQuery{Path: "/app/simulate", Data: txs[rr.Intn(len(txs))]})
				}
			case 2:
				app.Query(abci.RequestQuery{Path: "/store/pos/key", Data: []byte{0x01}})
			default:
				app.Query(abci.RequestQuery{Path: "/custom/pos/validators", Data: []byte("{}")})
			}
		})
	}
	crashBudget := rr.Intn(8)
	exec := func(i int, q request) string {
		got := ""
		switch q.kind {
		case "INIT":
			var res abci.ResponseInitChain
			if try(func() {
				res = app.InitChain(abci.RequestInitChain{ChainId: simapp.ChainID, Time: time.Unix(1600000000, 0).UTC(), ConsensusParams: cp})
			}) {
				got = "ABORT"
			} else {
				got = updatesString(res.Validators)
			}
		case "BB":
			curHeight = q.hdr.Height
			var res abci.ResponseBeginBlock
			if try(func() { res = app.BeginBlock(q.bb) }) {
				got = "ABORT"
			} else {
				got = eventsString(res.Events)
			}
		case "AW":
			ctx := sdk.NewContext(app.Store(), q.hdr, false, log.NewNopLogger())
			app.PK.AwardCoinsTo(ctx, sdk.NewInt(q.amt), q.addr)
			got = "ok"
		case "HM":
			ctx := sdk.NewContext(app.Store(), q.hdr, false, log.NewNopLogger())
			got = "err"
			var out sdk.Result
			if msg := tryMsg(func() { out = gov.NewHandler(app.GK)(ctx, q.msg) }); msg == "" && out.IsOK() {
				got = "ok"
			}
		case "BU":
			ctx := sdk.NewContext(app.Store(), q.hdr, false, log.NewNopLogger())
			if try(func() { app.PK.BurnValidator(ctx, q.addr, q.sev) }) {
				got = "panic"
			} else {
				got = "ok"
			}
		case "TX":
			res := app.DeliverTx(abci.RequestDeliverTx{Tx: q.tx})
			got = deliverString(res)
			if !seen[string(q.tx)] {
				blockTxs = append(blockTxs, sentTx{bz: q.tx, res: res})
			}
		case "EB":
			var res abci.ResponseEndBlock
			if try(func() { res = app.EndBlock(abci.RequestEndBlock{Height: q.amt}) }) {
				got = "ABORT"
			} else {
				got = updatesString(res.ValidatorUpdates) + eventsString(res.Events)
			}
		case "CM":
			var res abci.ResponseCommit
			quiesce()
			if i == crashAt && cdb != nil && !cdb.armed && crashBudget >= 0 {
				cdb.armed, cdb.budget = true, crashBudget
				crashBudget = -1
				died, other := crashed(func() { res = app.Commit() })
				cdb.armed = false
				if other != nil {
					return "ABORT"
				}
				if died {
					return "CRASH"
				}
			} else if try(func() { res = app.Commit() }) {
				return "ABORT"
			}
			{
				got = hx(res.Data)
				for _, x := range blockTxs {
					ix.Add(x.bz, curHeight, x.res)
					seen[string(x.bz)] = true
				}
				blockTxs = nil
			}
		}
		return got
	}
	for i, q := range h.reqs {
		if variant == "interleaved" && i > 0 && h.reqs[i-1].acl {
			// right after a hand-over, before anything else looks at the list: a reader asks for it (at the committed height)
			try(func() { app.Query(abci.RequestQuery{Path: "/custom/gov/acl"}) })
		}
		noise()
		got := exec(i, q)
		if got == "CRASH" {
			// the process died inside Commit: reopen from the database, which must show the complete previous or the
			// complete new version; from the previous one the interrupted block is executed again
			if msg := tryMsg(func() { app = simapp.New(db, ix.Addr(), h.gen, opts...) }); msg != "" {
				return fmt.Sprintf("DIVERGED op=%d kind=crash-reopen-failed %s", i, msg), got_all
			}
			switch app.LastBlockHeight() {
			case curHeight:
				stats["det/crash/reopened-at-the-new-version"]++
				got = hx(app.LastCommitID().Hash)
				for _, x := range blockTxs {
					ix.Add(x.bz, curHeight, x.res)
					seen[string(x.bz)] = true
				}
				blockTxs = nil
			case curHeight - 1:
				stats["det/crash/reopened-at-the-previous-version-and-re-executed"]++
				j := i
				for j > 0 && h.reqs[j].kind != "BB" {
					j--
				}
				blockTxs = nil
				for k := j; k <= i; k++ {
					got = exec(k, h.reqs[k])
					want := h.reqs[k].resA
					if ref != nil && k < len(ref) {
						want = ref[k]
					}
					if got != want && k < i {
						return fmt.Sprintf("DIVERGED op=%d kind=%s re-executed-after-crash A=%.160s B=%.160s", k, h.reqs[k].kind, strings.ReplaceAll(want, " ", "_"), strings.ReplaceAll(got, " ", "_")), got_all
					}
				}
			default:
				return fmt.Sprintf("DIVERGED op=%d kind=crash reopened-at-height-%d-during-commit-of-%d", i, app.LastBlockHeight(), curHeight), got_all
			}
		}
		got_all = append(got_all, got)
		want := q.resA
		if ref != nil && i < len(ref) {
			want = ref[i]
		}
		if variant != "record" && got != want {
			a, b := want, got
			if len(a) > 160 {
				a = a[:160]
			}
			if len(b) > 160 {
				b = b[:160]
			}
			return fmt.Sprintf("DIVERGED op=%d kind=%s A=%s B=%s", i, q.kind, strings.ReplaceAll(a, " ", "_"), strings.ReplaceAll(b, " ", "_")), got_all
		}
		if got == "ABORT" {
			break
		}
		if i == restartAt {
			// stop after this Commit and reopen from the database
			app = simapp.New(db, ix.Addr(), h.gen)
			if app.LastBlockHeight() == 0 {
				return fmt.Sprintf("DIVERGED op=%d kind=restart reopened at height 0", i), got_all
			}
			// C14 through BaseApp: right after the restart a store query that names no height is a query at the last
			// committed height - same value, same height, same proof verdict as the query that names it
			if qry != nil && (cp == nil || cp == h.cp) {
				lh := app.LastBlockHeight()
				for _, key := range [][]byte{{0x01}, {0x32}, posTypes.KeyForValByAllVals(h.keys[0].addr)} {
					for _, prove := range []bool{false, true} {
						q0 := app.Query(abci.RequestQuery{Path: "/store/pos/key", Data: key, Prove: prove})
						q1 := app.Query(abci.RequestQuery{Path: "/store/pos/key", Data: key, Height: lh, Prove: prove})
						verdict := "same"
						if q0.Code != q1.Code || !bytes.Equal(q0.Value, q1.Value) || q0.Height != q1.Height || (q0.Proof == nil) != (q1.Proof == nil) {
							verdict = fmt.Sprintf("DIFF code=%d/%d height=%d/%d value=%s/%s", q0.Code, q1.Code, q0.Height, q1.Height, hx(q0.Value), hx(q1.Value))
						}
						fmt.Fprintf(qry, "%d restart-default-height last=%d key=%s prove=%v %s\n", h.id, lh, hx(key), prove, verdict)
					}
				}
			}
		}
	}
	return "same", got_all
}

func copySet(m map[string]int64) map[string]int64 {
	c := map[string]int64{}
	for k, v := range m {
		c[k] = v
	}
	return c
}

func msgTypeID(name string) int {
	switch name {
	case "stake_validator":
		return 0
	case "begin_unstaking_validator":
		return 1
	case "unjail":
		return 2
	case "send":
		return 3
	case govTypes.MsgChangeParamName:
		return 4
	case govTypes.MsgDAOTransferName:
		return 5
	case govTypes.MsgUpgradeName:
		return 6
	}
	return 99
}
