// Command ms: driver for rootmulti + iavl + transient (engine `ms`, C12/C13/C14, part of C01).
// It runs seeded write/commit/reopen/query histories on the real stores over a MemDB wrapped in a
// DB that counts the atomic write units of Commit and can stop ("crash") before unit k+1.
//   <out>/ms.ops   input of the model        <out>/ms.impl  one observation per op
// A twin instance without crashes runs the same writes; its hashes are what an uninterrupted run gives.
package main

import (
	"bufio"
	"bytes"
	"encoding/hex"
	"encoding/json"
	"flag"
	"fmt"
	"os"
	"sort"
	"strings"

	abci "github.com/tendermint/tendermint/abci/types"
	"github.com/tendermint/tendermint/crypto/merkle"
	dbm "github.com/tendermint/tm-db"

	"github.com/pokt-network/posmint/store/rootmulti"
	stypes "github.com/pokt-network/posmint/store/types"
	"verif/harness/internal/rng"
)

var stats = map[string]int{}

func hx(b []byte) string {
	if len(b) == 0 {
		return "."
	}
	return hex.EncodeToString(b)
}

// ---------------------------------------------------------------- instrumented DB
type crashDB struct {
	dbm.DB
	armed  bool
	budget int      // units still allowed while armed
	log    []string // store name touched by each unit while armed
	own    map[string]dbm.DB // non-nil: every IAVL store is mounted on a database of its own (kept across reopenings)
}

func (c *crashDB) ownFor(name string) dbm.DB {
	if c.own == nil {
		return nil
	}
	if c.own[name] == nil {
		c.own[name] = dbm.NewMemDB()
	}
	return c.own[name]
}

type crashSignal struct{}

func unitName(key []byte) string {
	s := string(key)
	if strings.HasPrefix(s, "s/k:") {
		r := s[4:]
		if i := strings.Index(r, "/"); i >= 0 {
			return r[:i]
		}
	}
	return "@root"
}

func (c *crashDB) unit(key []byte) {
	if !c.armed {
		return
	}
	if c.budget == 0 {
		panic(crashSignal{})
	}
	if c.budget > 0 {
		c.budget--
	}
	c.log = append(c.log, unitName(key))
}
func (c *crashDB) Set(k, v []byte)     { c.unit(k); c.DB.Set(k, v) }
func (c *crashDB) SetSync(k, v []byte) { c.unit(k); c.DB.SetSync(k, v) }
func (c *crashDB) Delete(k []byte)     { c.unit(k); c.DB.Delete(k) }
func (c *crashDB) DeleteSync(k []byte) { c.unit(k); c.DB.DeleteSync(k) }
func (c *crashDB) NewBatch() dbm.Batch { return &crashBatch{c: c, b: c.DB.NewBatch()} }

type crashBatch struct {
	c     *crashDB
	b     dbm.Batch
	first []byte
	n     int
}

func (b *crashBatch) Set(k, v []byte) {
	if b.n == 0 {
		b.first = append([]byte{}, k...)
	}
	b.n++
	b.b.Set(k, v)
}
func (b *crashBatch) Delete(k []byte) {
	if b.n == 0 {
		b.first = append([]byte{}, k...)
	}
	b.n++
	b.b.Delete(k)
}
func (b *crashBatch) Write() {
	if b.n > 0 {
		b.c.unit(b.first)
	}
	b.b.Write()
}
func (b *crashBatch) WriteSync() {
	if b.n > 0 {
		b.c.unit(b.first)
	}
	b.b.WriteSync()
}
func (b *crashBatch) Close() { b.b.Close() }

// ---------------------------------------------------------------- one instance
type inst struct {
	db    *crashDB
	ms    *rootmulti.Store
	keys  map[string]*stypes.KVStoreKey
	tkey  *stypes.TransientStoreKey
	names []string
	prune stypes.PruningOptions
}

func newInst(db *crashDB, names []string, prune stypes.PruningOptions) (*inst, error) {
	in := &inst{db: db, names: names, prune: prune, keys: map[string]*stypes.KVStoreKey{}}
	in.ms = rootmulti.NewStore(db)
	in.ms.SetPruning(prune)
	for _, n := range names {
		k := stypes.NewKVStoreKey(n)
		in.keys[n] = k
		in.ms.MountStoreWithDB(k, stypes.StoreTypeIAVL, db.ownFor(n))
	}
	in.tkey = stypes.NewTransientStoreKey("tr")
	in.ms.MountStoreWithDB(in.tkey, stypes.StoreTypeTransient, nil)
	return in, nil
}

func (in *inst) content(name string) string {
	st := in.ms.GetKVStore(in.keys[name])
	it := st.Iterator(nil, nil)
	defer it.Close()
	var parts []string
	for ; it.Valid(); it.Next() {
		parts = append(parts, hx(it.Key())+"="+hx(it.Value()))
	}
	return name + ":{" + strings.Join(parts, ",") + "}"
}
func (in *inst) contents() string {
	var xs []string
	for _, n := range in.names {
		xs = append(xs, in.content(n))
	}
	// transient store
	it := in.ms.GetKVStore(in.tkey).Iterator(nil, nil)
	n := 0
	for ; it.Valid(); it.Next() {
		n++
	}
	it.Close()
	return strings.Join(xs, ";") + fmt.Sprintf(" tr=%d", n)
}

// safely runs a load; a panic inside it is an error like any other (the history is then judged on what it reports)
func safely(f func() error) (err error) {
	defer func() {
		if r := recover(); r != nil {
			err = fmt.Errorf("panic: %v", r)
		}
	}()
	return f()
}

func try(f func()) (crashed bool, other interface{}) {
	defer func() {
		if r := recover(); r != nil {
			if _, ok := r.(crashSignal); ok {
				crashed = true
			} else {
				other = r
			}
		}
	}()
	f()
	return
}

type write struct {
	store string
	del   bool
	k, v  []byte
}

var alphabet = []byte{0x01, 0x61, 0x62, 0xff}

func randKey(r *rng.R) []byte {
	n := 1 + r.Intn(3)
	k := make([]byte, n)
	for i := range k {
		k[i] = alphabet[r.Intn(len(alphabet))]
	}
	return k
}

func main() {
	seed := flag.Uint64("seed", 1, "seed")
	n := flag.Int("n", 200, "number of histories")
	out := flag.String("out", ".", "output directory")
	flag.Parse()
	r := rng.New(*seed)
	fo, _ := os.Create(*out + "/ms.ops")
	fi, _ := os.Create(*out + "/ms.impl")
	wo, wi := bufio.NewWriter(fo), bufio.NewWriter(fi)
	defer func() { wo.Flush(); wi.Flush(); fo.Close(); fi.Close() }()
	for i := 0; i < *n; i++ {
		runHistory(r, i, wo, wi)
	}
	js, _ := json.MarshalIndent(stats, "", " ")
	_ = os.WriteFile(*out+"/ms.stats.json", js, 0644)
}

func runHistory(r *rng.R, id int, wo, wi *bufio.Writer) {
	ns := 1 + r.Intn(4)
	names := []string{"acc", "main", "pos", "zgov"}[:ns]
	// the policy as the numbers the harness chose (for the shipped options: the numbers their documentation states), never as
	// read back through the accessors the stores themselves use
	var prune stypes.PruningOptions
	var kr, ke int64
	switch r.Intn(8) {
	case 0:
		prune, kr, ke = stypes.PruneEverything, 0, 0
	case 1:
		prune, kr, ke = stypes.PruneNothing, 0, 1
	case 2:
		prune, kr, ke = stypes.PruneSyncable, 100, 10000
	case 3:
		kr, ke = 1, 0
		prune = stypes.NewPruningOptions(kr, ke)
	case 4:
		kr, ke = int64(r.Intn(4)), int64(r.Intn(4))
		prune = stypes.NewPruningOptions(kr, ke)
	case 5:
		kr, ke = 2, 3
		prune = stypes.NewPruningOptions(kr, ke)
	case 6:
		kr, ke = 0, 2
		prune = stypes.NewPruningOptions(kr, ke)
	default:
		kr, ke = int64(1+r.Intn(3)), int64(r.Intn(3))
		prune = stypes.NewPruningOptions(kr, ke)
	}
	fmt.Fprintf(wo, "H %d %d %d %s\n", id, kr, ke, strings.Join(names, ","))
	stats[fmt.Sprintf("prune/%d,%d", kr, ke)]++
	dbA := &crashDB{DB: dbm.NewMemDB()}
	dbB := &crashDB{DB: dbm.NewMemDB()}
	if r.Chance(1, 6) { // every store of instance A on its own database; the twin keeps them all in one
		dbA.own = map[string]dbm.DB{}
		stats["stores-on-their-own-databases"]++
	}
	A, _ := newInst(dbA, names, prune)
	B, _ := newInst(dbB, names, prune)
	if err := A.ms.LoadLatestVersion(); err != nil {
		panic(err)
	}
	_ = B.ms.LoadLatestVersion()
	idx := 0
	emit := func(op, res string) {
		fmt.Fprintln(wo, op)
		fmt.Fprintf(wi, "%d.%d %s\n", id, idx, res)
		idx++
		rk := strings.SplitN(res, " ", 2)[0]
		if strings.HasPrefix(rk, "val=") {
			rk = "value"
		}
		stats["op/"+strings.SplitN(op, " ", 2)[0]+"/"+rk]++
	}
	var pending []write // writes of the current block
	ever := map[string][][]byte{} // every key ever written to a store (deleted ones included)
	apply := func(in *inst, w write) {
		st := in.ms.GetKVStore(in.keys[w.store])
		if w.del {
			st.Delete(w.k)
		} else {
			st.Set(w.k, w.v)
		}
	}
	hashes := map[int64][]byte{} // version -> app hash of the uninterrupted twin
	own := map[int64][]byte{}    // version -> app hash this instance returned from Commit
	dead := false
	nops := 20 + r.Intn(60)
	for i := 0; i < nops && !dead; i++ {
		switch c := r.Intn(20); {
		case c < 9: // write
			w := write{store: names[r.Intn(ns)], del: r.Chance(1, 4), k: randKey(r)}
			if !w.del {
				w.v = r.Bytes(1 + r.Intn(4))
				if r.Chance(1, 8) {
					w.v = []byte{} // present with an empty value
				}
			}
			apply(A, w)
			apply(B, w)
			pending = append(pending, w)
			if !w.del {
				ever[w.store] = append(ever[w.store], w.k)
			} else if ks := ever[w.store]; len(ks) > 0 && r.Bool() {
				// delete a key that exists (or existed): later queries at the heights where it was present must still find it
				w2 := write{store: w.store, del: true, k: ks[r.Intn(len(ks))]}
				apply(A, w2)
				apply(B, w2)
				pending = append(pending, w2)
				emit(fmt.Sprintf("D %s %s", w2.store, hx(w2.k)), "ok")
			}
			if w.del {
				emit(fmt.Sprintf("D %s %s", w.store, hx(w.k)), "ok")
			} else {
				emit(fmt.Sprintf("S %s %s %s", w.store, hx(w.k), hx(w.v)), "ok")
			}
		case c < 10 && r.Chance(1, 6): // change the pruning policy of the loaded store
			nkr, nke := int64(r.Intn(4)), int64(r.Intn(4))
			np := stypes.NewPruningOptions(nkr, nke)
			if r.Chance(1, 3) {
				j := r.Intn(3)
				np = []stypes.PruningOptions{stypes.PruneEverything, stypes.PruneNothing, stypes.PruneSyncable}[j]
				nkr, nke = []int64{0, 0, 100}[j], []int64{0, 1, 10000}[j]
			}
			A.ms.SetPruning(np)
			B.ms.SetPruning(np)
			A.prune, B.prune, prune = np, np, np
			emit(fmt.Sprintf("P %d %d", nkr, nke), "ok")
		case c < 10: // transient write
			k, v := randKey(r), r.Bytes(2)
			A.ms.GetKVStore(A.tkey).Set(k, v)
			B.ms.GetKVStore(B.tkey).Set(k, v)
			emit(fmt.Sprintf("T %s %s", hx(k), hx(v)), "ok")
		case c < 14: // commit
			dbA.armed, dbA.budget, dbA.log = true, -1, nil
			var idA stypes.CommitID
			if _, o := try(func() { idA = A.ms.Commit() }); o != nil {
				dbA.armed = false
				emit("C -", fmt.Sprintf("panic %v", o))
				dead = true
				break
			}
			dbA.armed = false
			idB := B.ms.Commit()
			hashes[idB.Version] = idB.Hash
			own[idA.Version] = idA.Hash
			pending = nil
			order := orderOf(dbA.log)
			emit("C "+strings.Join(order, ","), fmt.Sprintf("ok ver=%d twin=%v info=%v %s", idA.Version, bytes.Equal(idA.Hash, idB.Hash),
				bytes.Equal(A.ms.LastCommitID().Hash, idA.Hash), A.contents()))
		case c < 16: // crash during commit
			if dbA.own != nil { // (the crash points are counted on the shared database only)
				continue
			}
			budget := r.Intn(2*ns + 2)
			old := A.ms.LastCommitID().Version
			dbA.armed, dbA.budget, dbA.log = true, budget, nil
			var idA stypes.CommitID
			crashed, o := try(func() { idA = A.ms.Commit() })
			dbA.armed = false
			if o != nil {
				emit("X -", fmt.Sprintf("panic %v", o))
				dead = true
				break
			}
			units := append([]string{}, dbA.log...)
			if !crashed {
				idB := B.ms.Commit()
				hashes[idB.Version] = idB.Hash
				own[idA.Version] = idA.Hash
				pending = nil
				emit(fmt.Sprintf("X %d %s", budget, strings.Join(units, ",")), fmt.Sprintf("nocrash ver=%d twin=%v %s", idA.Version, bytes.Equal(idA.Hash, idB.Hash), A.contents()))
				break
			}
			// the process is gone: reopen a fresh store on what reached the disk
			A2, _ := newInst(dbA, names, prune)
			err := A2.ms.LoadLatestVersion()
			if err != nil {
				emit(fmt.Sprintf("X %d %s", budget, strings.Join(units, ",")), "crash reopen=err")
				dead = true
				break
			}
			A = A2
			ver := A.ms.LastCommitID().Version
			res := fmt.Sprintf("crash reopen=ok ver=%d old=%d %s", ver, old, A.contents())
			// re-execute the interrupted block (if the old version came back) and commit
			if ver == old {
				for _, w := range pending {
					apply(A, w)
				}
				var id2 stypes.CommitID
				if _, o := try(func() { id2 = A.ms.Commit() }); o != nil {
					emit(fmt.Sprintf("X %d %s", budget, strings.Join(units, ",")), res+fmt.Sprintf(" recommit=panic"))
					dead = true
					break
				}
				idB := B.ms.Commit()
				hashes[idB.Version] = idB.Hash
				own[id2.Version] = id2.Hash
				res += fmt.Sprintf(" recommit=ok ver=%d twin=%v %s", id2.Version, bytes.Equal(id2.Hash, idB.Hash), A.contents())
			} else {
				idB := B.ms.Commit()
				hashes[idB.Version] = idB.Hash
				own[A.ms.LastCommitID().Version] = A.ms.LastCommitID().Hash
				own[A.ms.LastCommitID().Version] = A.ms.LastCommitID().Hash
				res += fmt.Sprintf(" newversion twin=%v", bytes.Equal(A.ms.LastCommitID().Hash, idB.Hash))
			}
			pending = nil
			emit(fmt.Sprintf("X %d %s", budget, strings.Join(units, ",")), res)
		case c < 17: // reopen (uncommitted writes are lost); sometimes with one more store mounted than before
			op := "R"
			if len(names) < 6 && A.ms.LastCommitID().Version >= 1 && i >= 2*nops/3 && r.Chance(1, 2) { // late in the history: what follows is judged by the model only
				late := fmt.Sprintf("zz%d", len(names))
				names = append(append([]string{}, names...), late)
				ns = len(names)
				op = "M " + late
				stats["late-mount"]++
			}
			A2, _ := newInst(dbA, names, prune)
			err := safely(A2.ms.LoadLatestVersion)
			B2, _ := newInst(dbB, names, prune)
			_ = B2.ms.LoadLatestVersion()
			if err != nil {
				emit(op, "err")
				dead = true
				break
			}
			A, B = A2, B2
			pending = nil
			h, ok := own[A.ms.LastCommitID().Version]
			emit(op, fmt.Sprintf("ok ver=%d info=%v %s", A.ms.LastCommitID().Version, !ok || bytes.Equal(h, A.ms.LastCommitID().Hash), A.contents()))
		case c < 18 && r.Chance(1, 4): // a private copy of the live store loads some version (what a height-addressed custom query does): the live store must not notice
			cur := A.ms.LastCommitID().Version
			v := int64(0)
			if r.Bool() {
				v = int64(r.Intn(int(cur) + 2))
			}
			try(func() { cp := (*A.ms.CopyStore()).(*rootmulti.Store); _ = cp.LoadVersion(v) })
			emit(fmt.Sprintf("K %d", v), "done")
		case c < 18: // load an explicit version on a scratch instance
			cur := A.ms.LastCommitID().Version
			v := int64(r.Intn(int(cur) + 3))
			S, _ := newInst(dbA, names, prune)
			err := safely(func() error { return S.ms.LoadVersion(v) })
			if err != nil {
				// a load that fails must leave a live store as it was: the same call on the running instances (v = 0 is a
				// legitimate reset of a live store and is not tried)
				if v != 0 && r.Bool() {
					eA := A.ms.LoadVersion(v)
					stats["live-load-of-unavailable-version"]++
					if eA == nil {
						emit(fmt.Sprintf("L %d", v), "ok-on-the-live-store-although-a-fresh-instance-fails")
						break
					}
				}
				emit(fmt.Sprintf("L %d", v), "err")
			} else {
				h, ok := own[v]
				emit(fmt.Sprintf("L %d", v), fmt.Sprintf("ok ver=%d info=%v %s", S.ms.LastCommitID().Version, !ok || v == 0 || bytes.Equal(h, S.ms.LastCommitID().Hash), S.contents()))
			}
		default: // query with proof
			cur := A.ms.LastCommitID().Version
			store := names[r.Intn(ns)]
			k := randKey(r)
			if ks := ever[store]; len(ks) > 0 && r.Chance(1, 3) { // a key that was written at some point, possibly deleted since
				k = ks[r.Intn(len(ks))]
			} else if r.Bool() { // a key that is in the store now
				it := A.ms.GetKVStore(A.keys[store]).Iterator(nil, nil)
				var ks [][]byte
				for ; it.Valid(); it.Next() {
					ks = append(ks, append([]byte{}, it.Key()...))
				}
				it.Close()
				if len(ks) > 0 {
					k = ks[r.Intn(len(ks))]
				}
			}
			hgt := int64(1 + r.Intn(int(cur)+2))
			if cur >= 1 && r.Chance(1, 5) {
				hgt = 0 // "the default height"
			}
			if r.Chance(1, 4) { // a versioned read through CacheMultiStoreWithVersion, mostly at the latest version (pending writes must not show)
				ver := cur
				if r.Chance(1, 3) {
					ver = int64(1 + r.Intn(int(cur)+2))
				}
				res := "noversion"
				if _, o := try(func() {
					cms, err := A.ms.CacheMultiStoreWithVersion(ver)
					if err != nil {
						return
					}
					if v := cms.GetKVStore(A.keys[store]).Get(k); v != nil {
						res = "val=" + hx(v)
					} else {
						res = "none"
					}
				}); o != nil {
					res = "panic " + strings.ReplaceAll(fmt.Sprint(o), " ", "_")
				}
				emit(fmt.Sprintf("V %s %s %d", store, hx(k), ver), res)
				break
			}
			prove := r.Bool()
			var q abci.ResponseQuery
			if _, o := try(func() {
				q = A.ms.Query(abci.RequestQuery{Path: "/" + store + "/key", Data: k, Height: hgt, Prove: prove})
			}); o != nil {
				msg := fmt.Sprint(o)
				if len(msg) > 60 {
					msg = msg[:60]
				}
				emit(fmt.Sprintf("Q %s %s %d %v", store, hx(k), hgt, prove), "panic "+strings.ReplaceAll(msg, " ", "_"))
				break
			}
			res := "none"
			if q.Code != 0 {
				res = "err"
			} else if q.Value != nil {
				res = "val=" + hx(q.Value)
			} else if q.Log != "" {
				res = "noversion"
			}
			// the proof must verify against the app hash of that height and against no other
			pv := ""
			if prove && q.Code == 0 && q.Proof != nil && len(q.Proof.Ops) > 0 {
				prt := rootmulti.DefaultProofRuntime()
				kp := merkle.KeyPath{}
				kp = kp.AppendKey([]byte(store), merkle.KeyEncodingURL)
				kp = kp.AppendKey(k, merkle.KeyEncodingURL)
				good, bad := 0, 0
				var vers []int64
				for v := range own {
					vers = append(vers, v)
				}
				sort.Slice(vers, func(i, j int) bool { return vers[i] < vers[j] })
				for _, v := range vers {
					var err error
					if q.Value != nil {
						err = prt.VerifyValue(q.Proof, own[v], kp.String(), q.Value)
					} else {
						err = prt.VerifyAbsence(q.Proof, own[v], kp.String())
					}
					eff := hgt
					if hgt == 0 {
						eff = q.Height // the height the store says it answered for
					}
					if err == nil {
						if v == eff || bytes.Equal(own[v], own[eff]) {
							good++
						} else {
							bad++
						}
					}
				}
				pv = fmt.Sprintf(" proof=ok:%d,wrong:%d", good, bad)
			} else if prove && q.Code == 0 && res != "noversion" {
				pv = " proof=missing"
			}
			emit(fmt.Sprintf("Q %s %s %d %v", store, hx(k), hgt, prove), res+pv)
		}
	}
	fmt.Fprintln(wo, "E")
}

// order in which the substores were committed = first occurrence of each name in the unit log
func orderOf(log []string) []string {
	seen := map[string]bool{}
	var o []string
	for _, n := range log {
		if n != "@root" && !seen[n] {
			seen[n] = true
			o = append(o, n)
		}
	}
	return o
}
