(* Restart from an exported state (x/pos/genesis.go ExportGenesis / InitGenesis).
   ExportGenesis carries the validator RECORDS; InitGenesis rebuilds the two secondary structures (power index,
   unstaking queue) from them with the same primitives the handlers use (SetValidator, SetStakedValidator,
   SetUnstakingValidator). Proved here, for every state that satisfies the history-level invariants of
   IndexProofs/IndexComplete/QueueProofs (i.e. every reachable state):
     - the power index and the membership of the unstaking queue are FUNCTIONS of the live records: two states with
       the same live records and the invariants have the same index (as a value) and the same queue membership;
     - the state InitGenesis builds from any list of live records with distinct addresses satisfies all four
       invariants and holds exactly those records;
     - hence exporting a reachable state and importing it gives back the same index, the same queue membership and
       the same live records: a restart is the identity on what C05/C06 speak about.
   The export/import stream of the `app` engine (bin/props/xicheck.py) checks exactly these projections on the
   real ExportGenesis/InitGenesis. *)
From Coq Require Import List ZArith NArith Bool Lia.
From PM Require Import Base.Bytes Store.KV Store.MergeProofs Store.KVProofs App.Model App.IndexProofs App.IndexComplete App.QueueProofs.
Import ListNotations.

Definition live (o : option validator) : option validator :=
  match o with Some v => if (v_status v =? 0)%N then None else Some v | None => None end.
Definition same_live (V V' : amap validator) : Prop := forall a, live (aget V a) = live (aget V' a).

Lemma same_live_sym V V' : same_live V V' -> same_live V' V.
Proof. intros H a. symmetry. apply H. Qed.
Lemma same_live_get V V' a v : same_live V V' -> aget V a = Some v -> v_status v <> 0%N -> aget V' a = Some v.
Proof.
  intros H E St. specialize (H a). rewrite E in H. unfold live in H at 1.
  destruct (v_status v =? 0)%N eqn:B; [apply N.eqb_eq in B; contradiction|].
  unfold live in H. destruct (aget V' a) as [w|]; [|discriminate]. destruct (v_status w =? 0)%N; [discriminate|]. congruence.
Qed.

(* ---------- the index is a function of the live records ---------- *)
Lemma index_half V P V' P' k a : isound V P -> icomp V' P' -> same_live V V' -> aget P k = Some a -> aget P' k = Some a.
Proof.
  intros (_ & _ & HS) (_ & _ & _ & HC) L E. destruct (HS k a E) as (v & Ev & St & J & ->).
  apply HC; auto. eapply same_live_get; eauto. rewrite St. discriminate.
Qed.
Theorem index_is_a_function_of_the_records V P V' P' :
  isound V P -> icomp V P -> isound V' P' -> icomp V' P' -> same_live V V' -> P = P'.
Proof.
  intros S C S' C' L. apply amap_ext; [apply S|apply S'|]. intros k.
  destruct (aget P k) as [a|] eqn:E.
  - symmetry. exact (index_half V P V' P' k a S C' L E).
  - destruct (aget P' k) as [b|] eqn:E'; [|reflexivity].
    rewrite (index_half V' P' V P k b S' C (same_live_sym _ _ L) E') in E. discriminate.
Qed.

(* ---------- so is the membership of the unstaking queue ---------- *)
Lemma queue_half V Q V' Q' k a : qs V Q -> qc V' Q' -> same_live V V' -> queued Q k a -> queued Q' k a.
Proof.
  intros (_ & _ & HS) (_ & _ & HC) L (l & E & I). destruct (HS k l a E I) as (v & Ev & St & <-).
  apply HC; [discriminate| |exact St]. eapply same_live_get; eauto. rewrite St. discriminate.
Qed.
Theorem queue_is_a_function_of_the_records V Q V' Q' :
  qc V Q -> qs V Q -> qc V' Q' -> qs V' Q' -> same_live V V' -> forall k a, queued Q k a <-> queued Q' k a.
Proof.
  intros C S C' S' L k a. split; [exact (queue_half V Q V' Q' k a S C' L)|]. exact (queue_half V' Q' V Q k a S' C (same_live_sym _ _ L)).
Qed.

(* ---------- InitGenesis: rebuild from the records ---------- *)
Definition imp_one (acc : amap validator * amap bytes * amap (list bytes)) (av : bytes * validator) :=
  let '(V, P, Q) := acc in
  (aset V (fst av) (snd av),
   if v_jailed (snd av) || negb (v_status (snd av) =? 2)%N then P else aset P (rank_key (v_tokens (snd av)) (fst av)) (fst av),
   if (v_status (snd av) =? 1)%N then enqueue Q (qkey (snd av)) (fst av) else Q).
Definition import_from (acc : amap validator * amap bytes * amap (list bytes)) (l : list (bytes * validator)) := fold_left imp_one l acc.
Definition import (l : list (bytes * validator)) := import_from ([], [], []) l.
(* ExportGenesis hands over every record; the unstaked ones are the ones InitGenesis refuses *)
Definition export (V : amap validator) : list (bytes * validator) := filter (fun av => negb (v_status (snd av) =? 0)%N) V.

(* the same three writes on the model state: SetValidator, SetStakedValidator, SetUnstakingValidator *)
Definition import_validator (s : state) (av : bytes * validator) : state :=
  let s1 := set_staked (put_val s (fst av) (snd av)) (fst av) (snd av) in
  if (v_status (snd av) =? 1)%N then set_unstq s1 (enqueue (unstq s1) (qkey (snd av)) (fst av)) else s1.
Lemma import_validator_is_imp_one s av :
  let s' := import_validator s av in (vals s', powidx s', unstq s') = imp_one (vals s, powidx s, unstq s) av.
Proof.
  unfold import_validator, imp_one, set_staked. cbn zeta.
  destruct (v_jailed (snd av) || negb (v_status (snd av) =? 2)%N); destruct (v_status (snd av) =? 1)%N; reflexivity.
Qed.

Definition inv3 (acc : amap validator * amap bytes * amap (list bytes)) : Prop :=
  let '(V, P, Q) := acc in isound V P /\ icomp V P /\ qc V Q /\ qs V Q.

Lemma imp_one_inv V P Q a v : inv3 (V, P, Q) -> aget V a = None -> wf_bytes a -> inv3 (imp_one (V, P, Q) (a, v)).
Proof.
  intros (S & C & QC & QS) Fresh W. unfold imp_one. cbn [fst snd].
  assert (SV : asorted V) by apply S. assert (SP : asorted P) by apply S. assert (SQ : asorted Q) by apply QC.
  assert (G : aget (aset V a v) a = Some v) by (rewrite aget_aset by auto; rewrite beqb_refl; reflexivity).
  assert (NE : noent P a) by (eapply noent_absent; eauto).
  assert (S1 : isound (aset V a v) P) by (apply is_put; auto).
  assert (C1 : icompx a (aset V a v) P) by (apply icompx_put; auto; apply icomp_weaken; auto).
  assert (AB : absent Q a).
  { apply (absent_not_unstaking V); auto. intros w Ew. rewrite Fresh in Ew. discriminate. }
  split; [|split; [|split]].
  - destruct (v_jailed v || negb (v_status v =? 2)%N) eqn:B; [exact S1|].
    apply orb_false_elim in B. destruct B as [J B]. apply negb_false_iff, N.eqb_eq in B. apply is_set; auto.
  - destruct (v_jailed v || negb (v_status v =? 2)%N) eqn:B.
    + apply (icompx_close a); [exact C1|]. intros w Ew St J. rewrite G in Ew. injection Ew as <-.
      rewrite J, St in B. discriminate.
    + apply (icompx_close a); [apply icompx_ins; auto|]. intros w Ew _ _. rewrite G in Ew. injection Ew as <-.
      rewrite aget_aset by auto. rewrite beqb_refl. reflexivity.
  - assert (Q1 : qcx (Some a) (aset V a v) Q) by (apply qcx_put; apply qcx_weaken; auto).
    destruct (v_status v =? 1)%N eqn:B.
    + apply (qcx_close _ _ a); [apply qc_enqueue; auto|]. intros w Ew _. rewrite G in Ew. injection Ew as <-.
      apply queued_enqueue_self; auto.
    + apply (qcx_close _ _ a); [exact Q1|]. intros w Ew St. rewrite G in Ew. injection Ew as <-. rewrite St in B. discriminate.
  - destruct (v_status v =? 1)%N eqn:B.
    + apply N.eqb_eq in B. apply qs_enqueue_new; auto.
    + apply qs_put_absent; auto.
Qed.

Lemma import_from_spec l : forall V P Q, inv3 (V, P, Q) -> NoDup (map fst l) ->
  (forall a v, In (a, v) l -> aget V a = None /\ wf_bytes a) ->
  let '(V', P', Q') := import_from (V, P, Q) l in
  inv3 (V', P', Q') /\ forall a, aget V' a = match find (fun av => beqb (fst av) a) l with Some av => Some (snd av) | None => aget V a end.
Proof.
  induction l as [|[a v] l IH]; intros V P Q I ND F.
  - cbn. split; auto.
  - cbn [import_from fold_left]. inversion ND as [|? ? NI ND']; subst.
    assert (SV : asorted V) by (destruct I as (S & _); apply S).
    destruct (F a v (or_introl eq_refl)) as [Fa Wa].
    pose proof (imp_one_inv V P Q a v I Fa Wa) as I1.
    remember (imp_one (V, P, Q) (a, v)) as acc1 eqn:Eacc. destruct acc1 as [[V1 P1] Q1].
    assert (EV1 : V1 = aset V a v) by (unfold imp_one in Eacc; cbn [fst snd] in Eacc; congruence).
    specialize (IH V1 P1 Q1 I1 ND').
    assert (F1 : forall b w, In (b, w) l -> aget V1 b = None /\ wf_bytes b).
    { intros b w Ib. destruct (F b w (or_intror Ib)) as [Fb Wb]. split; auto. rewrite EV1, aget_aset by auto.
      destruct (beqb a b) eqn:B; auto. apply beqb_eq in B; subst b. exfalso. apply NI. apply (in_map fst) in Ib. exact Ib. }
    specialize (IH F1). unfold import_from in IH.
    destruct (fold_left imp_one l _) as [[V' P'] Q']. destruct IH as [I' G']. split; auto.
    intros b. rewrite G'. cbn [find fst snd]. destruct (find (fun av => beqb (fst av) b) l) as [av|] eqn:Ef.
    + destruct (beqb a b) eqn:B; auto. apply beqb_eq in B; subst b. exfalso. apply NI.
      apply find_some in Ef. destruct Ef as [Iav Eq]. apply beqb_eq in Eq. rewrite <- Eq. apply in_map. exact Iav.
    + rewrite EV1, aget_aset by auto. destruct (beqb a b); reflexivity.
Qed.

Lemma inv3_empty : inv3 ([], [], []).
Proof.
  repeat split; try exact I; try (intros; discriminate).
Qed.

Theorem import_establishes_the_invariants l : NoDup (map fst l) -> (forall a v, In (a, v) l -> wf_bytes a) ->
  let '(V', P', Q') := import l in
  isound V' P' /\ icomp V' P' /\ qc V' Q' /\ qs V' Q' /\
  forall a, aget V' a = match find (fun av => beqb (fst av) a) l with Some av => Some (snd av) | None => None end.
Proof.
  intros ND W. pose proof (import_from_spec l [] [] [] inv3_empty ND) as H.
  assert (F : forall a v, In (a, v) l -> aget (@nil (bytes * validator)) a = None /\ wf_bytes a) by (intros; split; eauto).
  specialize (H F). unfold import. destruct (import_from _ l) as [[V' P'] Q']. destruct H as [(S & C & QC & QS) G]. auto 10.
Qed.

(* ---------- export then import ---------- *)
Lemma aget_below {V} (m : amap V) a : (forall y, In y m -> bcompare a (fst y) = Lt) -> aget m a = None.
Proof. destruct m as [|[k v] m]; [reflexivity|]. intros H. cbn [aget]. specialize (H (k, v) (or_introl eq_refl)). cbn [fst] in H. rewrite H. reflexivity. Qed.
Lemma filter_sorted {V} (f : bytes * V -> bool) (m : amap V) : asorted m -> asorted (filter f m).
Proof.
  induction m as [|x m IH]; [auto|]. intros [Hx S]. cbn [filter]. destruct (f x); [|apply IH; auto].
  split; [|apply IH; auto]. intros y Iy. apply filter_In in Iy. apply Hx. apply Iy.
Qed.
Lemma aget_filter {V} (f : bytes * V -> bool) (m : amap V) a : asorted m ->
  aget (filter f m) a = match aget m a with Some v => if f (a, v) then Some v else None | None => None end.
Proof.
  induction m as [|[k v] m IH]; [reflexivity|]. intros [Hx S]. cbn [filter aget].
  assert (Below : forall b, bcompare b k <> Gt -> aget m b = None).
  { intros b Hb. apply aget_below. intros y Iy. specialize (Hx y Iy). cbn [fst] in Hx. unfold cmp in Hx.
    destruct (bcompare b k) eqn:C; [apply bcompare_eq in C; subst; exact Hx|eapply bcompare_lt_trans; eauto|contradiction]. }
  destruct (f (k, v)) eqn:F.
  - cbn [aget]. destruct (bcompare a k) eqn:C; [|reflexivity|apply IH; auto].
    apply bcompare_eq in C; subst. rewrite F. reflexivity.
  - destruct (bcompare a k) eqn:C.
    + apply bcompare_eq in C; subst. rewrite F. rewrite IH by auto. rewrite (Below k); [reflexivity|rewrite bcompare_refl; discriminate].
    + rewrite IH by auto. rewrite (Below a); [reflexivity|rewrite C; discriminate].
    + apply IH; auto.
Qed.
Lemma find_aget {V} (m : amap V) a : asorted m ->
  match find (fun av => beqb (fst av) a) m with Some av => Some (snd av) | None => None end = aget m a.
Proof.
  induction m as [|[k v] m IH]; [reflexivity|]. intros [Hx S]. cbn [find aget fst snd].
  destruct (beqb k a) eqn:B.
  - apply beqb_eq in B; subst. rewrite bcompare_refl. reflexivity.
  - destruct (bcompare a k) eqn:C.
    + apply bcompare_eq in C; subst. rewrite beqb_refl in B. discriminate.
    + rewrite IH by auto. apply aget_below. intros y Iy. specialize (Hx y Iy). cbn [fst] in Hx. unfold cmp in Hx.
      eapply bcompare_lt_trans; eauto.
    + apply IH; auto.
Qed.
Lemma aget_in {V} (m : amap V) k v : aget m k = Some v -> In (k, v) m.
Proof.
  induction m as [|[k0 v0] m IH]; [discriminate|]. cbn [aget]. destruct (bcompare k k0) eqn:C; [|discriminate|right; auto].
  apply bcompare_eq in C; subst. intros [= <-]. left. reflexivity.
Qed.
Lemma sorted_nodup {V} (m : amap V) : asorted m -> NoDup (map fst m).
Proof.
  induction m as [|[k v] m IH]; [constructor|]. intros [Hx S]. cbn [map fst]. constructor; [|apply IH; auto].
  intros I. apply in_map_iff in I. destruct I as ([k' w] & E & I). cbn [fst] in E. subst k'.
  specialize (Hx _ I). cbn [fst] in Hx. unfold cmp in Hx. rewrite bcompare_refl in Hx. discriminate.
Qed.
Lemma aget_export V a : asorted V -> aget (export V) a = live (aget V a).
Proof.
  intros S. unfold export. rewrite aget_filter by auto. unfold live. destruct (aget V a) as [v|]; [|reflexivity].
  cbn [snd]. destruct (v_status v =? 0)%N; reflexivity.
Qed.

(* a restart from the exported records gives back the records, the index and the queue membership *)
Theorem export_import_roundtrip s : idx_sound s -> idx_complete s -> queue_ok s -> queue_sound s ->
  let '(V', P', Q') := import (export (vals s)) in
  V' = export (vals s) /\ same_live (vals s) V' /\ P' = powidx s /\ (forall k a, queued Q' k a <-> queued (unstq s) k a).
Proof.
  intros S C QC QS. assert (SV : asorted (vals s)) by apply S.
  assert (SE : asorted (export (vals s))) by (apply filter_sorted; auto).
  pose proof (import_establishes_the_invariants (export (vals s)) (sorted_nodup _ SE)) as H.
  assert (W : forall a v, In (a, v) (export (vals s)) -> wf_bytes a).
  { intros a v I. apply filter_In in I. destruct I as [I _]. destruct C as (_ & _ & W & _). apply (W a v). apply in_aget; auto. }
  specialize (H W). destruct (import (export (vals s))) as [[V' P'] Q']. destruct H as (S' & C' & QC' & QS' & G).
  assert (EV : V' = export (vals s)).
  { apply amap_ext; [apply S'|exact SE|]. intros a. rewrite G. apply find_aget; auto. }
  assert (L : same_live (vals s) V').
  { intros a. rewrite EV, aget_export by auto. unfold live. destruct (aget (vals s) a) as [v|]; [|reflexivity].
    destruct (v_status v =? 0)%N eqn:B; [reflexivity|]. rewrite B. reflexivity. }
  split; [exact EV|]. split; [exact L|]. split.
  - symmetry. eapply index_is_a_function_of_the_records; eauto.
  - intros k a. symmetry. eapply queue_is_a_function_of_the_records; eauto.
Qed.
