(* C07, the whole effect of one slash on a state that satisfies the pool invariant: exactly
   D = min(trunc(p * 10^6 * f), stake)  - or the whole stake when the remainder falls below the minimum (forced unstake) -
   leaves the validator's record, the staked pool and the total supply; nobody else's balance and no other validator's
   record changes. A slash that computes a non-positive amount changes nothing at all. *)
From Coq Require Import List ZArith NArith Bool Lia.
From PM Require Import Base.Bytes Store.KV Store.MergeProofs Store.KVProofs Num.IntModel Num.DecModel
  App.Model App.BankProofs App.IndexProofs App.QueueProofs App.PoolProofs App.PoolExact.
Import ListNotations.
Local Open Scope Z_scope.

Section S.
Variable MA : modaddrs.
Notation P := (m_pool MA).

(* what one removal of D tokens from validator a looks like from outside *)
Definition removed (s s' : state) (a : bytes) (D : Z) : Prop :=
  supply s' = supply s - D /\ bal s' P = bal s P - D /\ (forall x, x <> P -> bal s' x = bal s x) /\
  (exists v v', get_val s a = Some v /\ get_val s' a = Some v' /\ stk v' = stk v - D /\ v_pk v' = v_pk v /\ v_jailed v' = v_jailed v) /\
  (forall b, b <> a -> get_val s' b = get_val s b).

Lemma burn_pool_effect s amt s' : bank_ok s -> ma s = MA -> bank_burn s P amt = Some s' ->
  supply s' = supply s - amt /\ bal s' P = bal s P - amt /\ (forall x, x <> P -> bal s' x = bal s x) /\ vals s' = vals s /\ ma s' = ma s /\ pp s' = pp s.
Proof.
  intros B EM E. destruct (bank_burn_ok _ _ _ _ B E) as (_ & S & _). destruct (bank_burn_frame _ _ _ _ E) as (F1 & _ & F3).
  split; [exact S|]. split; [|split; [|split; [exact F1|split; [eapply burn_ma; eauto|exact F3]]]].
  - destruct (bal_burn _ _ _ _ P B E) as [_ Eb]. rewrite beqb_refl in Eb. exact Eb.
  - intros x Nx. destruct (bal_burn _ _ _ _ x B E) as [_ Eb]. destruct (beqb P x) eqn:Bq; [apply beqb_eq in Bq; congruence|]. lia.
Qed.

(* ForceValidatorUnstake: the whole remaining stake goes *)
Lemma force_unstake_exact s a v s' : pool_ok MA s -> get_val s a = Some v -> force_unstake s a v = Some s' ->
  removed s s' a (stk v) /\ exists v', get_val s' a = Some v' /\ v_status v' = 0%N /\ v_tokens v' = 0.
Proof.
  intros H E. unfold force_unstake.
  set (s1 := if (v_status v =? 1)%N then del_unstaking (del_staked s a v) a v else del_staked s a v).
  assert (F1 : accts s1 = accts s /\ vals s1 = vals s /\ ma s1 = ma s /\ supply s1 = supply s)
    by (unfold s1; destruct (v_status v =? 1)%N; repeat split; reflexivity).
  destruct F1 as (A1 & V1 & M1 & U1).
  destruct H as (EM & B & V & D & L). destruct (proj2 V a v E) as [Nv Zv].
  assert (B1 : bank_ok s1) by (unfold bank_ok; rewrite A1, U1; exact B).
  assert (Bal1 : forall x, bal s1 x = bal s x) by (intros x; unfold bal; rewrite A1; reflexivity).
  assert (SV : asorted (vals s)) by apply V.
  set (v0 := with_status (with_tokens v 0) 0).
  assert (Fin : forall s2, vals s2 = vals s -> get_val (put_val s2 a v0) a = Some v0 /\ forall b, b <> a -> get_val (put_val s2 a v0) b = get_val s b).
  { intros s2 E2. unfold get_val. cbn [vals put_val set_vals]. rewrite E2. split.
    - rewrite aget_aset by auto. rewrite beqb_refl. reflexivity.
    - intros b Nb. rewrite aget_aset by auto. destruct (beqb a b) eqn:Bq; [apply beqb_eq in Bq; congruence|reflexivity]. }
  destruct (0 <? v_tokens v) eqn:Pos.
  - unfold burn_staked. destruct (v_tokens v <=? 0) eqn:Le; [discriminate|].
    replace (ma s1) with MA by congruence.
    destruct (bank_burn s1 P (v_tokens v)) as [s2|] eqn:E2; [|discriminate]. intros [= <-].
    destruct (burn_pool_effect s1 (v_tokens v) s2 B1 (eq_trans M1 EM) E2) as (S2 & P2 & O2 & V2 & _ & _).
    assert (Sv : stk v = v_tokens v).
    { unfold stk. destruct (v_status v =? 0)%N eqn:S0; auto. apply N.eqb_eq in S0. apply Zv in S0. apply Z.ltb_lt in Pos. lia. }
    destruct (Fin s2 (eq_trans V2 V1)) as [G1 G2].
    split.
    + split; [cbn [supply put_val set_vals]; rewrite S2, U1, Sv; reflexivity|].
      split; [rewrite bal_put_val, P2, Bal1, Sv; reflexivity|].
      split; [intros x Nx; rewrite bal_put_val, O2, Bal1 by auto; reflexivity|].
      split; [|exact G2]. exists v, v0. repeat split; auto. unfold stk at 1. cbn. lia.
    + exists v0. repeat split; auto.
  - apply Z.ltb_ge in Pos. intros [= <-].
    assert (Sv : stk v = 0) by (unfold stk; destruct (v_status v =? 0)%N; lia).
    destruct (Fin s1 V1) as [G1 G2].
    split.
    + split; [cbn [supply put_val set_vals]; rewrite U1, Sv; lia|].
      split; [rewrite bal_put_val, Bal1, Sv; lia|].
      split; [intros x Nx; rewrite bal_put_val, Bal1; reflexivity|].
      split; [|exact G2]. exists v, v0. repeat split; auto. unfold stk at 1. cbn. lia.
    + exists v0. repeat split; auto.
Qed.

Lemma removed_trans s1 s2 s3 a D1 D2 : removed s1 s2 a D1 -> removed s2 s3 a D2 -> removed s1 s3 a (D1 + D2).
Proof.
  intros (S1 & P1 & O1 & (v & v' & E1 & E1' & K1 & Pk1 & J1) & R1) (S2 & P2 & O2 & (w & w' & E2 & E2' & K2 & Pk2 & J2) & R2).
  rewrite E1' in E2. injection E2 as <-.
  split; [lia|]. split; [lia|]. split; [intros x Nx; rewrite O2, O1 by auto; reflexivity|].
  split; [exists v, w'; repeat split; auto; try lia; congruence|]. intros b Nb. rewrite R2, R1 by auto. reflexivity.
Qed.

(* the slash itself *)
Theorem slash_exact s a h p f v amount d sa : pool_ok MA s -> get_val s a = Some v -> v_status v <> 0%N ->
  (f <? 0) = false -> (height s <? h) = false ->
  tokens_from_power p = Some amount -> dec_mul (dec_from_int amount) f = Some d -> dec_truncate_int d = Some sa ->
  let burn := Z.max (Z.min sa (v_tokens v)) 0 in
  (burn = 0 -> exists x, slash s a h p f = SErr x /\ accts x = accts s /\ supply x = supply s /\ forall b, get_val x b = get_val s b) /\
  (0 < burn -> exists s', slash s a h p f = SOk s' /\
     removed s s' a (if v_tokens v - burn <? p_min_stake (pp s) then v_tokens v else burn)).
Proof.
  intros H E St F0 H0 T1 T2 T3 burn. unfold slash. rewrite F0, H0, E.
  destruct (v_status v =? 0)%N eqn:St0; [apply N.eqb_eq in St0; contradiction|]. rewrite T1, T2, T3.
  fold burn. set (v1 := with_tokens v (v_tokens v - burn)).
  pose proof H as (EM & B & V & M & L). destruct (proj2 V a v E) as [Nv Zv].
  assert (Hb : 0 <= burn <= v_tokens v) by (unfold burn; lia).
  assert (Sv : stk v = v_tokens v) by (unfold stk; rewrite St0; auto).
  assert (Sv1 : stk v1 = v_tokens v - burn) by (unfold stk, v1; cbn; rewrite St0; auto).
  set (s2 := set_staked (put_val (del_staked s a v) a v1) a v1).
  assert (V2 : vals s2 = aset (vals s) a v1) by (unfold s2; rewrite set_staked_vals; reflexivity).
  assert (A2 : accts s2 = accts s /\ supply s2 = supply s /\ ma s2 = ma s /\ pp s2 = pp s).
  { unfold s2, set_staked. destruct (_ || _); repeat split; reflexivity. }
  destruct A2 as (A2 & U2 & M2 & PP2).
  assert (SV : asorted (vals s)) by apply V.
  assert (G2 : get_val s2 a = Some v1 /\ forall b, b <> a -> get_val s2 b = get_val s b).
  { unfold get_val. rewrite V2. split; [rewrite aget_aset by auto; rewrite beqb_refl; reflexivity|].
    intros b Nb. rewrite aget_aset by auto. destruct (beqb a b) eqn:Bq; [apply beqb_eq in Bq; congruence|reflexivity]. }
  destruct G2 as [G2a G2b].
  assert (B2 : bank_ok s2) by (unfold bank_ok; rewrite A2, U2; exact B).
  assert (Bal2 : forall x, bal s2 x = bal s x) by (intros x; unfold bal; rewrite A2; reflexivity).
  split.
  - intros Z0. unfold burn_staked. rewrite Z0. cbn [Z.leb]. exists s2. split; [reflexivity|]. split; [exact A2|]. split; [exact U2|].
    intros b. destruct (list_eq_dec N.eq_dec b a) as [->|Nb]; [|apply G2b; auto].
    rewrite G2a, E. f_equal. unfold v1, with_tokens. rewrite Z0. destruct v; cbn. f_equal. lia.
  - intros Pos. unfold burn_staked. destruct (burn <=? 0) eqn:Le; [apply Z.leb_le in Le; lia|].
    replace (ma s2) with MA by congruence.
    assert (Afford : burn <= bal s2 P).
    { rewrite Bal2. pose proof (ssum_ge_stkz (vals s) a V) as G. unfold stkz in G. unfold get_val in E. rewrite E in G. lia. }
    destruct (bank_burn s2 P burn) as [s3|] eqn:E3.
    2:{ exfalso. unfold bank_burn in E3. destruct ((burn <? 0) || (bal s2 P <? burn)) eqn:G; [|discriminate].
        apply orb_true_iff in G. destruct G as [G|G]; apply Z.ltb_lt in G; lia. }
    destruct (burn_pool_effect s2 burn s3 B2 (eq_trans M2 EM) E3) as (S3 & P3 & O3 & V3 & M3 & PP3).
    assert (R3 : removed s s3 a burn).
    { split; [rewrite S3, U2; reflexivity|]. split; [rewrite P3, Bal2; reflexivity|].
      split; [intros x Nx; rewrite O3, Bal2 by auto; reflexivity|].
      split; [exists v, v1; unfold get_val in *; rewrite V3; repeat split; auto; lia|].
      intros b Nb. unfold get_val in *. rewrite V3. apply G2b; auto. }
    rewrite PP3, PP2. change (v_tokens v1) with (v_tokens v - burn).
    destruct (v_tokens v - burn <? p_min_stake (pp s)) eqn:Below; [|exists s3; split; [reflexivity|exact R3]].
    assert (H3 : pool_ok MA s3).
    { split; [congruence|]. split; [eapply burn_pres; eauto|]. rewrite V3. split.
      - rewrite V2. apply vals_ok_aset; auto; unfold v1; cbn; [lia|]. intros S0. rewrite S0 in St0. discriminate.
      - split; [exact M|]. rewrite P3, Bal2, V2, ssum_aset by auto. unfold stkz. unfold get_val in E. rewrite E. lia. }
    assert (G3 : get_val s3 a = Some v1) by (unfold get_val in *; rewrite V3; exact G2a).
    destruct (force_unstake s3 a v1) as [s4|] eqn:E4.
    + destruct (force_unstake_exact s3 a v1 s4 H3 G3 E4) as [R4 _]. exists s4. split; [reflexivity|].
      pose proof (removed_trans _ _ _ _ _ _ R3 R4) as R. rewrite Sv1 in R. replace (burn + (v_tokens v - burn)) with (v_tokens v) in R by lia. exact R.
    + (* the forced unstake cannot fail: the pool affords the remainder *)
      exfalso. unfold force_unstake in E4.
      set (s5 := if (v_status v1 =? 1)%N then del_unstaking (del_staked s3 a v1) a v1 else del_staked s3 a v1) in E4.
      assert (F5 : accts s5 = accts s3 /\ ma s5 = ma s3) by (unfold s5; destruct (v_status v1 =? 1)%N; split; reflexivity).
      destruct F5 as [A5 M5].
      destruct (0 <? v_tokens v1) eqn:Pos1; [|discriminate].
      unfold burn_staked in E4. destruct (v_tokens v1 <=? 0) eqn:Le1; [apply Z.leb_le in Le1; apply Z.ltb_lt in Pos1; lia|].
      destruct (bank_burn s5 (m_pool (ma s5)) (v_tokens v1)) as [s6|] eqn:E6; [discriminate|].
      unfold bank_burn in E6. destruct ((v_tokens v1 <? 0) || (bal s5 (m_pool (ma s5)) <? v_tokens v1)) eqn:G; [|discriminate].
      apply orb_true_iff in G. apply Z.ltb_lt in Pos1. destruct G as [G|G]; apply Z.ltb_lt in G; [lia|].
      assert (bal s5 (m_pool (ma s5)) = bal s3 P) by (unfold bal; rewrite A5, M5, M3, M2, EM; reflexivity).
      pose proof (ssum_ge_stkz (vals s3) a (proj1 (proj2 (proj2 H3)))) as Gs. unfold stkz in Gs. unfold get_val in G3. rewrite G3 in Gs.
      destruct H3 as (_ & _ & _ & _ & L3). change (v_tokens v1) with (v_tokens v - burn) in *. lia.
Qed.
End S.
