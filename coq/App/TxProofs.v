(* C03 / C11 / C17 / C07 / C10 / C09: statements about single steps of the application model,
   read off the modelled order of checks and writes. *)
From Coq Require Import List ZArith NArith Bool Lia.
From PM Require Import Base.Bytes Store.KV Store.MergeProofs Store.KVProofs Num.IntModel Num.IntProofs
  Num.DecModel Num.DecProofs App.Model App.BankProofs.
Import ListNotations.
Local Open Scope Z_scope.

(* ---------- C03: what acceptance by the ante handler implies ---------- *)
Definition key_used (s : state) (t : tx) : option bytes :=
  match t_attached t with
  | Some ka => Some ka
  | None => aget (haspk s) (msg_signer (t_msg t))
  end.
Theorem ante_accept s t s' : ante s t = Some s' ->
  exists ka, key_used s t = Some ka /\
    ka = msg_signer (t_msg t) /\                       (* the key belongs to the declared signer *)
    t_signed_by t = ka /\ t_mutated t = false /\       (* the signature verifies over the current sign doc *)
    t_in_index t = false /\                            (* not a replay *)
    required_fee s (t_gov_fee t) (t_msg t) <= t_fee t /\  (* pays at least the required fee *)
    t_memo_len t <= a_max_memo (ap s) /\
    bank_send s (msg_signer (t_msg t)) (m_fee (ma s)) (t_fee t) = Some s'.  (* from the signer's own balance *)
Proof.
  unfold ante, key_used. destruct (Z.ltb_spec (a_max_memo (ap s)) (t_memo_len t)) as [|Hm]; [discriminate|].
  match goal with |- context[match ?X with Some ka => _ | None => None end] => destruct X as [ka|] eqn:EK end; [|discriminate].
  destruct (beqb ka (msg_signer (t_msg t))) eqn:E1; simpl; [|discriminate]. apply beqb_eq in E1.
  destruct (t_in_index t) eqn:E2; [discriminate|].
  destruct (Z.ltb_spec (t_fee t) (required_fee s (t_gov_fee t) (t_msg t))) as [|Hf]; [discriminate|].
  destruct (_ && _); [discriminate|].
  destruct (beqb (t_signed_by t) ka) eqn:E3; simpl; [|discriminate]. apply beqb_eq in E3.
  destruct (t_mutated t) eqn:E4; [discriminate|].
  destruct (aget (accts s) (msg_signer (t_msg t))) as [b|]; [|discriminate].
  destruct (b <? t_fee t); [discriminate|]. intros E. exists ka. repeat split; auto.
Qed.
(* a signature by any other key, or any change to a signed field, is rejected *)
Theorem ante_rejects_forgery s t : (forall ka, key_used s t = Some ka -> t_signed_by t <> ka) \/ t_mutated t = true ->
  ante s t = None.
Proof.
  intros H. destruct (ante s t) as [s'|] eqn:E; auto.
  destruct (ante_accept _ _ _ E) as (ka & K & _ & Sg & Mu & _). destruct H as [H|H]; [exfalso; apply (H ka K Sg)|congruence].
Qed.
(* whatever key is used - carried in the signature or looked up from the account record (which a genesis file may
   have filled with somebody else's key) - it must be the declared signer's own *)
Theorem ante_rejects_foreign_key s t ka : key_used s t = Some ka -> ka <> msg_signer (t_msg t) -> ante s t = None.
Proof.
  intros K N. destruct (ante s t) as [s'|] eqn:E; auto.
  destruct (ante_accept _ _ _ E) as (kb & Kb & Eq & _). rewrite K in Kb. injection Kb as <-. contradiction.
Qed.
Theorem ante_rejects_replay s t : t_in_index t = true -> ante s t = None.
Proof.
  intros H. destruct (ante s t) as [s'|] eqn:E; auto.
  destruct (ante_accept _ _ _ E) as (ka & _ & _ & _ & _ & R & _). congruence.
Qed.

(* ---------- C11: rejected transactions leave no trace ---------- *)
Theorem rejected_unchanged s t s' : deliver_tx s t = DRejected s' -> s' = s.
Proof.
  unfold deliver_tx. destruct (_ || _); [intros [= <-]; auto|].
  destruct (ante s t); [|intros [= <-]; auto]. destruct (handle _ _); discriminate.
Qed.
(* a handler that fails has written nothing: every handler validates before its first write *)
Theorem handler_err_unchanged s m s' : bank_ok s -> 0 <= p_min_stake (pp s) -> handle s m = HErr s' -> s' = s.
Proof.
  intros Hb Hmin. destruct m as [pk a amt|a|a|f t amt|f key v raw wf|f t amt act|f h raw]; simpl.
  - set (v0 := match get_val s a with Some v => v | None => _ end).
    destruct (negb (v_status v0 =? 0)%N); [intros [= <-]; auto|].
    destruct (match aget (sinfo s) a with Some si => si_tomb si | None => false end); [intros [= <-]; auto|].
    destruct (Z.ltb_spec amt (p_min_stake (pp s))); [intros [= <-]; auto|].
    destruct (Z.ltb_spec (bal s a) amt); [intros [= <-]; auto|].
    set (s1 := match get_val s a with Some _ => s | None => _ end).
    (* the transfer into the pool cannot fail after the balance check *)
    assert (E : exists s2, bank_send s1 a (m_pool (ma s1)) amt = Some s2).
    { unfold bank_send. assert (B : bal s1 a = bal s a) by (unfold s1; destruct (get_val s a); reflexivity).
      rewrite B. destruct (Z.ltb_spec amt 0); [lia|]. destruct (Z.ltb_spec (bal s a) amt); [lia|]. simpl. eauto. }
    destruct E as [s2 ->]. discriminate.
  - destruct (get_val s a) as [v|]; [|intros [= <-]; auto]. destruct (negb _); [intros [= <-]; auto|].
    destruct (_ <? _); [intros [= <-]; auto|discriminate].
  - destruct (get_val s a) as [v|]; [|intros [= <-]; auto]. destruct (_ <? _); [intros [= <-]; auto|].
    destruct (negb _); [intros [= <-]; auto|]. destruct (aget (sinfo s) a) as [si|]; [|intros [= <-]; auto].
    destruct (si_tomb si); [intros [= <-]; auto|]. destruct (_ <? _); [intros [= <-]; auto|].
    destruct (unjail s a); [discriminate|intros [= <-]; auto].
  - destruct (bank_send s f t amt); [discriminate|intros [= <-]; auto].
  - destruct (negb _); [intros [= <-]; auto|]. destruct wf; discriminate.
  - destruct (negb _); [intros [= <-]; auto|]. destruct (act =? 1)%N.
    + destruct (bank_send _ _ _ _); [discriminate|intros [= <-]; auto].
    + destruct (act =? 2)%N; [|intros [= <-]; auto]. destruct (bank_burn _ _ _); [discriminate|intros [= <-]; auto].
  - destruct (negb _); [intros [= <-]; auto|discriminate].
Qed.
(* so a transaction whose handler fails has paid its fee and changed nothing else *)
Theorem handler_err_pays_fee_only s t s' : bank_ok s -> 0 <= p_min_stake (pp s) ->
  deliver_tx s t = DHandlerErr s' -> ante s t = Some s'.
Proof.
  intros Hb Hm. unfold deliver_tx. destruct (_ || _); [discriminate|].
  destruct (ante s t) as [s1|] eqn:E; [|discriminate].
  destruct (handle s1 (t_msg t)) as [s2|s2] eqn:Eh; [discriminate|]. intros [= <-].
  f_equal. symmetry. eapply handler_err_unchanged; [eapply ante_pres; eauto| |exact Eh].
  destruct (ante_accept _ _ _ E) as (_ & _ & _ & _ & _ & _ & _ & _ & Es).
  unfold bank_send in Es. destruct (_ || _); [discriminate|]. injection Es as <-. exact Hm.
Qed.

(* ---------- C17: governance ---------- *)
Definition gov_view (s : state) := (pp s, ap s, acl s, dao_owner s, params_raw s).
(* parameters change only through a change-param / upgrade message sent by the ACL owner of that key *)
Theorem params_change_needs_owner s m s' : handle s m = HOk s' -> gov_view s' <> gov_view s ->
  (exists f key v raw wf, m = MChangeParam f key v raw wf /\ beqb (owner_of (acl s) key) f = true) \/
  (exists f h raw, m = MUpgrade f h raw /\ beqb (owner_of (acl s) [103;111;118;47;117;112;103;114;97;100;101]%N) f = true).
Proof.
  destruct m as [pk a amt|a|a|f t amt|f key v raw wf|f t amt act|f h raw]; simpl; intros E Hne.
  - exfalso. apply Hne. clear Hne.
    set (v0 := match get_val s a with Some v => v | None => _ end) in *.
    destruct (negb (v_status v0 =? 0)%N); [discriminate|].
    destruct (match aget (sinfo s) a with Some si => si_tomb si | None => false end); [discriminate|].
    destruct (_ <? _); [discriminate|]. destruct (_ <? _); [discriminate|].
    set (s1 := match get_val s a with Some _ => s | None => _ end) in *.
    assert (G1 : gov_view s1 = gov_view s) by (unfold s1; destruct (get_val s a); reflexivity).
    destruct (bank_send s1 a (m_pool (ma s1)) amt) as [s2|] eqn:Es; [|discriminate].
    assert (G2 : gov_view s2 = gov_view s1).
    { unfold bank_send in Es. destruct (_ || _); [discriminate|]. injection Es as <-. reflexivity. }
    injection E as <-. rewrite <- G1, <- G2.
    unfold set_staked. destruct (aget (sinfo _) a); destruct (_ || _); reflexivity.
  - exfalso. apply Hne. destruct (get_val s a) as [v|]; [|discriminate]. destruct (negb _); [discriminate|].
    destruct (_ <? _); [discriminate|]. injection E as <-. reflexivity.
  - exfalso. apply Hne. destruct (get_val s a) as [v|]; [|discriminate]. destruct (_ <? _); [discriminate|].
    destruct (negb _); [discriminate|]. destruct (aget (sinfo s) a) as [si|]; [|discriminate].
    destruct (si_tomb si); [discriminate|]. destruct (_ <? _); [discriminate|].
    unfold unjail in E. destruct (get_val s a) as [v1|]; [|discriminate]. destruct (v_jailed v1); [|discriminate].
    injection E as <-. unfold set_staked. destruct (_ || _); reflexivity.
  - exfalso. apply Hne. unfold bank_send in E. destruct (_ || _); [discriminate|]. injection E as <-. reflexivity.
  - left. destruct (beqb (owner_of (acl s) key) f) eqn:Eo; simpl in E; [|discriminate]. eauto 10.
  - exfalso. apply Hne. destruct (negb _); [discriminate|]. destruct (act =? 1)%N.
    + unfold bank_send in E. destruct (_ || _); [discriminate|]. injection E as <-. reflexivity.
    + destruct (act =? 2)%N; [|discriminate]. unfold bank_burn in E. destruct (_ || _); [discriminate|]. injection E as <-. reflexivity.
  - right. destruct (beqb _ f) eqn:Eo; simpl in E; [|discriminate]. eauto 10.
Qed.
(* a change alters that parameter alone *)
Theorem param_change_alters_one s f key v raw s' : asorted (params_raw s) ->
  handle s (MChangeParam f key v raw true) = HOk s' ->
  forall k, k <> key -> aget (params_raw s') k = aget (params_raw s) k.
Proof.
  intros S. simpl. destruct (negb _); [discriminate|]. intros [= <-] k Hk.
  assert (G : params_raw (apply_param s key v raw) = aset (params_raw s) key raw).
  { unfold apply_param. destruct v; try reflexivity; destruct (_ =? _)%N; reflexivity. }
  rewrite G, aget_aset by auto. destruct (beqb key k) eqn:E; auto. apply beqb_eq in E. congruence.
Qed.
(* DAO funds move only by a message from the DAO owner, by exactly the stated amount, within the balance *)
Theorem dao_needs_owner s f t amt act s' : handle s (MDao f t amt act) = HOk s' ->
  beqb (dao_owner s) f = true /\
  ((act = 1%N /\ bank_send s (m_dao (ma s)) t amt = Some s') \/ (act = 2%N /\ bank_burn s (m_dao (ma s)) amt = Some s')) /\
  0 <= amt <= bal s (m_dao (ma s)).
Proof.
  simpl. destruct (beqb (dao_owner s) f); simpl; [|discriminate]. intros E. split; [reflexivity|].
  destruct (N.eqb_spec act 1) as [->|].
  - destruct (bank_send s (m_dao (ma s)) t amt) as [s1|] eqn:Es; [|discriminate]. injection E as <-.
    split; [left; auto|].
    unfold bank_send in Es. destruct (Z.ltb_spec amt 0); [discriminate|]. destruct (Z.ltb_spec (bal s (m_dao (ma s))) amt); [discriminate|]. lia.
  - destruct (N.eqb_spec act 2) as [->|]; [|discriminate].
    destruct (bank_burn s (m_dao (ma s)) amt) as [s1|] eqn:Es; [|discriminate]. injection E as <-.
    split; [right; auto|].
    unfold bank_burn in Es. destruct (Z.ltb_spec amt 0); [discriminate|]. destruct (Z.ltb_spec (bal s (m_dao (ma s))) amt); [discriminate|]. lia.
Qed.

(* ---------- C07: the slash amount ---------- *)
Lemma chop_round_mul_P x : chop_round (x * P) = x.
Proof.
  rewrite chop_round_eq. apply (round_half_even_unique (x * P) P); [apply P_pos|apply round_half_even_ok, P_pos|].
  unfold is_rhe. replace (P * x - x * P) with 0 by lia. simpl. pose proof P_pos. split; [lia|intros; lia].
Qed.
(* amount.ToDec().Mul(factor).TruncateInt() = trunc(power * 10^6 * factor) exactly *)
Theorem slash_amount_exact power f amount d sa :
  tokens_from_power power = Some amount -> dec_mul (dec_from_int amount) f = Some d -> dec_truncate_int d = Some sa ->
  sa = Z.quot (power * 10 ^ 6 * f) P.
Proof.
  unfold tokens_from_power, int_mul, power_reduction, dec_mul, dec_from_int, dec_truncate_int, int_new_from_big, dec_chk, int_chk, chop_trunc.
  destruct (_ >? _); [discriminate|]. destruct (int_ok _); [|discriminate]. intros [= <-].
  change (Z.pow_pos 10 6) with (10 ^ 6).
  replace (power * 10 ^ 6 * P * f) with (power * 10 ^ 6 * f * P) by lia. rewrite chop_round_mul_P.
  destruct (dec_ok _); [|discriminate]. intros [= <-]. destruct (int_ok _); [|discriminate]. intros [= <-]. reflexivity.
Qed.

(* ---------- C10 ---------- *)
Theorem awards_queue_emptied s : awards (mint_awards s) = [].
Proof. reflexivity. Qed.
Theorem one_award_mints_exactly s a amt s1 s2 : bank_ok s ->
  bank_mint s (m_pool (ma s)) amt = Some s1 -> bank_send s1 (m_pool (ma s1)) a amt = Some s2 ->
  mint_award s a amt = s2 /\ supply s2 = supply s + amt.
Proof.
  intros H E1 E2. unfold mint_award. rewrite E1, E2. split; auto.
  destruct (bank_mint_ok _ _ _ _ H E1) as (H1 & S1 & _). destruct (bank_send_ok _ _ _ _ _ H1 E2) as (_ & S2). congruence.
Qed.
