(* C05 over whole histories: read any history as a conversation with Tendermint. Tendermint starts with the set the
   module has on record; at every EndBlock it applies the returned batch to its set. Then (1) every batch of every
   EndBlock of the history IS applicable to the set Tendermint has at that moment (no address twice, no negative power,
   removals only of members), and (2) after every EndBlock Tendermint's set equals the module's record, which by
   UpdateProofs is exactly the first MaxValidators entries of the power index with power floor(stake/10^6).
   Nothing but the validator-set update of EndBlock ever touches the module's record (generic frame, App/Frames.v). *)
From Coq Require Import List ZArith NArith Bool Lia.
From PM Require Import Base.Bytes Store.KV Store.MergeProofs Store.KVProofs Num.IntModel Num.DecModel
  App.Model App.BankProofs App.IndexProofs App.IndexComplete App.PoolProofs App.UpdateProofs App.Frames.
Import ListNotations.
Local Open Scope Z_scope.

Lemma prevpow_step s o s' : o <> OEnd -> step s o = Some s' -> prevpow s' = prevpow s.
Proof. apply (fr_step _ prevpow); intros; reflexivity. Qed.
Lemma prevpow_unstake_mature s s' : unstake_mature s = Some s' -> prevpow s' = prevpow s.
Proof. apply (fr_unstake_mature _ prevpow); intros; reflexivity. Qed.

Lemma op_eq_end o : {o = OEnd} + {o <> OEnd}.
Proof. destruct o; try (right; discriminate). left. reflexivity. Qed.

Inductive tm_run : list op -> state -> amap Z -> state -> amap Z -> Prop :=
| tr_nil s tm : tm_run [] s tm s tm
| tr_end s tm s1 ups r s' tm' : end_block s = Some (s1, ups) -> applicable tm ups ->
    tm_run r s1 (apply_updates ups tm) s' tm' -> tm_run (OEnd :: r) s tm s' tm'
| tr_other o s tm s1 r s' tm' : o <> OEnd -> step s o = Some s1 -> tm_run r s1 tm s' tm' -> tm_run (o :: r) s tm s' tm'.

Section Tm.
Variable MA : modaddrs.
Definition tinv (s : state) : Prop := pool_ok MA s /\ idx_sound s /\ asorted (prevpow s).

Lemma end_block_tm s s1 ups : tinv s -> end_block s = Some (s1, ups) ->
  applicable (prevpow s) ups /\ prevpow s1 = apply_updates ups (prevpow s) /\ tinv s1.
Proof.
  intros (HP & HI & HS) E. pose proof (end_block_pool MA _ _ _ HP E) as HP1. pose proof (end_block_is _ _ _ HI E) as HI1.
  unfold end_block in E. destruct (update_tm_validators s) as [[sa u]|] eqn:Eu; [|discriminate].
  destruct (unstake_mature sa) as [sb|] eqn:Em; [|discriminate]. injection E as <- <-.
  assert (NN : forall a v, get_val s a = Some v -> 0 <= v_tokens v).
  { intros a v Ev. destruct HP as (_ & _ & V & _). apply (proj2 V a v Ev). }
  destruct (updates_applicable s sa u HI NN HS Eu) as (A & P & S).
  rewrite (prevpow_unstake_mature _ _ Em). split; [exact A|]. split; [exact P|]. split; [exact HP1|]. split; [exact HI1|].
  rewrite (prevpow_unstake_mature _ _ Em). exact S.
Qed.
Theorem history_as_seen_by_tendermint ops : forall s s', tinv s -> Forall (op_ok MA) ops -> run ops s = Some s' ->
  tm_run ops s (prevpow s) s' (prevpow s') /\ tinv s'.
Proof.
  unfold run. induction ops as [|o r IH]; simpl; intros s s' H F E.
  - injection E as <-. split; [constructor|exact H].
  - inversion F as [|? ? Fo Fr]; subst. destruct (step s o) as [s1|] eqn:Es; [|discriminate].
    destruct (op_eq_end o) as [->|N].
    + cbn [step] in Es. destruct (end_block s) as [[sx ups]|] eqn:Ee; [|discriminate]. injection Es as <-.
      destruct (end_block_tm s sx ups H Ee) as (A & P & H1).
      destruct (IH sx s' H1 Fr E) as [T H']. split; [|exact H'].
      eapply tr_end; [exact Ee|exact A|]. rewrite <- P. exact T.
    + assert (H1 : tinv s1).
      { destruct H as (HP & HI & HS). split; [eapply step_pool; eauto|]. split; [eapply step_is; eauto|].
        rewrite (prevpow_step _ _ _ N Es). exact HS. }
      destruct (IH s1 s' H1 Fr E) as [T H']. split; [|exact H'].
      eapply tr_other; [exact N|exact Es|]. rewrite <- (prevpow_step _ _ _ N Es). exact T.
Qed.
End Tm.
