(* C17, second sentence, over whole histories: the balance of the DAO account goes down only through a delivered DAO
   message of the DAO owner, and then by at most the stated amount - no block processing (rewards, awards, slashes,
   burns, maturity), no other transaction, nobody's fees ever take a token out of it.
   Premises: the module accounts have distinct addresses, no transaction is signed by the pool's or the DAO's address. *)
From Coq Require Import List ZArith NArith Bool Lia.
From PM Require Import Base.Bytes Store.KV Store.MergeProofs Store.KVProofs Num.IntModel Num.DecModel
  App.Model App.BankProofs App.IndexProofs App.QueueProofs App.PoolProofs App.PoolExact.
Import ListNotations.
Local Open Scope Z_scope.

Section Dao.
Variable MA : modaddrs.
Notation X := (m_dao MA).
Hypothesis Dfee : m_fee MA <> X.
Hypothesis Dpos : m_pos MA <> X.

Definition nd (s s' : state) : Prop := bal s X <= bal s' X.
Lemma nd_refl s : nd s s. Proof. unfold nd. lia. Qed.
Lemma nd_trans s1 s2 s3 : nd s1 s2 -> nd s2 s3 -> nd s1 s3. Proof. unfold nd. lia. Qed.
Lemma nd_frame s s' : accts s' = accts s -> nd s s'.
Proof. unfold nd, bal. intros ->. lia. Qed.
Lemma send_nd s f t amt s' : bank_ok s -> f <> X -> bank_send s f t amt = Some s' -> nd s s'.
Proof.
  intros B Nf E. destruct (bal_send s f t amt s' X B E) as [N Eb]. unfold nd. rewrite Eb.
  destruct (beqb f X) eqn:Bf; [apply beqb_eq in Bf; contradiction|]. destruct (beqb t X); lia.
Qed.
Lemma burn_nd s m amt s' : bank_ok s -> m <> X -> bank_burn s m amt = Some s' -> nd s s'.
Proof.
  intros B Nm E. destruct (bal_burn s m amt s' X B E) as [N Eb]. unfold nd. rewrite Eb.
  destruct (beqb m X) eqn:Bm; [apply beqb_eq in Bm; contradiction|]. lia.
Qed.
Lemma mint_nd s m amt s' : bank_ok s -> bank_mint s m amt = Some s' -> nd s s'.
Proof. intros B E. destruct (bal_mint s m amt s' X B E) as [N Eb]. unfold nd. rewrite Eb. destruct (beqb m X); lia. Qed.

Definition pk (s : state) : Prop := pool_ok MA s.
Lemma pool_ne : forall s, pk s -> m_pool MA <> X.
Proof. intros s (_ & _ & _ & (_ & _ & D3) & _). exact D3. Qed.

Lemma force_unstake_nd s a v s' : pk s -> get_val s a = Some v -> force_unstake s a v = Some s' -> nd s s'.
Proof.
  intros H E. pose proof (pool_ne s H) as NP. unfold force_unstake.
  set (s1 := if (v_status v =? 1)%N then del_unstaking (del_staked s a v) a v else del_staked s a v).
  assert (F1 : accts s1 = accts s /\ ma s1 = ma s /\ supply s1 = supply s) by (unfold s1; destruct (v_status v =? 1)%N; repeat split; reflexivity).
  destruct F1 as (A1 & M1 & U1). destruct H as (EM & B & _).
  assert (B1 : bank_ok s1) by (unfold bank_ok; rewrite A1, U1; exact B).
  destruct (0 <? v_tokens v).
  - unfold burn_staked. destruct (_ <=? _); [discriminate|]. replace (ma s1) with MA by congruence.
    destruct (bank_burn s1 (m_pool MA) (v_tokens v)) as [s2|] eqn:E2; [|discriminate]. intros [= <-].
    eapply nd_trans; [apply (nd_frame s s1 A1)|]. eapply nd_trans; [eapply burn_nd; eauto|]. apply nd_frame. reflexivity.
  - intros [= <-]. eapply nd_trans; [apply (nd_frame s s1 A1)|]. apply nd_frame. reflexivity.
Qed.
Definition sres_nd (s : state) (r : sres) : Prop := match r with SOk x | SErr x => nd s x | SPanic => True end.
Lemma slash_nd s a h p f : pk s -> sres_nd s (slash s a h p f).
Proof.
  intros H. pose proof (slash_pool MA s a h p f H) as Hp. pose proof (pool_ne s H) as NP. revert Hp. unfold slash.
  destruct (f <? 0); [intros _; apply nd_refl|]. destruct (height s <? h); [intros _; apply nd_refl|].
  destruct (get_val s a) as [v|] eqn:E; [|intros _; apply nd_refl]. destruct (v_status v =? 0)%N eqn:St; [intros _; apply nd_refl|].
  destruct (tokens_from_power p) as [amount|]; [|intros _; exact I].
  destruct (dec_mul (dec_from_int amount) f) as [d|]; [|intros _; exact I].
  destruct (dec_truncate_int d) as [sa|]; [|intros _; exact I].
  set (burn := Z.max (Z.min sa (v_tokens v)) 0). set (v1 := with_tokens v (v_tokens v - burn)).
  set (s2 := set_staked (put_val (del_staked s a v) a v1) a v1).
  assert (A2 : accts s2 = accts s /\ supply s2 = supply s /\ ma s2 = ma s) by (unfold s2, set_staked; destruct (_ || _); repeat split; reflexivity).
  destruct A2 as (A2 & U2 & M2). pose proof H as (EM & B & _).
  assert (B2 : bank_ok s2) by (unfold bank_ok; rewrite A2, U2; exact B).
  unfold burn_staked. fold s2. destruct (burn <=? 0); [intros _; apply (nd_frame s s2 A2)|].
  replace (ma s2) with MA by congruence.
  destruct (bank_burn s2 (m_pool MA) burn) as [s3|] eqn:E3; [|intros _; apply (nd_frame s s2 A2)].
  assert (N3 : nd s s3) by (eapply nd_trans; [apply (nd_frame s s2 A2)|eapply burn_nd; eauto]).
  destruct (v_tokens v1 <? p_min_stake (pp s3)); [|intros _; exact N3].
  destruct (force_unstake s3 a v1) as [s4|] eqn:E4; [|intros _; exact N3].
  intros _. cbn [sres_nd]. eapply nd_trans; [exact N3|]. eapply (force_unstake_nd s3 a v1); [| |exact E4].
  - (* pool_ok of s3: re-run the pool lemma on the prefix *)
    assert (Hs : sres_pool MA (slash s a h p f)) by (apply slash_pool; exact H).
    (* simpler: s3 is reached by a burn from s2, both satisfy the invariant *)
    destruct H as (_ & _ & V & M & L).
    assert (V2 : vals s2 = aset (vals s) a v1) by (unfold s2; rewrite set_staked_vals; reflexivity).
    destruct (proj2 V a v E) as [Nv Zv].
    assert (Hb : 0 <= burn <= v_tokens v) by (unfold burn; lia).
    destruct (bank_burn_frame _ _ _ _ E3) as (F1 & _ & _).
    destruct (bal_burn _ _ _ _ (m_pool MA) B2 E3) as [_ Eb]. rewrite beqb_refl in Eb.
    split; [rewrite (burn_ma _ _ _ _ E3); congruence|]. split; [eapply burn_pres; eauto|]. rewrite F1. split.
    + rewrite V2. apply vals_ok_aset; auto; unfold v1; cbn; [lia|]. intros S0. rewrite S0 in St. discriminate.
    + split; [exact M|]. rewrite Eb, V2, ssum_aset by apply V. unfold stkz. unfold get_val in E. rewrite E.
      assert (bal s2 (m_pool MA) = bal s (m_pool MA)) by (unfold bal; rewrite A2; reflexivity).
      unfold stk. rewrite St. unfold v1. cbn. rewrite St. lia.
  - destruct (bank_burn_frame _ _ _ _ E3) as (F1 & _ & _). unfold get_val. rewrite F1.
    unfold s2. rewrite set_staked_vals. cbn [vals put_val set_vals del_staked set_powidx]. rewrite aget_aset by apply H. rewrite beqb_refl. reflexivity.
Qed.

Lemma jail_nd s a s' : jail s a = Some s' -> nd s s'.
Proof. unfold jail. destruct (get_val s a) as [v|]; [|discriminate]. destruct (v_jailed v); [discriminate|]. intros [= <-]. apply nd_frame. reflexivity. Qed.
Lemma unjail_nd s a s' : unjail s a = Some s' -> nd s s'.
Proof.
  unfold unjail. destruct (get_val s a) as [v|]; [|discriminate]. destruct (v_jailed v); [|discriminate]. intros [= <-].
  apply nd_frame. unfold set_staked. destruct (_ || _); reflexivity.
Qed.

(* pool invariant and non-draining together *)
Definition both (s s' : state) : Prop := pk s' /\ nd s s'.
Lemma both_trans s1 s2 s3 : both s1 s2 -> both s2 s3 -> both s1 s3.
Proof. intros [_ N1] [P2 N2]. split; auto. eapply nd_trans; eauto. Qed.
Lemma both_frame s s' : accts s' = accts s -> supply s' = supply s -> vals s' = vals s -> ma s' = ma s -> pk s -> both s s'.
Proof. intros E1 E2 E3 E4 H. split; [eapply pool_frame; eauto|apply nd_frame; auto]. Qed.

Lemma handle_signature_b s a p sg s' : pk s -> handle_signature s a p sg = Some s' -> both s s'.
Proof.
  intros H E. split; [eapply handle_signature_pool; eauto|]. revert E. unfold handle_signature.
  destruct (aget (pkrel s) a); [|discriminate]. destruct (aget (sinfo s) a) as [si|]; [|discriminate].
  destruct (p_window (pp s) <=? 0); [discriminate|].
  match goal with |- context[let '(mi, ctr) := ?X in _] => destruct X as [mi ctr] end.
  set (s1 := set_sign s (sinfo s) mi). assert (H1 : pk s1) by (unfold s1; revert H; apply pool_frame; reflexivity).
  destruct (_ && _); [|intros [= <-]; apply nd_frame; reflexivity].
  destruct (get_val s1 a) as [v|]; [|intros [= <-]; apply nd_frame; reflexivity].
  destruct (v_jailed v); [intros [= <-]; apply nd_frame; reflexivity|].
  pose proof (slash_nd s1 a (height s - 2) p (p_slash_dt (pp s)) H1) as Ns.
  destruct (slash s1 a (height s - 2) p (p_slash_dt (pp s))) as [x|x|]; try discriminate; cbn [sres_nd] in Ns;
    (destruct (jail x a) as [s3|] eqn:Ej; [|discriminate]); intros [= <-];
    (eapply nd_trans; [apply (nd_frame s s1); reflexivity|]); (eapply nd_trans; [exact Ns|]);
    (eapply nd_trans; [eapply jail_nd; eauto|]); (apply nd_frame; reflexivity).
Qed.
Lemma handle_double_sign_b s a h t p s' : pk s -> handle_double_sign s a h t p = Some s' -> both s s'.
Proof.
  intros H E. split; [eapply handle_double_sign_pool; eauto|]. revert E. unfold handle_double_sign.
  destruct (aget (pkrel s) a); [|discriminate]. destruct (_ <? _); [discriminate|].
  destruct (get_val s a) as [v|]; [|discriminate]. destruct (v_status v =? 0)%N; [discriminate|].
  destruct (aget (sinfo s) a) as [si|]; [|discriminate]. destruct (si_tomb si); [discriminate|].
  pose proof (slash_pool MA s a (h - 1) p (p_slash_ds (pp s)) H) as Hs.
  pose proof (slash_nd s a (h - 1) p (p_slash_ds (pp s)) H) as Ns.
  assert (Tail : forall x, pk x -> nd s x ->
    match (if v_jailed v then Some x else jail x a) with
    | None => None
    | Some s2 => match get_val s2 a with
                 | None => None
                 | Some v2 => match force_unstake s2 a v2 with
                              | None => None
                              | Some s3 => Some (set_sign s3 (aset (sinfo s3) a
                                  {| si_start := si_start si; si_offset := si_offset si; si_jailed_until := double_sign_jail_end;
                                     si_tomb := true; si_missed := si_missed si |}) (missed s3))
                              end
                 end
    end = Some s' -> nd s s').
  { intros x Px Nx. destruct (if v_jailed v then Some x else jail x a) as [s2|] eqn:E2; [|discriminate].
    assert (H2 : pk s2 /\ nd s s2).
    { destruct (v_jailed v); [injection E2 as <-; auto|]. split; [eapply jail_pool; eauto|eapply nd_trans; [exact Nx|eapply jail_nd; eauto]]. }
    destruct H2 as [P2 N2]. destruct (get_val s2 a) as [v2|] eqn:G2; [|discriminate].
    destruct (force_unstake s2 a v2) as [s3|] eqn:E3; [|discriminate]. intros [= <-].
    eapply nd_trans; [exact N2|]. eapply nd_trans; [eapply force_unstake_nd; eauto|]. apply nd_frame. reflexivity. }
  destruct (slash s a (h - 1) p (p_slash_ds (pp s))) as [x|x|]; try discriminate; cbn [sres_pool sres_nd] in Hs, Ns; apply Tail; auto.
Qed.
Lemma reward_from_fees_b s p s' : pk s -> reward_from_fees s p = Some s' -> both s s'.
Proof.
  intros H E. split; [eapply reward_from_fees_pool; eauto|]. revert E. unfold reward_from_fees.
  pose proof H as (EM & B & _ & (D1 & D2 & D3) & _). rewrite EM.
  destruct (bank_send s (m_fee MA) (m_pos MA) (bal s (m_fee MA))) as [s1|] eqn:E1; [|discriminate].
  assert (H1 : pk s1) by (eapply pool_send_other; [exact H| |exact E1]; auto).
  assert (N1 : nd s s1) by (eapply send_nd; [exact B|exact Dfee|exact E1]).
  destruct (get_val s1 p); [|intros [= <-]; exact N1].
  replace (ma s1) with MA by (symmetry; apply H1). intros E2. eapply nd_trans; [exact N1|]. eapply send_nd; [apply H1| |exact E2]. exact Dpos.
Qed.
Lemma mint_award_b s a amt : pk s -> both s (mint_award s a amt).
Proof.
  intros H. split; [apply mint_award_pool; auto|]. pose proof (pool_ne s H) as NP. unfold mint_award.
  destruct H as (EM & B & _). rewrite EM.
  destruct (bank_mint s (m_pool MA) amt) as [s1|] eqn:E1; [|apply nd_refl].
  pose proof (mint_pres _ _ _ _ B E1) as B1. pose proof (mint_nd _ _ _ _ B E1) as N1.
  replace (ma s1) with MA by (rewrite (mint_ma _ _ _ _ E1); congruence).
  destruct (bank_send s1 (m_pool MA) a amt) as [s2|] eqn:E2; [|exact N1].
  eapply nd_trans; [exact N1|]. eapply send_nd; eauto.
Qed.
Lemma mint_awards_b s : pk s -> both s (mint_awards s).
Proof.
  unfold mint_awards. intros H.
  assert (G : forall l st, pk st -> both st (fold_left (fun st p => mint_award st (fst p) (snd p)) l st)).
  { induction l as [|x l IH]; simpl; intros st Hst; [split; [auto|apply nd_refl]|].
    eapply both_trans; [apply mint_award_b; exact Hst|]. apply IH. apply mint_award_pool. exact Hst. }
  destruct (G (awards s) s H) as [P1 N1]. split; [revert P1; apply pool_frame; reflexivity|].
  eapply nd_trans; [exact N1|]. apply nd_frame. reflexivity.
Qed.
Lemma burn_validators_loop_b l : forall s s', pk s -> burn_validators_loop l s = Some s' -> both s s'.
Proof.
  induction l as [|[a sev] r IH]; simpl; intros s s' H; [intros [= <-]; split; [auto|apply nd_refl]|].
  destruct (get_val s a) as [v|]; [|discriminate].
  match goal with |- context[slash s a ?h ?p ?f] =>
    pose proof (slash_pool MA s a h p f H) as Hs; pose proof (slash_nd s a h p f H) as Ns; destruct (slash s a h p f) as [x|x|] end;
  try discriminate; cbn [sres_pool sres_nd] in Hs, Ns; intros E;
  (assert (Hq : pk (set_queues x (awards x) (adel (burns x) a))) by (revert Hs; apply pool_frame; reflexivity));
  (destruct (IH _ _ Hq E) as [P' N']); (split; [exact P'|]);
  (eapply nd_trans; [exact Ns|]); (eapply nd_trans; [apply (nd_frame x (set_queues x (awards x) (adel (burns x) a))); reflexivity|exact N']).
Qed.
Lemma fold_opt_b {A} (f : state -> A -> option state) :
  (forall s x s', pk s -> f s x = Some s' -> both s s') ->
  forall l s s', pk s -> fold_opt f l s = Some s' -> both s s'.
Proof.
  intros Hf. induction l as [|x l IH]; simpl; intros s s' H; [intros [= <-]; split; [auto|apply nd_refl]|].
  destruct (f s x) as [s1|] eqn:E; [|discriminate]. intros E2. pose proof (Hf _ _ _ H E) as B1.
  eapply both_trans; [exact B1|]. apply IH; [apply B1|exact E2].
Qed.
Theorem begin_block_b s h t prop votes evs s' : pk s -> begin_block s h t prop votes evs = Some s' -> both s s'.
Proof.
  unfold begin_block. intros H.
  set (s0 := set_block s h t). assert (B0 : both s s0) by (apply both_frame; auto).
  destruct (if 1 <? h then match proposer s0 with None => None | Some p => reward_from_fees s0 p end else Some s0)
    as [s1|] eqn:E1; [|discriminate].
  assert (B1 : both s s1).
  { destruct (1 <? h); [|injection E1 as <-; exact B0]. destruct (proposer s0); [|discriminate].
    eapply both_trans; [exact B0|]. eapply reward_from_fees_b; [apply B0|eauto]. }
  pose proof (mint_awards_b s1 (proj1 B1)) as B2.
  destruct (burn_validators_loop (burns (mint_awards s1)) (mint_awards s1)) as [s3|] eqn:E3; [|discriminate].
  pose proof (burn_validators_loop_b _ _ _ (proj1 B2) E3) as B3.
  set (s4 := set_misc s3 (Some prop) (pkrel s3)). assert (B4 : both s3 s4) by (apply both_frame; auto; apply B3).
  destruct (fold_opt _ votes s4) as [s5|] eqn:E5; [|discriminate].
  assert (B5 : both s4 s5).
  { eapply (fold_opt_b _ (fun s x s' Hs E => handle_signature_b s _ _ _ s' Hs E)); [apply B4|eauto]. }
  intros E6.
  assert (B6 : both s5 s').
  { eapply (fold_opt_b _ (fun s x s' Hs E => handle_double_sign_b s _ _ _ _ s' Hs E)); [apply B5|eauto]. }
  eapply both_trans; [exact B1|]. eapply both_trans; [exact B2|]. eapply both_trans; [exact B3|].
  eapply both_trans; [exact B4|]. eapply both_trans; [exact B5|exact B6].
Qed.
Lemma finish_unstaking_b s a v s' : pk s -> get_val s a = Some v -> v_status v = 1%N -> finish_unstaking s a v = Some s' -> both s s'.
Proof.
  intros H E St F. split; [eapply finish_unstaking_pool; eauto|]. pose proof (pool_ne s H) as NP. revert F.
  unfold finish_unstaking. destruct (negb _); [discriminate|]. destruct H as (EM & B & _).
  replace (ma (del_unstaking s a v)) with MA by (cbn; congruence).
  destruct (bank_send (del_unstaking s a v) (m_pool MA) a (v_tokens v)) as [s2|] eqn:E2; [|discriminate]. intros [= <-].
  eapply nd_trans; [apply (nd_frame s (del_unstaking s a v)); reflexivity|].
  eapply nd_trans; [eapply send_nd; [exact B|exact NP|exact E2]|]. apply nd_frame. reflexivity.
Qed.
Lemma unstake_one_b s a s' : pk s -> unstake_one s a = Some s' -> both s s'.
Proof.
  unfold unstake_one. intros H. destruct (get_val s a) as [v|] eqn:E; [|intros [= <-]; split; [auto|apply nd_refl]].
  destruct (v_status v =? 1)%N eqn:St; cbn [negb]; [|intros [= <-]; split; [auto|apply nd_refl]].
  apply N.eqb_eq in St. eapply finish_unstaking_b; eauto.
Qed.
Theorem end_block_b s s' ups : pk s -> end_block s = Some (s', ups) -> both s s'.
Proof.
  intros H E. split; [eapply end_block_pool; eauto|]. revert E. unfold end_block.
  destruct (update_tm_validators s) as [[s1 u]|] eqn:E1; [|discriminate].
  pose proof (update_tm_validators_pool MA _ _ _ H E1) as H1.
  assert (A1 : accts s1 = accts s).
  { unfold update_tm_validators in E1. destruct (upd_loop _ _ s (prevpow s) 0 []) as [[[[sa leftover] total] acc]|] eqn:EL; [|discriminate].
    destruct (fold_opt _ leftover sa) as [sb|] eqn:E2; [|discriminate].
    assert (Aa : accts sa = accts s) by (apply (upd_loop_fr _ _ _ _ _ _ _ _ _ _ EL)).
    assert (Ab : accts sb = accts sa).
    { clear - E2. revert sa sb E2. induction leftover as [|p r IH]; simpl; intros sa sb; [intros [= <-]; auto|].
      destruct (get_val sa (fst p)); [|discriminate]. intros E. rewrite (IH _ _ E). reflexivity. }
    injection E1 as <- _. destruct (rev acc ++ _); cbn [accts set_prev]; congruence. }
  destruct (unstake_mature s1) as [s2|] eqn:E2; [|discriminate]. intros [= <- _].
  eapply nd_trans; [apply (nd_frame s s1 A1)|].
  unfold unstake_mature in E2.
  assert (G : both s1 s2).
  { revert E2. apply fold_opt_b; auto. intros st0 p st' Hst. destruct (fold_opt unstake_one (snd p) st0) as [st1|] eqn:Ef; [|discriminate]. intros [= <-].
    pose proof (fold_opt_b unstake_one unstake_one_b _ _ _ Hst Ef) as Bf. eapply both_trans; [exact Bf|]. apply both_frame; auto. apply Bf. }
  apply G.
Qed.

(* ---- transactions: only the DAO owner's DAO message takes from the DAO ---- *)
Definition hres_dao (s : state) (m : msg) (r : hres) : Prop :=
  match r with
  | HOk s' | HErr s' =>
    nd s s' \/ exists f t amt act, m = MDao f t amt act /\ beqb (dao_owner s) f = true /\ 0 <= amt /\ bal s X - amt <= bal s' X
  end.
Ltac lt := cbn [hres_dao]; left.
Lemma handle_dao s m : pk s -> msg_signer m <> m_pool MA -> msg_signer m <> X -> hres_dao s m (handle s m).
Proof.
  intros H NS NX. pose proof H as (EM & B & _).
  destruct m as [pk0 a amt|a|a|f t amt|f key v raw wf|f t amt act|f h raw]; cbn [handle msg_signer] in *.
  - set (v0 := match get_val s a with Some v => v | None => _ end).
    destruct (negb (v_status v0 =? 0)%N); [lt; apply nd_refl|].
    destruct (match aget (sinfo s) a with Some si => si_tomb si | None => false end); [lt; apply nd_refl|].
    destruct (amt <? p_min_stake (pp s)); [lt; apply nd_refl|]. destruct (bal s a <? amt); [lt; apply nd_refl|].
    set (s1 := match get_val s a with Some _ => s | None => _ end).
    assert (A1 : accts s1 = accts s /\ supply s1 = supply s /\ ma s1 = ma s) by (unfold s1; destruct (get_val s a); repeat split; reflexivity).
    destruct A1 as (A1 & U1 & M1). assert (B1 : bank_ok s1) by (unfold bank_ok; rewrite A1, U1; exact B).
    destruct (bank_send s1 a (m_pool (ma s1)) amt) as [s2|] eqn:E; [|lt; apply (nd_frame s s1 A1)].
    lt. eapply nd_trans; [apply (nd_frame s s1 A1)|]. eapply nd_trans; [eapply send_nd; eauto|].
    match goal with |- nd s2 (match ?Y with _ => _ end) => destruct Y end; apply nd_frame; unfold set_staked; destruct (_ || _); reflexivity.
  - destruct (get_val s a) as [v|]; [|lt; apply nd_refl]. destruct (negb _); [lt; apply nd_refl|]. destruct (_ <? _); [lt; apply nd_refl|].
    lt. apply nd_frame. reflexivity.
  - destruct (get_val s a) as [v|]; [|lt; apply nd_refl]. destruct (_ <? _); [lt; apply nd_refl|]. destruct (negb _); [lt; apply nd_refl|].
    destruct (aget (sinfo s) a) as [si|]; [|lt; apply nd_refl]. destruct (si_tomb si); [lt; apply nd_refl|]. destruct (_ <? _); [lt; apply nd_refl|].
    destruct (unjail s a) as [s1|] eqn:E; [|lt; apply nd_refl]. lt. eapply unjail_nd; eauto.
  - destruct (bank_send s f t amt) as [s1|] eqn:E; [|lt; apply nd_refl]. lt. eapply send_nd; eauto.
  - destruct (negb _); [lt; apply nd_refl|]. destruct wf; [|lt; apply nd_refl]. lt. apply nd_frame. unfold apply_param. destruct v; reflexivity.
  - destruct (beqb (dao_owner s) f) eqn:Ow; cbn [negb]; [|lt; apply nd_refl]. rewrite EM. destruct (act =? 1)%N.
    + destruct (bank_send s X t amt) as [s1|] eqn:E; [|lt; apply nd_refl]. cbn [hres_dao]. right. exists f, t, amt, act. split; auto. split; auto.
      destruct (bal_send _ _ _ _ _ X B E) as [Nn Eb]. rewrite beqb_refl in Eb. split; auto. rewrite Eb. destruct (beqb t X); lia.
    + destruct (act =? 2)%N; [|lt; apply nd_refl].
      destruct (bank_burn s X amt) as [s1|] eqn:E; [|lt; apply nd_refl]. cbn [hres_dao]. right. exists f, t, amt, act. split; auto. split; auto.
      destruct (bal_burn _ _ _ _ X B E) as [Nn Eb]. rewrite beqb_refl in Eb. split; auto. rewrite Eb. lia.
  - destruct (negb _); [lt; apply nd_refl|]. lt. apply nd_frame. reflexivity.
Qed.
Definition op_okd (o : op) : Prop :=
  match o with OTx t => msg_signer (t_msg t) <> m_pool MA /\ msg_signer (t_msg t) <> X | _ => True end.
Theorem step_dao s o s' : pk s -> op_okd o -> step s o = Some s' ->
  pk s' /\ (nd s s' \/ exists t f to amt act, o = OTx t /\ t_msg t = MDao f to amt act /\ beqb (dao_owner s) f = true /\ 0 <= amt /\ bal s X - amt <= bal s' X).
Proof.
  intros H K E. split; [eapply step_pool; eauto; destruct o; cbn in *; auto; apply K|]. revert E.
  destruct o as [h t p vs es|t|a amt|a sev| |]; cbn [step].
  - intros E. left. eapply begin_block_b; eauto.
  - intros [= <-]. destruct K as [K1 K2]. unfold deliver_tx. destruct (_ || _); [left; apply nd_refl|].
    destruct (ante s t) as [s1|] eqn:Ea; [|left; apply nd_refl].
    pose proof (ante_pool MA _ _ _ H K1 Ea) as H1.
    assert (N1 : nd s s1 /\ dao_owner s1 = dao_owner s).
    { unfold ante in Ea. destruct (_ <? _); [discriminate|].
      match type of Ea with context[match ?Y with Some ka => _ | None => None end] => destruct Y as [ka|] end; [|discriminate].
      destruct (negb _); [discriminate|]. destruct (t_in_index t); [discriminate|]. destruct (_ <? _); [discriminate|].
      destruct (_ && _); [discriminate|]. destruct (_ || _); [discriminate|].
      destruct (aget (accts s) _) as [bb|]; [|discriminate]. destruct (bb <? _); [discriminate|].
      split; [eapply send_nd; [apply H|exact K2|exact Ea]|]. unfold bank_send in Ea. destruct (_ || _); [discriminate|]. injection Ea as <-. reflexivity. }
    destruct N1 as [N1 O1].
    pose proof (handle_dao s1 (t_msg t) H1 K1 K2) as Hh.
    destruct (handle s1 (t_msg t)) as [s2|s2]; cbn [dres_state hres_dao] in *;
      (destruct Hh as [N2|(f & to & amt & act & Em & Ow & Pa & Le)]; [left; eapply nd_trans; eauto|right; exists t, f, to, amt, act;
        repeat split; auto; [rewrite <- O1; exact Ow|unfold nd in N1; lia]]).
  - intros [= <-]. left. apply nd_frame. reflexivity.
  - intros [= <-]. left. apply nd_frame. reflexivity.
  - destruct (end_block s) as [[s1 u]|] eqn:E; [|discriminate]. intros [= <-]. left. eapply end_block_b; eauto.
  - intros [= <-]. left. apply nd_refl.
Qed.
End Dao.
