(* C06: in every reachable state of every history, every UNSTAKING validator is queued in the
   unstaking queue under the key of its completion time (so it cannot be forgotten: findings
   F16 and F22 were violations of exactly this), and EndBlock leaves no unstaking validator whose
   completion time has been reached (released at the first block at or after it). *)
From Coq Require Import List ZArith NArith Bool Lia.
From PM Require Import Base.Bytes Store.KV Store.MergeProofs Store.KVProofs Num.IntModel Num.DecModel
  App.Model App.BankProofs App.KeyProofs App.IndexProofs.
Import ListNotations.
Local Open Scope Z_scope.

Definition qkey (v : validator) : bytes := time_key (v_unstime v).
Definition queued (Q : amap (list bytes)) (k a : bytes) : Prop := exists l, aget Q k = Some l /\ In a l.
(* completeness for every validator, or for every validator but [x] *)
Definition qcx (x : option bytes) (V : amap validator) (Q : amap (list bytes)) : Prop :=
  asorted V /\ asorted Q /\
  forall b v, Some b <> x -> aget V b = Some v -> v_status v = 1%N -> queued Q (qkey v) b.
Definition qc := qcx None.
Definition queue_ok (s : state) : Prop := qc (vals s) (unstq s).

Definition slot (Q : amap (list bytes)) (k : bytes) : list bytes := match aget Q k with Some l => l | None => [] end.
Definition enqueue (Q : amap (list bytes)) (k a : bytes) := aset Q k (slot Q k ++ [a]).
Definition dequeue (Q : amap (list bytes)) (k a : bytes) :=
  match filter (fun x => negb (beqb x a)) (slot Q k) with
  | [] => adel Q k
  | q' => aset Q k q'
  end.

Lemma queued_enqueue Q k a k' b : asorted Q -> queued Q k' b -> queued (enqueue Q k a) k' b.
Proof.
  intros S (l & E & I). unfold queued, enqueue. rewrite aget_aset by auto. destruct (beqb k k') eqn:B.
  - apply beqb_eq in B; subst k'. unfold slot. rewrite E. exists (l ++ [a]). split; auto. apply in_or_app; auto.
  - exists l; auto.
Qed.
Lemma queued_enqueue_self Q k a : asorted Q -> queued (enqueue Q k a) k a.
Proof.
  intros S. unfold queued, enqueue. rewrite aget_aset by auto. rewrite beqb_refl.
  eexists; split; [reflexivity|]. apply in_or_app; right; left; auto.
Qed.
Lemma enqueue_sorted Q k a : asorted Q -> asorted (enqueue Q k a).
Proof. intros S. apply aset_sorted; auto. Qed.
Lemma dequeue_sorted Q k a : asorted Q -> asorted (dequeue Q k a).
Proof. intros S. unfold dequeue. destruct (filter _ _); [apply adel_sorted|apply aset_sorted]; auto. Qed.
Lemma queued_dequeue Q k a k' b : asorted Q -> b <> a -> queued Q k' b -> queued (dequeue Q k a) k' b.
Proof.
  intros S N (l & E & I). unfold queued, dequeue.
  destruct (beqb k k') eqn:B.
  - apply beqb_eq in B; subst k'. unfold slot. rewrite E.
    assert (Ib : In b (filter (fun x => negb (beqb x a)) l)).
    { apply filter_In. split; auto. destruct (beqb b a) eqn:Bb; auto. apply beqb_eq in Bb. contradiction. }
    destruct (filter (fun x => negb (beqb x a)) l) as [|y q'] eqn:F; [destruct Ib|].
    rewrite aget_aset by auto. rewrite beqb_refl. eexists; split; [reflexivity|exact Ib].
  - destruct (filter _ _); [rewrite aget_adel by auto|rewrite aget_aset by auto]; rewrite B; exists l; auto.
Qed.
(* lists in the queue only shrink under dequeue *)
Lemma dequeue_incl Q k a k' l' : asorted Q -> aget (dequeue Q k a) k' = Some l' -> exists l, aget Q k' = Some l /\ incl l' l.
Proof.
  intros S. unfold dequeue. destruct (filter (fun x => negb (beqb x a)) (slot Q k)) as [|y q'] eqn:F.
  - rewrite aget_adel by auto. destruct (beqb k k'); [discriminate|]. intros E. exists l'; split; auto. apply incl_refl.
  - rewrite aget_aset by auto. destruct (beqb k k') eqn:B.
    + apply beqb_eq in B; subst k'. intros [= <-]. unfold slot in F. destruct (aget Q k) as [l|] eqn:E; [|discriminate].
      exists l; split; auto. rewrite <- F. intros x Hx. apply filter_In in Hx. tauto.
    + intros E. exists l'; split; auto. apply incl_refl.
Qed.

(* ---- primitives on (validators, queue) ---- *)
Lemma qcx_weaken x V Q : qc V Q -> qcx x V Q.
Proof. intros (SV & SQ & H). split; auto. split; auto. intros b v _. apply H. discriminate. Qed.
Lemma qc_enqueue x V Q k a : qcx x V Q -> qcx x V (enqueue Q k a).
Proof.
  intros (SV & SQ & H). split; auto. split; [apply enqueue_sorted; auto|].
  intros b v N E St. apply queued_enqueue; auto.
Qed.
Lemma qc_dequeue V Q k a : qcx None V Q -> qcx (Some a) V (dequeue Q k a).
Proof.
  intros (SV & SQ & H). split; auto. split; [apply dequeue_sorted; auto|].
  intros b v N E St. apply queued_dequeue; auto; [congruence|]. apply H; auto. discriminate.
Qed.
Lemma qcx_dequeue V Q k a : qcx (Some a) V Q -> qcx (Some a) V (dequeue Q k a).
Proof.
  intros (SV & SQ & H). split; auto. split; [apply dequeue_sorted; auto|].
  intros b v N E St. apply queued_dequeue; auto. congruence.
Qed.
(* writing a's record: fine if a is not unstaking afterwards, or is queued where the new record says *)
Lemma qc_put V Q a v1 : qcx (Some a) V Q -> (v_status v1 = 1%N -> queued Q (qkey v1) a) -> qc (aset V a v1) Q.
Proof.
  intros (SV & SQ & H) Ha. split; [apply aset_sorted; auto|]. split; auto.
  intros b v _. rewrite aget_aset by auto. destruct (beqb a b) eqn:B.
  - apply beqb_eq in B; subst b. intros [= <-]. exact Ha.
  - apply beqb_false_neq in B. apply H. congruence.
Qed.
Lemma qcx_put V Q a v1 : qcx (Some a) V Q -> qcx (Some a) (aset V a v1) Q.
Proof.
  intros (SV & SQ & H). split; [apply aset_sorted; auto|]. split; auto.
  intros b v N. rewrite aget_aset by auto. destruct (beqb a b) eqn:B; [apply beqb_eq in B; congruence|]. apply H; auto.
Qed.
Lemma qc_delval x V Q a : qcx x V Q -> qcx x (adel V a) Q.
Proof.
  intros (SV & SQ & H). split; [apply adel_sorted; auto|]. split; auto.
  intros b v N. rewrite aget_adel by auto. destruct (beqb a b); [discriminate|]. apply H; auto.
Qed.
Lemma qc_delval_self V Q a : qcx (Some a) V Q -> qc (adel V a) Q.
Proof.
  intros (SV & SQ & H). split; [apply adel_sorted; auto|]. split; auto.
  intros b v _. rewrite aget_adel by auto. destruct (beqb a b) eqn:B; [discriminate|].
  apply beqb_false_neq in B. apply H. congruence.
Qed.

(* ---- the model's functions ---- *)
Lemma del_unstaking_eq s a v : unstq (del_unstaking s a v) = dequeue (unstq s) (qkey v) a.
Proof.
  unfold del_unstaking, dequeue, slot, qkey. cbn [unstq set_unstq].
  destruct (filter _ _); reflexivity.
Qed.
Lemma del_unstaking_vals s a v : vals (del_unstaking s a v) = vals s.
Proof. reflexivity. Qed.
Lemma qframe x s s' : vals s' = vals s -> unstq s' = unstq s -> qcx x (vals s) (unstq s) -> qcx x (vals s') (unstq s').
Proof. intros -> ->. auto. Qed.

Ltac qk := unfold queue_ok, qc in *; cbn [vals unstq set_bank set_vals set_powidx set_prev set_unstq set_sign
                                         set_queues set_misc set_params set_block put_val del_staked] in *.

Lemma bank_send_q s f t a s' : bank_send s f t a = Some s' -> vals s' = vals s /\ unstq s' = unstq s.
Proof. unfold bank_send. destruct (_ || _); [discriminate|]. intros [= <-]. auto. Qed.
Lemma bank_mint_q s m a s' : bank_mint s m a = Some s' -> vals s' = vals s /\ unstq s' = unstq s.
Proof. unfold bank_mint. destruct (_ <? _); [discriminate|]. intros [= <-]. auto. Qed.
Lemma bank_burn_q s m a s' : bank_burn s m a = Some s' -> vals s' = vals s /\ unstq s' = unstq s.
Proof. unfold bank_burn. destruct (_ || _); [discriminate|]. intros [= <-]. auto. Qed.
Lemma set_staked_q s a v : vals (set_staked s a v) = vals s /\ unstq (set_staked s a v) = unstq s.
Proof. unfold set_staked. destruct (_ || _); auto. Qed.

(* a record update that keeps status and completion time *)
Lemma put_same_q s a v v1 : queue_ok s -> get_val s a = Some v -> v_status v1 = v_status v -> v_unstime v1 = v_unstime v ->
  queue_ok (put_val s a v1).
Proof.
  intros H E St Ut. qk. apply qc_put; [apply qcx_weaken; auto|]. intros S1.
  destruct H as (_ & _ & H). unfold qkey. rewrite Ut. apply (H a v); auto; [discriminate|congruence].
Qed.

Lemma force_unstake_q s a v s' : queue_ok s -> get_val s a = Some v -> force_unstake s a v = Some s' -> queue_ok s'.
Proof.
  unfold force_unstake, get_val. intros H E.
  set (s0 := del_staked s a v).
  set (s1 := if (v_status v =? 1)%N then del_unstaking s0 a v else s0).
  assert (H1 : qcx (Some a) (vals s1) (unstq s1)).
  { unfold s1. destruct (v_status v =? 1)%N.
    - rewrite del_unstaking_eq. apply qc_dequeue. exact H.
    - apply qcx_weaken. exact H. }
  destruct (if 0 <? v_tokens v then burn_staked s1 (v_tokens v) else Some s1) as [s2|] eqn:E2; [|discriminate].
  assert (F : vals s2 = vals s1 /\ unstq s2 = unstq s1).
  { destruct (0 <? v_tokens v); [|injection E2 as <-; auto]. unfold burn_staked in E2.
    destruct (_ <=? _); [discriminate|]. eapply bank_burn_q; eauto. }
  destruct F as [F1 F2]. intros [= <-]. qk. rewrite F1, F2. apply qc_put; auto. cbn. discriminate.
Qed.

Definition sres_q (r : sres) : Prop := match r with SOk s | SErr s => queue_ok s | SPanic => True end.
Lemma slash_q s a h p f : queue_ok s -> sres_q (slash s a h p f).
Proof.
  intros H. unfold slash.
  destruct (f <? 0); [exact H|]. destruct (height s <? h); [exact H|].
  destruct (get_val s a) as [v|] eqn:E; [|exact H].
  destruct (v_status v =? 0)%N; [exact H|].
  destruct (tokens_from_power p) as [amount|]; [|exact I].
  destruct (dec_mul (dec_from_int amount) f) as [d|]; [|exact I].
  destruct (dec_truncate_int d) as [sa|]; [|exact I].
  set (burn := Z.max (Z.min sa (v_tokens v)) 0).
  set (v1 := with_tokens v (v_tokens v - burn)).
  set (s2 := set_staked (put_val (del_staked s a v) a v1) a v1).
  assert (H2 : queue_ok s2).
  { unfold s2, queue_ok. destruct (set_staked_q (put_val (del_staked s a v) a v1) a v1) as [-> ->].
    apply (put_same_q (del_staked s a v) a v v1); auto. }
  assert (G2 : get_val s2 a = Some v1).
  { unfold get_val, s2. rewrite (proj1 (set_staked_q _ _ _)). apply get_put_val. apply H. }
  destruct (burn_staked s2 burn) as [s3|] eqn:E3; [|exact H2].
  assert (F : vals s3 = vals s2 /\ unstq s3 = unstq s2).
  { unfold burn_staked in E3. destruct (_ <=? _); [discriminate|]. eapply bank_burn_q; eauto. }
  destruct F as [F1 F2].
  assert (H3 : queue_ok s3) by (unfold queue_ok; rewrite F1, F2; exact H2).
  destruct (v_tokens v1 <? p_min_stake (pp s3)); [|exact H3].
  destruct (force_unstake s3 a v1) as [s4|] eqn:E4; [|exact H3].
  eapply force_unstake_q; [exact H3| |exact E4]. unfold get_val. rewrite F1. exact G2.
Qed.

Lemma jail_q s a s' : queue_ok s -> jail s a = Some s' -> queue_ok s'.
Proof.
  unfold jail. intros H. destruct (get_val s a) as [v|] eqn:E; [|discriminate].
  destruct (v_jailed v); [discriminate|]. intros [= <-].
  pose proof (put_same_q s a v (with_jailed v true) H E eq_refl eq_refl) as X. exact X.
Qed.
Lemma unjail_q s a s' : queue_ok s -> unjail s a = Some s' -> queue_ok s'.
Proof.
  unfold unjail. intros H. destruct (get_val s a) as [v|] eqn:E; [|discriminate].
  destruct (v_jailed v); [|discriminate]. intros [= <-].
  pose proof (put_same_q s a v (with_jailed v false) H E eq_refl eq_refl) as X.
  unfold queue_ok. destruct (set_staked_q (put_val s a (with_jailed v false)) a (with_jailed v false)) as [-> ->]. exact X.
Qed.

Lemma handle_signature_q s a p sg s' : queue_ok s -> handle_signature s a p sg = Some s' -> queue_ok s'.
Proof.
  unfold handle_signature. intros H.
  destruct (aget (pkrel s) a); [|discriminate]. destruct (aget (sinfo s) a) as [si|]; [|discriminate].
  destruct (p_window (pp s) <=? 0); [discriminate|].
  match goal with |- context[let '(mi, ctr) := ?X in _] => destruct X as [mi ctr] end.
  set (s1 := set_sign s (sinfo s) mi). assert (H1 : queue_ok s1) by exact H.
  destruct (_ && _).
  - destruct (get_val s1 a) as [v|].
    + destruct (v_jailed v); [intros [= <-]; exact H1|].
      pose proof (slash_q s1 a (height s - 2) p (p_slash_dt (pp s)) H1) as Hs.
      destruct (slash s1 a (height s - 2) p (p_slash_dt (pp s))) as [x|x|]; try discriminate;
        simpl in Hs; (destruct (jail x a) as [s3|] eqn:Ej; [|discriminate]);
        pose proof (jail_q _ _ _ Hs Ej) as H3; intros [= <-]; exact H3.
    + intros [= <-]; exact H1.
  - intros [= <-]; exact H1.
Qed.
Lemma handle_double_sign_q s a h t p s' : queue_ok s -> handle_double_sign s a h t p = Some s' -> queue_ok s'.
Proof.
  unfold handle_double_sign. intros H.
  destruct (aget (pkrel s) a); [|discriminate]. destruct (_ <? _); [discriminate|].
  destruct (get_val s a) as [v|]; [|discriminate]. destruct (v_status v =? 0)%N; [discriminate|].
  destruct (aget (sinfo s) a) as [si|]; [|discriminate]. destruct (si_tomb si); [discriminate|].
  pose proof (slash_q s a (h - 1) p (p_slash_ds (pp s)) H) as Hs.
  destruct (slash s a (h - 1) p (p_slash_ds (pp s))) as [x|x|]; try discriminate; simpl in Hs.
  all: destruct (v_jailed v);
    [ destruct (get_val x a) as [v2|] eqn:G2; [|discriminate];
      destruct (force_unstake x a v2) as [s3|] eqn:Ef; [|discriminate];
      pose proof (force_unstake_q _ _ _ _ Hs G2 Ef) as H3; intros [= <-]; exact H3
    | destruct (jail x a) as [s2|] eqn:Ej; [|discriminate]; pose proof (jail_q _ _ _ Hs Ej) as H2;
      destruct (get_val s2 a) as [v2|] eqn:G2; [|discriminate];
      destruct (force_unstake s2 a v2) as [s3|] eqn:Ef; [|discriminate];
      pose proof (force_unstake_q _ _ _ _ H2 G2 Ef) as H3; intros [= <-]; exact H3 ].
Qed.

Lemma qok_frame s s' : vals s' = vals s -> unstq s' = unstq s -> queue_ok s -> queue_ok s'.
Proof. unfold queue_ok. intros -> ->. auto. Qed.
Lemma reward_from_fees_q s p s' : queue_ok s -> reward_from_fees s p = Some s' -> queue_ok s'.
Proof.
  unfold reward_from_fees. intros H.
  destruct (bank_send s (m_fee (ma s)) (m_pos (ma s)) (bal s (m_fee (ma s)))) as [s1|] eqn:E1; [|discriminate].
  destruct (bank_send_q _ _ _ _ _ E1) as (F1 & F2). assert (H1 : queue_ok s1) by (eapply qok_frame; eauto).
  destruct (get_val s1 p); [|intros [= <-]; auto].
  intros E2. destruct (bank_send_q _ _ _ _ _ E2) as (G1 & G2). eapply qok_frame; eauto.
Qed.
Lemma mint_award_q s a amt : queue_ok s -> queue_ok (mint_award s a amt).
Proof.
  unfold mint_award. intros H. destruct (bank_mint s (m_pool (ma s)) amt) as [s1|] eqn:E1; auto.
  destruct (bank_mint_q _ _ _ _ E1) as (F1 & F2). assert (H1 : queue_ok s1) by (eapply qok_frame; eauto).
  destruct (bank_send s1 (m_pool (ma s1)) a amt) as [s2|] eqn:E2; auto.
  destruct (bank_send_q _ _ _ _ _ E2) as (G1 & G2). eapply qok_frame; eauto.
Qed.
Lemma mint_awards_q s : queue_ok s -> queue_ok (mint_awards s).
Proof.
  unfold mint_awards. intros H.
  assert (G : forall l st, queue_ok st -> queue_ok (fold_left (fun st p => mint_award st (fst p) (snd p)) l st)).
  { induction l as [|x l IH]; simpl; auto. intros st Hst. apply IH. apply mint_award_q; auto. }
  exact (G (awards s) s H).
Qed.
Lemma burn_validators_loop_q l : forall s s', queue_ok s -> burn_validators_loop l s = Some s' -> queue_ok s'.
Proof.
  induction l as [|[a sev] r IH]; simpl; intros s s' H; [intros [= <-]; auto|].
  destruct (get_val s a) as [v|]; [|discriminate].
  match goal with |- context[slash s a ?h ?p ?f] =>
    pose proof (slash_q s a h p f H) as Hs; destruct (slash s a h p f) as [x|x|] end;
  try discriminate; simpl in Hs; apply IH; exact Hs.
Qed.
Lemma fold_opt_q {A} (f : state -> A -> option state) :
  (forall s x s', queue_ok s -> f s x = Some s' -> queue_ok s') ->
  forall l s s', queue_ok s -> fold_opt f l s = Some s' -> queue_ok s'.
Proof.
  intros Hf. induction l as [|x l IH]; simpl; intros s s' H; [intros [= <-]; auto|].
  destruct (f s x) as [s1|] eqn:E; [|discriminate]. apply IH. eapply Hf; eauto.
Qed.
Theorem begin_block_q s h t prop votes evs s' :
  queue_ok s -> begin_block s h t prop votes evs = Some s' -> queue_ok s'.
Proof.
  unfold begin_block. intros H.
  set (s0 := set_block s h t). assert (H0 : queue_ok s0) by exact H.
  destruct (if 1 <? h then match proposer s0 with None => None | Some p => reward_from_fees s0 p end else Some s0)
    as [s1|] eqn:E1; [|discriminate].
  assert (H1 : queue_ok s1).
  { destruct (1 <? h); [|injection E1 as <-; auto]. destruct (proposer s0); [|discriminate].
    eapply reward_from_fees_q; eauto. }
  pose proof (mint_awards_q s1 H1) as H2.
  destruct (burn_validators_loop (burns (mint_awards s1)) (mint_awards s1)) as [s3|] eqn:E3; [|discriminate].
  pose proof (burn_validators_loop_q _ _ _ H2 E3) as H3.
  set (s4 := set_misc s3 (Some prop) (pkrel s3)). assert (H4 : queue_ok s4) by exact H3.
  destruct (fold_opt _ votes s4) as [s5|] eqn:E5; [|discriminate].
  assert (H5 : queue_ok s5).
  { eapply (fold_opt_q _ (fun s x s' Hs E => handle_signature_q s _ _ _ s' Hs E)); eauto. }
  intros E6. eapply (fold_opt_q _ (fun s x s' Hs E => handle_double_sign_q s _ _ _ _ s' Hs E)); eauto.
Qed.

(* ---- EndBlock ---- *)
Lemma upd_loop_q idx : forall n s prev total acc s' prev' total' acc',
  upd_loop idx n s prev total acc = Some (s', prev', total', acc') -> vals s' = vals s /\ unstq s' = unstq s /\ btime s' = btime s.
Proof.
  induction idx as [|[k a] r IH]; intros n s prev total acc s' prev' total' acc'.
  - destruct n; simpl; intros [= <- _ _ _]; auto.
  - destruct n; simpl; [intros [= <- _ _ _]; auto|].
    destruct (get_val s a) as [v|]; [|discriminate]. destruct (v_jailed v); [discriminate|].
    destruct (power_of (v_tokens v) =? 0); [discriminate|].
    match goal with |- context[let '(s1, acc1) := ?X in _] => destruct X as [s1 acc1] eqn:EX end.
    intros E. destruct (IH _ _ _ _ _ _ _ _ _ E) as (F1 & F2 & F3).
    assert (G : vals s1 = vals s /\ unstq s1 = unstq s /\ btime s1 = btime s).
    { destruct (aget prev a) as [p|]; [destruct (p =? _)|]; injection EX as <- _; auto. }
    destruct G as (G1 & G2 & G3). repeat split; congruence.
Qed.
Lemma leftover_fold_q l : forall s1 s2,
  fold_opt (fun st (p : bytes * Z) => match get_val st (fst p) with
                                      | None => None
                                      | Some _ => Some (set_prev st (adel (prevpow st) (fst p)) (prevtotal st)) end) l s1 = Some s2 ->
  vals s2 = vals s1 /\ unstq s2 = unstq s1 /\ btime s2 = btime s1.
Proof.
  induction l as [|p r IH]; simpl; intros s1 s2; [intros [= <-]; auto|].
  destruct (get_val s1 (fst p)); [|discriminate]. intros E. destruct (IH _ _ E) as (A1 & A2 & A3).
  cbn [vals unstq btime set_prev] in *. auto.
Qed.
Lemma update_tm_validators_q s s' ups : update_tm_validators s = Some (s', ups) ->
  vals s' = vals s /\ unstq s' = unstq s /\ btime s' = btime s.
Proof.
  unfold update_tm_validators.
  destruct (upd_loop _ _ s (prevpow s) 0 []) as [[[[s1 leftover] total] acc]|] eqn:E; [|discriminate].
  destruct (upd_loop_q _ _ _ _ _ _ _ _ _ _ E) as (F1 & F2 & F3).
  destruct (fold_opt _ leftover s1) as [s2|] eqn:E2; [|discriminate].
  destruct (leftover_fold_q _ _ _ E2) as (G1 & G2 & G3).
  intros [= <- _]. destruct (rev acc ++ _); cbn [vals unstq btime set_prev]; repeat split; congruence.
Qed.

(* queue lists only shrink, validators only disappear, while the queue is being drained *)
Definition shrinks (Q0 Q : amap (list bytes)) : Prop :=
  forall k l', aget Q k = Some l' -> exists l, aget Q0 k = Some l /\ incl l' l.
Lemma shrinks_refl Q : shrinks Q Q.
Proof. intros k l E. exists l; split; auto. apply incl_refl. Qed.
Lemma shrinks_trans Q0 Q1 Q2 : shrinks Q0 Q1 -> shrinks Q1 Q2 -> shrinks Q0 Q2.
Proof.
  intros A B k l2 E2. destruct (B k l2 E2) as (l1 & E1 & I1). destruct (A k l1 E1) as (l0 & E0 & I0).
  exists l0; split; auto. eapply incl_tran; eauto.
Qed.
Definition vanish (s s' : state) : Prop := forall b v, get_val s' b = Some v -> get_val s b = Some v.

Lemma finish_unstaking_q s a v s' : queue_ok s -> get_val s a = Some v -> finish_unstaking s a v = Some s' ->
  queue_ok s' /\ shrinks (unstq s) (unstq s') /\ vanish s s' /\ get_val s' a = None /\ btime s' = btime s.
Proof.
  unfold finish_unstaking. intros H E.
  destruct (negb (is_int64 (v_tokens v))); [discriminate|].
  destruct (bank_send _ _ a (v_tokens v)) as [s2|] eqn:E2; [|discriminate].
  destruct (bank_send_q _ _ _ _ _ E2) as (F1 & F2).
  assert (Fb : btime s2 = btime s).
  { unfold bank_send in E2. destruct (_ || _); [discriminate|]. injection E2 as <-. reflexivity. }
  rewrite del_unstaking_vals in F1. rewrite del_unstaking_eq in F2. intros [= <-].
  pose proof H as (SV & SQ & _).
  split; [|split; [|split; [|split]]].
  - qk. rewrite F1, F2. apply qc_delval_self. apply qc_dequeue. exact H.
  - cbn [unstq set_vals]. rewrite F2. intros k l' Hk. apply (dequeue_incl _ _ _ _ _ SQ Hk).
  - intros b w. unfold get_val. cbn [vals set_vals]. rewrite F1. rewrite aget_adel by auto.
    destruct (beqb a b); [discriminate|auto].
  - unfold get_val. cbn [vals set_vals]. rewrite F1. rewrite aget_adel by auto. rewrite beqb_refl. reflexivity.
  - exact Fb.
Qed.
Lemma unstake_one_q s a s' : queue_ok s -> unstake_one s a = Some s' ->
  queue_ok s' /\ shrinks (unstq s) (unstq s') /\ vanish s s' /\
  (forall v, get_val s' a = Some v -> v_status v <> 1%N) /\ btime s' = btime s.
Proof.
  unfold unstake_one. intros H. destruct (get_val s a) as [v|] eqn:E.
  - destruct (v_status v =? 1)%N eqn:St; cbn [negb].
    + intros Ef. destruct (finish_unstaking_q s a v s' H E Ef) as (A & B & C & D & F).
      split; auto. split; auto. split; auto. split; auto. intros w Ew. congruence.
    + intros [= <-]. split; auto. split; [apply shrinks_refl|]. split; [intros b w; auto|]. split; auto.
      intros w Ew. rewrite E in Ew. injection Ew as <-. intros C. rewrite C in St. discriminate.
  - intros [= <-]. split; auto. split; [apply shrinks_refl|]. split; [intros b w; auto|]. split; auto.
    intros w Ew. congruence.
Qed.
Lemma unstake_list_q l : forall s s', queue_ok s -> fold_opt unstake_one l s = Some s' ->
  queue_ok s' /\ shrinks (unstq s) (unstq s') /\ vanish s s' /\
  (forall a, In a l -> forall v, get_val s' a = Some v -> v_status v <> 1%N) /\ btime s' = btime s.
Proof.
  induction l as [|a r IH]; simpl; intros s s' H.
  - intros [= <-]. split; [auto|]. split; [apply shrinks_refl|]. split; [intros b w; auto|]. split; [intros a F; destruct F|reflexivity].
  - destruct (unstake_one s a) as [s1|] eqn:E1; [|discriminate]. intros E2.
    destruct (unstake_one_q s a s1 H E1) as (A1 & B1 & C1 & D1 & F1).
    destruct (IH s1 s' A1 E2) as (A2 & B2 & C2 & D2 & F2).
    split; auto. split; [eapply shrinks_trans; eauto|]. split; [intros b w Hw; apply C1; apply C2; auto|].
    split; [|congruence]. intros x [<-|Hx] w Hw; [apply D1; apply C2; auto|eapply D2; eauto].
Qed.

Lemma in_aget {V} (m : amap V) k v : asorted m -> In (k, v) m -> aget m k = Some v.
Proof.
  induction m as [|[k0 v0] r IH]; simpl; intros S Hin; [destruct Hin|]. destruct S as [B S]. destruct Hin as [Hin|Hin].
  - injection Hin as -> ->. rewrite bcompare_refl. reflexivity.
  - pose proof (B (k, v) Hin) as L. simpl in L. change (cmp true k0 k) with (bcompare k0 k) in L.
    rewrite bcompare_antisym, L. simpl. apply IH; auto.
Qed.

(* one mature slot: drain its (snapshot) list, then drop the slot *)
Lemma drain_slot_q Q0 s k l s1 : queue_ok s -> shrinks Q0 (unstq s) -> aget Q0 k = Some l ->
  fold_opt unstake_one l s = Some s1 ->
  let s' := set_unstq s1 (adel (unstq s1) k) in
  queue_ok s' /\ shrinks (unstq s) (unstq s') /\ vanish s s' /\ aget (unstq s') k = None /\ btime s' = btime s.
Proof.
  intros H Sh E0 Ef. destruct (unstake_list_q l s s1 H Ef) as (A & B & C & D & F).
  pose proof A as (SV & SQ & HA). cbn zeta. split; [|split; [|split; [|split]]].
  - qk. split; auto. split; [apply adel_sorted; auto|]. intros b v _ Eb St.
    destruct (HA b v ltac:(discriminate) Eb St) as (lc & Ec & Ic). unfold queued.
    rewrite aget_adel by auto. destruct (beqb k (qkey v)) eqn:Bk; [|exists lc; auto].
    exfalso. apply beqb_eq in Bk. rewrite <- Bk in Ec.
    destruct (shrinks_trans _ _ _ Sh B k lc Ec) as (l0 & El0 & I0). rewrite E0 in El0. injection El0 as <-.
    apply (D b (I0 b Ic) v Eb St).
  - cbn [unstq set_unstq]. intros k' l' Hk. rewrite aget_adel in Hk by auto. destruct (beqb k k'); [discriminate|].
    apply (B k' l' Hk).
  - intros b w Hw. apply C. exact Hw.
  - cbn [unstq set_unstq]. rewrite aget_adel by auto. rewrite beqb_refl. reflexivity.
  - exact F.
Qed.

Definition drain_step (st : state) (p : bytes * list bytes) : option state :=
  match fold_opt unstake_one (snd p) st with
  | None => None
  | Some st1 => Some (set_unstq st1 (adel (unstq st1) (fst p)))
  end.
Lemma drain_all_q Q0 ps : forall s s', queue_ok s -> shrinks Q0 (unstq s) ->
  (forall p, In p ps -> aget Q0 (fst p) = Some (snd p)) ->
  fold_opt drain_step ps s = Some s' ->
  queue_ok s' /\ shrinks (unstq s) (unstq s') /\ vanish s s' /\ (forall p, In p ps -> aget (unstq s') (fst p) = None) /\ btime s' = btime s.
Proof.
  induction ps as [|p r IH]; simpl; intros s s' H Sh A.
  - intros [= <-]. split; [auto|]. split; [apply shrinks_refl|]. split; [intros b w; auto|]. split; [intros p F; destruct F|reflexivity].
  - unfold drain_step at 1. destruct (fold_opt unstake_one (snd p) s) as [s1|] eqn:E1; [|discriminate]. intros E2.
    destruct (drain_slot_q Q0 s (fst p) (snd p) s1 H Sh (A p (or_introl eq_refl)) E1) as (A1 & B1 & C1 & D1 & F1).
    destruct (IH _ s' A1 (shrinks_trans _ _ _ Sh B1) (fun q Hq => A q (or_intror Hq)) E2) as (A2 & B2 & C2 & D2 & F2).
    split; auto. split; [eapply shrinks_trans; eauto|]. split; [intros b w Hw; apply C1; apply C2; auto|]. split; [|congruence].
    intros q [<-|Hq]; [|apply D2; auto].
    (* the slot dropped first cannot come back: lists only shrink *)
    destruct (aget (unstq s') (fst p)) as [lq|] eqn:Eq; auto. exfalso.
    destruct (B2 _ _ Eq) as (l1 & E1' & _). rewrite D1 in E1'. discriminate.
Qed.

Theorem unstake_mature_q s s' : queue_ok s -> unstake_mature s = Some s' ->
  queue_ok s' /\ vanish s s' /\ btime s' = btime s /\
  (forall k l, In (k, l) (unstq s) -> bleb k (time_key (btime s)) = true -> aget (unstq s') k = None).
Proof.
  unfold unstake_mature. intros H E. pose proof H as (SV & SQ & _).
  set (ps := filter (fun p => bleb (fst p) (time_key (btime s))) (unstq s)) in *.
  assert (A : forall p, In p ps -> aget (unstq s) (fst p) = Some (snd p)).
  { intros [k l] Hp. apply filter_In in Hp. apply in_aget; auto. apply Hp. }
  change (fold_opt drain_step ps s = Some s') in E.
  destruct (drain_all_q (unstq s) ps s s' H (shrinks_refl _) A E) as (A1 & B1 & C1 & D1 & F1).
  split; auto. split; auto. split; auto. intros k l Hin Hb. apply (D1 (k, l)). apply filter_In. split; auto.
Qed.

Theorem end_block_q s s' ups : queue_ok s -> end_block s = Some (s', ups) ->
  queue_ok s' /\
  (* released on time: nobody whose completion time has been reached is still unstaking *)
  (forall b v, get_val s' b = Some v -> v_status v = 1%N -> bleb (qkey v) (time_key (btime s)) = false).
Proof.
  unfold end_block. intros H. destruct (update_tm_validators s) as [[s1 u]|] eqn:E; [|discriminate].
  destruct (update_tm_validators_q _ _ _ E) as (F1 & F2 & F3).
  assert (H1 : queue_ok s1) by (eapply qok_frame; eauto).
  destruct (unstake_mature s1) as [s2|] eqn:E2; [|discriminate]. intros [= <- _].
  destruct (unstake_mature_q s1 s2 H1 E2) as (A & C & Fb & D). split; auto.
  intros b v Eb St. destruct (bleb (qkey v) (time_key (btime s))) eqn:Bl; auto. exfalso.
  pose proof A as (_ & _ & HA). destruct (HA b v ltac:(discriminate) Eb St) as (lc & Ec & Ic).
  (* its slot still exists in s2, so it existed (mature) in s1 - and mature slots are gone *)
  pose proof H1 as (_ & SQ1 & _).
  assert (Sh : shrinks (unstq s1) (unstq s2)).
  { unfold unstake_mature in E2.
    set (ps := filter (fun p => bleb (fst p) (time_key (btime s1))) (unstq s1)) in *.
    assert (A0 : forall p, In p ps -> aget (unstq s1) (fst p) = Some (snd p)).
    { intros [k l] Hp. apply filter_In in Hp. apply in_aget; auto. apply Hp. }
    change (fold_opt drain_step ps s1 = Some s2) in E2.
    destruct (drain_all_q (unstq s1) ps s1 s2 H1 (shrinks_refl _) A0 E2) as (_ & B1 & _). exact B1. }
  destruct (Sh _ _ Ec) as (l1 & E1 & _).
  assert (In (qkey v, l1) (unstq s1)) by (apply aget_in; auto).
  rewrite (D (qkey v) l1 H0) in Ec; [discriminate|]. rewrite F3. exact Bl.
Qed.

(* ---- transactions ---- *)
Lemma qcx_close V Q a : qcx (Some a) V Q -> (forall v, aget V a = Some v -> v_status v = 1%N -> queued Q (qkey v) a) -> qc V Q.
Proof.
  intros (SV & SQ & H) Ha. split; auto. split; auto. intros b v _ E St.
  destruct (beqb a b) eqn:B; [apply beqb_eq in B; subst b; auto|]. apply beqb_false_neq in B. apply H; auto. congruence.
Qed.
Lemma put_not_unstaking_q s a v1 : queue_ok s -> v_status v1 <> 1%N -> queue_ok (put_val s a v1).
Proof. intros H N. qk. apply qc_put; [apply qcx_weaken; auto|]. intros E. contradiction. Qed.
Lemma apply_param_q s k v raw : queue_ok s -> queue_ok (apply_param s k v raw).
Proof. unfold apply_param. intros H. destruct v; exact H. Qed.
Definition hres_q (r : hres) : Prop := match r with HOk s | HErr s => queue_ok s end.
Lemma handle_q s m : queue_ok s -> hres_q (handle s m).
Proof.
  intros H. destruct m as [pk a amt|a|a|f t amt|f key v raw wf|f t amt act|f h raw]; simpl.
  - set (v0 := match get_val s a with Some v => v | None => _ end).
    destruct (v_status v0 =? 0)%N eqn:St0; cbn [negb]; [|exact H]. apply N.eqb_eq in St0.
    destruct (match aget (sinfo s) a with Some si => si_tomb si | None => false end); [exact H|]. destruct (amt <? p_min_stake (pp s)); [exact H|]. destruct (bal s a <? amt); [exact H|].
    set (s1 := match get_val s a with Some _ => s | None => _ end).
    assert (H1 : queue_ok s1).
    { unfold s1. destruct (get_val s a); [auto|].
      pose proof (put_not_unstaking_q s a v0 H) as X. apply X. rewrite St0. discriminate. }
    destruct (bank_send s1 a (m_pool (ma s1)) amt) as [s2|] eqn:E; [|exact H1].
    destruct (bank_send_q _ _ _ _ _ E) as (F1 & F2). assert (H2 : queue_ok s2) by (eapply qok_frame; eauto). simpl.
    set (v1 := with_status (with_tokens v0 (v_tokens v0 + amt)) 2).
    assert (H3 : queue_ok (set_staked (put_val s2 a v1) a v1)).
    { unfold queue_ok. destruct (set_staked_q (put_val s2 a v1) a v1) as [-> ->].
      apply put_not_unstaking_q; auto. cbn. discriminate. }
    match goal with |- queue_ok (match ?X with _ => _ end) => destruct X end; exact H3.
  - (* begin unstake: record status 1 with completion time t, and enqueue under t *)
    destruct (get_val s a) as [v|] eqn:E; [|exact H]. destruct (negb _); [exact H|]. destruct (_ <? _); [exact H|]. simpl.
    set (t := btime s + p_unstaking_time (pp s)). set (v1 := with_unstime (with_status v 1) t).
    qk. change (match aget (unstq s) (time_key t) with Some l => l | None => [] end) with (slot (unstq s) (time_key t)).
    change (aset (unstq s) (time_key t) (slot (unstq s) (time_key t) ++ [a])) with (enqueue (unstq s) (time_key t) a).
    pose proof H as (SV & SQ & _).
    apply (qcx_close _ _ a).
    + apply qc_enqueue. apply qcx_put. apply qcx_weaken. exact H.
    + intros w. rewrite aget_aset by auto. rewrite beqb_refl. intros [= <-] _. apply queued_enqueue_self; auto.
  - destruct (get_val s a) as [v|]; [|exact H]. destruct (_ <? _); [exact H|]. destruct (negb _); [exact H|].
    destruct (aget (sinfo s) a) as [si|]; [|exact H]. destruct (si_tomb si); [exact H|]. destruct (_ <? _); [exact H|].
    destruct (unjail s a) as [s1|] eqn:E; [|exact H]. simpl. eapply unjail_q; eauto.
  - destruct (bank_send s f t amt) as [s1|] eqn:E; [|exact H]. simpl.
    destruct (bank_send_q _ _ _ _ _ E) as (F1 & F2). eapply qok_frame; eauto.
  - destruct (negb _); [exact H|]. destruct wf; simpl; auto. apply apply_param_q; auto.
  - destruct (negb _); [exact H|]. destruct (act =? 1)%N.
    + destruct (bank_send s (m_dao (ma s)) t amt) as [s1|] eqn:E; [|exact H]. simpl.
      destruct (bank_send_q _ _ _ _ _ E) as (F1 & F2). eapply qok_frame; eauto.
    + destruct (act =? 2)%N; [|exact H].
      destruct (bank_burn s (m_dao (ma s)) amt) as [s1|] eqn:E; [|exact H]. simpl.
      destruct (bank_burn_q _ _ _ _ E) as (F1 & F2). eapply qok_frame; eauto.
  - destruct (negb _); [exact H|]. simpl. exact H.
Qed.
Lemma ante_q s t s' : queue_ok s -> ante s t = Some s' -> queue_ok s'.
Proof.
  unfold ante. intros H. destruct (_ <? _); [discriminate|].
  match goal with |- context[match ?X with Some ka => _ | None => None end] => destruct X as [ka|] end; [|discriminate].
  destruct (negb _); [discriminate|]. destruct (t_in_index t); [discriminate|]. destruct (_ <? _); [discriminate|].
  destruct (_ && _); [discriminate|]. destruct (_ || _); [discriminate|].
  destruct (aget (accts s) _) as [b|]; [|discriminate]. destruct (b <? t_fee t); [discriminate|].
  intros E. destruct (bank_send_q _ _ _ _ _ E) as (F1 & F2). eapply qok_frame; eauto.
Qed.
Theorem deliver_tx_q s t : queue_ok s -> queue_ok (dres_state (deliver_tx s t)).
Proof.
  intros H. unfold deliver_tx. destruct (_ || _); [exact H|].
  destruct (ante s t) as [s1|] eqn:E; [|exact H]. pose proof (ante_q _ _ _ H E) as H1.
  pose proof (handle_q s1 (t_msg t) H1) as Hh. destruct (handle s1 (t_msg t)); exact Hh.
Qed.
Theorem step_q s o s' : queue_ok s -> step s o = Some s' -> queue_ok s'.
Proof.
  intros H. destruct o as [h t p vs es|t|a amt|a sev| |]; simpl.
  - apply begin_block_q; auto.
  - intros [= <-]. apply deliver_tx_q; auto.
  - intros [= <-]. exact H.
  - intros [= <-]. exact H.
  - destruct (end_block s) as [[s1 u]|] eqn:E; [|discriminate]. intros [= <-]. eapply end_block_q; eauto.
  - intros [= <-]; auto.
Qed.
Theorem run_q ops : forall s s', queue_ok s -> run ops s = Some s' -> queue_ok s'.
Proof. unfold run. apply fold_opt_q. apply step_q. Qed.

(* genesis validators are all staked: nothing to queue *)
Lemma genesis_validator_q s g : queue_ok s -> queue_ok (genesis_validator s g).
Proof.
  destruct g as [[a pk] tokens]. unfold genesis_validator. intros H.
  set (v := {| v_pk := pk; v_jailed := false; v_status := 2; v_tokens := tokens; v_unstime := 0 |}).
  assert (H1 : queue_ok (set_staked (put_val s a v) a v)).
  { unfold queue_ok. destruct (set_staked_q (put_val s a v) a v) as [-> ->]. apply put_not_unstaking_q; auto. cbn. discriminate. }
  exact H1.
Qed.
Theorem init_chain_q s0 gvals dao s ups : queue_ok s0 -> init_chain s0 gvals dao = Some (s, ups) -> queue_ok s.
Proof.
  unfold init_chain. intros H.
  assert (H1 : queue_ok (fold_left genesis_validator gvals s0)).
  { revert s0 H. induction gvals as [|g r IH]; simpl; auto. intros s0 H. apply IH. apply genesis_validator_q; auto. }
  destruct (update_tm_validators _) as [[s2 u]|] eqn:E; [|discriminate].
  destruct (update_tm_validators_q _ _ _ E) as (F1 & F2 & _). assert (H2 : queue_ok s2) by (eapply qok_frame; eauto).
  destruct (bank_mint s2 _ dao) as [s3|] eqn:E3; intros [= <- _]; auto.
  destruct (bank_mint_q _ _ _ _ E3) as (G1 & G2). eapply qok_frame; eauto.
Qed.

(* with times inside the 8-byte range of the key, "key <= key of block time" is "time <= block time" *)
Theorem released_on_time s s' ups b v : queue_ok s -> end_block s = Some (s', ups) ->
  0 <= btime s < 256 ^ 8 -> get_val s' b = Some v -> v_status v = 1%N -> 0 <= v_unstime v < 256 ^ 8 ->
  btime s < v_unstime v.
Proof.
  intros H E Rb Eb St Rv. destruct (end_block_q s s' ups H E) as [_ R]. specialize (R b v Eb St).
  unfold bleb, qkey, time_key in R. rewrite be_bytes_compare in R by (simpl; lia).
  destruct (Z.compare_spec (v_unstime v) (btime s)); try discriminate. lia.
Qed.

(* ================= the other direction: the queue is SOUND, hence nobody is released early ================= *)
(* every address queued under key k is an unstaking validator whose completion time has key k *)
Definition qs (V : amap validator) (Q : amap (list bytes)) : Prop :=
  asorted V /\ asorted Q /\
  forall k l a, aget Q k = Some l -> In a l -> exists v, aget V a = Some v /\ v_status v = 1%N /\ qkey v = k.
Definition queue_sound (s : state) : Prop := qs (vals s) (unstq s).
(* ... except possibly for entries naming [x] *)
Definition qsx (x : bytes) (V : amap validator) (Q : amap (list bytes)) : Prop :=
  asorted V /\ asorted Q /\
  forall k l a, aget Q k = Some l -> In a l -> a <> x -> exists v, aget V a = Some v /\ v_status v = 1%N /\ qkey v = k.
Definition absent (Q : amap (list bytes)) (x : bytes) : Prop := forall k l, aget Q k = Some l -> ~ In x l.

Lemma qs_weaken x V Q : qs V Q -> qsx x V Q.
Proof. intros (SV & SQ & H). split; auto. split; auto. intros k l a E I _. eapply H; eauto. Qed.
Lemma qsx_close x V Q : qsx x V Q -> absent Q x -> qs V Q.
Proof.
  intros (SV & SQ & H) A. split; auto. split; auto. intros k l a E I.
  destruct (list_eq_dec N.eq_dec a x) as [->|N]; [exfalso; eapply A; eauto|]. eapply H; eauto.
Qed.
(* removing x from the slot its record names removes it everywhere (soundness: it is in no other slot) *)
Lemma qs_dequeue V Q x v : qs V Q -> aget V x = Some v -> qsx x V (dequeue Q (qkey v) x) /\ absent (dequeue Q (qkey v) x) x.
Proof.
  intros (SV & SQ & H) Ex. split.
  - split; auto. split; [apply dequeue_sorted; auto|]. intros k l a E I N.
    destruct (dequeue_incl _ _ _ _ _ SQ E) as (l0 & E0 & I0). eapply H; eauto.
  - intros k l E I. unfold dequeue in E.
    destruct (filter (fun y => negb (beqb y x)) (slot Q (qkey v))) as [|y q'] eqn:F.
    + rewrite aget_adel in E by auto. destruct (beqb (qkey v) k) eqn:B; [discriminate|].
      destruct (H k l x E I) as (v' & Ev' & _ & Kv'). rewrite Ex in Ev'. injection Ev' as <-.
      apply beqb_false_neq in B. contradiction.
    + rewrite aget_aset in E by auto. destruct (beqb (qkey v) k) eqn:B.
      * injection E as <-. rewrite <- F in I. apply filter_In in I. destruct I as [_ I]. rewrite beqb_refl in I. discriminate.
      * destruct (H k l x E I) as (v' & Ev' & _ & Kv'). rewrite Ex in Ev'. injection Ev' as <-.
        apply beqb_false_neq in B. contradiction.
Qed.
Lemma qsx_put x V Q v1 : qsx x V Q -> qsx x (aset V x v1) Q.
Proof.
  intros (SV & SQ & H). split; [apply aset_sorted; auto|]. split; auto. intros k l a E I N.
  destruct (H k l a E I N) as (v & Ev & R). exists v. split; auto. rewrite aget_aset by auto.
  destruct (beqb x a) eqn:B; auto. apply beqb_eq in B. congruence.
Qed.
Lemma qsx_delval x V Q : qsx x V Q -> qsx x (adel V x) Q.
Proof.
  intros (SV & SQ & H). split; [apply adel_sorted; auto|]. split; auto. intros k l a E I N.
  destruct (H k l a E I N) as (v & Ev & R). exists v. split; auto. rewrite aget_adel by auto.
  destruct (beqb x a) eqn:B; auto. apply beqb_eq in B. congruence.
Qed.
(* a record update that keeps status 1 and the completion time, or concerns an address that is not queued *)
Lemma qs_put_same V Q x v v1 : qs V Q -> aget V x = Some v -> v_status v1 = v_status v -> v_unstime v1 = v_unstime v -> qs (aset V x v1) Q.
Proof.
  intros (SV & SQ & H) Ex St Ut. split; [apply aset_sorted; auto|]. split; auto. intros k l a E I.
  destruct (H k l a E I) as (w & Ew & Sw & Kw). rewrite aget_aset by auto. destruct (beqb x a) eqn:B.
  - apply beqb_eq in B; subst a. rewrite Ex in Ew. injection Ew as <-. exists v1. split; auto. split; [congruence|].
    unfold qkey in *. congruence.
  - exists w; auto.
Qed.
Lemma qs_put_absent V Q x v1 : qs V Q -> absent Q x -> qs (aset V x v1) Q.
Proof. intros H A. apply (qsx_close x); auto. apply qsx_put. apply qs_weaken; auto. Qed.
Lemma absent_not_unstaking V Q x : qs V Q -> (forall v, aget V x = Some v -> v_status v <> 1%N) -> absent Q x.
Proof. intros (_ & _ & H) N k l E I. destruct (H k l x E I) as (v & Ev & St & _). apply (N v Ev St). Qed.
Lemma absent_enqueue_other Q k a x : asorted Q -> a <> x -> absent Q x -> absent (enqueue Q k a) x.
Proof.
  intros S N A k' l E I. unfold enqueue in E. rewrite aget_aset in E by auto. destruct (beqb k k') eqn:B.
  - injection E as <-. apply in_app_or in I. destruct I as [I|[I|[]]]; [|congruence].
    unfold slot in I. destruct (aget Q k) as [l0|] eqn:E0; [eapply A; eauto|destruct I].
  - eapply A; eauto.
Qed.

Lemma qs_frame s s' : vals s' = vals s -> unstq s' = unstq s -> queue_sound s -> queue_sound s'.
Proof. unfold queue_sound. intros -> ->. auto. Qed.
Lemma qs_adel V Q k : qs V Q -> qs V (adel Q k).
Proof.
  intros (SV & SQ & H). split; auto. split; [apply adel_sorted; auto|]. intros k' l a E I.
  rewrite aget_adel in E by auto. destruct (beqb k k'); [discriminate|]. eapply H; eauto.
Qed.
Lemma qs_enqueue_new V Q a v1 k : qs V Q -> absent Q a -> v_status v1 = 1%N -> qkey v1 = k ->
  qs (aset V a v1) (enqueue Q k a).
Proof.
  intros (SV & SQ & H) A St Kk. split; [apply aset_sorted; auto|]. split; [apply enqueue_sorted; auto|].
  intros k' l b E I. unfold enqueue in E. rewrite aget_aset in E by auto. rewrite aget_aset by auto.
  destruct (beqb k k') eqn:B.
  - apply beqb_eq in B; subst k'. injection E as <-. apply in_app_or in I. destruct I as [I|[<-|[]]].
    + unfold slot in I. destruct (aget Q k) as [l0|] eqn:E0; [|destruct I].
      destruct (beqb a b) eqn:Bb; [apply beqb_eq in Bb; subst b; exfalso; eapply A; eauto|]. eapply H; eauto.
    + rewrite beqb_refl. exists v1; auto.
  - destruct (beqb a b) eqn:Bb; [apply beqb_eq in Bb; subst b; exfalso; eapply A; eauto|]. eapply H; eauto.
Qed.

Lemma put_same_qs s a v v1 : queue_sound s -> get_val s a = Some v -> v_status v1 = v_status v -> v_unstime v1 = v_unstime v ->
  queue_sound (put_val s a v1).
Proof. intros H E St Ut. unfold queue_sound. cbn [vals unstq put_val set_vals]. eapply qs_put_same; eauto. Qed.

Lemma force_unstake_qs s a v s' : queue_sound s -> get_val s a = Some v -> force_unstake s a v = Some s' -> queue_sound s'.
Proof.
  unfold force_unstake, get_val. intros H E.
  set (s1 := if (v_status v =? 1)%N then del_unstaking (del_staked s a v) a v else del_staked s a v).
  assert (H1 : qsx a (vals s1) (unstq s1) /\ absent (unstq s1) a).
  { unfold s1. destruct (v_status v =? 1)%N eqn:St.
    - rewrite del_unstaking_eq, del_unstaking_vals. apply qs_dequeue; auto.
    - split; [apply qs_weaken; exact H|]. apply (absent_not_unstaking (vals s)); [exact H|].
      intros v' Ev'. cbn [vals del_staked set_powidx] in Ev'. rewrite E in Ev'. injection Ev' as <-.
      intros C. rewrite C in St. discriminate. }
  destruct H1 as [H1 A1].
  destruct (if 0 <? v_tokens v then burn_staked s1 (v_tokens v) else Some s1) as [s2|] eqn:E2; [|discriminate].
  assert (F : vals s2 = vals s1 /\ unstq s2 = unstq s1).
  { destruct (0 <? v_tokens v); [|injection E2 as <-; auto]. unfold burn_staked in E2.
    destruct (_ <=? _); [discriminate|]. eapply bank_burn_q; eauto. }
  destruct F as [F1 F2]. intros [= <-]. unfold queue_sound. cbn [vals unstq put_val set_vals]. rewrite F1, F2.
  apply (qsx_close a); auto. apply qsx_put; auto.
Qed.
Definition sres_qs (r : sres) : Prop := match r with SOk s | SErr s => queue_sound s | SPanic => True end.
Lemma slash_qs s a h p f : queue_sound s -> sres_qs (slash s a h p f).
Proof.
  intros H. unfold slash.
  destruct (f <? 0); [exact H|]. destruct (height s <? h); [exact H|].
  destruct (get_val s a) as [v|] eqn:E; [|exact H].
  destruct (v_status v =? 0)%N; [exact H|].
  destruct (tokens_from_power p) as [amount|]; [|exact I].
  destruct (dec_mul (dec_from_int amount) f) as [d|]; [|exact I].
  destruct (dec_truncate_int d) as [sa|]; [|exact I].
  set (burn := Z.max (Z.min sa (v_tokens v)) 0).
  set (v1 := with_tokens v (v_tokens v - burn)).
  set (s2 := set_staked (put_val (del_staked s a v) a v1) a v1).
  assert (H2 : queue_sound s2).
  { unfold s2, queue_sound. destruct (set_staked_q (put_val (del_staked s a v) a v1) a v1) as [-> ->].
    apply (put_same_qs (del_staked s a v) a v v1); auto. }
  assert (G2 : get_val s2 a = Some v1).
  { unfold get_val, s2. rewrite (proj1 (set_staked_q _ _ _)). apply get_put_val. apply H. }
  destruct (burn_staked s2 burn) as [s3|] eqn:E3; [|exact H2].
  assert (F : vals s3 = vals s2 /\ unstq s3 = unstq s2).
  { unfold burn_staked in E3. destruct (_ <=? _); [discriminate|]. eapply bank_burn_q; eauto. }
  destruct F as [F1 F2].
  assert (H3 : queue_sound s3) by (unfold queue_sound; rewrite F1, F2; exact H2).
  destruct (v_tokens v1 <? p_min_stake (pp s3)); [|exact H3].
  destruct (force_unstake s3 a v1) as [s4|] eqn:E4; [|exact H3].
  eapply force_unstake_qs; [exact H3| |exact E4]. unfold get_val. rewrite F1. exact G2.
Qed.
Lemma jail_qs s a s' : queue_sound s -> jail s a = Some s' -> queue_sound s'.
Proof.
  unfold jail. intros H. destruct (get_val s a) as [v|] eqn:E; [|discriminate].
  destruct (v_jailed v); [discriminate|]. intros [= <-].
  exact (put_same_qs s a v (with_jailed v true) H E eq_refl eq_refl).
Qed.
Lemma unjail_qs s a s' : queue_sound s -> unjail s a = Some s' -> queue_sound s'.
Proof.
  unfold unjail. intros H. destruct (get_val s a) as [v|] eqn:E; [|discriminate].
  destruct (v_jailed v); [|discriminate]. intros [= <-].
  pose proof (put_same_qs s a v (with_jailed v false) H E eq_refl eq_refl) as X.
  unfold queue_sound. destruct (set_staked_q (put_val s a (with_jailed v false)) a (with_jailed v false)) as [-> ->]. exact X.
Qed.
Lemma handle_signature_qs s a p sg s' : queue_sound s -> handle_signature s a p sg = Some s' -> queue_sound s'.
Proof.
  unfold handle_signature. intros H.
  destruct (aget (pkrel s) a); [|discriminate]. destruct (aget (sinfo s) a) as [si|]; [|discriminate].
  destruct (p_window (pp s) <=? 0); [discriminate|].
  match goal with |- context[let '(mi, ctr) := ?X in _] => destruct X as [mi ctr] end.
  set (s1 := set_sign s (sinfo s) mi). assert (H1 : queue_sound s1) by exact H.
  destruct (_ && _).
  - destruct (get_val s1 a) as [v|].
    + destruct (v_jailed v); [intros [= <-]; exact H1|].
      pose proof (slash_qs s1 a (height s - 2) p (p_slash_dt (pp s)) H1) as Hs.
      destruct (slash s1 a (height s - 2) p (p_slash_dt (pp s))) as [x|x|]; try discriminate;
        simpl in Hs; (destruct (jail x a) as [s3|] eqn:Ej; [|discriminate]);
        pose proof (jail_qs _ _ _ Hs Ej) as H3; intros [= <-]; exact H3.
    + intros [= <-]; exact H1.
  - intros [= <-]; exact H1.
Qed.
Lemma handle_double_sign_qs s a h t p s' : queue_sound s -> handle_double_sign s a h t p = Some s' -> queue_sound s'.
Proof.
  unfold handle_double_sign. intros H.
  destruct (aget (pkrel s) a); [|discriminate]. destruct (_ <? _); [discriminate|].
  destruct (get_val s a) as [v|]; [|discriminate]. destruct (v_status v =? 0)%N; [discriminate|].
  destruct (aget (sinfo s) a) as [si|]; [|discriminate]. destruct (si_tomb si); [discriminate|].
  pose proof (slash_qs s a (h - 1) p (p_slash_ds (pp s)) H) as Hs.
  destruct (slash s a (h - 1) p (p_slash_ds (pp s))) as [x|x|]; try discriminate; simpl in Hs.
  all: destruct (v_jailed v);
    [ destruct (get_val x a) as [v2|] eqn:G2; [|discriminate];
      destruct (force_unstake x a v2) as [s3|] eqn:Ef; [|discriminate];
      pose proof (force_unstake_qs _ _ _ _ Hs G2 Ef) as H3; intros [= <-]; exact H3
    | destruct (jail x a) as [s2|] eqn:Ej; [|discriminate]; pose proof (jail_qs _ _ _ Hs Ej) as H2;
      destruct (get_val s2 a) as [v2|] eqn:G2; [|discriminate];
      destruct (force_unstake s2 a v2) as [s3|] eqn:Ef; [|discriminate];
      pose proof (force_unstake_qs _ _ _ _ H2 G2 Ef) as H3; intros [= <-]; exact H3 ].
Qed.
Lemma reward_from_fees_qs s p s' : queue_sound s -> reward_from_fees s p = Some s' -> queue_sound s'.
Proof.
  unfold reward_from_fees. intros H.
  destruct (bank_send s (m_fee (ma s)) (m_pos (ma s)) (bal s (m_fee (ma s)))) as [s1|] eqn:E1; [|discriminate].
  destruct (bank_send_q _ _ _ _ _ E1) as (F1 & F2). assert (H1 : queue_sound s1) by (eapply qs_frame; eauto).
  destruct (get_val s1 p); [|intros [= <-]; auto].
  intros E2. destruct (bank_send_q _ _ _ _ _ E2) as (G1 & G2). eapply qs_frame; eauto.
Qed.
Lemma mint_award_qs s a amt : queue_sound s -> queue_sound (mint_award s a amt).
Proof.
  unfold mint_award. intros H. destruct (bank_mint s (m_pool (ma s)) amt) as [s1|] eqn:E1; auto.
  destruct (bank_mint_q _ _ _ _ E1) as (F1 & F2). assert (H1 : queue_sound s1) by (eapply qs_frame; eauto).
  destruct (bank_send s1 (m_pool (ma s1)) a amt) as [s2|] eqn:E2; auto.
  destruct (bank_send_q _ _ _ _ _ E2) as (G1 & G2). eapply qs_frame; eauto.
Qed.
Lemma mint_awards_qs s : queue_sound s -> queue_sound (mint_awards s).
Proof.
  unfold mint_awards. intros H.
  assert (G : forall l st, queue_sound st -> queue_sound (fold_left (fun st p => mint_award st (fst p) (snd p)) l st)).
  { induction l as [|x l IH]; simpl; auto. intros st Hst. apply IH. apply mint_award_qs; auto. }
  exact (G (awards s) s H).
Qed.
Lemma burn_validators_loop_qs l : forall s s', queue_sound s -> burn_validators_loop l s = Some s' -> queue_sound s'.
Proof.
  induction l as [|[a sev] r IH]; simpl; intros s s' H; [intros [= <-]; auto|].
  destruct (get_val s a) as [v|]; [|discriminate].
  match goal with |- context[slash s a ?h ?p ?f] =>
    pose proof (slash_qs s a h p f H) as Hs; destruct (slash s a h p f) as [x|x|] end;
  try discriminate; simpl in Hs; apply IH; exact Hs.
Qed.
Lemma fold_opt_qs {A} (f : state -> A -> option state) :
  (forall s x s', queue_sound s -> f s x = Some s' -> queue_sound s') ->
  forall l s s', queue_sound s -> fold_opt f l s = Some s' -> queue_sound s'.
Proof.
  intros Hf. induction l as [|x l IH]; simpl; intros s s' H; [intros [= <-]; auto|].
  destruct (f s x) as [s1|] eqn:E; [|discriminate]. apply IH. eapply Hf; eauto.
Qed.
Theorem begin_block_qs s h t prop votes evs s' :
  queue_sound s -> begin_block s h t prop votes evs = Some s' -> queue_sound s'.
Proof.
  unfold begin_block. intros H.
  set (s0 := set_block s h t). assert (H0 : queue_sound s0) by exact H.
  destruct (if 1 <? h then match proposer s0 with None => None | Some p => reward_from_fees s0 p end else Some s0)
    as [s1|] eqn:E1; [|discriminate].
  assert (H1 : queue_sound s1).
  { destruct (1 <? h); [|injection E1 as <-; auto]. destruct (proposer s0); [|discriminate].
    eapply reward_from_fees_qs; eauto. }
  pose proof (mint_awards_qs s1 H1) as H2.
  destruct (burn_validators_loop (burns (mint_awards s1)) (mint_awards s1)) as [s3|] eqn:E3; [|discriminate].
  pose proof (burn_validators_loop_qs _ _ _ H2 E3) as H3.
  set (s4 := set_misc s3 (Some prop) (pkrel s3)). assert (H4 : queue_sound s4) by exact H3.
  destruct (fold_opt _ votes s4) as [s5|] eqn:E5; [|discriminate].
  assert (H5 : queue_sound s5).
  { eapply (fold_opt_qs _ (fun s x s' Hs E => handle_signature_qs s _ _ _ s' Hs E)); eauto. }
  intros E6. eapply (fold_opt_qs _ (fun s x s' Hs E => handle_double_sign_qs s _ _ _ _ s' Hs E)); eauto.
Qed.

Lemma finish_unstaking_qs s a v s' : queue_sound s -> get_val s a = Some v -> finish_unstaking s a v = Some s' -> queue_sound s'.
Proof.
  unfold finish_unstaking, get_val. intros H E.
  destruct (negb (is_int64 (v_tokens v))); [discriminate|].
  destruct (bank_send _ _ a (v_tokens v)) as [s2|] eqn:E2; [|discriminate].
  destruct (bank_send_q _ _ _ _ _ E2) as (F1 & F2).
  rewrite del_unstaking_vals in F1. rewrite del_unstaking_eq in F2. intros [= <-].
  unfold queue_sound. cbn [vals unstq set_vals]. rewrite F1, F2.
  destruct (qs_dequeue _ _ a v H E) as [X A]. apply (qsx_close a); auto. apply qsx_delval; auto.
Qed.
Lemma unstake_one_qs s a s' : queue_sound s -> unstake_one s a = Some s' -> queue_sound s'.
Proof.
  unfold unstake_one. intros H. destruct (get_val s a) as [v|] eqn:E; [|intros [= <-]; auto].
  destruct (negb _); [intros [= <-]; auto|]. eapply finish_unstaking_qs; eauto.
Qed.
Lemma unstake_mature_qs s s' : queue_sound s -> unstake_mature s = Some s' -> queue_sound s'.
Proof.
  unfold unstake_mature. intros H. apply fold_opt_qs; auto.
  intros st p st' Hst. destruct (fold_opt unstake_one (snd p) st) as [st1|] eqn:E; [|discriminate].
  pose proof (fold_opt_qs unstake_one unstake_one_qs _ _ _ Hst E) as H1. intros [= <-].
  unfold queue_sound. cbn [vals unstq set_unstq]. apply qs_adel. exact H1.
Qed.
Theorem end_block_qs s s' ups : queue_sound s -> end_block s = Some (s', ups) -> queue_sound s'.
Proof.
  unfold end_block. intros H. destruct (update_tm_validators s) as [[s1 u]|] eqn:E; [|discriminate].
  destruct (update_tm_validators_q _ _ _ E) as (F1 & F2 & _). assert (H1 : queue_sound s1) by (eapply qs_frame; eauto).
  destruct (unstake_mature s1) as [s2|] eqn:E2; [|discriminate]. intros [= <- _]. eapply unstake_mature_qs; eauto.
Qed.

Definition hres_qs (r : hres) : Prop := match r with HOk s | HErr s => queue_sound s end.
Lemma handle_qs s m : queue_sound s -> hres_qs (handle s m).
Proof.
  intros H. destruct m as [pk a amt|a|a|f t amt|f key v raw wf|f t amt act|f h raw]; simpl.
  - set (v0 := match get_val s a with Some v => v | None => _ end).
    destruct (v_status v0 =? 0)%N eqn:St0; cbn [negb]; [|exact H]. apply N.eqb_eq in St0.
    destruct (match aget (sinfo s) a with Some si => si_tomb si | None => false end); [exact H|].
    destruct (amt <? p_min_stake (pp s)); [exact H|]. destruct (bal s a <? amt); [exact H|].
    assert (A : absent (unstq s) a).
    { apply (absent_not_unstaking (vals s)); [exact H|]. intros v' Ev'. unfold v0, get_val in St0. rewrite Ev' in St0.
      rewrite St0. discriminate. }
    set (s1 := match get_val s a with Some _ => s | None => _ end).
    assert (H1 : queue_sound s1 /\ unstq s1 = unstq s).
    { unfold s1. destruct (get_val s a); [auto|]. split; [|reflexivity].
      unfold queue_sound. cbn [vals unstq set_misc put_val set_vals]. apply qs_put_absent; auto. }
    destruct H1 as [H1 Q1].
    destruct (bank_send s1 a (m_pool (ma s1)) amt) as [s2|] eqn:E; [|exact H1].
    destruct (bank_send_q _ _ _ _ _ E) as (F1 & F2). assert (H2 : queue_sound s2) by (eapply qs_frame; eauto). simpl.
    set (v1 := with_status (with_tokens v0 (v_tokens v0 + amt)) 2).
    assert (H3 : queue_sound (set_staked (put_val s2 a v1) a v1)).
    { unfold queue_sound. destruct (set_staked_q (put_val s2 a v1) a v1) as [-> ->].
      cbn [vals unstq put_val set_vals]. apply qs_put_absent; auto. rewrite F2, Q1. exact A. }
    match goal with |- queue_sound (match ?X with _ => _ end) => destruct X end; exact H3.
  - destruct (get_val s a) as [v|] eqn:E; [|exact H]. destruct (v_status v =? 2)%N eqn:St; cbn [negb]; [|exact H].
    destruct (_ <? _); [exact H|]. simpl. apply N.eqb_eq in St.
    set (t := btime s + p_unstaking_time (pp s)). set (v1 := with_unstime (with_status v 1) t).
    unfold queue_sound. cbn [vals unstq set_unstq put_val set_vals del_staked set_powidx].
    change (match aget (unstq s) (time_key t) with Some l => l | None => [] end) with (slot (unstq s) (time_key t)).
    change (aset (unstq s) (time_key t) (slot (unstq s) (time_key t) ++ [a])) with (enqueue (unstq s) (time_key t) a).
    apply qs_enqueue_new; [exact H| |reflexivity|reflexivity].
    apply (absent_not_unstaking (vals s)); [exact H|]. intros v' Ev'. unfold get_val in E. rewrite E in Ev'. injection Ev' as <-.
    rewrite St. discriminate.
  - destruct (get_val s a) as [v|]; [|exact H]. destruct (_ <? _); [exact H|]. destruct (negb _); [exact H|].
    destruct (aget (sinfo s) a) as [si|]; [|exact H]. destruct (si_tomb si); [exact H|]. destruct (_ <? _); [exact H|].
    destruct (unjail s a) as [s1|] eqn:E; [|exact H]. simpl. eapply unjail_qs; eauto.
  - destruct (bank_send s f t amt) as [s1|] eqn:E; [|exact H]. simpl.
    destruct (bank_send_q _ _ _ _ _ E) as (F1 & F2). eapply qs_frame; eauto.
  - destruct (negb _); [exact H|]. destruct wf; simpl; auto. unfold apply_param. destruct v; exact H.
  - destruct (negb _); [exact H|]. destruct (act =? 1)%N.
    + destruct (bank_send s (m_dao (ma s)) t amt) as [s1|] eqn:E; [|exact H]. simpl.
      destruct (bank_send_q _ _ _ _ _ E) as (F1 & F2). eapply qs_frame; eauto.
    + destruct (act =? 2)%N; [|exact H].
      destruct (bank_burn s (m_dao (ma s)) amt) as [s1|] eqn:E; [|exact H]. simpl.
      destruct (bank_burn_q _ _ _ _ E) as (F1 & F2). eapply qs_frame; eauto.
  - destruct (negb _); [exact H|]. simpl. exact H.
Qed.
Lemma ante_qs s t s' : queue_sound s -> ante s t = Some s' -> queue_sound s'.
Proof.
  unfold ante. intros H. destruct (_ <? _); [discriminate|].
  match goal with |- context[match ?X with Some ka => _ | None => None end] => destruct X as [ka|] end; [|discriminate].
  destruct (negb _); [discriminate|]. destruct (t_in_index t); [discriminate|]. destruct (_ <? _); [discriminate|].
  destruct (_ && _); [discriminate|]. destruct (_ || _); [discriminate|].
  destruct (aget (accts s) _) as [b|]; [|discriminate]. destruct (b <? t_fee t); [discriminate|].
  intros E. destruct (bank_send_q _ _ _ _ _ E) as (F1 & F2). eapply qs_frame; eauto.
Qed.
Theorem deliver_tx_qs s t : queue_sound s -> queue_sound (dres_state (deliver_tx s t)).
Proof.
  intros H. unfold deliver_tx. destruct (_ || _); [exact H|].
  destruct (ante s t) as [s1|] eqn:E; [|exact H]. pose proof (ante_qs _ _ _ H E) as H1.
  pose proof (handle_qs s1 (t_msg t) H1) as Hh. destruct (handle s1 (t_msg t)); exact Hh.
Qed.
Theorem step_qs s o s' : queue_sound s -> step s o = Some s' -> queue_sound s'.
Proof.
  intros H. destruct o as [h t p vs es|t|a amt|a sev| |]; simpl.
  - apply begin_block_qs; auto.
  - intros [= <-]. apply deliver_tx_qs; auto.
  - intros [= <-]. exact H.
  - intros [= <-]. exact H.
  - destruct (end_block s) as [[s1 u]|] eqn:E; [|discriminate]. intros [= <-]. eapply end_block_qs; eauto.
  - intros [= <-]; auto.
Qed.
Theorem run_qs ops : forall s s', queue_sound s -> run ops s = Some s' -> queue_sound s'.
Proof. unfold run. apply fold_opt_qs. apply step_qs. Qed.
Lemma genesis_validator_qs s g : queue_sound s -> aget (vals s) (g_addr g) = None -> queue_sound (genesis_validator s g).
Proof.
  destruct g as [[a pk] tokens]. unfold genesis_validator, g_addr. cbn [fst]. intros H E.
  set (v := {| v_pk := pk; v_jailed := false; v_status := 2; v_tokens := tokens; v_unstime := 0 |}).
  assert (H1 : queue_sound (set_staked (put_val s a v) a v)).
  { unfold queue_sound. destruct (set_staked_q (put_val s a v) a v) as [-> ->]. cbn [vals unstq put_val set_vals].
    apply qs_put_absent; auto. apply (absent_not_unstaking (vals s)); auto. intros v' Ev'. congruence. }
  exact H1.
Qed.
Theorem init_chain_qs s0 gvals dao s ups : queue_sound s0 -> NoDup (map g_addr gvals) ->
  (forall g, In g gvals -> aget (vals s0) (g_addr g) = None) -> init_chain s0 gvals dao = Some (s, ups) -> queue_sound s.
Proof.
  unfold init_chain. intros H ND A.
  assert (H1 : queue_sound (fold_left genesis_validator gvals s0)).
  { revert s0 H ND A. induction gvals as [|g r IH]; simpl; auto. intros s0 H ND A. inversion ND as [|? ? NI ND']; subst.
    apply IH; auto; [apply genesis_validator_qs; auto|].
    intros g' Hg'. rewrite genesis_validator_vals; [apply A; auto|apply H|]. intros E. apply NI. rewrite E. apply in_map; auto. }
  destruct (update_tm_validators _) as [[s2 u]|] eqn:E; [|discriminate].
  destruct (update_tm_validators_q _ _ _ E) as (F1 & F2 & _). assert (H2 : queue_sound s2) by (eapply qs_frame; eauto).
  destruct (bank_mint s2 _ dao) as [s3|] eqn:E3; intros [= <- _]; auto.
  destruct (bank_mint_q _ _ _ _ E3) as (G1 & G2). eapply qs_frame; eauto.
Qed.

(* ---- never early: EndBlock does not touch an unstaking validator whose completion time is still ahead ---- *)
Lemma finish_other s a v s' b : asorted (vals s) -> a <> b -> finish_unstaking s a v = Some s' ->
  get_val s' b = get_val s b /\ asorted (vals s').
Proof.
  unfold finish_unstaking. intros S N. destruct (negb _); [discriminate|].
  destruct (bank_send _ _ a (v_tokens v)) as [s2|] eqn:E2; [|discriminate].
  destruct (bank_send_q _ _ _ _ _ E2) as (F1 & _). rewrite del_unstaking_vals in F1. intros [= <-].
  unfold get_val. cbn [vals set_vals]. rewrite F1. split; [|apply adel_sorted; auto].
  rewrite aget_adel by auto. destruct (beqb a b) eqn:B; auto. apply beqb_eq in B. contradiction.
Qed.
Lemma unstake_one_other s a s' b : asorted (vals s) -> a <> b -> unstake_one s a = Some s' ->
  get_val s' b = get_val s b /\ asorted (vals s').
Proof.
  unfold unstake_one. intros S N. destruct (get_val s a) as [v|]; [|intros [= <-]; auto].
  destruct (negb _); [intros [= <-]; auto|]. apply finish_other; auto.
Qed.
Lemma unstake_list_other l b : forall s s', asorted (vals s) -> ~ In b l -> fold_opt unstake_one l s = Some s' ->
  get_val s' b = get_val s b /\ asorted (vals s').
Proof.
  induction l as [|a r IH]; simpl; intros s s' S N; [intros [= <-]; auto|].
  destruct (unstake_one s a) as [s1|] eqn:E1; [|discriminate]. intros E2.
  destruct (unstake_one_other s a s1 b S ltac:(tauto) E1) as [G1 S1].
  destruct (IH s1 s' S1 ltac:(tauto) E2) as [G2 S2]. split; auto. congruence.
Qed.
Lemma drain_other ps b : forall s s', asorted (vals s) -> (forall p, In p ps -> ~ In b (snd p)) ->
  fold_opt drain_step ps s = Some s' -> get_val s' b = get_val s b.
Proof.
  induction ps as [|p r IH]; simpl; intros s s' S N; [intros [= <-]; auto|].
  unfold drain_step at 1. destruct (fold_opt unstake_one (snd p) s) as [s1|] eqn:E1; [|discriminate]. intros E2.
  destruct (unstake_list_other (snd p) b s s1 S (N p (or_introl eq_refl)) E1) as [G1 S1].
  rewrite (IH (set_unstq s1 (adel (unstq s1) (fst p))) s' S1 (fun q Hq => N q (or_intror Hq)) E2). exact G1.
Qed.
Theorem not_released_early s s' ups b v : queue_sound s -> end_block s = Some (s', ups) ->
  0 <= btime s < 256 ^ 8 -> get_val s b = Some v -> v_status v = 1%N -> 0 <= v_unstime v < 256 ^ 8 ->
  btime s < v_unstime v -> get_val s' b = Some v.
Proof.
  unfold end_block. intros H E Rb Eb St Rv Lt.
  destruct (update_tm_validators s) as [[s1 u]|] eqn:E1; [|discriminate].
  destruct (update_tm_validators_q _ _ _ E1) as (F1 & F2 & F3).
  destruct (unstake_mature s1) as [s2|] eqn:E2; [|discriminate]. injection E as <- _.
  unfold unstake_mature in E2.
  set (ps := filter (fun p => bleb (fst p) (time_key (btime s1))) (unstq s1)) in *.
  change (fold_opt drain_step ps s1 = Some s2) in E2.
  assert (H1 : queue_sound s1) by (eapply qs_frame; eauto). pose proof H1 as (SV & SQ & HS).
  rewrite (drain_other ps b s1 s2 SV) ; [unfold get_val; rewrite F1; exact Eb| |exact E2].
  intros [k l] Hp Hin. apply filter_In in Hp. destruct Hp as [Hq Hm]. cbn [fst snd] in *.
  destruct (HS k l b (in_aget _ _ _ SQ Hq) Hin) as (v' & Ev' & _ & Kv').
  rewrite F1 in Ev'. unfold get_val in Eb. rewrite Eb in Ev'. injection Ev' as <-.
  rewrite <- Kv', F3 in Hm. unfold bleb, qkey, time_key in Hm. rewrite be_bytes_compare in Hm by (simpl; lia).
  destruct (Z.compare_spec (v_unstime v) (btime s)); try discriminate; lia.
Qed.
