(* C05 / C06 / C09: the power index is SOUND in every reachable state of every history: each of
   its entries names an existing validator that is staked, not jailed, and stored under the key
   computed from its CURRENT stake. Hence a jailed, unstaking or unstaked validator is never in
   the index (never offered to Tendermint), whatever the history. Same organisation as
   BankProofs: three primitives (delete key / write record / insert key), then every model
   function by composition. *)
From Coq Require Import List ZArith NArith Bool Lia.
From PM Require Import Base.Bytes Store.KV Store.MergeProofs Store.KVProofs Num.IntModel Num.DecModel App.Model App.BankProofs.
Import ListNotations.
Local Open Scope Z_scope.

Definition isound (V : amap validator) (P : amap bytes) : Prop :=
  asorted V /\ asorted P /\
  forall k a, aget P k = Some a ->
    exists v, aget V a = Some v /\ v_status v = 2%N /\ v_jailed v = false /\ k = rank_key (v_tokens v) a.
Definition noent (P : amap bytes) (a : bytes) : Prop := forall k, aget P k <> Some a.
Definition idx_sound (s : state) : Prop := isound (vals s) (powidx s).

Lemma beqb_false_neq a b : beqb a b = false -> a <> b.
Proof. intros H E. subst. rewrite (proj2 (beqb_eq b b) eq_refl) in H. discriminate. Qed.
Lemma beqb_refl a : beqb a a = true.
Proof. apply beqb_eq. reflexivity. Qed.

(* ---- primitives on (validators, index) ---- *)
Lemma noent_absent V P a : isound V P -> aget V a = None -> noent P a.
Proof. intros (_ & _ & H) E k Hk. destruct (H k a Hk) as (v & Hv & _). congruence. Qed.
Lemma noent_unindexed V P a v : isound V P -> aget V a = Some v -> (v_status v <> 2%N \/ v_jailed v = true) -> noent P a.
Proof.
  intros (_ & _ & H) E C k Hk. destruct (H k a Hk) as (v' & Hv & St & J & _).
  rewrite E in Hv. injection Hv as <-. destruct C as [C|C]; congruence.
Qed.
Lemma is_del V P a v : isound V P -> aget V a = Some v ->
  isound V (adel P (rank_key (v_tokens v) a)) /\ noent (adel P (rank_key (v_tokens v) a)) a.
Proof.
  intros (SV & SP & H) E. split; [split; [auto|split; [apply adel_sorted; auto|]]|].
  - intros k b. rewrite aget_adel by auto. destruct (beqb _ k); [discriminate|]. apply H.
  - intros k. rewrite aget_adel by auto. destruct (beqb (rank_key (v_tokens v) a) k) eqn:B; [discriminate|].
    intros Hk. destruct (H k a Hk) as (v' & Hv & _ & _ & Ek). rewrite E in Hv. injection Hv as <-.
    apply beqb_false_neq in B. congruence.
Qed.
Lemma is_put V P a v1 : isound V P -> noent P a -> isound (aset V a v1) P.
Proof.
  intros (SV & SP & H) N. split; [apply aset_sorted; auto|split; [auto|]].
  intros k b Hk. destruct (H k b Hk) as (v & Hv & R). exists v. split; auto.
  rewrite aget_aset by auto. destruct (beqb a b) eqn:B; auto.
  apply beqb_eq in B; subst b. exfalso. apply (N k Hk).
Qed.
Lemma is_set V P a v1 : isound V P -> aget V a = Some v1 -> v_status v1 = 2%N -> v_jailed v1 = false ->
  isound V (aset P (rank_key (v_tokens v1) a) a).
Proof.
  intros (SV & SP & H) E St J. split; [auto|split; [apply aset_sorted; auto|]].
  intros k b. rewrite aget_aset by auto. destruct (beqb (rank_key (v_tokens v1) a) k) eqn:B.
  - intros [= <-]. apply beqb_eq in B. exists v1. auto.
  - apply H.
Qed.
Lemma is_delval V P a : isound V P -> noent P a -> isound (adel V a) P.
Proof.
  intros (SV & SP & H) N. split; [apply adel_sorted; auto|split; [auto|]].
  intros k b Hk. destruct (H k b Hk) as (v & Hv & R). exists v. split; auto.
  rewrite aget_adel by auto. destruct (beqb a b) eqn:B; auto.
  apply beqb_eq in B; subst b. exfalso. apply (N k Hk).
Qed.

(* ---- the keeper's three index operations ---- *)
Ltac ik := unfold idx_sound in *; cbn [vals powidx set_bank set_vals set_powidx set_prev set_unstq set_sign
                                       set_queues set_misc set_params set_block put_val] in *.

Lemma set_staked_is s a v1 : idx_sound s -> get_val s a = Some v1 -> idx_sound (set_staked s a v1).
Proof.
  unfold set_staked, get_val. intros H E. destruct (v_jailed v1) eqn:J; [exact H|]. cbn [orb].
  destruct (v_status v1 =? 2)%N eqn:St; [|exact H]. cbn [negb]. apply N.eqb_eq in St. ik. apply is_set; auto.
Qed.
Lemma set_staked_vals s a v : vals (set_staked s a v) = vals s.
Proof. unfold set_staked. destruct (_ || _); reflexivity. Qed.
Lemma del_staked_is s a v : idx_sound s -> get_val s a = Some v ->
  idx_sound (del_staked s a v) /\ noent (powidx (del_staked s a v)) a.
Proof. unfold del_staked, get_val. intros H E. ik. apply is_del; auto. Qed.
Lemma put_val_is s a v1 : idx_sound s -> noent (powidx s) a -> idx_sound (put_val s a v1).
Proof. intros H N. ik. apply is_put; auto. Qed.
Lemma get_put_val s a v : asorted (vals s) -> get_val (put_val s a v) a = Some v.
Proof. intros S. unfold get_val, put_val. cbn [vals set_vals]. rewrite aget_aset by auto. rewrite beqb_refl. reflexivity. Qed.

(* bank operations do not touch validators or index *)
Lemma bank_send_frame s f t a s' : bank_send s f t a = Some s' -> vals s' = vals s /\ powidx s' = powidx s /\ pp s' = pp s.
Proof. unfold bank_send. destruct (_ || _); [discriminate|]. intros [= <-]. auto. Qed.
Lemma bank_mint_frame s m a s' : bank_mint s m a = Some s' -> vals s' = vals s /\ powidx s' = powidx s /\ pp s' = pp s.
Proof. unfold bank_mint. destruct (_ <? _); [discriminate|]. intros [= <-]. auto. Qed.
Lemma bank_burn_frame s m a s' : bank_burn s m a = Some s' -> vals s' = vals s /\ powidx s' = powidx s /\ pp s' = pp s.
Proof. unfold bank_burn. destruct (_ || _); [discriminate|]. intros [= <-]. auto. Qed.
Lemma burn_staked_frame s a s' : burn_staked s a = Some s' -> vals s' = vals s /\ powidx s' = powidx s /\ pp s' = pp s.
Proof. unfold burn_staked. destruct (_ <=? _); [discriminate|]. apply bank_burn_frame. Qed.
Lemma frame_is s s' : vals s' = vals s -> powidx s' = powidx s -> idx_sound s -> idx_sound s'.
Proof. unfold idx_sound. intros -> ->. auto. Qed.

Lemma force_unstake_is s a v s' : idx_sound s -> get_val s a = Some v -> force_unstake s a v = Some s' -> idx_sound s'.
Proof.
  unfold force_unstake. intros H E.
  destruct (del_staked_is s a v H E) as [H0 N0]. set (s0 := del_staked s a v) in *.
  set (s1 := if (v_status v =? 1)%N then del_unstaking s0 a v else s0).
  assert (H1 : idx_sound s1 /\ noent (powidx s1) a).
  { unfold s1. destruct (v_status v =? 1)%N; auto. }
  destruct H1 as [H1 N1].
  destruct (if 0 <? v_tokens v then burn_staked s1 (v_tokens v) else Some s1) as [s2|] eqn:E2; [|discriminate].
  assert (F : vals s2 = vals s1 /\ powidx s2 = powidx s1).
  { destruct (0 <? v_tokens v); [apply burn_staked_frame in E2; tauto|injection E2 as <-; auto]. }
  destruct F as [F1 F2]. intros [= <-]. apply put_val_is; [eapply frame_is; eauto|rewrite F2; auto].
Qed.

Definition sres_is (r : sres) : Prop := match r with SOk s | SErr s => idx_sound s | SPanic => True end.
Lemma slash_is s a h p f : idx_sound s -> sres_is (slash s a h p f).
Proof.
  intros H. unfold slash.
  destruct (f <? 0); [exact H|]. destruct (height s <? h); [exact H|].
  destruct (get_val s a) as [v|] eqn:E; [|exact H].
  destruct (v_status v =? 0)%N; [exact H|].
  destruct (tokens_from_power p) as [amount|]; [|exact I].
  destruct (dec_mul (dec_from_int amount) f) as [d|]; [|exact I].
  destruct (dec_truncate_int d) as [sa|]; [|exact I].
  set (burn := Z.max (Z.min sa (v_tokens v)) 0).
  set (v1 := with_tokens v (v_tokens v - burn)).
  destruct (del_staked_is s a v H E) as [H1 N1].
  assert (Hp : idx_sound (put_val (del_staked s a v) a v1)) by (apply put_val_is; auto).
  assert (Gp : get_val (put_val (del_staked s a v) a v1) a = Some v1) by (apply get_put_val; apply H1).
  set (s2 := set_staked (put_val (del_staked s a v) a v1) a v1).
  assert (H2 : idx_sound s2) by (apply set_staked_is; auto).
  assert (G2 : get_val s2 a = Some v1) by (unfold get_val, s2; rewrite set_staked_vals; exact Gp).
  destruct (burn_staked s2 burn) as [s3|] eqn:E3; [|exact H2].
  destruct (burn_staked_frame _ _ _ E3) as (F1 & F2 & _).
  assert (H3 : idx_sound s3) by (eapply frame_is; eauto).
  destruct (v_tokens v1 <? p_min_stake (pp s3)); [|exact H3].
  destruct (force_unstake s3 a v1) as [s4|] eqn:E4; [|exact H3].
  eapply force_unstake_is; [exact H3| |exact E4]. unfold get_val. rewrite F1. exact G2.
Qed.

Lemma jail_is s a s' : idx_sound s -> jail s a = Some s' -> idx_sound s'.
Proof.
  unfold jail. intros H. destruct (get_val s a) as [v|] eqn:E; [|discriminate].
  destruct (v_jailed v); [discriminate|]. intros [= <-].
  change (del_staked (put_val s a (with_jailed v true)) a (with_jailed v true))
    with (put_val (del_staked s a v) a (with_jailed v true)).
  destruct (del_staked_is s a v H E) as [H1 N1]. apply put_val_is; auto.
Qed.
Lemma unjail_is s a s' : idx_sound s -> unjail s a = Some s' -> idx_sound s'.
Proof.
  unfold unjail. intros H. destruct (get_val s a) as [v|] eqn:E; [|discriminate].
  destruct (v_jailed v) eqn:J; [|discriminate]. intros [= <-].
  assert (N : noent (powidx s) a) by (eapply noent_unindexed; [exact H|exact E|auto]).
  apply set_staked_is; [apply put_val_is; auto|apply get_put_val; apply H].
Qed.

Lemma handle_signature_is s a p sg s' : idx_sound s -> handle_signature s a p sg = Some s' -> idx_sound s'.
Proof.
  unfold handle_signature. intros H.
  destruct (aget (pkrel s) a); [|discriminate]. destruct (aget (sinfo s) a) as [si|]; [|discriminate].
  destruct (p_window (pp s) <=? 0); [discriminate|].
  match goal with |- context[let '(mi, ctr) := ?X in _] => destruct X as [mi ctr] end.
  set (s1 := set_sign s (sinfo s) mi). assert (H1 : idx_sound s1) by (unfold s1; ik; auto).
  destruct (_ && _).
  - destruct (get_val s1 a) as [v|].
    + destruct (v_jailed v); [intros [= <-]; ik; auto|].
      pose proof (slash_is s1 a (height s - 2) p (p_slash_dt (pp s)) H1) as Hs.
      destruct (slash s1 a (height s - 2) p (p_slash_dt (pp s))) as [x|x|]; try discriminate;
        simpl in Hs; (destruct (jail x a) as [s3|] eqn:Ej; [|discriminate]);
        pose proof (jail_is _ _ _ Hs Ej); intros [= <-]; ik; auto.
    + intros [= <-]; ik; auto.
  - intros [= <-]; ik; auto.
Qed.

Lemma handle_double_sign_is s a h t p s' : idx_sound s -> handle_double_sign s a h t p = Some s' -> idx_sound s'.
Proof.
  unfold handle_double_sign. intros H.
  destruct (aget (pkrel s) a); [|discriminate]. destruct (_ <? _); [discriminate|].
  destruct (get_val s a) as [v|]; [|discriminate]. destruct (v_status v =? 0)%N; [discriminate|].
  destruct (aget (sinfo s) a) as [si|]; [|discriminate]. destruct (si_tomb si); [discriminate|].
  pose proof (slash_is s a (h - 1) p (p_slash_ds (pp s)) H) as Hs.
  destruct (slash s a (h - 1) p (p_slash_ds (pp s))) as [x|x|]; try discriminate; simpl in Hs.
  all: destruct (v_jailed v);
    [ destruct (get_val x a) as [v2|] eqn:G2; [|discriminate];
      destruct (force_unstake x a v2) as [s3|] eqn:Ef; [|discriminate];
      pose proof (force_unstake_is _ _ _ _ Hs G2 Ef); intros [= <-]; ik; auto
    | destruct (jail x a) as [s2|] eqn:Ej; [|discriminate]; pose proof (jail_is _ _ _ Hs Ej) as H2;
      destruct (get_val s2 a) as [v2|] eqn:G2; [|discriminate];
      destruct (force_unstake s2 a v2) as [s3|] eqn:Ef; [|discriminate];
      pose proof (force_unstake_is _ _ _ _ H2 G2 Ef); intros [= <-]; ik; auto ].
Qed.

Lemma reward_from_fees_is s p s' : idx_sound s -> reward_from_fees s p = Some s' -> idx_sound s'.
Proof.
  unfold reward_from_fees. intros H.
  destruct (bank_send s (m_fee (ma s)) (m_pos (ma s)) (bal s (m_fee (ma s)))) as [s1|] eqn:E1; [|discriminate].
  destruct (bank_send_frame _ _ _ _ _ E1) as (F1 & F2 & _).
  assert (H1 : idx_sound s1) by (eapply frame_is; eauto).
  destruct (get_val s1 p); [|intros [= <-]; auto].
  intros E2. destruct (bank_send_frame _ _ _ _ _ E2) as (G1 & G2 & _). eapply frame_is; eauto.
Qed.
Lemma mint_award_is s a amt : idx_sound s -> idx_sound (mint_award s a amt).
Proof.
  unfold mint_award. intros H. destruct (bank_mint s (m_pool (ma s)) amt) as [s1|] eqn:E1; auto.
  destruct (bank_mint_frame _ _ _ _ E1) as (F1 & F2 & _). assert (H1 : idx_sound s1) by (eapply frame_is; eauto).
  destruct (bank_send s1 (m_pool (ma s1)) a amt) as [s2|] eqn:E2; auto.
  destruct (bank_send_frame _ _ _ _ _ E2) as (G1 & G2 & _). eapply frame_is; eauto.
Qed.
Lemma mint_awards_is s : idx_sound s -> idx_sound (mint_awards s).
Proof.
  unfold mint_awards. intros H.
  assert (G : forall l st, idx_sound st -> idx_sound (fold_left (fun st p => mint_award st (fst p) (snd p)) l st)).
  { induction l as [|x l IH]; simpl; auto. intros st Hst. apply IH. apply mint_award_is; auto. }
  specialize (G (awards s) s H). ik; auto.
Qed.
Lemma burn_validators_loop_is l : forall s s', idx_sound s -> burn_validators_loop l s = Some s' -> idx_sound s'.
Proof.
  induction l as [|[a sev] r IH]; simpl; intros s s' H; [intros [= <-]; auto|].
  destruct (get_val s a) as [v|]; [|discriminate].
  match goal with |- context[slash s a ?h ?p ?f] =>
    pose proof (slash_is s a h p f H) as Hs; destruct (slash s a h p f) as [x|x|] end;
  try discriminate; simpl in Hs; apply IH; ik; auto.
Qed.
Lemma fold_opt_is {A} (f : state -> A -> option state) :
  (forall s x s', idx_sound s -> f s x = Some s' -> idx_sound s') ->
  forall l s s', idx_sound s -> fold_opt f l s = Some s' -> idx_sound s'.
Proof.
  intros Hf. induction l as [|x l IH]; simpl; intros s s' H; [intros [= <-]; auto|].
  destruct (f s x) as [s1|] eqn:E; [|discriminate]. apply IH. eapply Hf; eauto.
Qed.

Theorem begin_block_is s h t prop votes evs s' :
  idx_sound s -> begin_block s h t prop votes evs = Some s' -> idx_sound s'.
Proof.
  unfold begin_block. intros H.
  set (s0 := set_block s h t). assert (H0 : idx_sound s0) by (unfold s0; ik; auto).
  destruct (if 1 <? h then match proposer s0 with None => None | Some p => reward_from_fees s0 p end else Some s0)
    as [s1|] eqn:E1; [|discriminate].
  assert (H1 : idx_sound s1).
  { destruct (1 <? h); [|injection E1 as <-; auto]. destruct (proposer s0); [|discriminate].
    eapply reward_from_fees_is; eauto. }
  pose proof (mint_awards_is s1 H1) as H2.
  destruct (burn_validators_loop (burns (mint_awards s1)) (mint_awards s1)) as [s3|] eqn:E3; [|discriminate].
  pose proof (burn_validators_loop_is _ _ _ H2 E3) as H3.
  set (s4 := set_misc s3 (Some prop) (pkrel s3)). assert (H4 : idx_sound s4) by (unfold s4; ik; auto).
  destruct (fold_opt _ votes s4) as [s5|] eqn:E5; [|discriminate].
  assert (H5 : idx_sound s5).
  { eapply (fold_opt_is _ (fun s x s' Hs E => handle_signature_is s _ _ _ s' Hs E)); eauto. }
  intros E6. eapply (fold_opt_is _ (fun s x s' Hs E => handle_double_sign_is s _ _ _ _ s' Hs E)); eauto.
Qed.

(* ---- EndBlock ---- *)
Lemma upd_loop_is idx : forall n s prev total acc s' prev' total' acc',
  idx_sound s -> upd_loop idx n s prev total acc = Some (s', prev', total', acc') -> idx_sound s'.
Proof.
  induction idx as [|[k a] r IH]; intros n s prev total acc s' prev' total' acc' H.
  - destruct n; simpl; intros [= <- _ _ _]; auto.
  - destruct n; simpl; [intros [= <- _ _ _]; auto|].
    destruct (get_val s a) as [v|]; [|discriminate]. destruct (v_jailed v); [discriminate|].
    destruct (power_of (v_tokens v) =? 0); [discriminate|].
    match goal with |- context[let '(s1, acc1) := ?X in _] => destruct X as [s1 acc1] eqn:EX end.
    intros E. eapply IH; [|exact E].
    destruct (aget prev a) as [p|]; [destruct (p =? _)|]; injection EX as <- _; ik; auto.
Qed.
Lemma update_tm_validators_is s s' ups : idx_sound s -> update_tm_validators s = Some (s', ups) -> idx_sound s'.
Proof.
  unfold update_tm_validators. intros H.
  destruct (upd_loop _ _ s (prevpow s) 0 []) as [[[[s1 leftover] total] acc]|] eqn:E; [|discriminate].
  pose proof (upd_loop_is _ _ _ _ _ _ _ _ _ _ H E) as H1.
  destruct (fold_opt _ leftover s1) as [s2|] eqn:E2; [|discriminate].
  assert (H2 : idx_sound s2).
  { eapply (fold_opt_is _ _ leftover s1 s2 H1 E2). Unshelve.
    intros st p st' Hst. cbv beta. destruct (get_val st (fst p)); [|discriminate]. intros [= <-]. ik; auto. }
  intros [= <- _]. destruct (rev acc ++ _); ik; auto.
Qed.
Lemma finish_unstaking_is s a v s' : idx_sound s -> get_val s a = Some v -> v_status v = 1%N ->
  finish_unstaking s a v = Some s' -> idx_sound s'.
Proof.
  unfold finish_unstaking. intros H E St.
  assert (N : noent (powidx s) a) by (eapply noent_unindexed; [exact H|exact E|left; rewrite St; discriminate]).
  destruct (negb (is_int64 (v_tokens v))); [discriminate|].
  destruct (bank_send _ _ a (v_tokens v)) as [s2|] eqn:E2; [|discriminate].
  destruct (bank_send_frame _ _ _ _ _ E2) as (F1 & F2 & _). unfold del_unstaking in F1, F2. cbn [vals powidx set_unstq] in F1, F2.
  intros [= <-]. ik. rewrite F1, F2. apply is_delval; auto.
Qed.
Lemma unstake_one_is s a s' : idx_sound s -> unstake_one s a = Some s' -> idx_sound s'.
Proof.
  unfold unstake_one. intros H. destruct (get_val s a) as [v|] eqn:E; [|intros [= <-]; auto].
  destruct (v_status v =? 1)%N eqn:St; cbn [negb]; [|intros [= <-]; auto].
  apply N.eqb_eq in St. eapply finish_unstaking_is; eauto.
Qed.
Lemma unstake_mature_is s s' : idx_sound s -> unstake_mature s = Some s' -> idx_sound s'.
Proof.
  unfold unstake_mature. intros H. apply fold_opt_is; auto.
  intros st p st' Hst. destruct (fold_opt unstake_one (snd p) st) as [st1|] eqn:E; [|discriminate].
  pose proof (fold_opt_is unstake_one unstake_one_is _ _ _ Hst E). intros [= <-]. ik; auto.
Qed.
Theorem end_block_is s s' ups : idx_sound s -> end_block s = Some (s', ups) -> idx_sound s'.
Proof.
  unfold end_block. intros H. destruct (update_tm_validators s) as [[s1 u]|] eqn:E; [|discriminate].
  pose proof (update_tm_validators_is _ _ _ H E) as H1.
  destruct (unstake_mature s1) as [s2|] eqn:E2; [|discriminate]. intros [= <- _].
  eapply unstake_mature_is; eauto.
Qed.

(* ---- transactions ---- *)
Lemma apply_param_is s k v raw : idx_sound s -> idx_sound (apply_param s k v raw).
Proof. unfold apply_param. intros H. destruct v; ik; auto. Qed.
Definition hres_is (r : hres) : Prop := match r with HOk s | HErr s => idx_sound s end.
Lemma handle_is s m : idx_sound s -> hres_is (handle s m).
Proof.
  intros H. destruct m as [pk a amt|a|a|f t amt|f key v raw wf|f t amt act|f h raw]; simpl.
  - (* stake: only an unstaked (or new) validator, which has no index entry *)
    set (v0 := match get_val s a with Some v => v | None => _ end).
    destruct (v_status v0 =? 0)%N eqn:St0; cbn [negb]; [|exact H]. apply N.eqb_eq in St0.
    destruct (match aget (sinfo s) a with Some si => si_tomb si | None => false end); [exact H|]. destruct (amt <? p_min_stake (pp s)); [exact H|]. destruct (bal s a <? amt); [exact H|].
    assert (N : noent (powidx s) a).
    { unfold v0 in St0. destruct (get_val s a) as [v|] eqn:E.
      - eapply noent_unindexed; [exact H|exact E|left; rewrite St0; discriminate].
      - eapply noent_absent; [exact H|exact E]. }
    set (s1 := match get_val s a with Some _ => s | None => _ end).
    assert (H1 : idx_sound s1 /\ powidx s1 = powidx s).
    { unfold s1. destruct (get_val s a); [auto|]. split; [|reflexivity].
      pose proof (put_val_is s a v0 H N). ik; auto. }
    destruct H1 as [H1 P1].
    destruct (bank_send s1 a (m_pool (ma s1)) amt) as [s2|] eqn:E; [|exact H1].
    destruct (bank_send_frame _ _ _ _ _ E) as (F1 & F2 & _).
    assert (H2 : idx_sound s2) by (eapply frame_is; eauto). simpl.
    set (v1 := with_status (with_tokens v0 (v_tokens v0 + amt)) 2).
    assert (H3 : idx_sound (set_staked (put_val s2 a v1) a v1)).
    { apply set_staked_is; [apply put_val_is; auto; rewrite F2, P1; auto|apply get_put_val; apply H2]. }
    match goal with |- idx_sound (match ?X with _ => _ end) => destruct X end; [exact H3|ik; exact H3].
  - destruct (get_val s a) as [v|] eqn:E; [|exact H]. destruct (negb _); [exact H|]. destruct (_ <? _); [exact H|].
    simpl. destruct (del_staked_is s a v H E) as [H1 N1].
    pose proof (put_val_is _ a (with_unstime (with_status v 1) (btime s + p_unstaking_time (pp s))) H1 N1). ik; auto.
  - destruct (get_val s a) as [v|]; [|exact H]. destruct (_ <? _); [exact H|]. destruct (negb _); [exact H|].
    destruct (aget (sinfo s) a) as [si|]; [|exact H]. destruct (si_tomb si); [exact H|]. destruct (_ <? _); [exact H|].
    destruct (unjail s a) as [s1|] eqn:E; [|exact H]. simpl. eapply unjail_is; eauto.
  - destruct (bank_send s f t amt) as [s1|] eqn:E; [|exact H]. simpl.
    destruct (bank_send_frame _ _ _ _ _ E) as (F1 & F2 & _). eapply frame_is; eauto.
  - destruct (negb _); [exact H|]. destruct wf; simpl; auto. apply apply_param_is; auto.
  - destruct (negb _); [exact H|]. destruct (act =? 1)%N.
    + destruct (bank_send s (m_dao (ma s)) t amt) as [s1|] eqn:E; [|exact H]. simpl.
      destruct (bank_send_frame _ _ _ _ _ E) as (F1 & F2 & _). eapply frame_is; eauto.
    + destruct (act =? 2)%N; [|exact H].
      destruct (bank_burn s (m_dao (ma s)) amt) as [s1|] eqn:E; [|exact H]. simpl.
      destruct (bank_burn_frame _ _ _ _ E) as (F1 & F2 & _). eapply frame_is; eauto.
  - destruct (negb _); [exact H|]. simpl. ik; auto.
Qed.
Lemma ante_is s t s' : idx_sound s -> ante s t = Some s' -> idx_sound s'.
Proof.
  unfold ante. intros H. destruct (_ <? _); [discriminate|].
  match goal with |- context[match ?X with Some ka => _ | None => None end] => destruct X as [ka|] end; [|discriminate].
  destruct (negb _); [discriminate|]. destruct (t_in_index t); [discriminate|]. destruct (_ <? _); [discriminate|].
  destruct (_ && _); [discriminate|]. destruct (_ || _); [discriminate|].
  destruct (aget (accts s) _) as [b|]; [|discriminate]. destruct (b <? t_fee t); [discriminate|].
  intros E. destruct (bank_send_frame _ _ _ _ _ E) as (F1 & F2 & _). eapply frame_is; eauto.
Qed.
Theorem deliver_tx_is s t : idx_sound s -> idx_sound (dres_state (deliver_tx s t)).
Proof.
  intros H. unfold deliver_tx. destruct (_ || _); [exact H|].
  destruct (ante s t) as [s1|] eqn:E; [|exact H]. pose proof (ante_is _ _ _ H E) as H1.
  pose proof (handle_is s1 (t_msg t) H1) as Hh. destruct (handle s1 (t_msg t)); exact Hh.
Qed.

(* ---- every history ---- *)
Theorem step_is s o s' : idx_sound s -> step s o = Some s' -> idx_sound s'.
Proof.
  intros H. destruct o as [h t p vs es|t|a amt|a sev| |]; simpl.
  - apply begin_block_is; auto.
  - intros [= <-]. apply deliver_tx_is; auto.
  - intros [= <-]. unfold k_award. ik; auto.
  - intros [= <-]. unfold k_burn. ik; auto.
  - destruct (end_block s) as [[s1 u]|] eqn:E; [|discriminate]. intros [= <-]. eapply end_block_is; eauto.
  - intros [= <-]; auto.
Qed.
Theorem run_is ops : forall s s', idx_sound s -> run ops s = Some s' -> idx_sound s'.
Proof. unfold run. apply fold_opt_is. apply step_is. Qed.

(* ---- genesis ---- *)
Definition g_addr (g : bytes * bytes * Z) : bytes := fst (fst g).
Lemma genesis_validator_is s g : idx_sound s -> aget (vals s) (g_addr g) = None -> idx_sound (genesis_validator s g).
Proof.
  destruct g as [[a pk] tokens]. unfold genesis_validator, g_addr. cbn [fst]. intros H E.
  assert (N : noent (powidx s) a) by (eapply noent_absent; [exact H|exact E]).
  set (v := {| v_pk := pk; v_jailed := false; v_status := 2; v_tokens := tokens; v_unstime := 0 |}).
  assert (H1 : idx_sound (set_staked (put_val s a v) a v)).
  { apply set_staked_is; [apply put_val_is; auto|apply get_put_val; apply H]. }
  ik. exact H1.
Qed.
Lemma genesis_validator_vals s g b : asorted (vals s) -> g_addr g <> b ->
  aget (vals (genesis_validator s g)) b = aget (vals s) b.
Proof.
  destruct g as [[a pk] tokens]. unfold genesis_validator, g_addr. cbn [fst]. intros S Nab.
  cbn [vals set_misc set_sign]. rewrite set_staked_vals. cbn [vals put_val set_vals].
  rewrite aget_aset by auto. destruct (beqb a b) eqn:B; auto. apply beqb_eq in B. contradiction.
Qed.
Lemma genesis_fold_is gvals : forall s, idx_sound s -> NoDup (map g_addr gvals) ->
  (forall g, In g gvals -> aget (vals s) (g_addr g) = None) -> idx_sound (fold_left genesis_validator gvals s).
Proof.
  induction gvals as [|g r IH]; intros s H ND A; simpl; auto.
  inversion ND as [|? ? NI ND']; subst. apply IH; auto.
  - apply genesis_validator_is; auto. apply A; left; auto.
  - intros g' Hg'. rewrite genesis_validator_vals; [apply A; right; auto|apply H|].
    intros E. apply NI. rewrite E. apply in_map; auto.
Qed.
Theorem init_chain_is s0 gvals dao s ups :
  idx_sound s0 -> NoDup (map g_addr gvals) -> (forall g, In g gvals -> aget (vals s0) (g_addr g) = None) ->
  init_chain s0 gvals dao = Some (s, ups) -> idx_sound s.
Proof.
  unfold init_chain. intros H ND A. pose proof (genesis_fold_is gvals s0 H ND A) as H1.
  destruct (update_tm_validators _) as [[s2 u]|] eqn:E; [|discriminate].
  pose proof (update_tm_validators_is _ _ _ H1 E) as H2.
  destruct (bank_mint s2 _ dao) as [s3|] eqn:E3; intros [= <- _]; auto.
  destruct (bank_mint_frame _ _ _ _ E3) as (F1 & F2 & _). eapply frame_is; eauto.
Qed.

(* ---- what the invariant says about a single validator ---- *)
Theorem indexed_is_staked_unjailed s k a : idx_sound s -> aget (powidx s) k = Some a ->
  exists v, get_val s a = Some v /\ v_status v = 2%N /\ v_jailed v = false /\ k = rank_key (v_tokens v) a.
Proof. intros (_ & _ & H). apply H. Qed.
Theorem jailed_never_indexed s a v : idx_sound s -> get_val s a = Some v -> v_jailed v = true ->
  forall k, aget (powidx s) k <> Some a.
Proof. intros H E J. eapply noent_unindexed; [exact H|exact E|auto]. Qed.
Theorem not_staked_never_indexed s a v : idx_sound s -> get_val s a = Some v -> v_status v <> 2%N ->
  forall k, aget (powidx s) k <> Some a.
Proof. intros H E J. eapply noent_unindexed; [exact H|exact E|auto]. Qed.
