(* C04: in every reachable state of every history the staked-tokens pool holds at least the sum of
   the stake recorded for all validators that are not unstaked (one-for-one backing; the pool may
   hold MORE only through tokens somebody sent to its address), unstaked validators record no
   stake, and no recorded stake is negative.  Premises, visible in the theorems: the four module
   accounts have distinct addresses, and no transaction is signed by the pool's address (a module
   address is a hash of the module's name: nobody holds a key for it). *)
From Coq Require Import List ZArith NArith Bool Lia.
From PM Require Import Base.Bytes Store.KV Store.MergeProofs Store.KVProofs Num.IntModel Num.DecModel
  App.Model App.BankProofs App.IndexProofs.
Import ListNotations.
Local Open Scope Z_scope.

Definition stk (v : validator) : Z := if (v_status v =? 0)%N then 0 else v_tokens v.
Fixpoint ssum (V : amap validator) : Z := match V with [] => 0 | (_, v) :: r => stk v + ssum r end.
Definition stkz (V : amap validator) (a : bytes) : Z := match aget V a with Some v => stk v | None => 0 end.

Lemma ssum_aset V a v : asorted V -> ssum (aset V a v) = ssum V - stkz V a + stk v.
Proof.
  unfold stkz. induction V as [|[k0 v0] r IH]; simpl; intros S; [lia|].
  destruct S as [B S]. destruct (bcompare a k0) eqn:C; simpl; try lia. rewrite IH by auto. lia.
Qed.
Lemma ssum_adel V a : asorted V -> ssum (adel V a) = ssum V - stkz V a.
Proof.
  unfold stkz. induction V as [|[k0 v0] r IH]; simpl; intros S; [lia|].
  destruct S as [B S]. destruct (bcompare a k0) eqn:C; simpl; try lia. rewrite IH by auto. lia.
Qed.

Definition mods_distinct (m : modaddrs) : Prop :=
  m_pool m <> m_fee m /\ m_pool m <> m_pos m /\ m_pool m <> m_dao m.
Definition vals_ok (V : amap validator) : Prop :=
  asorted V /\ forall a v, aget V a = Some v -> 0 <= v_tokens v /\ (v_status v = 0%N -> v_tokens v = 0).
Section Pool.
Variable MA : modaddrs.                       (* the module addresses: fixed for a whole history *)
Definition pool_ok (s : state) : Prop :=
  ma s = MA /\ bank_ok s /\ vals_ok (vals s) /\ mods_distinct MA /\ ssum (vals s) <= bal s (m_pool MA).

Lemma stk_nonneg V a v : vals_ok V -> aget V a = Some v -> 0 <= stk v.
Proof. intros [_ H] E. destruct (H a v E) as [N _]. unfold stk. destruct (_ =? _)%N; lia. Qed.
Lemma vals_ok_aset V a v : vals_ok V -> 0 <= v_tokens v -> (v_status v = 0%N -> v_tokens v = 0) -> vals_ok (aset V a v).
Proof.
  intros [S H] N Z0. split; [apply aset_sorted; auto|]. intros b w. rewrite aget_aset by auto.
  destruct (beqb a b); [intros [= <-]; auto|apply H].
Qed.
Lemma vals_ok_adel V a : vals_ok V -> vals_ok (adel V a).
Proof.
  intros [S H]. split; [apply adel_sorted; auto|]. intros b w. rewrite aget_adel by auto.
  destruct (beqb a b); [discriminate|apply H].
Qed.

(* ---- the bank primitives, seen from the pool ---- *)
Lemma bal_send s f t amt s' P : bank_ok s -> bank_send s f t amt = Some s' ->
  0 <= amt /\ bal s' P = bal s P - (if beqb f P then amt else 0) + (if beqb t P then amt else 0).
Proof.
  unfold bank_send. intros (S & _ & _).
  destruct ((amt <? 0) || (bal s f <? amt)) eqn:G; [discriminate|].
  apply orb_false_iff in G. destruct G as [G1 G2]. apply Z.ltb_ge in G1, G2. intros [= <-]. split; auto.
  unfold bal. cbn [accts set_bank].
  repeat match goal with |- context[match aget ?m ?k with Some b => b | None => 0 end] =>
    change (match aget m k with Some b => b | None => 0 end) with (getz m k) end.
  assert (S1 : asorted (aset (accts s) f (getz (accts s) f - amt))) by (apply aset_sorted; auto).
  rewrite !getz_aset by auto.
  destruct (beqb t P) eqn:Bt; [apply beqb_eq in Bt; subst t|]; destruct (beqb f P) eqn:Bf; try (apply beqb_eq in Bf; subst f);
    rewrite ?beqb_refl, ?Bt, ?Bf; try lia.
Qed.
Lemma bal_mint s m amt s' P : bank_ok s -> bank_mint s m amt = Some s' ->
  0 <= amt /\ bal s' P = bal s P + (if beqb m P then amt else 0).
Proof.
  unfold bank_mint. intros (S & _ & _). destruct (Z.ltb_spec amt 0); [discriminate|]. intros [= <-]. split; auto.
  unfold bal. cbn [accts set_bank]. rewrite aget_aset by auto. unfold bal.
  destruct (beqb m P) eqn:B; [apply beqb_eq in B; subst m|]; lia.
Qed.
Lemma bal_burn s m amt s' P : bank_ok s -> bank_burn s m amt = Some s' ->
  0 <= amt /\ bal s' P = bal s P - (if beqb m P then amt else 0).
Proof.
  unfold bank_burn. intros (S & _ & _).
  destruct ((amt <? 0) || (bal s m <? amt)) eqn:G; [discriminate|].
  apply orb_false_iff in G. destruct G as [G1 G2]. apply Z.ltb_ge in G1, G2. intros [= <-]. split; auto.
  unfold bal. cbn [accts set_bank]. rewrite aget_aset by auto. unfold bal.
  destruct (beqb m P) eqn:B; [apply beqb_eq in B; subst m|]; lia.
Qed.
Lemma send_ma s f t a s' : bank_send s f t a = Some s' -> ma s' = ma s.
Proof. unfold bank_send. destruct (_ || _); [discriminate|]. intros [= <-]. reflexivity. Qed.
Lemma mint_ma s m a s' : bank_mint s m a = Some s' -> ma s' = ma s.
Proof. unfold bank_mint. destruct (_ <? _); [discriminate|]. intros [= <-]. reflexivity. Qed.
Lemma burn_ma s m a s' : bank_burn s m a = Some s' -> ma s' = ma s.
Proof. unfold bank_burn. destruct (_ || _); [discriminate|]. intros [= <-]. reflexivity. Qed.

(* a bank operation that does not take from the pool keeps the invariant *)
Lemma pool_send_other s f t amt s' : pool_ok s -> f <> m_pool MA -> bank_send s f t amt = Some s' -> pool_ok s'.
Proof.
  intros (EM & B & V & M & L) Nf E. destruct (bank_send_frame _ _ _ _ _ E) as (F1 & _ & _).
  pose proof (send_ma _ _ _ _ _ E) as Fm. destruct (bal_send s f t amt s' (m_pool MA) B E) as [N Eb].
  split; [congruence|]. split; [eapply send_pres; eauto|]. rewrite F1. split; auto. split; auto.
  rewrite Eb. destruct (beqb f (m_pool MA)) eqn:Bf; [apply beqb_eq in Bf; contradiction|].
  destruct (beqb t _); lia.
Qed.
Lemma pool_burn_other s m amt s' : pool_ok s -> m <> m_pool MA -> bank_burn s m amt = Some s' -> pool_ok s'.
Proof.
  intros (EM & B & V & M & L) Nf E. destruct (bank_burn_frame _ _ _ _ E) as (F1 & _ & _).
  pose proof (burn_ma _ _ _ _ E) as Fm. destruct (bal_burn s m amt s' (m_pool MA) B E) as [N Eb].
  split; [congruence|]. split; [eapply burn_pres; eauto|]. rewrite F1. split; auto. split; auto.
  rewrite Eb. destruct (beqb m (m_pool MA)) eqn:Bf; [apply beqb_eq in Bf; contradiction|]. lia.
Qed.

Lemma bal_put_val s a v P : bal (put_val s a v) P = bal s P. Proof. reflexivity. Qed.
Lemma bal_set_vals s V P : bal (set_vals s V) P = bal s P. Proof. reflexivity. Qed.
(* changes of components the invariant does not mention *)
Lemma pool_frame s s' : accts s' = accts s -> supply s' = supply s -> vals s' = vals s -> ma s' = ma s -> pool_ok s -> pool_ok s'.
Proof. unfold pool_ok, bank_ok, bal. intros -> -> -> ->. auto. Qed.

Lemma set_staked_pool s a v : pool_ok s -> pool_ok (set_staked s a v).
Proof. unfold set_staked. destruct (_ || _); [auto|]. apply pool_frame; reflexivity. Qed.
Lemma del_staked_pool s a v : pool_ok s -> pool_ok (del_staked s a v).
Proof. apply pool_frame; reflexivity. Qed.
Lemma del_unstaking_pool s a v : pool_ok s -> pool_ok (del_unstaking s a v).
Proof. apply pool_frame; reflexivity. Qed.

(* rewriting a validator's record: the recorded sum may not grow *)
Lemma put_val_pool s a v1 : pool_ok s -> 0 <= v_tokens v1 -> (v_status v1 = 0%N -> v_tokens v1 = 0) ->
  stk v1 <= stkz (vals s) a -> pool_ok (put_val s a v1).
Proof.
  intros (EM & B & V & M & L) N Z0 Le. split; [exact EM|]. split; [exact B|]. cbn [vals put_val set_vals].
  split; [apply vals_ok_aset; auto|]. split; auto.
  rewrite ssum_aset by apply V. rewrite ?bal_put_val, ?bal_set_vals. lia.
Qed.

Lemma force_unstake_pool s a v s' : pool_ok s -> get_val s a = Some v -> force_unstake s a v = Some s' -> pool_ok s'.
Proof.
  unfold force_unstake, get_val. intros H E.
  set (s0 := del_staked s a v). assert (H0 : pool_ok s0) by (apply del_staked_pool; auto).
  set (s1 := if (v_status v =? 1)%N then del_unstaking s0 a v else s0).
  assert (H1 : pool_ok s1) by (unfold s1; destruct (v_status v =? 1)%N; [apply del_unstaking_pool|]; auto).
  assert (E1 : aget (vals s1) a = Some v) by (unfold s1, s0; destruct (v_status v =? 1)%N; exact E).
  destruct H1 as (EM1 & B1 & V1 & D1 & L1). destruct (proj2 V1 a v E1) as [Nv Zv].
  destruct (0 <? v_tokens v) eqn:Pos.
  - unfold burn_staked. destruct (v_tokens v <=? 0) eqn:Le; [discriminate|]. rewrite EM1.
    destruct (bank_burn s1 (m_pool MA) (v_tokens v)) as [s2|] eqn:E2; [|discriminate].
    destruct (bank_burn_frame _ _ _ _ E2) as (F1 & _ & _). pose proof (burn_ma _ _ _ _ E2) as Fm.
    destruct (bal_burn _ _ _ _ (m_pool MA) B1 E2) as [_ Eb]. rewrite beqb_refl in Eb.
    intros [= <-]. split; [cbn [ma put_val set_vals]; congruence|].
    split; [pose proof (burn_pres _ _ _ _ B1 E2) as X; exact X|].
    cbn [vals put_val set_vals]. rewrite F1. split; [apply vals_ok_aset; auto; cbn; lia|]. split; auto.
    rewrite ssum_aset by apply V1. unfold stkz. rewrite E1.
    rewrite ?bal_put_val, ?bal_set_vals.
    rewrite Eb. assert (stk v = v_tokens v).
    { unfold stk. destruct (v_status v =? 0)%N eqn:S0; auto. apply N.eqb_eq in S0. apply Zv in S0. apply Z.ltb_lt in Pos. lia. }
    unfold stk at 2. cbn. lia.
  - apply Z.ltb_ge in Pos. intros [= <-]. split; [exact EM1|]. split; [exact B1|].
    cbn [vals put_val set_vals]. split; [apply vals_ok_aset; auto; cbn; lia|]. split; auto.
    rewrite ssum_aset by apply V1. unfold stkz. rewrite E1.
    rewrite ?bal_put_val, ?bal_set_vals.
    pose proof (stk_nonneg _ _ _ V1 E1). unfold stk at 2. cbn. lia.
Qed.

Definition sres_pool (r : sres) : Prop := match r with SOk s | SErr s => pool_ok s | SPanic => True end.
Lemma slash_pool s a h p f : pool_ok s -> sres_pool (slash s a h p f).
Proof.
  intros H. unfold slash.
  destruct (f <? 0); [exact H|]. destruct (height s <? h); [exact H|].
  destruct (get_val s a) as [v|] eqn:E; [|exact H].
  destruct (v_status v =? 0)%N eqn:St; [exact H|].
  destruct (tokens_from_power p) as [amount|]; [|exact I].
  destruct (dec_mul (dec_from_int amount) f) as [d|]; [|exact I].
  destruct (dec_truncate_int d) as [sa|]; [|exact I].
  set (burn := Z.max (Z.min sa (v_tokens v)) 0).
  set (v1 := with_tokens v (v_tokens v - burn)).
  destruct H as (EM & B & V & M & L). destruct (proj2 V a v E) as [Nv Zv].
  assert (Hb : 0 <= burn <= v_tokens v) by (unfold burn; lia).
  assert (Sv : stk v = v_tokens v) by (unfold stk; rewrite St; auto).
  assert (Sv1 : stk v1 = v_tokens v - burn) by (unfold stk, v1; cbn; rewrite St; auto).
  set (s2 := set_staked (put_val (del_staked s a v) a v1) a v1).
  assert (V2 : vals s2 = aset (vals s) a v1) by (unfold s2; rewrite set_staked_vals; reflexivity).
  assert (A2 : accts s2 = accts s /\ supply s2 = supply s /\ ma s2 = ma s).
  { unfold s2, set_staked. destruct (_ || _); auto. }
  destruct A2 as (A2 & U2 & M2).
  assert (VO2 : vals_ok (vals s2)).
  { rewrite V2. apply vals_ok_aset; auto; unfold v1; cbn; [lia|]. intros S0. rewrite S0 in St. discriminate. }
  assert (SS2 : ssum (vals s2) = ssum (vals s) - burn).
  { rewrite V2, ssum_aset by apply V. unfold stkz. unfold get_val in E. rewrite E. lia. }
  assert (B2 : bank_ok s2) by (unfold bank_ok; rewrite A2, U2; exact B).
  assert (Bal2 : bal s2 (m_pool MA) = bal s (m_pool MA)) by (unfold bal; rewrite A2; auto).
  assert (H2 : pool_ok s2) by (split; [congruence|split; [exact B2|split; [exact VO2|split; [exact M|lia]]]]).
  unfold burn_staked. fold s2. destruct (burn <=? 0) eqn:Le; [exact H2|].
  replace (ma s2) with MA by congruence.
  destruct (bank_burn s2 (m_pool MA) burn) as [s3|] eqn:E3; [|exact H2].
  destruct (bank_burn_frame _ _ _ _ E3) as (F1 & _ & Fp). pose proof (burn_ma _ _ _ _ E3) as Fm.
  destruct (bal_burn _ _ _ _ (m_pool MA) B2 E3) as [_ Eb]. rewrite beqb_refl in Eb.
  assert (H3 : pool_ok s3).
  { split; [congruence|]. split; [eapply burn_pres; eauto|]. rewrite F1. split; [exact VO2|]. split; [exact M|]. lia. }
  destruct (v_tokens v1 <? p_min_stake (pp s3)); [|exact H3].
  destruct (force_unstake s3 a v1) as [s4|] eqn:E4; [|exact H3].
  eapply force_unstake_pool; [exact H3| |exact E4].
  unfold get_val. rewrite F1, V2. rewrite aget_aset by apply V. rewrite beqb_refl. reflexivity.
Qed.

Lemma val_facts s a v : pool_ok s -> get_val s a = Some v -> 0 <= v_tokens v /\ (v_status v = 0%N -> v_tokens v = 0).
Proof. intros (_ & _ & V & _) E. apply (proj2 V a v E). Qed.

Lemma jail_pool s a s' : pool_ok s -> jail s a = Some s' -> pool_ok s'.
Proof.
  unfold jail. intros H. destruct (get_val s a) as [v|] eqn:E; [|discriminate].
  destruct (v_jailed v); [discriminate|]. intros [= <-]. apply del_staked_pool.
  destruct (val_facts s a v H E) as [Nv Zv].
  apply put_val_pool; auto. unfold stkz. unfold get_val in E. rewrite E. unfold stk. cbn. lia.
Qed.
Lemma unjail_pool s a s' : pool_ok s -> unjail s a = Some s' -> pool_ok s'.
Proof.
  unfold unjail. intros H. destruct (get_val s a) as [v|] eqn:E; [|discriminate].
  destruct (v_jailed v); [|discriminate]. intros [= <-]. apply set_staked_pool.
  destruct (val_facts s a v H E) as [Nv Zv].
  apply put_val_pool; auto. unfold stkz. unfold get_val in E. rewrite E. unfold stk. cbn. lia.
Qed.

Lemma handle_signature_pool s a p sg s' : pool_ok s -> handle_signature s a p sg = Some s' -> pool_ok s'.
Proof.
  unfold handle_signature. intros H.
  destruct (aget (pkrel s) a); [|discriminate]. destruct (aget (sinfo s) a) as [si|]; [|discriminate].
  destruct (p_window (pp s) <=? 0); [discriminate|].
  match goal with |- context[let '(mi, ctr) := ?X in _] => destruct X as [mi ctr] end.
  set (s1 := set_sign s (sinfo s) mi). assert (H1 : pool_ok s1) by (unfold s1; revert H; apply pool_frame; reflexivity).
  destruct (_ && _).
  - destruct (get_val s1 a) as [v|].
    + destruct (v_jailed v); [intros [= <-]; revert H1; apply pool_frame; reflexivity|].
      pose proof (slash_pool s1 a (height s - 2) p (p_slash_dt (pp s)) H1) as Hs.
      destruct (slash s1 a (height s - 2) p (p_slash_dt (pp s))) as [x|x|]; try discriminate;
        simpl in Hs; (destruct (jail x a) as [s3|] eqn:Ej; [|discriminate]);
        pose proof (jail_pool _ _ _ Hs Ej) as H3; intros [= <-]; revert H3; apply pool_frame; reflexivity.
    + intros [= <-]; revert H1; apply pool_frame; reflexivity.
  - intros [= <-]; revert H1; apply pool_frame; reflexivity.
Qed.

Lemma handle_double_sign_pool s a h t p s' : pool_ok s -> handle_double_sign s a h t p = Some s' -> pool_ok s'.
Proof.
  unfold handle_double_sign. intros H.
  destruct (aget (pkrel s) a); [|discriminate]. destruct (_ <? _); [discriminate|].
  destruct (get_val s a) as [v|]; [|discriminate]. destruct (v_status v =? 0)%N; [discriminate|].
  destruct (aget (sinfo s) a) as [si|]; [|discriminate]. destruct (si_tomb si); [discriminate|].
  pose proof (slash_pool s a (h - 1) p (p_slash_ds (pp s)) H) as Hs.
  destruct (slash s a (h - 1) p (p_slash_ds (pp s))) as [x|x|]; try discriminate; simpl in Hs.
  all: destruct (v_jailed v);
    [ destruct (get_val x a) as [v2|] eqn:G2; [|discriminate];
      destruct (force_unstake x a v2) as [s3|] eqn:Ef; [|discriminate];
      pose proof (force_unstake_pool _ _ _ _ Hs G2 Ef) as H3; intros [= <-]; revert H3; apply pool_frame; reflexivity
    | destruct (jail x a) as [s2|] eqn:Ej; [|discriminate]; pose proof (jail_pool _ _ _ Hs Ej) as H2;
      destruct (get_val s2 a) as [v2|] eqn:G2; [|discriminate];
      destruct (force_unstake s2 a v2) as [s3|] eqn:Ef; [|discriminate];
      pose proof (force_unstake_pool _ _ _ _ H2 G2 Ef) as H3; intros [= <-]; revert H3; apply pool_frame; reflexivity ].
Qed.

Lemma reward_from_fees_pool s p s' : pool_ok s -> reward_from_fees s p = Some s' -> pool_ok s'.
Proof.
  unfold reward_from_fees. intros H. pose proof H as (EM & _ & _ & (D1 & D2 & D3) & _). rewrite EM.
  destruct (bank_send s (m_fee MA) (m_pos MA) (bal s (m_fee MA))) as [s1|] eqn:E1; [|discriminate].
  assert (H1 : pool_ok s1) by (eapply pool_send_other; [exact H| |exact E1]; auto).
  destruct (get_val s1 p); [|intros [= <-]; auto].
  replace (ma s1) with MA by (symmetry; apply H1).
  intros E2. eapply pool_send_other; [exact H1| |exact E2]. auto.
Qed.
Lemma mint_award_pool s a amt : pool_ok s -> pool_ok (mint_award s a amt).
Proof.
  unfold mint_award. intros H. destruct H as (EM & B & V & M & L). rewrite EM.
  destruct (bank_mint s (m_pool MA) amt) as [s1|] eqn:E1; [|split; auto; split; auto].
  destruct (bank_mint_frame _ _ _ _ E1) as (F1 & _ & _). pose proof (mint_ma _ _ _ _ E1) as Fm.
  destruct (bal_mint _ _ _ _ (m_pool MA) B E1) as [N Eb]. rewrite beqb_refl in Eb.
  pose proof (mint_pres _ _ _ _ B E1) as B1.
  assert (H1 : pool_ok s1) by (split; [congruence|split; [exact B1|rewrite F1; split; [exact V|split; [exact M|lia]]]]).
  replace (ma s1) with MA by congruence.
  destruct (bank_send s1 (m_pool MA) a amt) as [s2|] eqn:E2; auto.
  destruct (bank_send_frame _ _ _ _ _ E2) as (G1 & _ & _). pose proof (send_ma _ _ _ _ _ E2) as Gm.
  destruct (bal_send _ _ _ _ _ (m_pool MA) B1 E2) as [_ Eb2]. rewrite beqb_refl in Eb2.
  split; [congruence|]. split; [eapply send_pres; eauto|]. rewrite G1, F1. split; [exact V|]. split; [exact M|].
  rewrite Eb2, Eb. destruct (beqb a (m_pool MA)); lia.
Qed.
Lemma mint_awards_pool s : pool_ok s -> pool_ok (mint_awards s).
Proof.
  unfold mint_awards. intros H.
  assert (G : forall l st, pool_ok st -> pool_ok (fold_left (fun st p => mint_award st (fst p) (snd p)) l st)).
  { induction l as [|x l IH]; simpl; auto. intros st Hst. apply IH. apply mint_award_pool; auto. }
  specialize (G (awards s) s H). revert G. apply pool_frame; reflexivity.
Qed.
Lemma burn_validators_loop_pool l : forall s s', pool_ok s -> burn_validators_loop l s = Some s' -> pool_ok s'.
Proof.
  induction l as [|[a sev] r IH]; simpl; intros s s' H; [intros [= <-]; auto|].
  destruct (get_val s a) as [v|]; [|discriminate].
  match goal with |- context[slash s a ?h ?p ?f] =>
    pose proof (slash_pool s a h p f H) as Hs; destruct (slash s a h p f) as [x|x|] end;
  try discriminate; simpl in Hs; apply IH; revert Hs; apply pool_frame; reflexivity.
Qed.
Lemma fold_opt_pool {A} (f : state -> A -> option state) :
  (forall s x s', pool_ok s -> f s x = Some s' -> pool_ok s') ->
  forall l s s', pool_ok s -> fold_opt f l s = Some s' -> pool_ok s'.
Proof.
  intros Hf. induction l as [|x l IH]; simpl; intros s s' H; [intros [= <-]; auto|].
  destruct (f s x) as [s1|] eqn:E; [|discriminate]. apply IH. eapply Hf; eauto.
Qed.

Theorem begin_block_pool s h t prop votes evs s' :
  pool_ok s -> begin_block s h t prop votes evs = Some s' -> pool_ok s'.
Proof.
  unfold begin_block. intros H.
  set (s0 := set_block s h t). assert (H0 : pool_ok s0) by (unfold s0; revert H; apply pool_frame; reflexivity).
  destruct (if 1 <? h then match proposer s0 with None => None | Some p => reward_from_fees s0 p end else Some s0)
    as [s1|] eqn:E1; [|discriminate].
  assert (H1 : pool_ok s1).
  { destruct (1 <? h); [|injection E1 as <-; auto]. destruct (proposer s0); [|discriminate].
    eapply reward_from_fees_pool; eauto. }
  pose proof (mint_awards_pool s1 H1) as H2.
  destruct (burn_validators_loop (burns (mint_awards s1)) (mint_awards s1)) as [s3|] eqn:E3; [|discriminate].
  pose proof (burn_validators_loop_pool _ _ _ H2 E3) as H3.
  set (s4 := set_misc s3 (Some prop) (pkrel s3)). assert (H4 : pool_ok s4) by (unfold s4; revert H3; apply pool_frame; reflexivity).
  destruct (fold_opt _ votes s4) as [s5|] eqn:E5; [|discriminate].
  assert (H5 : pool_ok s5).
  { eapply (fold_opt_pool _ (fun s x s' Hs E => handle_signature_pool s _ _ _ s' Hs E)); eauto. }
  intros E6. eapply (fold_opt_pool _ (fun s x s' Hs E => handle_double_sign_pool s _ _ _ _ s' Hs E)); eauto.
Qed.

(* ---- EndBlock ---- *)
Lemma upd_loop_pool idx : forall n s prev total acc s' prev' total' acc',
  pool_ok s -> upd_loop idx n s prev total acc = Some (s', prev', total', acc') -> pool_ok s'.
Proof.
  induction idx as [|[k a] r IH]; intros n s prev total acc s' prev' total' acc' H.
  - destruct n; simpl; intros [= <- _ _ _]; auto.
  - destruct n; simpl; [intros [= <- _ _ _]; auto|].
    destruct (get_val s a) as [v|]; [|discriminate]. destruct (v_jailed v); [discriminate|].
    destruct (power_of (v_tokens v) =? 0); [discriminate|].
    match goal with |- context[let '(s1, acc1) := ?X in _] => destruct X as [s1 acc1] eqn:EX end.
    intros E. eapply IH; [|exact E].
    destruct (aget prev a) as [p|]; [destruct (p =? _)|]; injection EX as <- _; auto; revert H; apply pool_frame; reflexivity.
Qed.
Lemma update_tm_validators_pool s s' ups : pool_ok s -> update_tm_validators s = Some (s', ups) -> pool_ok s'.
Proof.
  unfold update_tm_validators. intros H.
  destruct (upd_loop _ _ s (prevpow s) 0 []) as [[[[s1 leftover] total] acc]|] eqn:E; [|discriminate].
  pose proof (upd_loop_pool _ _ _ _ _ _ _ _ _ _ H E) as H1.
  destruct (fold_opt _ leftover s1) as [s2|] eqn:E2; [|discriminate].
  assert (H2 : pool_ok s2).
  { eapply (fold_opt_pool _ _ leftover s1 s2 H1 E2). Unshelve.
    intros st p st' Hst. cbv beta. destruct (get_val st (fst p)); [|discriminate]. intros [= <-].
    revert Hst; apply pool_frame; reflexivity. }
  intros [= <- _]. destruct (rev acc ++ _); [exact H2|]. revert H2; apply pool_frame; reflexivity.
Qed.
Lemma finish_unstaking_pool s a v s' : pool_ok s -> get_val s a = Some v -> v_status v = 1%N ->
  finish_unstaking s a v = Some s' -> pool_ok s'.
Proof.
  unfold finish_unstaking, get_val. intros H E St.
  pose proof (del_unstaking_pool s a v H) as H1. set (s1 := del_unstaking s a v) in *.
  destruct (negb (is_int64 (v_tokens v))); [discriminate|].
  destruct H1 as (EM1 & B1 & V1 & M1 & L1). rewrite EM1.
  destruct (bank_send s1 (m_pool MA) a (v_tokens v)) as [s2|] eqn:E2; [|discriminate].
  destruct (bank_send_frame _ _ _ _ _ E2) as (F1 & _ & _). pose proof (send_ma _ _ _ _ _ E2) as Fm.
  destruct (bal_send _ _ _ _ _ (m_pool MA) B1 E2) as [N Eb]. rewrite beqb_refl in Eb.
  intros [= <-]. split; [cbn [ma set_vals]; congruence|]. split; [pose proof (send_pres _ _ _ _ _ B1 E2) as X; exact X|].
  cbn [vals set_vals]. rewrite F1. split; [apply vals_ok_adel; auto|]. split; auto.
  rewrite ssum_adel by apply V1. unfold stkz. change (vals s1) with (vals s). rewrite E.
  rewrite ?bal_put_val, ?bal_set_vals.
  rewrite Eb. assert (stk v = v_tokens v) by (unfold stk; rewrite St; reflexivity).
  change (vals s1) with (vals s) in L1. destruct (beqb a (m_pool MA)); lia.
Qed.
Lemma unstake_one_pool s a s' : pool_ok s -> unstake_one s a = Some s' -> pool_ok s'.
Proof.
  unfold unstake_one. intros H. destruct (get_val s a) as [v|] eqn:E; [|intros [= <-]; auto].
  destruct (v_status v =? 1)%N eqn:St; cbn [negb]; [|intros [= <-]; auto].
  apply N.eqb_eq in St. eapply finish_unstaking_pool; eauto.
Qed.
Lemma unstake_mature_pool s s' : pool_ok s -> unstake_mature s = Some s' -> pool_ok s'.
Proof.
  unfold unstake_mature. intros H. apply fold_opt_pool; auto.
  intros st p st' Hst. destruct (fold_opt unstake_one (snd p) st) as [st1|] eqn:E; [|discriminate].
  pose proof (fold_opt_pool unstake_one unstake_one_pool _ _ _ Hst E) as H1. intros [= <-].
  revert H1; apply pool_frame; reflexivity.
Qed.
Theorem end_block_pool s s' ups : pool_ok s -> end_block s = Some (s', ups) -> pool_ok s'.
Proof.
  unfold end_block. intros H. destruct (update_tm_validators s) as [[s1 u]|] eqn:E; [|discriminate].
  pose proof (update_tm_validators_pool _ _ _ H E) as H1.
  destruct (unstake_mature s1) as [s2|] eqn:E2; [|discriminate]. intros [= <- _].
  eapply unstake_mature_pool; eauto.
Qed.

(* ---- transactions: the signer is never the pool ---- *)
Lemma apply_param_pool s k v raw : pool_ok s -> pool_ok (apply_param s k v raw).
Proof. unfold apply_param. intros H. destruct v; revert H; apply pool_frame; reflexivity. Qed.
Definition hres_pool (r : hres) : Prop := match r with HOk s | HErr s => pool_ok s end.
Lemma handle_pool s m : pool_ok s -> msg_signer m <> m_pool MA -> hres_pool (handle s m).
Proof.
  intros H NS. destruct m as [pk a amt|a|a|f t amt|f key v raw wf|f t amt act|f h raw]; simpl in *.
  - (* stake *)
    set (v0 := match get_val s a with Some v => v | None => _ end).
    destruct (v_status v0 =? 0)%N eqn:St0; cbn [negb]; [|exact H]. apply N.eqb_eq in St0.
    destruct (match aget (sinfo s) a with Some si => si_tomb si | None => false end); [exact H|]. destruct (amt <? p_min_stake (pp s)); [exact H|]. destruct (bal s a <? amt); [exact H|].
    assert (T0 : v_tokens v0 = 0 /\ stkz (vals s) a = 0).
    { unfold v0, stkz. destruct (get_val s a) as [v|] eqn:E; unfold get_val in E; rewrite E; [|auto].
      subst v0. destruct (val_facts s a v H E) as [_ Zv]. split; auto. unfold stk. rewrite St0. reflexivity. }
    destruct T0 as [T0 K0].
    set (s1 := match get_val s a with Some _ => s | None => _ end).
    assert (H1 : pool_ok s1 /\ stkz (vals s1) a = 0).
    { unfold s1. destruct (get_val s a) eqn:E; [auto|].
      assert (P : pool_ok (put_val s a v0)).
      { apply put_val_pool; [exact H|rewrite T0; lia|intros _; exact T0|unfold stk; rewrite St0, K0; cbn; lia]. }
      split; [revert P; apply pool_frame; reflexivity|].
      cbn [vals set_misc put_val set_vals]. unfold stkz. rewrite aget_aset by apply H. rewrite beqb_refl.
      unfold stk. rewrite St0. reflexivity. }
    destruct H1 as (H1 & K1). destruct H1 as (EM1 & B1 & V1 & D1 & L1). rewrite EM1.
    destruct (bank_send s1 a (m_pool MA) amt) as [s2|] eqn:E; [|split; auto; split; auto].
    destruct (bank_send_frame _ _ _ _ _ E) as (F1 & _ & _). pose proof (send_ma _ _ _ _ _ E) as Fm.
    destruct (bal_send _ _ _ _ _ (m_pool MA) B1 E) as [N Eb]. rewrite beqb_refl in Eb.
    assert (Na : beqb a (m_pool MA) = false).
    { destruct (beqb a (m_pool MA)) eqn:Ba; auto. apply beqb_eq in Ba. contradiction. }
    rewrite Na in Eb. simpl.
    set (v1 := with_status (with_tokens v0 (v_tokens v0 + amt)) 2).
    assert (H3 : pool_ok (set_staked (put_val s2 a v1) a v1)).
    { apply set_staked_pool. split; [cbn [ma put_val set_vals]; congruence|].
      split; [pose proof (send_pres _ _ _ _ _ B1 E) as X; exact X|].
      cbn [vals put_val set_vals]. rewrite F1.
      split; [apply vals_ok_aset; auto; unfold v1; cbn; [lia|discriminate]|]. split; auto.
      rewrite ssum_aset by apply V1. rewrite K1.
      rewrite ?bal_put_val, ?bal_set_vals.
      rewrite Eb. unfold stk, v1. cbn. lia. }
    match goal with |- pool_ok (match ?X with _ => _ end) => destruct X end; [exact H3|].
    revert H3; apply pool_frame; reflexivity.
  - (* begin unstake: the stake stays in the pool *)
    destruct (get_val s a) as [v|] eqn:E; [|exact H]. destruct (v_status v =? 2)%N eqn:St; cbn [negb]; [|exact H].
    destruct (_ <? _); [exact H|]. simpl. apply N.eqb_eq in St.
    destruct (val_facts s a v H E) as [Nv Zv].
    assert (P : pool_ok (put_val (del_staked s a v) a (with_unstime (with_status v 1) (btime s + p_unstaking_time (pp s))))).
    { apply put_val_pool; [apply del_staked_pool; auto|cbn; lia|cbn; discriminate|].
      unfold stkz. cbn [vals del_staked set_powidx]. unfold get_val in E. rewrite E. unfold stk. cbn. rewrite St. cbn. lia. }
    revert P; apply pool_frame; reflexivity.
  - destruct (get_val s a) as [v|]; [|exact H]. destruct (_ <? _); [exact H|]. destruct (negb _); [exact H|].
    destruct (aget (sinfo s) a) as [si|]; [|exact H]. destruct (si_tomb si); [exact H|]. destruct (_ <? _); [exact H|].
    destruct (unjail s a) as [s1|] eqn:E; [|exact H]. simpl. eapply unjail_pool; eauto.
  - destruct (bank_send s f t amt) as [s1|] eqn:E; [|exact H]. simpl. eapply pool_send_other; eauto.
  - destruct (negb _); [exact H|]. destruct wf; simpl; auto. apply apply_param_pool; auto.
  - pose proof H as (EM & _ & _ & (D1 & D2 & D3) & _). destruct (negb _); [exact H|]. rewrite EM. destruct (act =? 1)%N.
    + destruct (bank_send s (m_dao MA) t amt) as [s1|] eqn:E; [|exact H]. simpl. eapply pool_send_other; [exact H| |exact E]. auto.
    + destruct (act =? 2)%N; [|exact H].
      destruct (bank_burn s (m_dao MA) amt) as [s1|] eqn:E; [|exact H]. simpl. eapply pool_burn_other; [exact H| |exact E]. auto.
  - destruct (negb _); [exact H|]. simpl. revert H; apply pool_frame; reflexivity.
Qed.
Lemma ante_pool s t s' : pool_ok s -> msg_signer (t_msg t) <> m_pool MA -> ante s t = Some s' -> pool_ok s'.
Proof.
  unfold ante. intros H NS. destruct (_ <? _); [discriminate|].
  match goal with |- context[match ?X with Some ka => _ | None => None end] => destruct X as [ka|] end; [|discriminate].
  destruct (negb _); [discriminate|]. destruct (t_in_index t); [discriminate|]. destruct (_ <? _); [discriminate|].
  destruct (_ && _); [discriminate|]. destruct (_ || _); [discriminate|].
  destruct (aget (accts s) _) as [b|]; [|discriminate]. destruct (b <? t_fee t); [discriminate|].
  intros E. eapply pool_send_other; eauto.
Qed.
Theorem deliver_tx_pool s t : pool_ok s -> msg_signer (t_msg t) <> m_pool MA -> pool_ok (dres_state (deliver_tx s t)).
Proof.
  intros H NS. unfold deliver_tx. destruct (_ || _); [exact H|].
  destruct (ante s t) as [s1|] eqn:E; [|exact H]. pose proof (ante_pool _ _ _ H NS E) as H1.
  pose proof (handle_pool s1 (t_msg t) H1 NS) as Hh. destruct (handle s1 (t_msg t)); exact Hh.
Qed.

(* ---- every history whose transactions are not signed by the pool's address ---- *)
Definition op_ok (o : op) : Prop :=
  match o with OTx t => msg_signer (t_msg t) <> m_pool MA | _ => True end.
Theorem step_pool s o s' : pool_ok s -> op_ok o -> step s o = Some s' -> pool_ok s'.
Proof.
  intros H K. destruct o as [h t p vs es|t|a amt|a sev| |]; simpl in *.
  - apply begin_block_pool; auto.
  - intros [= <-]. apply deliver_tx_pool; auto.
  - intros [= <-]. unfold k_award. revert H; apply pool_frame; reflexivity.
  - intros [= <-]. unfold k_burn. revert H; apply pool_frame; reflexivity.
  - destruct (end_block s) as [[s1 u]|] eqn:E; [|discriminate]. intros [= <-]. eapply end_block_pool; eauto.
  - intros [= <-]; auto.
Qed.
Theorem run_pool ops : forall s s', pool_ok s -> Forall op_ok ops -> run ops s = Some s' -> pool_ok s'.
Proof.
  unfold run. induction ops as [|o r IH]; simpl; intros s s' H F; [intros [= <-]; auto|].
  inversion F; subst. destruct (step s o) as [s1|] eqn:E; [|discriminate]. apply IH; auto. eapply step_pool; eauto.
Qed.

(* ---- genesis: the pool account is supplied with the total genesis stake ---- *)
Definition gsum (gvals : list (bytes * bytes * Z)) : Z := fold_right (fun g acc => snd g + acc) 0 gvals.
Lemma genesis_validator_pool_step s g :
  let '(a, pk, tokens) := g in
  ma (genesis_validator s g) = ma s /\ accts (genesis_validator s g) = accts s /\ supply (genesis_validator s g) = supply s /\
  vals (genesis_validator s g) = aset (vals s) a {| v_pk := pk; v_jailed := false; v_status := 2; v_tokens := tokens; v_unstime := 0 |}.
Proof.
  destruct g as [[a pk] tokens]. unfold genesis_validator. cbn [ma accts supply vals set_misc set_sign].
  unfold set_staked. destruct (_ || _); cbn [ma accts supply vals set_powidx put_val set_vals]; auto.
Qed.
Lemma genesis_fold_pool gvals : forall s, ma s = MA -> bank_ok s -> vals_ok (vals s) -> mods_distinct MA ->
  (forall g, In g gvals -> aget (vals s) (g_addr g) = None) -> NoDup (map g_addr gvals) ->
  (forall g, In g gvals -> 0 <= snd g) -> ssum (vals s) + gsum gvals <= bal s (m_pool MA) ->
  pool_ok (fold_left genesis_validator gvals s).
Proof.
  induction gvals as [|g r IH]; intros s EM B V D A ND NN L; simpl in *.
  - split; auto. split; auto. split; auto. split; auto. lia.
  - inversion ND as [|? ? NI ND']; subst.
    pose proof (genesis_validator_pool_step s g) as St. destruct g as [[a pk] tokens]. destruct St as (S1 & S2 & S3 & S4).
    cbn [snd] in *. pose proof (A _ (or_introl eq_refl)) as Ea. unfold g_addr in Ea; cbn [fst] in Ea.
    apply IH.
    + congruence.
    + unfold bank_ok. rewrite S2, S3. exact B.
    + rewrite S4. apply vals_ok_aset; auto; cbn; [apply (NN (a, pk, tokens)); auto|discriminate].
    + exact D.
    + intros g' Hg'. rewrite S4. rewrite aget_aset by apply V. destruct (beqb a (g_addr g')) eqn:Bq; [|apply A; auto].
      apply beqb_eq in Bq. exfalso. apply NI. unfold g_addr at 1. cbn [fst]. rewrite Bq. apply in_map; auto.
    + exact ND'.
    + intros g' Hg'. apply NN; auto.
    + rewrite S4, ssum_aset by apply V. unfold stkz. rewrite Ea. unfold bal. rewrite S2. fold (bal s (m_pool MA)).
      unfold stk. cbn. lia.
Qed.
Theorem init_chain_pool s0 gvals dao s ups : ma s0 = MA -> bank_ok s0 -> vals_ok (vals s0) -> mods_distinct MA ->
  (forall g, In g gvals -> aget (vals s0) (g_addr g) = None) -> NoDup (map g_addr gvals) ->
  (forall g, In g gvals -> 0 <= snd g) -> ssum (vals s0) + gsum gvals <= bal s0 (m_pool MA) ->
  init_chain s0 gvals dao = Some (s, ups) -> pool_ok s.
Proof.
  unfold init_chain. intros EM B V D A ND NN L.
  pose proof (genesis_fold_pool gvals s0 EM B V D A ND NN L) as H1.
  destruct (update_tm_validators _) as [[s2 u]|] eqn:E; [|discriminate].
  pose proof (update_tm_validators_pool _ _ _ H1 E) as H2.
  destruct H2 as (EM2 & B2 & V2 & D2 & L2). rewrite EM2.
  destruct (bank_mint s2 (m_dao MA) dao) as [s3|] eqn:E3; intros [= <- _]; [|split; auto; split; auto].
  destruct (bank_mint_frame _ _ _ _ E3) as (F1 & _ & _). pose proof (mint_ma _ _ _ _ E3) as Fm.
  destruct (bal_mint _ _ _ _ (m_pool MA) B2 E3) as [N Eb].
  split; [congruence|]. split; [eapply mint_pres; eauto|]. rewrite F1. split; auto. split; auto.
  rewrite Eb. destruct (beqb (m_dao MA) (m_pool MA)) eqn:Bd; [|lia]. apply beqb_eq in Bd. destruct D as (_ & _ & D3). congruence.
Qed.
End Pool.
