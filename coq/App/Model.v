(* L1: the application state machine — x/auth bank + ante, x/pos (staking, slashing, jailing,
   rewards), x/gov (ACL-guarded parameters, DAO) and the baseapp block cycle, transcribed from
   the Go code in source order of reads, checks and writes. Single denomination (the stake
   denom): every bundled message moves only that one. [None] = Go panic / os.Exit outside
   runTx's recover (the block aborts, nothing is committed). Model only, no proofs. *)
From Coq Require Import List ZArith NArith Bool.
From PM Require Import Base.Bytes Store.KV Num.IntModel Num.DecModel.
Import ListNotations.
Local Open Scope Z_scope.

(* ---------- key builders (x/pos/types/keys.go) ---------- *)
Fixpoint be_bytes (n : nat) (z : Z) : bytes :=          (* n-byte big endian of z mod 256^n *)
  match n with
  | O => []
  | S n' => be_bytes n' (z / 256) ++ [Z.to_N (z mod 256)]
  end.
Fixpoint le_bytes (n : nat) (z : Z) : bytes :=
  match n with
  | O => []
  | S n' => Z.to_N (z mod 256) :: le_bytes n' (z / 256)
  end.
Definition inv_bytes (b : bytes) : bytes := map (fun x => (255 - x)%N) b.
Definition power_of (tokens : Z) : Z := Z.quot tokens 1000000.      (* TokensToConsensusPower *)
(* getStakedValPowerRankKey without the 0x23 prefix: 8-byte BE power ++ inverted address *)
Definition rank_key (tokens : Z) (addr : bytes) : bytes := be_bytes 8 (power_of tokens) ++ inv_bytes addr.
Definition missed_key (addr : bytes) (i : Z) : bytes := addr ++ le_bytes 8 i.
(* the unstaking queue is keyed by completion time; order-preserving stand-in for the
   formatted time string (whose own order preservation is C20's concern) *)
Definition time_key (t : Z) : bytes := be_bytes 8 t.

(* ---------- state ---------- *)
Record validator := { v_pk : bytes; v_jailed : bool; v_status : N;   (* 0 unstaked 1 unstaking 2 staked *)
                      v_tokens : Z; v_unstime : Z }.
Record signinfo := { si_start : Z; si_offset : Z; si_jailed_until : Z; si_tomb : bool; si_missed : Z }.
Record pparams := { p_unstaking_time : Z; p_max_validators : Z; p_min_stake : Z;
                    p_max_evidence_age : Z; p_window : Z; p_min_signed : Z;    (* Dec raw *)
                    p_downtime_jail : Z; p_slash_ds : Z; p_slash_dt : Z }.      (* Dec raw *)
Record aparams := { a_max_memo : Z; a_sig_limit : Z; a_fee_default : Z; a_fee_multis : list (bytes * Z) }.
Record modaddrs := { m_fee : bytes; m_pool : bytes; m_pos : bytes; m_dao : bytes }.

Record state := {
  accts : amap Z; supply : Z;
  vals : amap validator; powidx : amap bytes; prevpow : amap Z; prevtotal : Z;
  unstq : amap (list bytes); sinfo : amap signinfo; missed : amap bool;
  awards : amap Z; burns : amap Z; proposer : option bytes; pkrel : amap bytes;
  pp : pparams; ap : aparams; ma : modaddrs;
  acl : list (bytes * bytes); dao_owner : bytes; params_raw : amap bytes;
  height : Z; btime : Z;
  haspk : amap bytes                 (* accounts whose record carries a public key (genesis): the ADDRESS of that key,
                                        which is the account's own address unless the genesis file says otherwise *)
}.

(* setters, by hand *)
Definition set_bank (s : state) (a : amap Z) (sup : Z) : state :=
  {| accts := a; supply := sup; vals := vals s; powidx := powidx s; prevpow := prevpow s; prevtotal := prevtotal s;
     unstq := unstq s; sinfo := sinfo s; missed := missed s; awards := awards s; burns := burns s;
     proposer := proposer s; pkrel := pkrel s; pp := pp s; ap := ap s; ma := ma s; acl := acl s;
     dao_owner := dao_owner s; params_raw := params_raw s; height := height s; btime := btime s; haspk := haspk s |}.
Definition set_vals (s : state) (v : amap validator) : state :=
  {| accts := accts s; supply := supply s; vals := v; powidx := powidx s; prevpow := prevpow s; prevtotal := prevtotal s;
     unstq := unstq s; sinfo := sinfo s; missed := missed s; awards := awards s; burns := burns s;
     proposer := proposer s; pkrel := pkrel s; pp := pp s; ap := ap s; ma := ma s; acl := acl s;
     dao_owner := dao_owner s; params_raw := params_raw s; height := height s; btime := btime s; haspk := haspk s |}.
Definition set_powidx (s : state) (p : amap bytes) : state :=
  {| accts := accts s; supply := supply s; vals := vals s; powidx := p; prevpow := prevpow s; prevtotal := prevtotal s;
     unstq := unstq s; sinfo := sinfo s; missed := missed s; awards := awards s; burns := burns s;
     proposer := proposer s; pkrel := pkrel s; pp := pp s; ap := ap s; ma := ma s; acl := acl s;
     dao_owner := dao_owner s; params_raw := params_raw s; height := height s; btime := btime s; haspk := haspk s |}.
Definition set_prev (s : state) (p : amap Z) (t : Z) : state :=
  {| accts := accts s; supply := supply s; vals := vals s; powidx := powidx s; prevpow := p; prevtotal := t;
     unstq := unstq s; sinfo := sinfo s; missed := missed s; awards := awards s; burns := burns s;
     proposer := proposer s; pkrel := pkrel s; pp := pp s; ap := ap s; ma := ma s; acl := acl s;
     dao_owner := dao_owner s; params_raw := params_raw s; height := height s; btime := btime s; haspk := haspk s |}.
Definition set_unstq (s : state) (q : amap (list bytes)) : state :=
  {| accts := accts s; supply := supply s; vals := vals s; powidx := powidx s; prevpow := prevpow s; prevtotal := prevtotal s;
     unstq := q; sinfo := sinfo s; missed := missed s; awards := awards s; burns := burns s;
     proposer := proposer s; pkrel := pkrel s; pp := pp s; ap := ap s; ma := ma s; acl := acl s;
     dao_owner := dao_owner s; params_raw := params_raw s; height := height s; btime := btime s; haspk := haspk s |}.
Definition set_sign (s : state) (si : amap signinfo) (mi : amap bool) : state :=
  {| accts := accts s; supply := supply s; vals := vals s; powidx := powidx s; prevpow := prevpow s; prevtotal := prevtotal s;
     unstq := unstq s; sinfo := si; missed := mi; awards := awards s; burns := burns s;
     proposer := proposer s; pkrel := pkrel s; pp := pp s; ap := ap s; ma := ma s; acl := acl s;
     dao_owner := dao_owner s; params_raw := params_raw s; height := height s; btime := btime s; haspk := haspk s |}.
Definition set_queues (s : state) (aw : amap Z) (bu : amap Z) : state :=
  {| accts := accts s; supply := supply s; vals := vals s; powidx := powidx s; prevpow := prevpow s; prevtotal := prevtotal s;
     unstq := unstq s; sinfo := sinfo s; missed := missed s; awards := aw; burns := bu;
     proposer := proposer s; pkrel := pkrel s; pp := pp s; ap := ap s; ma := ma s; acl := acl s;
     dao_owner := dao_owner s; params_raw := params_raw s; height := height s; btime := btime s; haspk := haspk s |}.
Definition set_misc (s : state) (pr : option bytes) (pk : amap bytes) : state :=
  {| accts := accts s; supply := supply s; vals := vals s; powidx := powidx s; prevpow := prevpow s; prevtotal := prevtotal s;
     unstq := unstq s; sinfo := sinfo s; missed := missed s; awards := awards s; burns := burns s;
     proposer := pr; pkrel := pk; pp := pp s; ap := ap s; ma := ma s; acl := acl s;
     dao_owner := dao_owner s; params_raw := params_raw s; height := height s; btime := btime s; haspk := haspk s |}.
Definition set_params (s : state) (p : pparams) (a : aparams) (ac : list (bytes * bytes)) (d : bytes) (raw : amap bytes) : state :=
  {| accts := accts s; supply := supply s; vals := vals s; powidx := powidx s; prevpow := prevpow s; prevtotal := prevtotal s;
     unstq := unstq s; sinfo := sinfo s; missed := missed s; awards := awards s; burns := burns s;
     proposer := proposer s; pkrel := pkrel s; pp := p; ap := a; ma := ma s; acl := ac;
     dao_owner := d; params_raw := raw; height := height s; btime := btime s; haspk := haspk s |}.
Definition set_block (s : state) (h t : Z) : state :=
  {| accts := accts s; supply := supply s; vals := vals s; powidx := powidx s; prevpow := prevpow s; prevtotal := prevtotal s;
     unstq := unstq s; sinfo := sinfo s; missed := missed s; awards := awards s; burns := burns s;
     proposer := proposer s; pkrel := pkrel s; pp := pp s; ap := ap s; ma := ma s; acl := acl s;
     dao_owner := dao_owner s; params_raw := params_raw s; height := h; btime := t; haspk := haspk s |}.

(* ---------- bank (x/auth/keeper/bank.go), single denom; amounts are >= 0 ---------- *)
Definition bal (s : state) (a : bytes) : Z := match aget (accts s) a with Some b => b | None => 0 end.
(* SubtractCoins then AddCoins: refuses an overdraft; nothing written on failure *)
Definition bank_send (s : state) (from to : bytes) (amt : Z) : option state :=
  if (amt <? 0) || (bal s from <? amt) then None
  else let a1 := aset (accts s) from (bal s from - amt) in
       let b_to := match aget a1 to with Some b => b | None => 0 end in
       Some (set_bank s (aset a1 to (b_to + amt)) (supply s)).
Definition bank_mint (s : state) (modl : bytes) (amt : Z) : option state :=
  if amt <? 0 then None
  else Some (set_bank s (aset (accts s) modl (bal s modl + amt)) (supply s + amt)).
Definition bank_burn (s : state) (modl : bytes) (amt : Z) : option state :=
  if (amt <? 0) || (bal s modl <? amt) then None
  else Some (set_bank s (aset (accts s) modl (bal s modl - amt)) (supply s - amt)).

(* ---------- x/pos keeper ---------- *)
Definition get_val (s : state) (a : bytes) : option validator := aget (vals s) a.
Definition put_val (s : state) (a : bytes) (v : validator) : state := set_vals s (aset (vals s) a v).
Definition with_tokens (v : validator) (t : Z) : validator :=
  {| v_pk := v_pk v; v_jailed := v_jailed v; v_status := v_status v; v_tokens := t; v_unstime := v_unstime v |}.
Definition with_status (v : validator) (st : N) : validator :=
  {| v_pk := v_pk v; v_jailed := v_jailed v; v_status := st; v_tokens := v_tokens v; v_unstime := v_unstime v |}.
Definition with_jailed (v : validator) (j : bool) : validator :=
  {| v_pk := v_pk v; v_jailed := j; v_status := v_status v; v_tokens := v_tokens v; v_unstime := v_unstime v |}.
Definition with_unstime (v : validator) (t : Z) : validator :=
  {| v_pk := v_pk v; v_jailed := v_jailed v; v_status := v_status v; v_tokens := v_tokens v; v_unstime := t |}.

(* SetStakedValidator (as repaired): only staked, unjailed validators are indexed *)
Definition set_staked (s : state) (a : bytes) (v : validator) : state :=
  if v_jailed v || negb (v_status v =? 2)%N then s
  else set_powidx s (aset (powidx s) (rank_key (v_tokens v) a) a).
(* deleteValidatorFromStakingSet: deletes the key computed from the validator's CURRENT tokens *)
Definition del_staked (s : state) (a : bytes) (v : validator) : state :=
  set_powidx s (adel (powidx s) (rank_key (v_tokens v) a)).

(* burnStakedTokens: refuses a non-positive amount *)
Definition burn_staked (s : state) (amt : Z) : option state :=
  if amt <=? 0 then None else bank_burn s (m_pool (ma s)) amt.

(* deleteUnstakingValidator: drop the address from its completion-time slot (delete an emptied slot) *)
Definition del_unstaking (s : state) (a : bytes) (v : validator) : state :=
  let q := match aget (unstq s) (time_key (v_unstime v)) with Some l => l | None => [] end in
  let q' := filter (fun x => negb (beqb x a)) q in
  set_unstq s (match q' with [] => adel (unstq s) (time_key (v_unstime v))
                           | _ => aset (unstq s) (time_key (v_unstime v)) q' end).

(* ForceValidatorUnstake (as repaired: an unstaking validator leaves the queue; nothing to burn
   when the stake is already 0) *)
Definition force_unstake (s : state) (a : bytes) (v : validator) : option state :=
  let s0 := del_staked s a v in
  let s1 := if (v_status v =? 1)%N then del_unstaking s0 a v else s0 in
  match (if 0 <? v_tokens v then burn_staked s1 (v_tokens v) else Some s1) with
  | None => None
  | Some s2 => Some (put_val s2 a (with_status (with_tokens v 0) 0))
  end.

(* slash: (state, ok). validateSlash then burn min(trunc(power*10^6*factor), tokens) *)
Inductive sres := SOk (s : state) | SErr (s : state) | SPanic.
Definition slash (s : state) (a : bytes) (infraction_h power factor : Z) : sres :=
  if factor <? 0 then SErr s
  else if height s <? infraction_h then SErr s
  else match get_val s a with
  | None => SErr s                                  (* nil validator: "Cant slash nil address" *)
  | Some v =>
    if (v_status v =? 0)%N then SErr s
    else
      match tokens_from_power power with
      | None => SPanic
      | Some amount =>
        match dec_mul (dec_from_int amount) factor with
        | None => SPanic
        | Some d =>
          match dec_truncate_int d with
          | None => SPanic
          | Some slash_amt =>
            let burn := Z.max (Z.min slash_amt (v_tokens v)) 0 in
            (* removeValidatorTokens *)
            let s1 := del_staked s a v in
            let v1 := with_tokens v (v_tokens v - burn) in
            let s2 := set_staked (put_val s1 a v1) a v1 in
            match burn_staked s2 burn with
            | None => SErr s2                       (* zero burn: ErrBurnStakedTokens, after the writes *)
            | Some s3 =>
              if v_tokens v1 <? p_min_stake (pp s3) then
                match force_unstake s3 a v1 with
                | None => SErr s3
                | Some s4 => SOk s4
                end
              else SOk s3
            end
          end
        end
      end
  end.

(* JailValidator / UnjailValidator: panic on a missing validator or a wrong flag *)
Definition jail (s : state) (a : bytes) : option state :=
  match get_val s a with
  | None => None
  | Some v => if v_jailed v then None
              else let v1 := with_jailed v true in Some (del_staked (put_val s a v1) a v1)
  end.
Definition unjail (s : state) (a : bytes) : option state :=
  match get_val s a with
  | None => None
  | Some v => if v_jailed v then let v1 := with_jailed v false in Some (set_staked (put_val s a v1) a v1)
              else None
  end.

(* MinSignedPerWindow = RoundInt64 (minSigned * window) *)
Definition min_signed_per_window (p : pparams) : Z := chop_round (p_min_signed p * p_window p).

(* handleValidatorSignature *)
Definition handle_signature (s : state) (a : bytes) (power : Z) (signed : bool) : option state :=
  match aget (pkrel s) a, aget (sinfo s) a with
  | Some _, Some si =>
    let w := p_window (pp s) in
    if w <=? 0 then None else
    let index := Z.rem (si_offset si) w in
    let previous := match aget (missed s) (missed_key a index) with Some b => b | None => false end in
    let missd := negb signed in
    let '(mi, ctr) :=
      if negb previous && missd then (aset (missed s) (missed_key a index) true, si_missed si + 1)
      else if previous && negb missd then (aset (missed s) (missed_key a index) false, si_missed si - 1)
      else (missed s, si_missed si) in
    let si1 := {| si_start := si_start si; si_offset := si_offset si + 1; si_jailed_until := si_jailed_until si;
                  si_tomb := si_tomb si; si_missed := ctr |} in
    let s1 := set_sign s (sinfo s) mi in
    let min_height := si_start si + w in
    let max_missed := w - min_signed_per_window (pp s) in
    if (min_height <? height s) && (max_missed <? ctr) then
      match get_val s1 a with
      | Some v =>
        if v_jailed v then Some (set_sign s1 (aset (sinfo s1) a si1) (missed s1))
        else
          let s2 := match slash s1 a (height s - 2) power (p_slash_dt (pp s)) with
                    | SOk x => Some x | SErr x => Some x | SPanic => None end in
          match s2 with
          | None => None
          | Some s2 =>
            match jail s2 a with
            | None => None
            | Some s3 =>
              let si2 := {| si_start := si_start si; si_offset := 0;
                            si_jailed_until := btime s + p_downtime_jail (pp s);
                            si_tomb := si_tomb si; si_missed := 0 |} in
              (* clearMissedArray: every bit stored under the validator's prefix *)
              let mi2 := filter (fun p => negb (has_prefix a (fst p) && Nat.eqb (length (fst p)) (length a + 8))) (missed s3) in
              Some (set_sign s3 (aset (sinfo s3) a si2) mi2)
            end
          end
      | None => Some (set_sign s1 (aset (sinfo s1) a si1) (missed s1))
      end
    else Some (set_sign s1 (aset (sinfo s1) a si1) (missed s1))
  | _, _ => None
  end.

(* handleDoubleSign. evidence: address, infraction height, time, power. [None] = panic *)
Definition double_sign_jail_end : Z := 253402300799 * 1000000000.
Definition handle_double_sign (s : state) (a : bytes) (inf_h ev_time power : Z) : option state :=
  match aget (pkrel s) a with
  | None => None                                     (* ErrCantHandleEvidence -> panic *)
  | Some _ =>
    if p_max_evidence_age (pp s) <? btime s - ev_time then None   (* nil validator: slash then nil deref (finding F7) *)
    else match get_val s a with
    | None => None
    | Some v =>
      if (v_status v =? 0)%N then None
      else match aget (sinfo s) a with
      | None => None
      | Some si =>
        if si_tomb si then None
        else
          let s1o := match slash s a (inf_h - 1) power (p_slash_ds (pp s)) with
                     | SOk x => Some x | SErr x => Some x | SPanic => None end in
          match s1o with
          | None => None
          | Some s1 =>
            let s2o := if v_jailed v then Some s1 else jail s1 a in
            match s2o with
            | None => None
            | Some s2 =>
              match get_val s2 a with
              | None => None
              | Some v2 =>
                match force_unstake s2 a v2 with
                | None => None
                | Some s3 =>
                  let si1 := {| si_start := si_start si; si_offset := si_offset si;
                                si_jailed_until := double_sign_jail_end; si_tomb := true; si_missed := si_missed si |} in
                  Some (set_sign s3 (aset (sinfo s3) a si1) (missed s3))
                end
              end
            end
          end
      end
    end
  end.

(* rewardFromFees *)
Definition reward_from_fees (s : state) (prev : bytes) : option state :=
  let fees := bal s (m_fee (ma s)) in
  match bank_send s (m_fee (ma s)) (m_pos (ma s)) fees with
  | None => None
  | Some s1 =>
    match get_val s1 prev with
    | Some _ => bank_send s1 (m_pos (ma s1)) prev fees
    | None => Some s1
    end
  end.
(* mint (as repaired): mint the amount into the pool, forward it to the address *)
Definition mint_award (s : state) (a : bytes) (amt : Z) : state :=
  match bank_mint s (m_pool (ma s)) amt with
  | None => s
  | Some s1 => match bank_send s1 (m_pool (ma s1)) a amt with Some s2 => s2 | None => s1 end
  end.
Definition mint_awards (s : state) : state :=
  let s1 := fold_left (fun st p => mint_award st (fst p) (snd p)) (awards s) s in
  set_queues s1 [] (burns s1).
(* burnValidators: mustGetValidator panics on a missing validator *)
Fixpoint burn_validators_loop (l : list (bytes * Z)) (s : state) : option state :=
  match l with
  | [] => Some s
  | (a, sev) :: r =>
    match get_val s a with
    | None => None
    | Some v =>
      let power := if (v_status v =? 2)%N then power_of (v_tokens v) else 0 in
      match slash s a (height s) power sev with
      | SPanic => None
      | SOk s1 | SErr s1 => burn_validators_loop r (set_queues s1 (awards s1) (adel (burns s1) a))
      end
    end
  end.

Record vote := { vo_addr : bytes; vo_power : Z; vo_signed : bool }.
Record evid := { ev_addr : bytes; ev_height : Z; ev_time : Z; ev_power : Z }.

Fixpoint fold_opt {A} (f : state -> A -> option state) (l : list A) (s : state) : option state :=
  match l with
  | [] => Some s
  | x :: r => match f s x with Some s1 => fold_opt f r s1 | None => None end
  end.

(* BeginBlocker *)
Definition begin_block (s0 : state) (h t : Z) (prop : bytes) (votes : list vote) (evs : list evid) : option state :=
  let s := set_block s0 h t in
  let s1o := if 1 <? h then
               match proposer s with None => None | Some p => reward_from_fees s p end
             else Some s in
  match s1o with
  | None => None
  | Some s1 =>
    let s2 := mint_awards s1 in
    match burn_validators_loop (burns s2) s2 with
    | None => None
    | Some s3 =>
      let s4 := set_misc s3 (Some prop) (pkrel s3) in
      match fold_opt (fun st v => handle_signature st (vo_addr v) (vo_power v) (vo_signed v)) votes s4 with
      | None => None
      | Some s5 => fold_opt (fun st e => handle_double_sign st (ev_addr e) (ev_height e) (ev_time e) (ev_power e)) evs s5
      end
    end
  end.

(* UpdateTendermintValidators: walk the power index from the top, at most MaxValidators *)
Definition update := (bytes * Z)%type.           (* validator address, new power *)
Fixpoint upd_loop (idx : list (bytes * bytes)) (n : nat) (s : state) (prev : amap Z) (total : Z) (acc : list update)
  : option (state * amap Z * Z * list update) :=
  match n, idx with
  | O, _ | _, [] => Some (s, prev, total, acc)
  | S n', (_, a) :: r =>
    match get_val s a with
    | None => None
    | Some v =>
      if v_jailed v then None
      else if power_of (v_tokens v) =? 0 then None
      else
        let cur := if (v_status v =? 2)%N then power_of (v_tokens v) else 0 in
        let '(s1, acc1) :=
          match aget prev a with
          | Some p => if p =? cur then (s, acc) else (set_prev s (aset (prevpow s) a cur) (prevtotal s), (a, cur) :: acc)
          | None => (set_prev s (aset (prevpow s) a cur) (prevtotal s), (a, cur) :: acc)
          end in
        upd_loop r n' s1 (adel prev a) (total + cur) acc1
    end
  end.
Definition update_tm_validators (s : state) : option (state * list update) :=
  let idx := rev (powidx s) in                     (* reverse prefix iterator: highest key first *)
  match upd_loop idx (Z.to_nat (p_max_validators (pp s))) s (prevpow s) 0 [] with
  | None => None
  | Some (s1, leftover, total, acc) =>
    (* no longer staked (or below the cut-off): address order; zero-power update *)
    match fold_opt (fun st p => match get_val st (fst p) with
                                | None => None
                                | Some _ => Some (set_prev st (adel (prevpow st) (fst p)) (prevtotal st)) end)
                   leftover s1 with
    | None => None
    | Some s2 =>
      let ups := rev acc ++ map (fun p => (fst p, 0)) leftover in
      Some (match ups with [] => s2 | _ => set_prev s2 (prevpow s2) total end, ups)
    end
  end.

(* unstakeAllMatureValidators: queue entries with time <= block time, in key order *)
Definition finish_unstaking (s : state) (a : bytes) (v : validator) : option state :=
  (* deleteUnstakingValidator, coinsFromStakedToUnstaked, record, DeleteValidator *)
  let s1 := del_unstaking s a v in
  if negb (is_int64 (v_tokens v)) then None else
  match bank_send s1 (m_pool (ma s1)) a (v_tokens v) with
  | None => None
  | Some s2 => Some (set_vals s2 (adel (vals s2) a))
  end.
Definition unstake_one (s : state) (a : bytes) : option state :=
  match get_val s a with
  | None => Some s
  | Some v =>
    if negb (v_status v =? 1)%N then Some s            (* ValidateValidatorFinishUnstaking, as repaired (F22) *)
    else finish_unstaking s a v
  end.
Definition unstake_mature (s : state) : option state :=
  let mature := filter (fun p => bleb (fst p) (time_key (btime s))) (unstq s) in
  fold_opt (fun st p => match fold_opt unstake_one (snd p) st with
                        | None => None
                        | Some st1 => Some (set_unstq st1 (adel (unstq st1) (fst p))) end) mature s.

Definition end_block (s : state) : option (state * list update) :=
  match update_tm_validators s with
  | None => None
  | Some (s1, ups) => match unstake_mature s1 with Some s2 => Some (s2, ups) | None => None end
  end.

(* ---------- messages and handlers ---------- *)
Inductive pval := PVpos (field : N) (z : Z) | PVauth (field : N) (z : Z) | PVaddr (a : bytes)
  | PVacl (l : list (bytes * bytes)) | PVfees (d : Z) (l : list (bytes * Z)) | PVraw.
Inductive msg :=
| MStake (pk addr : bytes) (amt : Z)
| MUnstake (addr : bytes)
| MUnjail (addr : bytes)
| MSend (from to : bytes) (amt : Z)
| MChangeParam (from key : bytes) (v : pval) (raw : bytes) (wellformed : bool)
| MDao (from to : bytes) (amt : Z) (action : N)          (* 1 transfer, 2 burn, other: invalid *)
| MUpgrade (from : bytes) (h : Z) (raw : bytes).

Definition msg_signer (m : msg) : bytes :=
  match m with
  | MStake _ a _ => a | MUnstake a => a | MUnjail a => a | MSend f _ _ => f
  | MChangeParam f _ _ _ _ => f | MDao f _ _ _ => f | MUpgrade f _ _ => f
  end.
Definition msg_type (m : msg) : N :=
  match m with MStake _ _ _ => 0 | MUnstake _ => 1 | MUnjail _ => 2 | MSend _ _ _ => 3
             | MChangeParam _ _ _ _ _ => 4 | MDao _ _ _ _ => 5 | MUpgrade _ _ _ => 6 end%N.
(* base fee per message type, from the generated constants: PosFeeMap is empty (0), GovFeeMap *)
Definition msg_base_fee (gov_fee : Z) (m : msg) : Z :=
  match m with MChangeParam _ _ _ _ _ | MDao _ _ _ _ | MUpgrade _ _ _ => gov_fee | _ => 0 end.
Definition msg_basic_ok (m : msg) : bool :=
  match m with
  | MStake pk _ amt => negb (match pk with [] => true | _ => false end) && (0 <? amt)
  | MUnstake a => negb (match a with [] => true | _ => false end)
  | MUnjail a => negb (match a with [] => true | _ => false end)
  | MSend f t amt => negb (match f with [] => true | _ => false end) && negb (match t with [] => true | _ => false end) && (0 <? amt)
  | MChangeParam f k _ raw _ => negb (match k with [] => true | _ => false end)
  | MDao f t amt act => is_int64 amt && negb (amt =? 0) && ((act =? 1) || (act =? 2))%N
                        && negb ((act =? 1)%N && match t with [] => true | _ => false end)
  | MUpgrade f h _ => negb (h =? 0)
  end.

Inductive hres := HOk (s : state) | HErr (s : state).      (* handler result; state may have been written *)

Definition owner_of (l : list (bytes * bytes)) (k : bytes) : bytes :=
  match find (fun p => beqb (fst p) k) l with Some p => snd p | None => [] end.

(* parameter keys the model interprets *)
Definition K (s : list N) : bytes := s.
Definition apply_param (s : state) (key : bytes) (v : pval) (raw : bytes) : state :=
  let raw' := aset (params_raw s) key raw in
  match v with
  | PVacl l => set_params s (pp s) (ap s) l (dao_owner s) raw'
  | PVaddr a => set_params s (pp s) (ap s) (acl s) a raw'
  | PVfees d l => set_params s (pp s) {| a_max_memo := a_max_memo (ap s); a_sig_limit := a_sig_limit (ap s);
                                          a_fee_default := d; a_fee_multis := l |} (acl s) (dao_owner s) raw'
  | PVauth f z =>
    let a := ap s in
    let a' := if (f =? 0)%N then {| a_max_memo := z; a_sig_limit := a_sig_limit a; a_fee_default := a_fee_default a; a_fee_multis := a_fee_multis a |}
              else {| a_max_memo := a_max_memo a; a_sig_limit := z; a_fee_default := a_fee_default a; a_fee_multis := a_fee_multis a |} in
    set_params s (pp s) a' (acl s) (dao_owner s) raw'
  | PVpos f z =>
    let p := pp s in
    let g (i : N) (old : Z) := if (f =? i)%N then z else old in
    let p' := {| p_unstaking_time := g 0%N (p_unstaking_time p); p_max_validators := g 1%N (p_max_validators p);
                 p_min_stake := g 2%N (p_min_stake p); p_max_evidence_age := g 3%N (p_max_evidence_age p);
                 p_window := g 4%N (p_window p); p_min_signed := g 5%N (p_min_signed p);
                 p_downtime_jail := g 6%N (p_downtime_jail p); p_slash_ds := g 7%N (p_slash_ds p);
                 p_slash_dt := g 8%N (p_slash_dt p) |} in
    set_params s p' (ap s) (acl s) (dao_owner s) raw'
  | PVraw => set_params s (pp s) (ap s) (acl s) (dao_owner s) raw'
  end.

Definition handle (s : state) (m : msg) : hres :=
  match m with
  | MStake pk a amt =>
    (* handleStake: registered -> stakeRegisteredValidator, else stakeNewValidator (repaired: starts at 0) *)
    let v0 := match get_val s a with
              | Some v => v
              | None => {| v_pk := pk; v_jailed := false; v_status := 0; v_tokens := 0; v_unstime := 0 |} end in
    (* ValidateValidatorStaking *)
    if negb (v_status v0 =? 0)%N then HErr s
    else if (match aget (sinfo s) a with Some si => si_tomb si | None => false end) then HErr s   (* tombstoned: never again (F24, repaired) *)
    else if amt <? p_min_stake (pp s) then HErr s
    else if bal s a <? amt then HErr s
    else
      (* RegisterValidator (new only): record + pubkey relation *)
      let s1 := match get_val s a with
                | Some _ => s
                | None => set_misc (put_val s a v0) (proposer s) (aset (pkrel s) a pk) end in
      (* StakeValidator *)
      match bank_send s1 a (m_pool (ma s1)) amt with
      | None => HErr s1                                 (* panic inside the handler: recovered, writes stay *)
      | Some s2 =>
        let v1 := with_status (with_tokens v0 (v_tokens v0 + amt)) 2 in
        let s3 := set_staked (put_val s2 a v1) a v1 in
        let s4 := match aget (sinfo s3) a with
                  | Some _ => s3
                  | None => set_sign s3 (aset (sinfo s3) a {| si_start := height s3; si_offset := 0; si_jailed_until := 0;
                                                               si_tomb := false; si_missed := 0 |}) (missed s3) end in
        HOk s4
      end
  | MUnstake a =>
    match get_val s a with
    | None => HErr s
    | Some v =>
      if negb (v_status v =? 2)%N then HErr s
      else if v_tokens v <? p_min_stake (pp s) then HErr s        (* panic, recovered *)
      else
        let s1 := del_staked s a v in
        let t := btime s + p_unstaking_time (pp s) in
        let v1 := with_unstime (with_status v 1) t in
        let s2 := put_val s1 a v1 in
        let q := match aget (unstq s2) (time_key t) with Some l => l | None => [] end in
        HOk (set_unstq s2 (aset (unstq s2) (time_key t) (q ++ [a])))
    end
  | MUnjail a =>
    match get_val s a with
    | None => HErr s
    | Some v =>
      if v_tokens v <? p_min_stake (pp s) then HErr s
      else if negb (v_jailed v) then HErr s
      else match aget (sinfo s) a with
      | None => HErr s
      | Some si =>
        if si_tomb si then HErr s
        else if btime s <? si_jailed_until si then HErr s
        else match unjail s a with Some s1 => HOk s1 | None => HErr s end
      end
    end
  | MSend f t amt =>
    match bank_send s f t amt with Some s1 => HOk s1 | None => HErr s end
  | MChangeParam f key v raw wf =>
    if negb (beqb (owner_of (acl s) key) f) then HErr s
    else if wf then HOk (apply_param s key v raw) else HOk s      (* Update error ignored: OK, nothing changed *)
  | MDao f t amt act =>
    if negb (beqb (dao_owner s) f) then HErr s
    else if (act =? 1)%N then
      match bank_send s (m_dao (ma s)) t amt with Some s1 => HOk s1 | None => HErr s end
    else if (act =? 2)%N then
      match bank_burn s (m_dao (ma s)) amt with Some s1 => HOk s1 | None => HErr s end
    else HErr s
  | MUpgrade f h raw =>
    if negb (beqb (owner_of (acl s) [103;111;118;47;117;112;103;114;97;100;101]%N) f) then HErr s   (* "gov/upgrade" *)
    else HOk (apply_param s [103;111;118;47;117;112;103;114;97;100;101]%N PVraw raw)
  end.

(* ---------- ante (x/auth/ante.go, as repaired) over ideal signatures ---------- *)
(* a signature is a record of which key signed which sign doc; [t_mutated]: a signed field was
   changed after signing. Keys are identified by their address. *)
Record tx := { t_msg : msg; t_fee : Z; t_memo_len : Z;
               t_attached : option bytes;           (* address of the public key carried in the signature *)
               t_multi_count : Z;                   (* 0: plain key; else the key count recSignDepth reaches *)
               t_signed_by : bytes; t_mutated : bool;
               t_sig_empty : bool; t_in_index : bool; t_gov_fee : Z }.

Definition required_fee (s : state) (gov_fee : Z) (m : msg) : Z :=
  let base := msg_base_fee gov_fee m in
  let ty := msg_type m in
  match find (fun p => beqb (fst p) [ty]) (a_fee_multis (ap s)) with
  | Some p => base * snd p
  | None => base * a_fee_default (ap s)
  end.

Inductive dres := DOk (s : state) | DRejected (s : state) | DHandlerErr (s : state).
Definition ante (s : state) (t : tx) : option state :=         (* None = rejected, state untouched *)
  if a_max_memo (ap s) <? t_memo_len t then None
  else match (match t_attached t with
              | Some ka => Some ka
              | None => aget (haspk s) (msg_signer (t_msg t))           (* key looked up from the account *)
              end) with
  | None => None
  | Some ka =>
    if negb (beqb ka (msg_signer (t_msg t))) then None
    else if t_in_index t then None
    else if t_fee t <? required_fee s (t_gov_fee t) (t_msg t) then None
    else if (0 <? t_multi_count t) && (a_sig_limit (ap s) <? t_multi_count t) then None
    else if negb (beqb (t_signed_by t) ka) || t_mutated t then None
    else
      (* DeductFees: the signer's account must exist and cover the fee *)
      match aget (accts s) (msg_signer (t_msg t)) with
      | None => None
      | Some b => if b <? t_fee t then None else bank_send s (msg_signer (t_msg t)) (m_fee (ma s)) (t_fee t)
      end
  end.
Definition deliver_tx (s : state) (t : tx) : dres :=
  if negb (msg_basic_ok (t_msg t)) || (t_fee t <? 0) || t_sig_empty t then DRejected s
  else match ante s t with
  | None => DRejected s
  | Some s1 => match handle s1 (t_msg t) with HOk s2 => DOk s2 | HErr s2 => DHandlerErr s2 end
  end.

(* keeper entry points other modules use mid-block *)
Definition k_award (s : state) (a : bytes) (amt : Z) : state :=
  let cur := match aget (awards s) a with Some x => x | None => 0 end in
  set_queues s (aset (awards s) a (cur + amt)) (burns s).
Definition k_burn (s : state) (a : bytes) (sev : Z) : state :=
  let cur := match aget (burns s) a with Some x => x | None => 0 end in
  set_queues s (awards s) (aset (burns s) a (cur + sev)).

(* pos.InitGenesis for staked, unjailed genesis validators (height 0), then gov's DAO mint *)
Definition genesis_validator (s : state) (g : bytes * bytes * Z) : state :=
  let '(a, pk, tokens) := g in
  let v := {| v_pk := pk; v_jailed := false; v_status := 2; v_tokens := tokens; v_unstime := 0 |} in
  let s1 := set_staked (put_val s a v) a v in
  let s2 := set_sign s1 (aset (sinfo s1) a {| si_start := 0; si_offset := 0; si_jailed_until := 0;
                                               si_tomb := false; si_missed := 0 |}) (missed s1) in
  set_misc s2 (proposer s2) (aset (pkrel s2) a pk).
Definition init_chain (s0 : state) (gvals : list (bytes * bytes * Z)) (dao_tokens : Z) : option (state * list update) :=
  let s1 := fold_left genesis_validator gvals s0 in
  match update_tm_validators s1 with
  | None => None
  | Some (s2, ups) =>
    match bank_mint s2 (m_dao (ma s2)) dao_tokens with
    | Some s3 => Some (s3, ups)
    | None => Some (s2, ups)
    end
  end.

(* ---------- histories ---------- *)
Inductive op :=
| OBegin (h t : Z) (prop : bytes) (votes : list vote) (evs : list evid)
| OTx (t : tx)
| OAward (a : bytes) (amt : Z)
| OBurn (a : bytes) (sev : Z)
| OEnd
| OCommit.
Definition dres_state (d : dres) : state := match d with DOk s | DRejected s | DHandlerErr s => s end.
(* [None]: the block aborted (panic outside runTx): the process is gone, nothing is committed *)
Definition step (s : state) (o : op) : option state :=
  match o with
  | OBegin h t p vs es => begin_block s h t p vs es
  | OTx t => Some (dres_state (deliver_tx s t))
  | OAward a amt => Some (k_award s a amt)
  | OBurn a sev => Some (k_burn s a sev)
  | OEnd => match end_block s with Some (s', _) => Some s' | None => None end
  | OCommit => Some s
  end.
Definition run (ops : list op) (s : state) : option state := fold_opt step ops s.
