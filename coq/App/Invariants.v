(* The history-level invariants of the pos module gathered in one place, with the concrete
   genesis of Examples.v as a non-vacuity witness for every premise. *)
From Coq Require Import List ZArith NArith Bool Lia.
From PM Require Import Base.Bytes Store.KV Store.MergeProofs Store.KVProofs App.Model App.BankProofs
  App.IndexProofs App.IndexComplete App.PoolProofs App.QueueProofs App.Examples.
Import ListNotations.
Local Open Scope Z_scope.

Definition ex_ma : modaddrs := {| m_fee := FEE; m_pool := POOL; m_pos := POS; m_dao := DAO |}.
Lemma ex_s0_idx_sound : idx_sound ex_s0.
Proof. split; [exact I|split; [exact I|]]. intros k a E. discriminate E. Qed.
Lemma ex_s0_queue_ok : queue_ok ex_s0.
Proof. split; [exact I|split; [exact I|]]. intros b v _ E. discriminate E. Qed.
Lemma ex_genesis_all_ok : exists s ups, ex_genesis = Some (s, ups) /\ bank_ok s /\ idx_sound s /\ pool_ok ex_ma s /\ queue_ok s.
Proof.
  destruct ex_genesis as [[s ups]|] eqn:E; [|vm_compute in E; discriminate]. exists s, ups. split; auto.
  unfold ex_genesis in E. split; [|split; [|split]].
  - eapply init_chain_pres; [exact ex_s0_bank_ok|exact E].
  - eapply init_chain_is; [exact ex_s0_idx_sound| | |exact E].
    + repeat constructor. intros [].
    + intros g [<-|[]]. reflexivity.
  - apply (init_chain_pool ex_ma ex_s0 [(A1, [11]%N, 2000000)] 500 s ups); [reflexivity|exact ex_s0_bank_ok| | | | | | |exact E].
    + split; [exact I|]. intros a v Ea. discriminate Ea.
    + repeat split; discriminate.
    + intros g [<-|[]]. reflexivity.
    + repeat constructor. intros [].
    + intros g [<-|[]]. cbn. lia.
    + vm_compute. discriminate.
  - eapply init_chain_q; [exact ex_s0_queue_ok|exact E].
Qed.
Lemma ex_ops_signers_ok : Forall (op_ok ex_ma) ex_ops.
Proof. repeat constructor; cbn; discriminate. Qed.

Lemma ex_s0_idx_exact : idx_exact ex_s0.
Proof.
  split; [exact ex_s0_idx_sound|]. split; [exact I|split; [exact I|]]. split; intros a v E; discriminate E.
Qed.
Lemma ex_genesis_idx_exact : exists s ups, ex_genesis = Some (s, ups) /\ idx_exact s /\ queue_sound s.
Proof.
  destruct ex_genesis as [[s ups]|] eqn:E; [|vm_compute in E; discriminate]. exists s, ups. split; auto. unfold ex_genesis in E. split.
  - eapply init_chain_exact; [exact ex_s0_idx_exact| | | |exact E].
    + repeat constructor. intros [].
    + intros g [<-|[]]. reflexivity.
    + intros g [<-|[]]. repeat constructor.
  - eapply init_chain_qs; [| | |exact E].
    + split; [exact I|split; [exact I|]]. intros k l a Ek. discriminate Ek.
    + repeat constructor. intros [].
    + intros g [<-|[]]. reflexivity.
Qed.
Lemma ex_ops_wf : Forall op_wf ex_ops.
Proof. repeat constructor; cbn; repeat constructor. Qed.
