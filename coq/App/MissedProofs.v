(* C08 over whole histories: in every reachable state the missed-blocks counter of every validator equals the number
   of "missed" entries stored in its bit array (x/pos signing info vs prefix 0x12). Together with RingTie (one vote =
   one ring step on exactly those bits) and RingProofs (the ring is the sliding window) this is the property's first
   sentence for every history of the model: votes, downtime jailing (which clears the array and the counter
   together), double signs, (re-)staking, every other transaction, rewards, burns, EndBlock.
   Premise: staking addresses have one fixed length L (20 in the implementation), so that the per-address key
   prefixes of the bit array cannot overlap. *)
From Coq Require Import List ZArith NArith Bool Lia PeanoNat.
From PM Require Import Base.Bytes Store.KV Store.MergeProofs Store.KVProofs Num.IntModel Num.DecModel
  App.Model App.BankProofs App.IndexProofs App.RingProofs App.RingTie.
Import ListNotations.
Local Open Scope Z_scope.

(* the keys of validator a's bit array, as clearMissedArray selects them *)
Definition key_of (a k : bytes) : bool := has_prefix a k && Nat.eqb (length k) (length a + 8).
Definition mcnt (M : amap bool) (a : bytes) : nat := length (filter (fun p => snd p && key_of a (fst p)) M).

Definition mok (L : nat) (S : amap signinfo) (M : amap bool) : Prop :=
  asorted S /\ asorted M /\
  (forall a si, aget S a = Some si -> length a = L /\ si_missed si = Z.of_nat (mcnt M a)) /\
  (forall a, length a = L -> aget S a = None -> mcnt M a = 0%nat).
Definition missed_ok (L : nat) (s : state) : Prop := mok L (sinfo s) (missed s).

(* ---------- keys ---------- *)
Lemma has_prefix_refl_app a x : has_prefix a (a ++ x) = true.
Proof. apply has_prefix_app. exists x. reflexivity. Qed.
Lemma has_prefix_same_length : forall a b x, length a = length b -> has_prefix a (b ++ x) = true -> a = b.
Proof.
  induction a as [|p a IH]; intros [|q b] x Hl H; try discriminate; auto.
  cbn [has_prefix app] in H. apply andb_true_iff in H. destruct H as [E H]. apply N.eqb_eq in E. subst q.
  f_equal. apply (IH b x); auto.
Qed.
Lemma key_of_missed_key a b i : length a = length b -> key_of a (missed_key b i) = beqb a b.
Proof.
  intros Hl. unfold key_of, missed_key. rewrite app_length, le_bytes_length, Hl, Nat.eqb_refl, andb_true_r.
  destruct (beqb a b) eqn:B.
  - apply beqb_eq in B; subst. apply has_prefix_refl_app.
  - destruct (has_prefix a (b ++ le_bytes 8 i)) eqn:P; auto.
    apply has_prefix_same_length in P; auto. subst. rewrite beqb_refl in B. discriminate.
Qed.
Lemma key_of_both a b k : length a = length b -> key_of a k = true -> key_of b k = true -> a = b.
Proof.
  unfold key_of. intros Hl Ha Hb. apply andb_true_iff in Ha, Hb. destruct Ha as [Pa _], Hb as [Pb _].
  apply has_prefix_app in Pb. destruct Pb as [x ->]. eapply has_prefix_same_length; eauto.
Qed.

(* ---------- counting under the two writes ---------- *)
Definition b2z (b : bool) : Z := if b then 1 else 0.
Definition stored (M : amap bool) (k : bytes) : bool := match aget M k with Some b => b | None => false end.
Lemma cnt_cons k b M a : Z.of_nat (mcnt ((k, b) :: M) a) = b2z (b && key_of a k) + Z.of_nat (mcnt M a).
Proof. unfold mcnt. cbn [filter fst snd]. destruct (b && key_of a k); cbn [length b2z]; lia. Qed.
Lemma cnt_aset M k v a : Z.of_nat (mcnt (aset M k v) a) = Z.of_nat (mcnt M a) + (if key_of a k then b2z v - b2z (stored M k) else 0).
Proof.
  induction M as [|[k0 b0] M IH].
  - cbn [aset]. rewrite cnt_cons. unfold stored. cbn [aget]. unfold mcnt. cbn [filter length].
    destruct (key_of a k); destruct v; cbn [andb b2z]; lia.
  - cbn [aset]. unfold stored. cbn [aget]. destruct (bcompare k k0) eqn:C.
    + apply bcompare_eq in C; subst k0. rewrite !cnt_cons. destruct (key_of a k); destruct v, b0; cbn [andb b2z]; lia.
    + rewrite cnt_cons. rewrite (cnt_cons k0 b0 M a). destruct (key_of a k); destruct v; cbn [andb b2z]; lia.
    + rewrite !cnt_cons. fold (stored M k). rewrite IH. lia.
Qed.
Lemma cnt_clear_self M a : mcnt (filter (fun p => negb (key_of a (fst p))) M) a = 0%nat.
Proof.
  unfold mcnt. induction M as [|[k b] M IH]; [reflexivity|]. cbn [filter fst].
  destruct (key_of a k) eqn:K; cbn [negb]; [exact IH|]. cbn [filter fst snd]. rewrite K, andb_false_r. exact IH.
Qed.
Lemma cnt_clear_other M a b : length a = length b -> a <> b -> mcnt (filter (fun p => negb (key_of a (fst p))) M) b = mcnt M b.
Proof.
  intros Hl N. unfold mcnt. induction M as [|[k x] M IH]; [reflexivity|]. cbn [filter fst snd].
  destruct (key_of a k) eqn:K; cbn [negb].
  - assert (Kb : key_of b k = false).
    { destruct (key_of b k) eqn:Kb; auto. exfalso. apply N. eapply key_of_both; eauto. }
    rewrite Kb, andb_false_r. exact IH.
  - cbn [filter fst snd]. destruct (x && key_of b k); cbn [length]; rewrite IH; reflexivity.
Qed.
Lemma filter_sorted_b (f : bytes * bool -> bool) (m : amap bool) : asorted m -> asorted (filter f m).
Proof.
  induction m as [|x m IH]; [auto|]. intros [Hx S]. cbn [filter]. destruct (f x); [|apply IH; auto].
  split; [|apply IH; auto]. intros y Iy. apply filter_In in Iy. apply Hx. apply Iy.
Qed.

(* ---------- the invariant under the writes of the signing-info code ---------- *)
(* same counter, any other fields *)
Lemma mok_same_counter L S M a si si' : mok L S M -> aget S a = Some si -> si_missed si' = si_missed si -> mok L (aset S a si') M.
Proof.
  intros (SS & SM & H1 & H2) E Ec. split; [apply aset_sorted; auto|]. split; auto. split.
  - intros b sb. rewrite aget_aset by auto. destruct (beqb a b) eqn:B.
    + apply beqb_eq in B; subst b. intros [= <-]. destruct (H1 a si E) as [Hl Hc]. split; auto. congruence.
    + apply H1.
  - intros b Hl. rewrite aget_aset by auto. destruct (beqb a b); [discriminate|]. apply H2; auto.
Qed.
(* a fresh signing info with counter 0 for an address that has none *)
Lemma mok_new L S M a si' : mok L S M -> aget S a = None -> length a = L -> si_missed si' = 0 -> mok L (aset S a si') M.
Proof.
  intros (SS & SM & H1 & H2) E Hl Ec. split; [apply aset_sorted; auto|]. split; auto. split.
  - intros b sb. rewrite aget_aset by auto. destruct (beqb a b) eqn:B.
    + apply beqb_eq in B; subst b. intros [= <-]. split; auto. rewrite Ec, (H2 a Hl E). reflexivity.
    + apply H1.
  - intros b Hb. rewrite aget_aset by auto. destruct (beqb a b); [discriminate|]. apply H2; auto.
Qed.
(* one vote: the bit at the ring position and the counter move together *)
Lemma mok_ring_update L S M a si w sg si' : mok L S M -> aget S a = Some si ->
  si_missed si' = snd (ring_update M a si w sg) -> mok L (aset S a si') (fst (ring_update M a si w sg)).
Proof.
  intros (SS & SM & H1 & H2) E Ec. destruct (H1 a si E) as [Hl Hc].
  set (k := missed_key a (Z.rem (si_offset si) w)).
  assert (Ka : key_of a k = true) by (unfold k; rewrite key_of_missed_key by reflexivity; apply beqb_refl).
  assert (Kb : forall b, length b = L -> b <> a -> key_of b k = false).
  { intros b Hb N. unfold k. rewrite key_of_missed_key by congruence. destruct (beqb b a) eqn:B; auto. apply beqb_eq in B. contradiction. }
  assert (New : forall v, (stored M k = negb v) -> mok L (aset S a si') (aset M k v) \/ True) by auto.
  unfold ring_update in *. cbv zeta in *. fold k in Ec |- *. fold (stored M k) in Ec |- *.
  assert (Upd : forall v c, si_missed si' = c -> c = si_missed si + (b2z v - b2z (stored M k)) -> mok L (aset S a si') (aset M k v)).
  { intros v c E1 E2. split; [apply aset_sorted; auto|]. split; [apply aset_sorted; auto|]. split.
    - intros b sb. rewrite aget_aset by auto. destruct (beqb a b) eqn:B.
      + apply beqb_eq in B; subst b. intros [= <-]. split; auto. rewrite cnt_aset, Ka. lia.
      + intros Eb. destruct (H1 b sb Eb) as [Hb Hcb]. split; auto. rewrite cnt_aset, (Kb b Hb); [lia|].
        intros ->. rewrite beqb_refl in B. discriminate.
    - intros b Hb. rewrite aget_aset by auto. destruct (beqb a b) eqn:B; [discriminate|]. intros Eb.
      apply Nat2Z.inj. rewrite cnt_aset, (Kb b Hb); [rewrite (H2 b Hb Eb); reflexivity|].
      intros ->. rewrite beqb_refl in B. discriminate. }
  destruct (stored M k) eqn:St; destruct sg; cbn [negb andb fst snd] in Ec |- *.
  - apply (Upd false _ Ec). cbn [b2z]. lia.
  - eapply mok_same_counter; [exact (conj SS (conj SM (conj H1 H2)))|exact E|exact Ec].
  - eapply mok_same_counter; [exact (conj SS (conj SM (conj H1 H2)))|exact E|exact Ec].
  - apply (Upd true _ Ec). cbn [b2z]. lia.
Qed.
(* downtime jailing: the array is cleared and the counter reset together *)
Lemma mok_clear L S M a si si' : mok L S M -> aget S a = Some si -> si_missed si' = 0 ->
  mok L (aset S a si') (filter (fun p => negb (key_of a (fst p))) M).
Proof.
  intros (SS & SM & H1 & H2) E Ec. destruct (H1 a si E) as [Hl _].
  split; [apply aset_sorted; auto|]. split; [apply filter_sorted_b; auto|]. split.
  - intros b sb. rewrite aget_aset by auto. destruct (beqb a b) eqn:B.
    + apply beqb_eq in B; subst b. intros [= <-]. split; auto. rewrite cnt_clear_self, Ec. reflexivity.
    + intros Eb. destruct (H1 b sb Eb) as [Hb Hcb]. split; auto. rewrite cnt_clear_other; auto; [congruence|].
      intros ->. rewrite beqb_refl in B. discriminate.
  - intros b Hb. rewrite aget_aset by auto. destruct (beqb a b) eqn:B; [discriminate|]. intros Eb.
    rewrite cnt_clear_other; auto; [congruence|]. intros ->. rewrite beqb_refl in B. discriminate.
Qed.

(* ---------- frames: everything else leaves signing infos and bit arrays alone ---------- *)
Definition sm (s s' : state) : Prop := sinfo s' = sinfo s /\ missed s' = missed s.
Lemma sm_refl s : sm s s. Proof. split; reflexivity. Qed.
Lemma sm_trans s1 s2 s3 : sm s1 s2 -> sm s2 s3 -> sm s1 s3.
Proof. intros [A B] [C D]. split; congruence. Qed.
Lemma sm_ok L s s' : sm s s' -> missed_ok L s -> missed_ok L s'.
Proof. intros [A B] H. unfold missed_ok. rewrite A, B. exact H. Qed.
Lemma sm_bank_send s f t a s' : bank_send s f t a = Some s' -> sm s s'.
Proof. unfold bank_send. destruct (_ || _); [discriminate|]. intros [= <-]. (split; reflexivity). Qed.
Lemma sm_bank_mint s m a s' : bank_mint s m a = Some s' -> sm s s'.
Proof. unfold bank_mint. destruct (_ <? _); [discriminate|]. intros [= <-]. (split; reflexivity). Qed.
Lemma sm_bank_burn s m a s' : bank_burn s m a = Some s' -> sm s s'.
Proof. unfold bank_burn. destruct (_ || _); [discriminate|]. intros [= <-]. (split; reflexivity). Qed.
Lemma sm_set_staked s a v : sm s (set_staked s a v).
Proof. unfold set_staked. destruct (_ || _); (split; reflexivity). Qed.
Lemma sm_unjail s a s' : unjail s a = Some s' -> sm s s'.
Proof.
  unfold unjail. destruct (get_val s a) as [v|]; [|discriminate]. destruct (v_jailed v); [|discriminate]. intros [= <-].
  unfold set_staked. destruct (_ || _); (split; reflexivity).
Qed.
Lemma sm_sres s a h p f : match slash s a h p f with SOk x | SErr x => sm s x | SPanic => True end.
Proof. pose proof (sm_slash s a h p f) as H. destruct (slash s a h p f); exact H. Qed.
Lemma sm_reward_from_fees s p s' : reward_from_fees s p = Some s' -> sm s s'.
Proof.
  unfold reward_from_fees. destruct (bank_send s _ _ _) as [s1|] eqn:E1; [|discriminate].
  pose proof (sm_bank_send _ _ _ _ _ E1) as F1. destruct (get_val s1 p); [|intros [= <-]; exact F1].
  intros E2. eapply sm_trans; [exact F1|]. eapply sm_bank_send; eauto.
Qed.
Lemma sm_mint_award s a amt : sm s (mint_award s a amt).
Proof.
  unfold mint_award. destruct (bank_mint s _ amt) as [s1|] eqn:E1; [|(split; reflexivity)].
  pose proof (sm_bank_mint _ _ _ _ E1) as F1. destruct (bank_send s1 _ a amt) as [s2|] eqn:E2; [|exact F1].
  eapply sm_trans; [exact F1|]. eapply sm_bank_send; eauto.
Qed.
Lemma sm_mint_awards s : sm s (mint_awards s).
Proof.
  unfold mint_awards.
  assert (G : forall l st, sm st (fold_left (fun st p => mint_award st (fst p) (snd p)) l st)).
  { induction l as [|x l IH]; simpl; intros st; [(split; reflexivity)|]. eapply sm_trans; [apply sm_mint_award|apply IH]. }
  destruct (G (awards s) s) as [A B]. split; cbn [sinfo missed set_queues]; auto.
Qed.
Lemma sm_burn_validators_loop l : forall s s', burn_validators_loop l s = Some s' -> sm s s'.
Proof.
  induction l as [|[a sev] r IH]; simpl; intros s s'; [intros [= <-]; (split; reflexivity)|].
  destruct (get_val s a) as [v|]; [|discriminate].
  match goal with |- context[slash s a ?h ?p ?f] => pose proof (sm_sres s a h p f) as Hs; destruct (slash s a h p f) as [x|x|] end;
    try discriminate; intros E; (eapply sm_trans; [exact Hs|]); apply IH in E; destruct E as [A B]; split; auto.
Qed.
Lemma sm_upd_loop idx : forall n s prev total acc s' prev' total' acc',
  upd_loop idx n s prev total acc = Some (s', prev', total', acc') -> sm s s'.
Proof.
  induction idx as [|[k a] r IH]; intros n s prev total acc s' prev' total' acc'.
  - destruct n; simpl; intros [= <- _ _ _]; (split; reflexivity).
  - destruct n; simpl; [intros [= <- _ _ _]; (split; reflexivity)|].
    destruct (get_val s a) as [v|]; [|discriminate]. destruct (v_jailed v); [discriminate|].
    destruct (power_of (v_tokens v) =? 0); [discriminate|].
    match goal with |- context[let '(s1, acc1) := ?X in _] => destruct X as [s1 acc1] eqn:EX end.
    intros E. apply IH in E.
    assert (G : sm s s1) by (destruct (aget prev a) as [p|]; [destruct (p =? _)|]; injection EX as <- _; (split; reflexivity)).
    eapply sm_trans; eauto.
Qed.
Lemma sm_leftover l : forall s1 s2,
  fold_opt (fun st (p : bytes * Z) => match get_val st (fst p) with
                                      | None => None
                                      | Some _ => Some (set_prev st (adel (prevpow st) (fst p)) (prevtotal st)) end) l s1 = Some s2 ->
  sm s1 s2.
Proof.
  induction l as [|p r IH]; simpl; intros s1 s2; [intros [= <-]; (split; reflexivity)|].
  destruct (get_val s1 (fst p)); [|discriminate]. intros E. apply IH in E. destruct E as [A B]. split; auto.
Qed.
Lemma sm_update_tm_validators s s' ups : update_tm_validators s = Some (s', ups) -> sm s s'.
Proof.
  unfold update_tm_validators.
  destruct (upd_loop _ _ s (prevpow s) 0 []) as [[[[s1 leftover] total] acc]|] eqn:E; [|discriminate].
  pose proof (sm_upd_loop _ _ _ _ _ _ _ _ _ _ E) as F1.
  destruct (fold_opt _ leftover s1) as [s2|] eqn:E2; [|discriminate].
  pose proof (sm_leftover _ _ _ E2) as F2. intros [= <- _].
  eapply sm_trans; [exact F1|]. eapply sm_trans; [exact F2|]. destruct (rev acc ++ _); split; reflexivity.
Qed.
Lemma sm_finish_unstaking s a v s' : finish_unstaking s a v = Some s' -> sm s s'.
Proof.
  unfold finish_unstaking. destruct (negb _); [discriminate|].
  destruct (bank_send _ _ a (v_tokens v)) as [s2|] eqn:E2; [|discriminate]. intros [= <-].
  apply sm_bank_send in E2. destruct E2 as [A B]. split; auto.
Qed.
Lemma sm_unstake_one s a s' : unstake_one s a = Some s' -> sm s s'.
Proof.
  unfold unstake_one. destruct (get_val s a) as [v|]; [|intros [= <-]; (split; reflexivity)].
  destruct (negb _); [intros [= <-]; (split; reflexivity)|]. apply sm_finish_unstaking.
Qed.
Lemma sm_fold_opt {A} (f : state -> A -> option state) : (forall s x s', f s x = Some s' -> sm s s') ->
  forall l s s', fold_opt f l s = Some s' -> sm s s'.
Proof.
  intros Hf. induction l as [|x l IH]; simpl; intros s s'; [intros [= <-]; (split; reflexivity)|].
  destruct (f s x) as [s1|] eqn:E; [|discriminate]. intros E2. eapply sm_trans; [eapply Hf; eauto|apply IH; auto].
Qed.
Lemma sm_unstake_mature s s' : unstake_mature s = Some s' -> sm s s'.
Proof.
  unfold unstake_mature. apply sm_fold_opt. intros st p st'.
  destruct (fold_opt unstake_one (snd p) st) as [st1|] eqn:E; [|discriminate]. intros [= <-].
  pose proof (sm_fold_opt unstake_one sm_unstake_one _ _ _ E) as [A B]. split; auto.
Qed.
Lemma sm_end_block s s' ups : end_block s = Some (s', ups) -> sm s s'.
Proof.
  unfold end_block. destruct (update_tm_validators s) as [[s1 u]|] eqn:E; [|discriminate].
  destruct (unstake_mature s1) as [s2|] eqn:E2; [|discriminate]. intros [= <- _].
  eapply sm_trans; [eapply sm_update_tm_validators; eauto|apply sm_unstake_mature; auto].
Qed.
Lemma sm_apply_param s k v raw : sm s (apply_param s k v raw).
Proof.
  unfold apply_param.
  repeat match goal with
         | |- context[match ?x with _ => _ end] => destruct x
         | |- context[if ?x then _ else _] => destruct x
         end; try (split; reflexivity); split; reflexivity.
Qed.
Lemma sm_ante s t s' : ante s t = Some s' -> sm s s'.
Proof.
  unfold ante. destruct (_ <? _); [discriminate|].
  match goal with |- context[match ?X with Some ka => _ | None => None end] => destruct X as [ka|] end; [|discriminate].
  destruct (negb _); [discriminate|]. destruct (t_in_index t); [discriminate|].
  destruct (_ <? _); [discriminate|]. destruct (_ && _); [discriminate|]. destruct (_ || _); [discriminate|].
  destruct (aget (accts s) _) as [b|]; [|discriminate]. destruct (b <? _); [discriminate|]. apply sm_bank_send.
Qed.

Lemma aset_aset_same {V} (m : amap V) k v v' : asorted m -> aset (aset m k v) k v' = aset m k v'.
Proof.
  intros S. apply amap_ext; [apply aset_sorted; apply aset_sorted; auto|apply aset_sorted; auto|].
  intros k'. rewrite !aget_aset by (try apply aset_sorted; auto). destruct (beqb k k'); reflexivity.
Qed.

(* ---------- the three places that write signing infos ---------- *)
Lemma handle_signature_mok L s a p sg s' : missed_ok L s -> handle_signature s a p sg = Some s' -> missed_ok L s'.
Proof.
  intros H. rewrite handle_signature_unfold.
  destruct (aget (pkrel s) a); [|discriminate]. destruct (aget (sinfo s) a) as [si|] eqn:Esi; [|discriminate].
  cbv zeta. destruct (p_window (pp s) <=? 0); [discriminate|].
  destruct (ring_update (missed s) a si (p_window (pp s)) sg) as [mi ctr] eqn:EM.
  set (si1 := {| si_start := si_start si; si_offset := si_offset si + 1; si_jailed_until := si_jailed_until si;
                 si_tomb := si_tomb si; si_missed := ctr |}).
  set (s1 := set_sign s (sinfo s) mi).
  assert (K1 : mok L (aset (sinfo s) a si1) mi).
  { pose proof (mok_ring_update L (sinfo s) (missed s) a si (p_window (pp s)) sg si1 H Esi) as R.
    rewrite EM in R. cbn [fst snd] in R. apply R. reflexivity. }
  assert (Plain : missed_ok L (set_sign s1 (aset (sinfo s1) a si1) (missed s1))) by exact K1.
  destruct (_ && _); [|intros [= <-]; exact Plain].
  destruct (get_val s1 a) as [v|]; [|intros [= <-]; exact Plain].
  destruct (v_jailed v); [intros [= <-]; exact Plain|].
  pose proof (sm_sres s1 a (height s - 2) p (p_slash_dt (pp s))) as Hs.
  destruct (slash s1 a (height s - 2) p (p_slash_dt (pp s))) as [x|x|]; try discriminate;
    (destruct (jail x a) as [s3|] eqn:Ej; [|discriminate]; intros [= <-];
     pose proof (sm_jail _ _ _ Ej) as [J1 J2]; destruct Hs as [X1 X2];
     unfold missed_ok; cbn [sinfo missed set_sign]; rewrite J1, J2, X1, X2; cbn [sinfo missed set_sign s1];
     (* the cleared array with the reset info: from the state BEFORE this vote's bit was written? no - from (sinfo s, mi) *)
     assert (K0 : mok L (aset (sinfo s) a si1) mi) by exact K1;
     assert (E1 : aget (aset (sinfo s) a si1) a = Some si1) by (rewrite aget_aset by apply H; rewrite beqb_refl; reflexivity);
     pose proof (mok_clear L (aset (sinfo s) a si1) mi a si1
                   {| si_start := si_start si; si_offset := 0; si_jailed_until := btime s + p_downtime_jail (pp s);
                      si_tomb := si_tomb si; si_missed := 0 |} K0 E1 eq_refl) as R;
     rewrite aset_aset_same in R by apply H; exact R).
Qed.

Lemma handle_double_sign_mok L s a h t p s' : missed_ok L s -> handle_double_sign s a h t p = Some s' -> missed_ok L s'.
Proof.
  unfold handle_double_sign. intros H.
  destruct (aget (pkrel s) a); [|discriminate]. destruct (_ <? _); [discriminate|].
  destruct (get_val s a) as [v|]; [|discriminate]. destruct (v_status v =? 0)%N; [discriminate|].
  destruct (aget (sinfo s) a) as [si|] eqn:Esi; [|discriminate]. destruct (si_tomb si); [discriminate|].
  pose proof (sm_sres s a (h - 1) p (p_slash_ds (pp s))) as Hs.
  assert (Tail : forall x, sm s x ->
    match (if v_jailed v then Some x else jail x a) with
    | None => None
    | Some s2 => match get_val s2 a with
                 | None => None
                 | Some v2 => match force_unstake s2 a v2 with
                              | None => None
                              | Some s3 => Some (set_sign s3 (aset (sinfo s3) a
                                  {| si_start := si_start si; si_offset := si_offset si; si_jailed_until := double_sign_jail_end;
                                     si_tomb := true; si_missed := si_missed si |}) (missed s3))
                              end
                 end
    end = Some s' -> missed_ok L s').
  { intros x Hx. destruct (if v_jailed v then Some x else jail x a) as [s2|] eqn:E2; [|discriminate].
    assert (F2 : sm s s2).
    { destruct (v_jailed v); [injection E2 as <-; exact Hx|]. eapply sm_trans; [exact Hx|]. apply sm_jail in E2. exact E2. }
    destruct (get_val s2 a) as [v2|]; [|discriminate].
    destruct (force_unstake s2 a v2) as [s3|] eqn:E3; [|discriminate]. intros [= <-].
    pose proof (sm_force_unstake _ _ _ _ E3) as F3. destruct (sm_trans _ _ _ F2 F3) as [A B].
    unfold missed_ok. cbn [sinfo missed set_sign]. rewrite A, B. eapply mok_same_counter; eauto. }
  destruct (slash s a (h - 1) p (p_slash_ds (pp s))) as [x|x|]; try discriminate; apply Tail; exact Hs.
Qed.

Definition hres_mok (L : nat) (r : hres) : Prop := match r with HOk s' | HErr s' => missed_ok L s' end.
Definition msg_len_ok (L : nat) (m : msg) : Prop := match m with MStake _ a _ => length a = L | _ => True end.
Lemma handle_mok L s m : missed_ok L s -> msg_len_ok L m -> hres_mok L (handle s m).
Proof.
  intros H W. destruct m as [pk a amt|a|a|f t amt|f key v raw wf|f t amt act|f h raw]; cbn [handle].
  - set (v0 := match get_val s a with Some v => v | None => _ end).
    destruct (negb (v_status v0 =? 0)%N); [exact H|].
    destruct (match aget (sinfo s) a with Some si => si_tomb si | None => false end); [exact H|].
    destruct (amt <? p_min_stake (pp s)); [exact H|]. destruct (bal s a <? amt); [exact H|].
    set (s1 := match get_val s a with Some _ => s | None => _ end).
    assert (F1 : sm s s1) by (unfold s1; destruct (get_val s a); split; reflexivity).
    destruct (bank_send s1 a (m_pool (ma s1)) amt) as [s2|] eqn:E2; [|exact (sm_ok L _ _ F1 H)].
    pose proof (sm_bank_send _ _ _ _ _ E2) as F2.
    set (v1 := with_status (with_tokens v0 (v_tokens v0 + amt)) 2).
    set (s3 := set_staked (put_val s2 a v1) a v1).
    assert (F3 : sm s s3).
    { eapply sm_trans; [exact F1|]. eapply sm_trans; [exact F2|]. unfold s3, set_staked. destruct (_ || _); split; reflexivity. }
    pose proof (sm_ok L _ _ F3 H) as H3. cbn [hres_mok].
    destruct (aget (sinfo s3) a) eqn:E3; [exact H3|].
    unfold missed_ok. cbn [sinfo missed set_sign]. apply mok_new; auto.
  - destruct (get_val s a) as [v|]; [|exact H]. destruct (negb _); [exact H|]. destruct (_ <? _); [exact H|].
    cbn [hres_mok]. eapply sm_ok; [|exact H]. split; reflexivity.
  - destruct (get_val s a) as [v|]; [|exact H]. destruct (_ <? _); [exact H|]. destruct (negb _); [exact H|].
    destruct (aget (sinfo s) a) as [si|]; [|exact H]. destruct (si_tomb si); [exact H|]. destruct (_ <? _); [exact H|].
    destruct (unjail s a) as [s1|] eqn:E; [|exact H]. cbn [hres_mok]. eapply sm_ok; [eapply sm_unjail; eauto|exact H].
  - destruct (bank_send s f t amt) as [s1|] eqn:E; [|exact H]. cbn [hres_mok]. eapply sm_ok; [eapply sm_bank_send; eauto|exact H].
  - destruct (negb _); [exact H|]. destruct wf; [|exact H]. cbn [hres_mok]. eapply sm_ok; [apply sm_apply_param|exact H].
  - destruct (negb _); [exact H|]. destruct (act =? 1)%N.
    + destruct (bank_send s _ t amt) as [s1|] eqn:E; [|exact H]. cbn [hres_mok]. eapply sm_ok; [eapply sm_bank_send; eauto|exact H].
    + destruct (act =? 2)%N; [|exact H].
      destruct (bank_burn s _ amt) as [s1|] eqn:E; [|exact H]. cbn [hres_mok]. eapply sm_ok; [eapply sm_bank_burn; eauto|exact H].
  - destruct (negb _); [exact H|]. cbn [hres_mok]. eapply sm_ok; [apply sm_apply_param|exact H].
Qed.

Definition op_len_ok (L : nat) (o : op) : Prop := match o with OTx t => msg_len_ok L (t_msg t) | _ => True end.
Theorem deliver_tx_mok L s t : missed_ok L s -> msg_len_ok L (t_msg t) -> missed_ok L (dres_state (deliver_tx s t)).
Proof.
  intros H W. unfold deliver_tx. destruct (_ || _); [exact H|].
  destruct (ante s t) as [s1|] eqn:Ea; [|exact H].
  pose proof (sm_ok L _ _ (sm_ante _ _ _ Ea) H) as H1.
  pose proof (handle_mok L s1 (t_msg t) H1 W) as Hh. destruct (handle s1 (t_msg t)); exact Hh.
Qed.
Lemma fold_opt_mok {A} L (f : state -> A -> option state) :
  (forall s x s', missed_ok L s -> f s x = Some s' -> missed_ok L s') ->
  forall l s s', missed_ok L s -> fold_opt f l s = Some s' -> missed_ok L s'.
Proof.
  intros Hf. induction l as [|x l IH]; simpl; intros s s' H; [intros [= <-]; exact H|].
  destruct (f s x) as [s1|] eqn:E; [|discriminate]. apply IH. eapply Hf; eauto.
Qed.
Theorem begin_block_mok L s h t prop votes evs s' : missed_ok L s -> begin_block s h t prop votes evs = Some s' -> missed_ok L s'.
Proof.
  unfold begin_block. intros H.
  set (s0 := set_block s h t). assert (T0 : sm s s0) by (split; reflexivity).
  destruct (if 1 <? h then match proposer s0 with None => None | Some p => reward_from_fees s0 p end else Some s0)
    as [s1|] eqn:E1; [|discriminate].
  assert (T1 : sm s s1).
  { destruct (1 <? h); [|injection E1 as <-; auto]. destruct (proposer s0); [|discriminate].
    eapply sm_trans; [exact T0|]. eapply sm_reward_from_fees; eauto. }
  pose proof (sm_mint_awards s1) as T2.
  destruct (burn_validators_loop (burns (mint_awards s1)) (mint_awards s1)) as [s3|] eqn:E3; [|discriminate].
  pose proof (sm_burn_validators_loop _ _ _ E3) as T3.
  set (s4 := set_misc s3 (Some prop) (pkrel s3)). assert (T4 : sm s3 s4) by (split; reflexivity).
  assert (H4 : missed_ok L s4).
  { eapply sm_ok; [|exact H]. eapply sm_trans; [exact T1|]. eapply sm_trans; [exact T2|]. eapply sm_trans; [exact T3|exact T4]. }
  destruct (fold_opt _ votes s4) as [s5|] eqn:E5; [|discriminate].
  assert (H5 : missed_ok L s5).
  { eapply (fold_opt_mok L _ (fun s x s' Hs E => handle_signature_mok L s _ _ _ s' Hs E)); eauto. }
  intros E6. eapply (fold_opt_mok L _ (fun s x s' Hs E => handle_double_sign_mok L s _ _ _ _ s' Hs E)); eauto.
Qed.
Theorem step_mok L s o s' : missed_ok L s -> op_len_ok L o -> step s o = Some s' -> missed_ok L s'.
Proof.
  intros H W. destruct o as [h t p vs es|t|a amt|a sev| |]; cbn [step].
  - apply begin_block_mok; auto.
  - intros [= <-]. apply deliver_tx_mok; auto.
  - intros [= <-]. eapply sm_ok; [|exact H]. split; reflexivity.
  - intros [= <-]. eapply sm_ok; [|exact H]. split; reflexivity.
  - destruct (end_block s) as [[s1 u]|] eqn:E; [|discriminate]. intros [= <-]. eapply sm_ok; [eapply sm_end_block; eauto|exact H].
  - intros [= <-]. exact H.
Qed.
(* every reachable state of every history whose staking addresses have length L *)
Theorem run_mok L ops : forall s s', missed_ok L s -> Forall (op_len_ok L) ops -> run ops s = Some s' -> missed_ok L s'.
Proof.
  unfold run. induction ops as [|o r IH]; simpl; intros s s' H W; [intros [= <-]; exact H|].
  inversion W as [|? ? Wo Wr]; subst. destruct (step s o) as [s1|] eqn:E; [|discriminate].
  apply IH; auto. eapply step_mok; eauto.
Qed.

(* genesis: fresh signing infos, no bits *)
Lemma genesis_validator_mok L s g : missed_ok L s -> length (fst (fst g)) = L -> aget (sinfo s) (fst (fst g)) = None ->
  missed_ok L (genesis_validator s g).
Proof.
  destruct g as [[a pk] tokens]. cbn [fst]. intros H Hl Hn. unfold genesis_validator.
  set (v := {| v_pk := pk; v_jailed := false; v_status := 2; v_tokens := tokens; v_unstime := 0 |}).
  set (s1 := set_staked (put_val s a v) a v).
  assert (F1 : sm s s1) by (unfold s1, set_staked; destruct (_ || _); split; reflexivity).
  pose proof (sm_ok L _ _ F1 H) as H1. destruct F1 as [A B].
  unfold missed_ok. cbn [sinfo missed set_sign set_misc]. apply mok_new; auto; try (rewrite A; exact Hn).
Qed.
Lemma genesis_validator_sinfo s g b : asorted (sinfo s) -> fst (fst g) <> b ->
  aget (sinfo (genesis_validator s g)) b = aget (sinfo s) b.
Proof.
  destruct g as [[a pk] tokens]. cbn [fst]. intros S N. unfold genesis_validator.
  cbn [sinfo set_sign set_misc]. unfold set_staked. destruct (_ || _); cbn [sinfo set_powidx put_val set_vals];
    rewrite aget_aset by auto; (destruct (beqb a b) eqn:B; [apply beqb_eq in B; contradiction|reflexivity]).
Qed.
Theorem init_chain_mok L s0 gvals dao s ups : missed_ok L s0 -> NoDup (map (fun g => fst (fst g)) gvals) ->
  (forall g, In g gvals -> length (fst (fst g)) = L /\ aget (sinfo s0) (fst (fst g)) = None) ->
  init_chain s0 gvals dao = Some (s, ups) -> missed_ok L s.
Proof.
  unfold init_chain. intros H ND F.
  assert (G : forall l st, missed_ok L st -> NoDup (map (fun g => fst (fst g)) l) ->
              (forall g, In g l -> length (fst (fst g)) = L /\ aget (sinfo st) (fst (fst g)) = None) ->
              missed_ok L (fold_left genesis_validator l st)).
  { induction l as [|g l IH]; cbn [fold_left]; intros st Hst N Fl; [exact Hst|].
    inversion N as [|? ? NI N']; subst. destruct (Fl g (or_introl eq_refl)) as [Hl Hn].
    apply IH; auto; [apply genesis_validator_mok; auto|].
    intros g' I'. destruct (Fl g' (or_intror I')) as [Hl' Hn']. split; auto.
    rewrite genesis_validator_sinfo; [exact Hn'|apply Hst|]. intros E. apply NI. pose proof (in_map (fun g => fst (fst g)) _ _ I') as IM. cbn beta in IM. rewrite <- E in IM. exact IM. }
  pose proof (G gvals s0 H ND F) as H1.
  destruct (update_tm_validators _) as [[s2 u]|] eqn:E; [|discriminate].
  pose proof (sm_ok L _ _ (sm_update_tm_validators _ _ _ E) H1) as H2.
  destruct (bank_mint s2 _ dao) as [s3|] eqn:E3; intros [= <- _]; [|exact H2].
  eapply sm_ok; [eapply sm_bank_mint; eauto|exact H2].
Qed.

(* the reading *)
Theorem counter_is_the_number_of_missed_entries L s a si : missed_ok L s -> aget (sinfo s) a = Some si ->
  si_missed si = Z.of_nat (length (filter (fun p => snd p && key_of a (fst p)) (missed s))).
Proof. intros (_ & _ & H & _) E. exact (proj2 (H a si E)). Qed.
