(* C02: total supply = sum of all balances, balances never negative, for every function of the
   application model. The bank component is touched only through bank_send / bank_mint /
   bank_burn; everything else is shown to preserve the invariant by composition. *)
From Coq Require Import List ZArith NArith Bool Lia.
From PM Require Import Base.Bytes Store.KV Store.MergeProofs Store.KVProofs Num.IntModel Num.DecModel App.Model.
Import ListNotations.
Local Open Scope Z_scope.

Fixpoint asum (m : amap Z) : Z := match m with [] => 0 | (_, v) :: r => v + asum r end.
Definition getz (m : amap Z) (k : bytes) : Z := match aget m k with Some b => b | None => 0 end.

Lemma asum_aset m k v : asorted m -> asum (aset m k v) = asum m - getz m k + v.
Proof.
  unfold getz. induction m as [|[k0 v0] r IH]; simpl; intros S; [lia|].
  destruct S as [B S]. destruct (bcompare k k0) eqn:C; simpl; try lia.
  rewrite IH by auto. lia.
Qed.
Lemma aget_in {V} (m : amap V) k v : aget m k = Some v -> In (k, v) m.
Proof.
  induction m as [|[k0 v0] r IH]; simpl; [discriminate|].
  destruct (bcompare k k0) eqn:C; try discriminate.
  - apply bcompare_eq in C; subst. intros [= ->]; auto.
  - auto.
Qed.

(* the bank invariant *)
Definition nonneg (m : amap Z) : Prop := forall k b, aget m k = Some b -> 0 <= b.
Definition binv (a : amap Z) (sup : Z) : Prop := asorted a /\ asum a = sup /\ nonneg a.
Definition bank_ok (s : state) : Prop := binv (accts s) (supply s).

Lemma nonneg_aset m k v : asorted m -> nonneg m -> 0 <= v -> nonneg (aset m k v).
Proof.
  intros S N Hv k' b. rewrite aget_aset by auto. destruct (beqb k k'); [intros [= <-]; auto|apply N].
Qed.
Lemma getz_nonneg m k : nonneg m -> 0 <= getz m k.
Proof. unfold getz. intros N. destruct (aget m k) eqn:E; [apply (N k z E)|lia]. Qed.
Lemma getz_aset m k v k' : asorted m -> getz (aset m k v) k' = if beqb k k' then v else getz m k'.
Proof. intros S. unfold getz. rewrite aget_aset by auto. destruct (beqb k k'); auto. Qed.

(* ---- the three primitives ---- *)
Lemma bal_getz s a : bal s a = getz (accts s) a. Proof. reflexivity. Qed.

Theorem bank_send_ok s from to amt s' : bank_ok s -> bank_send s from to amt = Some s' ->
  bank_ok s' /\ supply s' = supply s.
Proof.
  unfold bank_ok, bank_send. intros (S & E & N).
  destruct ((amt <? 0) || (bal s from <? amt)) eqn:G; [discriminate|].
  apply orb_false_iff in G. destruct G as [G1 G2]. apply Z.ltb_ge in G1, G2. rewrite bal_getz in *.
  intros [= <-]. cbn [accts supply set_bank].
  set (a1 := aset (accts s) from (getz (accts s) from - amt)).
  assert (S1 : asorted a1) by (apply aset_sorted; auto).
  assert (N1 : nonneg a1) by (apply nonneg_aset; auto; lia).
  change (match aget a1 to with Some b => b | None => 0 end) with (getz a1 to).
  split; [|reflexivity]. split; [apply aset_sorted; auto|]. split.
  - rewrite asum_aset by auto. unfold a1 at 1. rewrite asum_aset by auto. lia.
  - apply nonneg_aset; auto. pose proof (getz_nonneg a1 to N1). lia.
Qed.
Theorem bank_mint_ok s modl amt s' : bank_ok s -> bank_mint s modl amt = Some s' ->
  bank_ok s' /\ supply s' = supply s + amt /\ 0 <= amt.
Proof.
  unfold bank_ok, bank_mint. intros (S & E & N). destruct (Z.ltb_spec amt 0); [discriminate|].
  intros [= <-]. cbn [accts supply set_bank]. rewrite bal_getz.
  split; [|split; auto]. split; [apply aset_sorted; auto|]. split.
  - rewrite asum_aset by auto. lia.
  - apply nonneg_aset; auto. pose proof (getz_nonneg (accts s) modl N). lia.
Qed.
Theorem bank_burn_ok s modl amt s' : bank_ok s -> bank_burn s modl amt = Some s' ->
  bank_ok s' /\ supply s' = supply s - amt /\ 0 <= amt.
Proof.
  unfold bank_ok, bank_burn. intros (S & E & N).
  destruct ((amt <? 0) || (bal s modl <? amt)) eqn:G; [discriminate|].
  apply orb_false_iff in G. destruct G as [G1 G2]. apply Z.ltb_ge in G1, G2. rewrite bal_getz in *.
  intros [= <-]. cbn [accts supply set_bank].
  split; [|split; auto]. split; [apply aset_sorted; auto|]. split.
  - rewrite asum_aset by auto. lia.
  - apply nonneg_aset; auto. lia.
Qed.

(* ---- composition: every model function preserves bank_ok ---- *)
Ltac bk := unfold bank_ok in *; cbn [accts supply set_bank set_vals set_powidx set_prev set_unstq set_sign
                                      set_queues set_misc set_params set_block put_val] in *.

Lemma send_pres s f t a s' : bank_ok s -> bank_send s f t a = Some s' -> bank_ok s'.
Proof. intros H E. apply (bank_send_ok s f t a s' H E). Qed.
Lemma mint_pres s m a s' : bank_ok s -> bank_mint s m a = Some s' -> bank_ok s'.
Proof. intros H E. apply (bank_mint_ok s m a s' H E). Qed.
Lemma burn_pres s m a s' : bank_ok s -> bank_burn s m a = Some s' -> bank_ok s'.
Proof. intros H E. apply (bank_burn_ok s m a s' H E). Qed.

Lemma set_staked_pres s a v : bank_ok s -> bank_ok (set_staked s a v).
Proof. unfold set_staked. destruct (_ || _); bk; auto. Qed.
Lemma del_staked_pres s a v : bank_ok s -> bank_ok (del_staked s a v).
Proof. unfold del_staked; bk; auto. Qed.
Lemma del_unstaking_pres s a v : bank_ok s -> bank_ok (del_unstaking s a v).
Proof. unfold del_unstaking; bk; auto. Qed.
Lemma burn_staked_pres s amt s' : bank_ok s -> burn_staked s amt = Some s' -> bank_ok s'.
Proof. unfold burn_staked. destruct (amt <=? 0); [discriminate|]. apply burn_pres. Qed.

Lemma force_unstake_pres s a v s' : bank_ok s -> force_unstake s a v = Some s' -> bank_ok s'.
Proof.
  unfold force_unstake. intros H.
  set (s0 := del_staked s a v). assert (H0 : bank_ok s0) by (apply del_staked_pres; auto).
  set (s1 := if (v_status v =? 1)%N then del_unstaking s0 a v else s0).
  assert (H1 : bank_ok s1) by (unfold s1; destruct (v_status v =? 1)%N; [apply del_unstaking_pres|]; auto).
  destruct (0 <? v_tokens v).
  - destruct (burn_staked s1 (v_tokens v)) as [s2|] eqn:E; [|discriminate].
    intros [= <-]. pose proof (burn_staked_pres _ _ _ H1 E). bk; auto.
  - intros [= <-]. bk; auto.
Qed.

Definition sres_ok (r : sres) : Prop :=
  match r with SOk s | SErr s => bank_ok s | SPanic => True end.
Lemma slash_pres s a h p f : bank_ok s -> sres_ok (slash s a h p f).
Proof.
  intros H. unfold slash.
  destruct (f <? 0); [exact H|]. destruct (height s <? h); [exact H|].
  destruct (get_val s a) as [v|]; [|exact H].
  destruct (v_status v =? 0)%N; [exact H|].
  destruct (tokens_from_power p) as [amount|]; [|exact I].
  destruct (dec_mul (dec_from_int amount) f) as [d|]; [|exact I].
  destruct (dec_truncate_int d) as [sa|]; [|exact I].
  set (burn := Z.max (Z.min sa (v_tokens v)) 0).
  set (v1 := with_tokens v (v_tokens v - burn)).
  set (s2 := set_staked (put_val (del_staked s a v) a v1) a v1).
  assert (H2 : bank_ok s2).
  { unfold s2. apply set_staked_pres. pose proof (del_staked_pres s a v H). bk; auto. }
  destruct (burn_staked s2 burn) as [s3|] eqn:E; [|exact H2].
  pose proof (burn_staked_pres _ _ _ H2 E) as H3.
  destruct (v_tokens v1 <? p_min_stake (pp s3)); [|exact H3].
  destruct (force_unstake s3 a v1) as [s4|] eqn:E4; [|exact H3].
  exact (force_unstake_pres _ _ _ _ H3 E4).
Qed.

Lemma jail_pres s a s' : bank_ok s -> jail s a = Some s' -> bank_ok s'.
Proof.
  unfold jail. intros H. destruct (get_val s a) as [v|]; [|discriminate].
  destruct (v_jailed v); [discriminate|]. intros [= <-]. apply del_staked_pres. bk; auto.
Qed.
Lemma unjail_pres s a s' : bank_ok s -> unjail s a = Some s' -> bank_ok s'.
Proof.
  unfold unjail. intros H. destruct (get_val s a) as [v|]; [|discriminate].
  destruct (v_jailed v); [|discriminate]. intros [= <-]. apply set_staked_pres. bk; auto.
Qed.

Lemma handle_signature_pres s a p sg s' : bank_ok s -> handle_signature s a p sg = Some s' -> bank_ok s'.
Proof.
  unfold handle_signature. intros H.
  destruct (aget (pkrel s) a); [|discriminate]. destruct (aget (sinfo s) a) as [si|]; [|discriminate].
  destruct (p_window (pp s) <=? 0); [discriminate|].
  match goal with |- context[let '(mi, ctr) := ?X in _] => destruct X as [mi ctr] end.
  set (s1 := set_sign s (sinfo s) mi). assert (H1 : bank_ok s1) by (unfold s1; bk; auto).
  destruct (_ && _).
  - destruct (get_val s1 a) as [v|].
    + destruct (v_jailed v); [intros [= <-]; bk; auto|].
      pose proof (slash_pres s1 a (height s - 2) p (p_slash_dt (pp s)) H1) as Hs.
      destruct (slash s1 a (height s - 2) p (p_slash_dt (pp s))) as [x|x|]; try discriminate;
        simpl in Hs; (destruct (jail x a) as [s3|] eqn:Ej; [|discriminate]);
        pose proof (jail_pres _ _ _ Hs Ej); intros [= <-]; bk; auto.
    + intros [= <-]; bk; auto.
  - intros [= <-]; bk; auto.
Qed.

Lemma handle_double_sign_pres s a h t p s' : bank_ok s -> handle_double_sign s a h t p = Some s' -> bank_ok s'.
Proof.
  unfold handle_double_sign. intros H.
  destruct (aget (pkrel s) a); [|discriminate]. destruct (_ <? _); [discriminate|].
  destruct (get_val s a) as [v|]; [|discriminate]. destruct (v_status v =? 0)%N; [discriminate|].
  destruct (aget (sinfo s) a) as [si|]; [|discriminate]. destruct (si_tomb si); [discriminate|].
  pose proof (slash_pres s a (h - 1) p (p_slash_ds (pp s)) H) as Hs.
  destruct (slash s a (h - 1) p (p_slash_ds (pp s))) as [x|x|]; try discriminate; simpl in Hs.
  all: destruct (v_jailed v);
    [ destruct (get_val x a) as [v2|]; [|discriminate];
      destruct (force_unstake x a v2) as [s3|] eqn:Ef; [|discriminate];
      pose proof (force_unstake_pres _ _ _ _ Hs Ef); intros [= <-]; bk; auto
    | destruct (jail x a) as [s2|] eqn:Ej; [|discriminate]; pose proof (jail_pres _ _ _ Hs Ej) as H2;
      destruct (get_val s2 a) as [v2|]; [|discriminate];
      destruct (force_unstake s2 a v2) as [s3|] eqn:Ef; [|discriminate];
      pose proof (force_unstake_pres _ _ _ _ H2 Ef); intros [= <-]; bk; auto ].
Qed.

Lemma reward_from_fees_pres s p s' : bank_ok s -> reward_from_fees s p = Some s' -> bank_ok s'.
Proof.
  unfold reward_from_fees. intros H.
  destruct (bank_send s (m_fee (ma s)) (m_pos (ma s)) (bal s (m_fee (ma s)))) as [s1|] eqn:E1; [|discriminate].
  pose proof (send_pres _ _ _ _ _ H E1) as H1.
  destruct (get_val s1 p); [apply send_pres; auto|intros [= <-]; auto].
Qed.
Lemma mint_award_pres s a amt : bank_ok s -> bank_ok (mint_award s a amt).
Proof.
  unfold mint_award. intros H. destruct (bank_mint s (m_pool (ma s)) amt) as [s1|] eqn:E1; auto.
  pose proof (mint_pres _ _ _ _ H E1) as H1.
  destruct (bank_send s1 (m_pool (ma s1)) a amt) as [s2|] eqn:E2; auto. eapply send_pres; eauto.
Qed.
Lemma mint_awards_pres s : bank_ok s -> bank_ok (mint_awards s).
Proof.
  unfold mint_awards. intros H.
  assert (G : forall l st, bank_ok st -> bank_ok (fold_left (fun st p => mint_award st (fst p) (snd p)) l st)).
  { induction l as [|x l IH]; simpl; auto. intros st Hst. apply IH. apply mint_award_pres; auto. }
  specialize (G (awards s) s H). bk; auto.
Qed.
Lemma burn_validators_loop_pres l : forall s s', bank_ok s -> burn_validators_loop l s = Some s' -> bank_ok s'.
Proof.
  induction l as [|[a sev] r IH]; simpl; intros s s' H; [intros [= <-]; auto|].
  destruct (get_val s a) as [v|]; [|discriminate].
  match goal with |- context[slash s a ?h ?p ?f] =>
    pose proof (slash_pres s a h p f H) as Hs; destruct (slash s a h p f) as [x|x|] end;
  try discriminate; simpl in Hs; apply IH; bk; auto.
Qed.
Lemma fold_opt_pres {A} (f : state -> A -> option state) :
  (forall s x s', bank_ok s -> f s x = Some s' -> bank_ok s') ->
  forall l s s', bank_ok s -> fold_opt f l s = Some s' -> bank_ok s'.
Proof.
  intros Hf. induction l as [|x l IH]; simpl; intros s s' H; [intros [= <-]; auto|].
  destruct (f s x) as [s1|] eqn:E; [|discriminate]. apply IH. eapply Hf; eauto.
Qed.

Theorem begin_block_pres s h t prop votes evs s' :
  bank_ok s -> begin_block s h t prop votes evs = Some s' -> bank_ok s'.
Proof.
  unfold begin_block. intros H.
  set (s0 := set_block s h t). assert (H0 : bank_ok s0) by (unfold s0; bk; auto).
  destruct (if 1 <? h then match proposer s0 with None => None | Some p => reward_from_fees s0 p end else Some s0)
    as [s1|] eqn:E1; [|discriminate].
  assert (H1 : bank_ok s1).
  { destruct (1 <? h); [|injection E1 as <-; auto]. destruct (proposer s0); [|discriminate].
    eapply reward_from_fees_pres; eauto. }
  pose proof (mint_awards_pres s1 H1) as H2.
  destruct (burn_validators_loop (burns (mint_awards s1)) (mint_awards s1)) as [s3|] eqn:E3; [|discriminate].
  pose proof (burn_validators_loop_pres _ _ _ H2 E3) as H3.
  set (s4 := set_misc s3 (Some prop) (pkrel s3)). assert (H4 : bank_ok s4) by (unfold s4; bk; auto).
  destruct (fold_opt _ votes s4) as [s5|] eqn:E5; [|discriminate].
  assert (H5 : bank_ok s5).
  { eapply (fold_opt_pres _ (fun s x s' Hs E => handle_signature_pres s _ _ _ s' Hs E)); eauto. }
  intros E6. eapply (fold_opt_pres _ (fun s x s' Hs E => handle_double_sign_pres s _ _ _ _ s' Hs E)); eauto.
Qed.

(* ---- EndBlock ---- *)
Lemma upd_loop_pres idx : forall n s prev total acc s' prev' total' acc',
  bank_ok s -> upd_loop idx n s prev total acc = Some (s', prev', total', acc') -> bank_ok s'.
Proof.
  induction idx as [|[k a] r IH]; intros n s prev total acc s' prev' total' acc' H.
  - destruct n; simpl; intros [= <- _ _ _]; auto.
  - destruct n; simpl; [intros [= <- _ _ _]; auto|].
    destruct (get_val s a) as [v|]; [|discriminate]. destruct (v_jailed v); [discriminate|].
    destruct (power_of (v_tokens v) =? 0); [discriminate|].
    match goal with |- context[let '(s1, acc1) := ?X in _] => destruct X as [s1 acc1] eqn:EX end.
    intros E. eapply IH; [|exact E].
    destruct (aget prev a) as [p|]; [destruct (p =? _)|]; injection EX as <- _; bk; auto.
Qed.
Lemma update_tm_validators_pres s s' ups : bank_ok s -> update_tm_validators s = Some (s', ups) -> bank_ok s'.
Proof.
  unfold update_tm_validators. intros H.
  destruct (upd_loop _ _ s (prevpow s) 0 []) as [[[[s1 leftover] total] acc]|] eqn:E; [|discriminate].
  pose proof (upd_loop_pres _ _ _ _ _ _ _ _ _ _ H E) as H1.
  destruct (fold_opt _ leftover s1) as [s2|] eqn:E2; [|discriminate].
  assert (H2 : bank_ok s2).
  { eapply (fold_opt_pres _ _ leftover s1 s2 H1 E2). Unshelve.
    intros st p st' Hst. cbv beta. destruct (get_val st (fst p)); [|discriminate]. intros [= <-]. bk; auto. }
  intros [= <- _]. destruct (rev acc ++ _); bk; auto.
Qed.
Lemma finish_unstaking_pres s a v s' : bank_ok s -> finish_unstaking s a v = Some s' -> bank_ok s'.
Proof.
  unfold finish_unstaking. intros H. pose proof (del_unstaking_pres s a v H) as H1.
  destruct (negb (is_int64 (v_tokens v))); [discriminate|].
  destruct (bank_send _ _ a (v_tokens v)) as [s2|] eqn:E; [|discriminate].
  pose proof (send_pres _ _ _ _ _ H1 E). intros [= <-]. bk; auto.
Qed.
Lemma unstake_one_pres s a s' : bank_ok s -> unstake_one s a = Some s' -> bank_ok s'.
Proof.
  unfold unstake_one. intros H. destruct (get_val s a) as [v|]; [|intros [= <-]; auto].
  destruct (negb _); [intros [= <-]; auto|]. apply finish_unstaking_pres; auto.
Qed.
Lemma unstake_mature_pres s s' : bank_ok s -> unstake_mature s = Some s' -> bank_ok s'.
Proof.
  unfold unstake_mature. intros H. apply fold_opt_pres; auto.
  intros st p st' Hst. destruct (fold_opt unstake_one (snd p) st) as [st1|] eqn:E; [|discriminate].
  pose proof (fold_opt_pres unstake_one unstake_one_pres _ _ _ Hst E). intros [= <-]. bk; auto.
Qed.
Theorem end_block_pres s s' ups : bank_ok s -> end_block s = Some (s', ups) -> bank_ok s'.
Proof.
  unfold end_block. intros H. destruct (update_tm_validators s) as [[s1 u]|] eqn:E; [|discriminate].
  pose proof (update_tm_validators_pres _ _ _ H E) as H1.
  destruct (unstake_mature s1) as [s2|] eqn:E2; [|discriminate]. intros [= <- _].
  eapply unstake_mature_pres; eauto.
Qed.

(* ---- transactions ---- *)
Lemma apply_param_pres s k v raw : bank_ok s -> bank_ok (apply_param s k v raw).
Proof. unfold apply_param. intros H. destruct v; bk; auto; destruct (_ =? _)%N; bk; auto. Qed.
Definition hres_ok (r : hres) : Prop := match r with HOk s | HErr s => bank_ok s end.
Lemma handle_pres s m : bank_ok s -> hres_ok (handle s m).
Proof.
  intros H. destruct m as [pk a amt|a|a|f t amt|f key v raw wf|f t amt act|f h raw]; simpl.
  - (* stake *)
    set (v0 := match get_val s a with Some v => v | None => _ end).
    destruct (negb (v_status v0 =? 0)%N); [exact H|]. destruct (match aget (sinfo s) a with Some si => si_tomb si | None => false end); [exact H|]. destruct (amt <? p_min_stake (pp s)); [exact H|].
    destruct (bal s a <? amt); [exact H|].
    set (s1 := match get_val s a with Some _ => s | None => _ end).
    assert (H1 : bank_ok s1) by (unfold s1; destruct (get_val s a); bk; auto).
    destruct (bank_send s1 a (m_pool (ma s1)) amt) as [s2|] eqn:E; [|exact H1].
    pose proof (send_pres _ _ _ _ _ H1 E) as H2. simpl.
    match goal with |- bank_ok (match ?X with _ => _ end) => destruct X end;
      [|bk]; apply set_staked_pres; bk; auto.
  - destruct (get_val s a) as [v|]; [|exact H]. destruct (negb _); [exact H|]. destruct (_ <? _); [exact H|].
    simpl. pose proof (del_staked_pres s a v H). bk; auto.
  - destruct (get_val s a) as [v|]; [|exact H]. destruct (_ <? _); [exact H|]. destruct (negb _); [exact H|].
    destruct (aget (sinfo s) a) as [si|]; [|exact H]. destruct (si_tomb si); [exact H|]. destruct (_ <? _); [exact H|].
    destruct (unjail s a) as [s1|] eqn:E; [|exact H]. simpl. eapply unjail_pres; eauto.
  - destruct (bank_send s f t amt) as [s1|] eqn:E; [|exact H]. simpl. eapply send_pres; eauto.
  - destruct (negb _); [exact H|]. destruct wf; simpl; auto. apply apply_param_pres; auto.
  - destruct (negb _); [exact H|]. destruct (act =? 1)%N.
    + destruct (bank_send s (m_dao (ma s)) t amt) as [s1|] eqn:E; [|exact H]. simpl. eapply send_pres; eauto.
    + destruct (act =? 2)%N; [|exact H].
      destruct (bank_burn s (m_dao (ma s)) amt) as [s1|] eqn:E; [|exact H]. simpl. eapply burn_pres; eauto.
  - destruct (negb _); [exact H|]. simpl. bk; auto.
Qed.
Lemma ante_pres s t s' : bank_ok s -> ante s t = Some s' -> bank_ok s'.
Proof.
  unfold ante. intros H. destruct (_ <? _); [discriminate|].
  match goal with |- context[match ?X with Some ka => _ | None => None end] => destruct X as [ka|] end; [|discriminate].
  destruct (negb _); [discriminate|]. destruct (t_in_index t); [discriminate|]. destruct (_ <? _); [discriminate|].
  destruct (_ && _); [discriminate|]. destruct (_ || _); [discriminate|].
  destruct (aget (accts s) _) as [b|]; [|discriminate]. destruct (b <? t_fee t); [discriminate|]. apply send_pres; auto.
Qed.
Theorem deliver_tx_pres s t : bank_ok s -> bank_ok (dres_state (deliver_tx s t)).
Proof.
  intros H. unfold deliver_tx. destruct (_ || _); [exact H|].
  destruct (ante s t) as [s1|] eqn:E; [|exact H]. pose proof (ante_pres _ _ _ H E) as H1.
  pose proof (handle_pres s1 (t_msg t) H1) as Hh. destruct (handle s1 (t_msg t)); exact Hh.
Qed.

(* ---- C02 for every history: the invariant holds in every reachable state ---- *)
Theorem step_pres s o s' : bank_ok s -> step s o = Some s' -> bank_ok s'.
Proof.
  intros H. destruct o; simpl.
  - apply begin_block_pres; auto.
  - intros [= <-]. apply deliver_tx_pres; auto.
  - intros [= <-]. unfold k_award; bk; auto.
  - intros [= <-]. unfold k_burn; bk; auto.
  - destruct (end_block s) as [[s1 u]|] eqn:E; [|discriminate]. intros [= <-]. eapply end_block_pres; eauto.
  - intros [= <-]; auto.
Qed.
Theorem run_pres ops s s' : bank_ok s -> run ops s = Some s' -> bank_ok s'.
Proof. unfold run. apply fold_opt_pres. apply step_pres. Qed.

(* genesis: a consistent genesis stays consistent through InitChain *)
Theorem init_chain_pres s0 gv dao s ups : bank_ok s0 -> init_chain s0 gv dao = Some (s, ups) -> bank_ok s.
Proof.
  unfold init_chain. intros H.
  assert (G : forall l st, bank_ok st -> bank_ok (fold_left genesis_validator l st)).
  { induction l as [|[[a pk] t] l IH]; simpl; auto. }
  specialize (G gv s0 H).
  destruct (update_tm_validators _) as [[s2 u]|] eqn:E; [|discriminate].
  pose proof (update_tm_validators_pres _ _ _ G E) as H2.
  destruct (bank_mint s2 _ dao) as [s3|] eqn:E3; intros [= <- _]; auto. eapply mint_pres; eauto.
Qed.
