(* C05, first sentence: the validator updates returned by EndBlock (and InitChain) can always be applied to the set
   the module has told Tendermint so far (prevpow = the module's own record of Tendermint's set): no address twice
   in one batch, no negative power, a removal (power 0) only of an address that set contains; and the module's
   record afterwards is exactly that set with the batch applied. For every state with a sound power index. *)
From Coq Require Import List ZArith NArith Bool Lia Permutation.
From PM Require Import Base.Bytes Store.KV Store.MergeProofs Store.KVProofs Num.IntModel Num.DecModel
  App.Model App.BankProofs App.KeyProofs App.IndexProofs App.PoolProofs App.QueueProofs.
Import ListNotations.
Local Open Scope Z_scope.

Definition apply_update (m : amap Z) (u : update) : amap Z :=
  if snd u =? 0 then adel m (fst u) else aset m (fst u) (snd u).
Definition apply_updates (ups : list update) (m : amap Z) : amap Z := fold_left apply_update ups m.
Definition applicable (m : amap Z) (ups : list update) : Prop :=
  NoDup (map fst ups) /\ (forall a p, In (a, p) ups -> 0 <= p) /\ (forall a, In (a, 0) ups -> aget m a <> None).

Lemma apply_updates_app u1 u2 m : apply_updates (u1 ++ u2) m = apply_updates u2 (apply_updates u1 m).
Proof. unfold apply_updates. apply fold_left_app. Qed.
Lemma apply_updates_sorted ups : forall m, asorted m -> asorted (apply_updates ups m).
Proof.
  induction ups as [|u r IH]; simpl; auto. intros m S. apply IH. unfold apply_update.
  destruct (snd u =? 0); [apply adel_sorted|apply aset_sorted]; auto.
Qed.

(* the addresses in a sound index are pairwise distinct *)
Lemma idx_addrs_nodup V P : isound V P -> NoDup (map snd P).
Proof.
  intros (_ & SP & H). revert SP H. induction P as [|[k a] r IH]; intros SP H; simpl; [constructor|].
  destruct SP as [B S]. constructor.
  - intros Hin. apply in_map_iff in Hin. destruct Hin as ([k' a'] & Ea & Hin). simpl in Ea. subst a'.
    assert (E1 : aget ((k, a) :: r) k = Some a) by (simpl; rewrite bcompare_refl; reflexivity).
    assert (E2 : aget ((k, a) :: r) k' = Some a).
    { apply in_aget; [split; auto|right; auto]. }
    destruct (H _ _ E1) as (v1 & Ev1 & _ & _ & K1). destruct (H _ _ E2) as (v2 & Ev2 & _ & _ & K2).
    rewrite Ev1 in Ev2. injection Ev2 as <-. pose proof (B (k', a) Hin) as L. simpl in L.
    change (cmp true k k') with (bcompare k k') in L. rewrite K1, K2, bcompare_refl in L. discriminate.
  - apply IH; auto. intros k' a' E'. apply H. simpl.
    assert (Hin : In (k', a') r) by (apply aget_in; auto).
    pose proof (B (k', a') Hin) as L. simpl in L. change (cmp true k k') with (bcompare k k') in L.
    rewrite bcompare_antisym, L. simpl. exact E'.
Qed.

Section Loop.
  Variable V : amap validator.
  Hypothesis Vnonneg : forall a v, aget V a = Some v -> 0 <= v_tokens v.

  Definition loop_post (idx : list (bytes * bytes)) (s : state) (prev : amap Z) (acc : list update)
             (s' : state) (prev' : amap Z) (acc' : list update) : Prop :=
    vals s' = V /\ powidx s' = powidx s /\ asorted prev' /\ asorted (prevpow s') /\
    (forall a x, aget prev' a = Some x -> aget prev a = Some x) /\
    exists new, acc' = new ++ acc /\ prevpow s' = apply_updates (rev new) (prevpow s) /\
      NoDup (map fst new) /\
      (forall a p, In (a, p) new -> In a (map snd idx) /\ 0 < p /\ aget prev' a = None).
  Lemma loop_post_refl idx s prev acc : vals s = V -> asorted prev -> asorted (prevpow s) -> loop_post idx s prev acc s prev acc.
  Proof.
    intros EV SP SS. split; [auto|]. split; [auto|]. split; [auto|]. split; [auto|]. split; [auto|].
    exists []. split; [reflexivity|]. split; [reflexivity|]. split; [constructor|]. intros a0 p0 F. destruct F.
  Qed.
  Lemma upd_loop_spec idx : forall n s prev total acc s' prev' total' acc',
    vals s = V ->
    (forall k a, In (k, a) idx -> exists v, aget V a = Some v /\ v_status v = 2%N /\ v_jailed v = false) ->
    NoDup (map snd idx) -> asorted prev -> asorted (prevpow s) ->
    upd_loop idx n s prev total acc = Some (s', prev', total', acc') ->
    loop_post idx s prev acc s' prev' acc'.
  Proof.
    induction idx as [|[k a] r IH]; intros n s prev total acc s' prev' total' acc' EV Hidx ND SP SS.
    - destruct n; simpl; intros [= <- <- _ <-]; apply loop_post_refl; auto.
    - destruct n; simpl.
      { intros [= <- <- _ <-]; apply loop_post_refl; auto. }
      unfold get_val. rewrite EV. destruct (Hidx k a (or_introl eq_refl)) as (v & Ev & St & J). rewrite Ev, J.
      destruct (power_of (v_tokens v) =? 0) eqn:P0; [discriminate|]. apply Z.eqb_neq in P0.
      rewrite St. cbn [N.eqb Pos.eqb].
      assert (Ppos : 0 < power_of (v_tokens v)).
      { pose proof (Vnonneg a v Ev). unfold power_of in *. pose proof (Z.quot_pos (v_tokens v) 1000000 H ltac:(lia)). lia. }
      inversion ND as [|? ? NI ND']; subst.
      match goal with |- context[let '(s1, acc1) := ?X in _] => destruct X as [s1 acc1] eqn:EX end.
      intros E.
      assert (Hidx' : forall k0 a0, In (k0, a0) r -> exists v0, aget V a0 = Some v0 /\ v_status v0 = 2%N /\ v_jailed v0 = false)
        by (intros; eapply Hidx; right; eauto).
      assert (SP1 : asorted (adel prev a)) by (apply adel_sorted; auto).
      (* two cases: an update is emitted for a, or its power is unchanged *)
      assert (Cases : (s1 = s /\ acc1 = acc) \/
                      (s1 = set_prev s (aset (prevpow s) a (power_of (v_tokens v))) (prevtotal s) /\ acc1 = (a, power_of (v_tokens v)) :: acc)).
      { destruct (aget prev a) as [p|]; [destruct (p =? _)|]; injection EX as <- <-; auto. }
      destruct Cases as [[-> ->]|[-> ->]].
      + destruct (IH _ _ _ _ _ _ _ _ _ EV Hidx' ND' SP1 SS E) as (A1 & A2 & A3 & A4 & A5 & new & N1 & N2 & N3 & N4).
        split; [auto|]. split; [auto|]. split; [auto|]. split; [auto|]. split.
        * intros b x Hb. apply A5 in Hb. rewrite aget_adel in Hb by auto. destruct (beqb a b); [discriminate|auto].
        * exists new. split; [auto|]. split; [auto|]. split; [auto|]. intros b p Hin. destruct (N4 b p Hin) as (I1 & I2 & I3). split; [right; auto|auto].
      + assert (SS1 : asorted (prevpow (set_prev s (aset (prevpow s) a (power_of (v_tokens v))) (prevtotal s)))) by (apply aset_sorted; auto).
        destruct (IH _ (set_prev s (aset (prevpow s) a (power_of (v_tokens v))) (prevtotal s)) _ _ _ _ _ _ _ EV Hidx' ND' SP1 SS1 E) as (A1 & A2 & A3 & A4 & A5 & new & N1 & N2 & N3 & N4).
        split; [auto|]. split; [exact A2|]. split; [auto|]. split; [auto|]. split.
        * intros b x Hb. apply A5 in Hb. rewrite aget_adel in Hb by auto. destruct (beqb a b); [discriminate|auto].
        * exists (new ++ [(a, power_of (v_tokens v))]). split; [rewrite <- app_assoc; exact N1|]. split; [|split].
          -- rewrite N2, rev_app_distr. cbn [rev app prevpow set_prev]. unfold apply_updates at 2. cbn [fold_left].
             unfold apply_update at 2. cbn [fst snd]. destruct (Z.eqb_spec (power_of (v_tokens v)) 0); [lia|]. reflexivity.
          -- rewrite map_app. cbn [map fst].
             apply (Permutation.Permutation_NoDup (l := a :: map fst new)); [apply Permutation.Permutation_cons_append|].
             constructor; [|exact N3].
             intros Hin. apply in_map_iff in Hin. destruct Hin as ([b p] & Eb & Hin). simpl in Eb. subst b.
             destruct (N4 a p Hin) as (I1 & _). contradiction.
          -- intros a0 p H. apply in_app_or in H. destruct H as [H|[H|[]]].
             ++ destruct (N4 a0 p H) as (I1 & I2 & I3). split; [right; auto|auto].
             ++ injection H as <- <-. split; [left; reflexivity|]. split; [exact Ppos|].
                destruct (aget prev' a) as [x|] eqn:Ex; auto. apply A5 in Ex. rewrite aget_adel in Ex by auto.
                rewrite beqb_refl in Ex. discriminate.
  Qed.
End Loop.

Lemma NoDup_app' {A} (l1 l2 : list A) : NoDup l1 -> NoDup l2 -> (forall x, In x l1 -> ~ In x l2) -> NoDup (l1 ++ l2).
Proof.
  induction l1 as [|x l1 IH]; simpl; intros N1 N2 D; auto. inversion N1; subst. constructor.
  - intros Hin. apply in_app_or in Hin. destruct Hin; [contradiction|]. apply (D x); auto.
  - apply IH; auto.
Qed.
Lemma sorted_keys_nodup {X} (m : amap X) : asorted m -> NoDup (map fst m).
Proof.
  induction m as [|[k v] r IH]; simpl; intros S; [constructor|]. destruct S as [B S]. constructor; auto.
  intros Hin. apply in_map_iff in Hin. destruct Hin as ([k' v'] & Ek & Hin). simpl in Ek. subst k'.
  pose proof (B (k, v') Hin) as L. simpl in L. change (cmp true k k) with (bcompare k k) in L. rewrite bcompare_refl in L. discriminate.
Qed.
Lemma in_keys_aget {X} (m : amap X) a : asorted m -> In a (map fst m) -> exists x, aget m a = Some x.
Proof.
  intros S Hin. apply in_map_iff in Hin. destruct Hin as ([k v] & Ek & Hin). simpl in Ek. subst k. exists v. apply in_aget; auto.
Qed.
Lemma leftover_fold_prev l : forall s1 s2,
  fold_opt (fun st (p : bytes * Z) => match get_val st (fst p) with
                                      | None => None
                                      | Some _ => Some (set_prev st (adel (prevpow st) (fst p)) (prevtotal st)) end) l s1 = Some s2 ->
  prevpow s2 = apply_updates (map (fun p => (fst p, 0)) l) (prevpow s1).
Proof.
  induction l as [|p r IH]; simpl; intros s1 s2; [intros [= <-]; reflexivity|].
  destruct (get_val s1 (fst p)); [|discriminate]. intros E. rewrite (IH _ _ E). reflexivity.
Qed.

Theorem updates_applicable s s' ups : idx_sound s -> (forall a v, get_val s a = Some v -> 0 <= v_tokens v) ->
  asorted (prevpow s) -> update_tm_validators s = Some (s', ups) ->
  applicable (prevpow s) ups /\ prevpow s' = apply_updates ups (prevpow s) /\ asorted (prevpow s').
Proof.
  intros HS NN SS. unfold update_tm_validators.
  destruct (upd_loop _ _ s (prevpow s) 0 []) as [[[[s1 leftover] total] acc]|] eqn:E; [|discriminate].
  pose proof HS as (SV & SP & HI).
  assert (Hidx : forall k a, In (k, a) (rev (powidx s)) -> exists v, aget (vals s) a = Some v /\ v_status v = 2%N /\ v_jailed v = false).
  { intros k a Hin. apply in_rev in Hin. destruct (HI k a (in_aget _ _ _ SP Hin)) as (v & Ev & St & J & _). exists v; auto. }
  assert (ND : NoDup (map snd (rev (powidx s)))).
  { rewrite map_rev. apply NoDup_rev. eapply idx_addrs_nodup; eauto. }
  destruct (upd_loop_spec (vals s) NN _ _ _ _ _ _ _ _ _ _ eq_refl Hidx ND SS SS E) as (A1 & A2 & A3 & A4 & A5 & new & N1 & N2 & N3 & N4).
  rewrite app_nil_r in N1. subst acc.
  destruct (fold_opt _ leftover s1) as [s2|] eqn:E2; [|discriminate].
  pose proof (leftover_fold_prev _ _ _ E2) as P2.
  set (zeros := map (fun p : bytes * Z => (fst p, 0)) leftover) in *.
  intros [= <- <-].
  assert (Pfin : prevpow (match rev new ++ zeros with [] => s2 | _ :: _ => set_prev s2 (prevpow s2) total end) = prevpow s2)
    by (destruct (rev new ++ zeros); reflexivity).
  assert (Eq : prevpow s2 = apply_updates (rev new ++ zeros) (prevpow s)) by (rewrite apply_updates_app, <- N2; exact P2).
  split; [|split].
  - split; [|split].
    + rewrite map_app. apply NoDup_app'.
      * rewrite map_rev. apply NoDup_rev. exact N3.
      * unfold zeros. rewrite map_map. cbn [fst]. apply sorted_keys_nodup; auto.
      * intros a Hin1 Hin2. rewrite map_rev in Hin1. apply in_rev in Hin1. apply in_map_iff in Hin1.
        destruct Hin1 as ([b p] & Eb & Hin1). simpl in Eb. subst b. destruct (N4 a p Hin1) as (_ & _ & Nn).
        unfold zeros in Hin2. rewrite map_map in Hin2. cbn [fst] in Hin2.
        destruct (in_keys_aget _ _ A3 Hin2) as (x & Ex). congruence.
    + intros a p Hin. apply in_app_or in Hin. destruct Hin as [Hin|Hin].
      * apply in_rev in Hin. destruct (N4 a p Hin) as (_ & Pp & _). lia.
      * unfold zeros in Hin. apply in_map_iff in Hin. destruct Hin as (q & Eq' & _). injection Eq' as _ <-. lia.
    + intros a Hin. apply in_app_or in Hin. destruct Hin as [Hin|Hin].
      * apply in_rev in Hin. destruct (N4 a 0 Hin) as (_ & Pp & _). lia.
      * unfold zeros in Hin. apply in_map_iff in Hin. destruct Hin as ([b x] & Eq' & Hin). injection Eq' as <-. cbn [fst].
        rewrite (A5 b x (in_aget _ _ _ A3 Hin)). discriminate.
  - rewrite Pfin. exact Eq.
  - rewrite Pfin, Eq. apply apply_updates_sorted. exact SS.
Qed.

(* ================= what Tendermint's set IS after the update: the top of the power index ================= *)
Definition mem (a : bytes) (l : list bytes) : bool := existsb (beqb a) l.
Lemma mem_in a l : mem a l = true <-> In a l.
Proof.
  unfold mem. rewrite existsb_exists. split.
  - intros (x & Hx & B). apply beqb_eq in B. subst; auto.
  - intros H. exists a. split; auto. apply beqb_refl.
Qed.
Lemma mem_notin a l : mem a l = false <-> ~ In a l.
Proof.
  rewrite <- mem_in. destruct (mem a l); split; intros H.
  - discriminate.
  - exfalso. apply H. reflexivity.
  - intros X. discriminate.
  - reflexivity.
Qed.

Section Walk.
  Variable V : amap validator.
  Lemma upd_loop_walk idx : forall n s prev total acc s' prev' total' acc',
    vals s = V ->
    (forall k a, In (k, a) idx -> exists v, aget V a = Some v /\ v_status v = 2%N /\ v_jailed v = false) ->
    NoDup (map snd idx) -> asorted prev -> asorted (prevpow s) ->
    (forall a, In a (map snd idx) -> aget prev a = aget (prevpow s) a) ->
    upd_loop idx n s prev total acc = Some (s', prev', total', acc') ->
    let walked := map snd (firstn n idx) in
    asorted (prevpow s') /\
    (forall a, aget prev' a = if mem a walked then None else aget prev a) /\
    (forall a, In a walked -> exists v, aget V a = Some v /\ aget (prevpow s') a = Some (power_of (v_tokens v))) /\
    (forall a, ~ In a walked -> aget (prevpow s') a = aget (prevpow s) a).
  Proof.
    induction idx as [|[k a] r IH]; intros n s prev total acc s' prev' total' acc' EV Hidx ND SP SS Link.
    - destruct n; simpl; intros [= <- <- _ _]; (split; [auto|]); (split; [intros; reflexivity|]); (split; [intros ? []|auto]).
    - destruct n; simpl.
      { intros [= <- <- _ _]; (split; [auto|]); (split; [intros; reflexivity|]); (split; [intros ? []|auto]). }
      unfold get_val. rewrite EV. destruct (Hidx k a (or_introl eq_refl)) as (v & Ev & St & J). rewrite Ev, J.
      destruct (power_of (v_tokens v) =? 0); [discriminate|]. rewrite St. cbn [N.eqb Pos.eqb].
      inversion ND as [|x0 l0 NI ND' Ex0]. clear Ex0.
      match goal with |- context[let '(s1, acc1) := ?X in _] => destruct X as [s1 acc1] eqn:EX end.
      intros E. set (cur := power_of (v_tokens v)) in *.
      assert (Hidx' : forall k0 a0, In (k0, a0) r -> exists v0, aget V a0 = Some v0 /\ v_status v0 = 2%N /\ v_jailed v0 = false)
        by (intros; eapply Hidx; right; eauto).
      assert (SP1 : asorted (adel prev a)) by (apply adel_sorted; auto).
      assert (S1 : vals s1 = V /\ asorted (prevpow s1) /\ aget (prevpow s1) a = Some cur /\
                   (forall b, b <> a -> aget (prevpow s1) b = aget (prevpow s) b)).
      { pose proof (Link a (or_introl eq_refl)) as La.
        destruct (aget prev a) as [p|] eqn:Ep; [destruct (Z.eqb_spec p cur)|]; injection EX as <- _.
        - subst p. split; [auto|]. split; [auto|]. split; [rewrite <- La; reflexivity|auto].
        - cbn [vals prevpow set_prev]. repeat split; auto; [apply aset_sorted; auto|rewrite aget_aset by auto; rewrite beqb_refl; reflexivity|].
          intros b Nb. rewrite aget_aset by auto. destruct (beqb a b) eqn:B; auto. apply beqb_eq in B. congruence.
        - cbn [vals prevpow set_prev]. repeat split; auto; [apply aset_sorted; auto|rewrite aget_aset by auto; rewrite beqb_refl; reflexivity|].
          intros b Nb. rewrite aget_aset by auto. destruct (beqb a b) eqn:B; auto. apply beqb_eq in B. congruence. }
      destruct S1 as (EV1 & SS1 & A1 & O1).
      assert (Link1 : forall b, In b (map snd r) -> aget (adel prev a) b = aget (prevpow s1) b).
      { intros b Hb. assert (Nb : b <> a) by (intros ->; contradiction). rewrite aget_adel by auto.
        destruct (beqb a b) eqn:B; [apply beqb_eq in B; congruence|]. rewrite O1 by auto. apply Link. right; auto. }
      destruct (IH _ _ _ _ _ _ _ _ _ EV1 Hidx' ND' SP1 SS1 Link1 E) as (R0 & R1 & R2 & R3). cbn zeta in *.
      cbn [firstn map snd]. split; [exact R0|]. split; [|split].
      + intros b. rewrite R1. cbn [mem existsb]. fold (mem b (map snd (firstn n r))). rewrite aget_adel by auto.
        destruct (beqb b a) eqn:Bba.
        * apply beqb_eq in Bba. subst b. cbn [orb]. rewrite beqb_refl. destruct (mem a (map snd (firstn n r))); reflexivity.
        * cbn [orb]. destruct (mem b (map snd (firstn n r))); auto. destruct (beqb a b) eqn:Bab; auto.
          apply beqb_eq in Bab. subst. rewrite beqb_refl in Bba. discriminate.
      + intros b [<-|Hb].
        * exists v. split; auto. rewrite R3; auto. intros Hin. apply NI.
          apply in_map_iff in Hin. destruct Hin as (x & Ex & Hx). apply in_map_iff. exists x. split; auto.
          clear - Hx. revert Hx. generalize n. induction r as [|y r' IHr]; intros [|m] Hm; simpl in Hm; try contradiction.
          destruct Hm as [<-|Hm]; [left; auto|right; eauto].
        * apply R2. exact Hb.
      + intros b Nb. rewrite R3 by (intros Hr; apply Nb; right; exact Hr). apply O1. intros ->. apply Nb. left; reflexivity.
  Qed.
End Walk.

Theorem tm_set_is_top_of_index s s' ups : idx_sound s -> dsorted true (prevpow s) -> update_tm_validators s = Some (s', ups) ->
  let walked := map snd (firstn (Z.to_nat (p_max_validators (pp s))) (rev (powidx s))) in
  forall a, aget (prevpow s') a =
            if mem a walked then option_map (fun v => power_of (v_tokens v)) (get_val s a) else None.
Proof.
  intros HS SS. unfold update_tm_validators.
  destruct (upd_loop _ _ s (prevpow s) 0 []) as [[[[s1 leftover] total] acc]|] eqn:E; [|discriminate].
  pose proof HS as (SV & SP & HI).
  assert (Hidx : forall k a, In (k, a) (rev (powidx s)) -> exists v, aget (vals s) a = Some v /\ v_status v = 2%N /\ v_jailed v = false).
  { intros k a Hin. apply in_rev in Hin. destruct (HI k a (in_aget _ _ _ SP Hin)) as (v & Ev & St & J & _). exists v; auto. }
  assert (ND : NoDup (map snd (rev (powidx s)))).
  { rewrite map_rev. apply NoDup_rev. eapply idx_addrs_nodup; eauto. }
  destruct (upd_loop_walk (vals s) _ _ _ _ _ _ _ _ _ _ eq_refl Hidx ND SS SS (fun a _ => eq_refl) E) as (R0 & R1 & R2 & R3).
  cbn zeta in *. set (walked := map snd (firstn (Z.to_nat (p_max_validators (pp s))) (rev (powidx s)))) in *.
  destruct (fold_opt _ leftover s1) as [s2|] eqn:E2; [|discriminate].
  pose proof (leftover_fold_prev _ _ _ E2) as P2. intros [= <- _] a.
  assert (Pfin : forall x : list update, prevpow (match x with [] => s2 | _ :: _ => set_prev s2 (prevpow s2) total end) = prevpow s2)
    by (intros [|? ?]; reflexivity).
  rewrite Pfin, P2.
  (* deleting the leftover addresses *)
  assert (SL : asorted leftover).
  { (* leftover is the shrunk copy of prevpow s: adel keeps sortedness *)
    assert (G : forall idx n s0 prev total0 acc0 s0' prev' total0' acc0', asorted prev ->
               upd_loop idx n s0 prev total0 acc0 = Some (s0', prev', total0', acc0') -> asorted prev').
    { induction idx as [|[k0 a0] r0 IHi]; intros n0 s0 prev total0 acc0 s0' prev' total0' acc0' Sp0.
      - destruct n0; simpl; intros [= _ <- _ _]; auto.
      - destruct n0; simpl; [intros [= _ <- _ _]; auto|].
        destruct (get_val s0 a0) as [v0|]; [|discriminate]. destruct (v_jailed v0); [discriminate|].
        destruct (power_of (v_tokens v0) =? 0); [discriminate|].
        match goal with |- context[let '(q1, q2) := ?X in _] => destruct X as [sq accq] end.
        intros Ex. eapply IHi; [|exact Ex]. apply adel_sorted; auto. }
    eapply G; [exact SS|exact E]. }
  assert (Del : forall (l : amap Z) m, asorted m -> aget (apply_updates (map (fun p => (fst p, 0)) l) m) a =
                                  if mem a (map fst l) then None else aget m a).
  { induction l as [|[b x] l IHl]; intros m Sm; cbn [map apply_updates fold_left]; [reflexivity|].
    unfold apply_update at 2. cbn [fst snd]. change (0 =? 0) with true. cbv iota. fold (apply_updates (map (fun p => (fst p, 0)) l) (adel m b)).
    rewrite IHl by (apply adel_sorted; auto). cbn [mem existsb map fst]. fold (mem a (map fst l)).
    rewrite aget_adel by auto. destruct (beqb a b) eqn:Bab.
    - apply beqb_eq in Bab. subst b. cbn [orb]. rewrite beqb_refl. destruct (mem a (map fst l)); reflexivity.
    - cbn [orb]. destruct (mem a (map fst l)); auto. destruct (beqb b a) eqn:Bba; auto. apply beqb_eq in Bba. subst. rewrite beqb_refl in Bab. discriminate. }
  rewrite Del by exact R0.
  destruct (mem a walked) eqn:Mw.
  - apply mem_in in Mw. destruct (R2 a Mw) as (v & Ev & Ep).
    assert (NL : mem a (map fst leftover) = false).
    { apply mem_notin. intros Hin. destruct (in_keys_aget _ _ SL Hin) as (x & Ex). rewrite R1 in Ex.
      rewrite (proj2 (mem_in a walked) Mw) in Ex. discriminate. }
    rewrite NL, Ep. unfold get_val. rewrite Ev. reflexivity.
  - pose proof (proj1 (mem_notin a walked) Mw) as Nw. rewrite (R3 a Nw).
    destruct (aget (prevpow s) a) as [x|] eqn:Ex.
    + assert (YL : mem a (map fst leftover) = true).
      { apply mem_in. apply in_map_iff. exists (a, x). split; auto. apply aget_in. rewrite R1, Mw. exact Ex. }
      rewrite YL. reflexivity.
    + destruct (mem a (map fst leftover)); reflexivity.
Qed.

Lemma in_firstn {A} n : forall (l : list A) x, In x (firstn n l) -> In x l.
Proof. induction n as [|n IH]; intros l x; [intros []|]. destruct l as [|y l]; cbn [firstn]; [intros []|]. intros [E|I]; [left; exact E|right; apply IH; exact I]. Qed.

(* C09: from the validator-set update on, a jailed (or not staked) validator is not in the set the module reports to
   Tendermint - whatever power it had before *)
Theorem jailed_absent_from_tm_set s s' ups a v : idx_sound s -> dsorted true (prevpow s) -> update_tm_validators s = Some (s', ups) ->
  get_val s a = Some v -> (v_jailed v = true \/ v_status v <> 2%N) -> aget (prevpow s') a = None.
Proof.
  intros HS SS E Ev Bad. rewrite (tm_set_is_top_of_index s s' ups HS SS E a). cbv zeta.
  destruct (mem a (map snd (firstn (Z.to_nat (p_max_validators (pp s))) (rev (powidx s))))) eqn:M; [|reflexivity].
  exfalso. apply mem_in in M. apply in_map_iff in M. destruct M as ([k a'] & Ea & I). cbn [snd] in Ea. subst a'.
  apply in_firstn in I. apply in_rev in I. destruct HS as (SV & SP & HI).
  destruct (HI k a (in_aget _ _ _ SP I)) as (w & Ew & St & J & _). unfold get_val in Ev. rewrite Ev in Ew. injection Ew as <-.
  destruct Bad as [Bj|Bs]; congruence.
Qed.
(* ... and an unjailed, staked validator inside the MaxValidators cut-off is in it with exactly the power of its stake *)
Theorem member_has_the_power_of_its_stake s s' ups a p : idx_sound s -> dsorted true (prevpow s) -> update_tm_validators s = Some (s', ups) ->
  aget (prevpow s') a = Some p -> exists v, get_val s a = Some v /\ v_status v = 2%N /\ v_jailed v = false /\ p = power_of (v_tokens v).
Proof.
  intros HS SS E Ep. rewrite (tm_set_is_top_of_index s s' ups HS SS E a) in Ep. cbv zeta in Ep.
  destruct (mem a (map snd (firstn (Z.to_nat (p_max_validators (pp s))) (rev (powidx s))))) eqn:M; [|discriminate].
  apply mem_in in M. apply in_map_iff in M. destruct M as ([k a'] & Ea & I). cbn [snd] in Ea. subst a'.
  apply in_firstn in I. apply in_rev in I. destruct HS as (SV & SP & HI).
  destruct (HI k a (in_aget _ _ _ SP I)) as (w & Ew & St & J & _). exists w. unfold get_val in *. rewrite Ew in Ep. cbn in Ep.
  injection Ep as <-. auto.
Qed.
