(* C05 / C20: the power-rank key orders validators by (power, inverted address): iterating the
   index backwards yields power descending, address ascending. Big-endian fixed-width encoding
   preserves the order of numbers; byte inversion reverses the order of equal-length strings. *)
From Coq Require Import List ZArith NArith Bool Lia.
From PM Require Import Base.Bytes App.Model.
Import ListNotations.
Local Open Scope Z_scope.

Lemma bcompare_snoc a : forall b x y, length a = length b ->
  bcompare (a ++ [x]) (b ++ [y]) = match bcompare a b with Eq => (x ?= y)%N | c => c end.
Proof.
  induction a as [|p a IH]; intros [|q b] x y L; simpl in L; try discriminate.
  - simpl. destruct (x ?= y)%N; reflexivity.
  - simpl. destruct (p ?= q)%N; auto.
Qed.
Lemma be_bytes_length n z : length (be_bytes n z) = n.
Proof. revert z; induction n as [|n IH]; intros z; simpl; auto. rewrite app_length, IH. simpl. lia. Qed.

Lemma be_bytes_compare n : forall x y, 0 <= x < 256 ^ Z.of_nat n -> 0 <= y < 256 ^ Z.of_nat n ->
  bcompare (be_bytes n x) (be_bytes n y) = (x ?= y).
Proof.
  induction n as [|n IH]; intros x y Hx Hy.
  - simpl in *. assert (x = 0) by lia. assert (y = 0) by lia. subst. reflexivity.
  - cbn [be_bytes]. rewrite bcompare_snoc by (rewrite !be_bytes_length; auto).
    rewrite Nat2Z.inj_succ, Z.pow_succ_r in Hx, Hy by lia.
    assert (Hx' : 0 <= x / 256 < 256 ^ Z.of_nat n) by (split; [apply Z.div_pos; lia|apply Z.div_lt_upper_bound; lia]).
    assert (Hy' : 0 <= y / 256 < 256 ^ Z.of_nat n) by (split; [apply Z.div_pos; lia|apply Z.div_lt_upper_bound; lia]).
    rewrite IH by auto.
    pose proof (Z.div_mod x 256 ltac:(lia)). pose proof (Z.div_mod y 256 ltac:(lia)).
    pose proof (Z.mod_pos_bound x 256 ltac:(lia)). pose proof (Z.mod_pos_bound y 256 ltac:(lia)).
    destruct (Z.compare_spec (x / 256) (y / 256)) as [E|L|G].
    + rewrite (Z2N.inj_compare (x mod 256) (y mod 256)) by lia.
      destruct (Z.compare_spec (x mod 256) (y mod 256));
        symmetry; [apply Z.compare_eq_iff|apply Z.compare_lt_iff|apply Z.compare_gt_iff]; lia.
    + symmetry. apply Z.compare_lt_iff. lia.
    + symmetry. apply Z.compare_gt_iff. lia.
Qed.

Lemma inv_bytes_compare a : forall b, wf_bytes a -> wf_bytes b -> length a = length b ->
  bcompare (inv_bytes a) (inv_bytes b) = bcompare b a.
Proof.
  induction a as [|x a IH]; intros [|y b] Wa Wb L; simpl in L; try discriminate; auto.
  inversion Wa; inversion Wb; subst. cbn [inv_bytes map bcompare]. fold (inv_bytes a). fold (inv_bytes b).
  assert (E : ((255 - x ?= 255 - y) = (y ?= x))%N).
  { destruct (N.compare_spec y x); [apply N.compare_eq_iff|apply N.compare_lt_iff|apply N.compare_gt_iff]; lia. }
  rewrite E. destruct (y ?= x)%N; auto.
Qed.
Lemma bcompare_app_eqlen p : forall q a b, length p = length q ->
  bcompare (p ++ a) (q ++ b) = match bcompare p q with Eq => bcompare a b | c => c end.
Proof.
  induction p as [|x p IH]; intros [|y q] a b L; simpl in L; try discriminate; auto.
  simpl. destruct (x ?= y)%N; auto.
Qed.

(* C05/C20: byte order of the rank keys = (power ascending, then address DEscending); so the
   reverse iteration used by UpdateTendermintValidators is power descending, address ascending *)
Theorem rank_key_order t1 a1 t2 a2 :
  0 <= power_of t1 < 2 ^ 64 -> 0 <= power_of t2 < 2 ^ 64 ->
  wf_bytes a1 -> wf_bytes a2 -> length a1 = length a2 ->
  bcompare (rank_key t1 a1) (rank_key t2 a2) =
  match power_of t1 ?= power_of t2 with Eq => bcompare a2 a1 | c => c end.
Proof.
  intros P1 P2 W1 W2 L. unfold rank_key.
  rewrite bcompare_app_eqlen by (rewrite !be_bytes_length; auto).
  rewrite be_bytes_compare by (simpl; lia).
  rewrite inv_bytes_compare by auto. reflexivity.
Qed.
(* distinct validators never share a rank key *)
Theorem rank_key_injective t1 a1 t2 a2 :
  0 <= power_of t1 < 2 ^ 64 -> 0 <= power_of t2 < 2 ^ 64 ->
  wf_bytes a1 -> wf_bytes a2 -> length a1 = length a2 ->
  rank_key t1 a1 = rank_key t2 a2 -> power_of t1 = power_of t2 /\ a1 = a2.
Proof.
  intros P1 P2 W1 W2 L E. pose proof (rank_key_order t1 a1 t2 a2 P1 P2 W1 W2 L) as O.
  rewrite E, bcompare_refl in O. destruct (Z.compare_spec (power_of t1) (power_of t2)); try discriminate.
  split; auto. symmetry. apply bcompare_eq. auto.
Qed.
