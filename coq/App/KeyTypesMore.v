(* History-level invariants under the key-type restriction (App/KeyTypes.v), for the invariants that ask something of every
   operation: the pool backs the recorded stake (C04), exactly (C04, no gifts), and the missed counter equals the stored
   misses (C08). *)
From Coq Require Import List ZArith NArith Bool Lia.
From PM Require Import Base.Bytes Store.KV Num.IntModel App.Model App.BankProofs App.TxProofs App.PoolProofs App.PoolExact
  App.MissedProofs App.IndexProofs App.TombProofs App.GovProofs App.KeyTypes.
Import ListNotations.
Local Open Scope Z_scope.

Theorem run_cp_pool MA r ops s s' : pool_ok MA s -> Forall (op_ok MA) ops -> run_cp r ops s = Some s' -> pool_ok MA s'.
Proof.
  intros H F. revert s s' H. apply (run_cp_inv_P (pool_ok MA) (op_ok MA)); [exact (step_pool MA)| |exact F].
  intros x t x' Hx K E. exact (ante_pool MA x t x' Hx K E).
Qed.
Theorem run_cp_px MA r ops s s' : px MA s -> Forall (op_nogift MA) ops -> run_cp r ops s = Some s' -> px MA s'.
Proof.
  intros H F. revert s s' H. apply (run_cp_inv_P (px MA) (op_nogift MA)); [exact (step_px MA)| |exact F].
  intros x t x' Hx K E. destruct K as [K _]. exact (ante_px MA x t x' Hx K E).
Qed.
Theorem run_cp_mok L r ops s s' : missed_ok L s -> Forall (op_len_ok L) ops -> run_cp r ops s = Some s' -> missed_ok L s'.
Proof.
  intros H F. revert s s' H. apply (run_cp_inv_P (missed_ok L) (op_len_ok L)); [exact (step_mok L)| |exact F].
  intros x t x' Hx _ E. exact (sm_ok L x x' (sm_ante x t x' E) Hx).
Qed.

(* C09 under the restriction: a tombstone is never lifted, a tombstoned validator stays jailed and never regains an index entry *)
Theorem run_cp_tk r ops s s' : tomb_ok s -> run_cp r ops s = Some s' -> tk s s'.
Proof.
  intros H. apply (run_cp_inv (fun x => tk s x)).
  - intros x o x' Hx E. eapply tk_trans; [exact Hx|]. apply (step_tk x o x' (proj1 Hx) E).
  - intros x t x' Hx E. eapply tk_trans; [exact Hx|]. apply (ante_tk x t x' (proj1 Hx) E).
  - apply tk_refl; exact H.
Qed.
Theorem tombstoned_forever_cp r ops s s' a : tomb_ok s -> tombed (sinfo s) a -> run_cp r ops s = Some s' ->
  tombed (sinfo s') a /\ forall v, get_val s' a = Some v -> v_jailed v = true.
Proof.
  intros H T E. destruct (run_cp_tk r ops s s' H E) as [O M]. split; [apply M; exact T|].
  intros v Ev. destruct O as (_ & _ & HO). apply (HO a v); auto.
Qed.
Theorem tombstoned_never_indexed_cp r ops s s' a : tomb_ok s -> idx_sound s -> tombed (sinfo s) a -> run_cp r ops s = Some s' ->
  forall k, aget (powidx s') k <> Some a.
Proof.
  intros H I T E k Hk. destruct (tombstoned_forever_cp r ops s s' a H T E) as [_ J].
  pose proof (run_cp_idx_sound r ops s s' I E) as I'. destruct (indexed_is_staked_unjailed s' k a I' Hk) as (v & Ev & _ & Jv & _).
  rewrite (J v Ev) in Jv. discriminate.
Qed.

(* C17 under the restriction: over the whole block cycle only a delivered change-parameter / upgrade transaction of the ACL
   owner changes a parameter, the ACL, the DAO owner or the upgrade plan (a refused stake ends in the ante handler's state,
   which changes none of them) *)
Theorem params_change_only_by_owner_tx_cp r s o s' : step_cp r s o = Some s' -> gov_view s' <> gov_view s ->
  exists t s1, o = OTx t /\ ante s t = Some s1 /\ acl s1 = acl s /\
    ((exists f key v raw wf, t_msg t = MChangeParam f key v raw wf /\ beqb (owner_of (acl s) key) f = true /\ msg_signer (t_msg t) = f) \/
     (exists f h raw, t_msg t = MUpgrade f h raw /\ beqb (owner_of (acl s) [103;111;118;47;117;112;103;114;97;100;101]%N) f = true)).
Proof.
  destruct o as [h tm p vs es|t|a amt|a sev| |]; try (exact (params_change_only_by_owner_tx s _ s')).
  simpl. intros [= <-] N. destruct (deliver_tx_cp_cases r s t) as [E|E].
  - rewrite E in N. apply (params_change_only_by_owner_tx s (OTx t) (dres_state (deliver_tx s t))); [reflexivity|exact N].
  - exfalso. apply N. exact (gv_ante s t _ E).
Qed.
