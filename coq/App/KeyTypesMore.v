(* History-level invariants under the key-type restriction (App/KeyTypes.v), for the invariants that ask something of every
   operation: the pool backs the recorded stake (C04), exactly (C04, no gifts), and the missed counter equals the stored
   misses (C08). *)
From Coq Require Import List ZArith NArith Bool Lia.
From PM Require Import Base.Bytes Store.KV Num.IntModel App.Model App.BankProofs App.TxProofs App.PoolProofs App.PoolExact
  App.MissedProofs App.KeyTypes.
Import ListNotations.
Local Open Scope Z_scope.

Theorem run_cp_pool MA r ops s s' : pool_ok MA s -> Forall (op_ok MA) ops -> run_cp r ops s = Some s' -> pool_ok MA s'.
Proof.
  intros H F. revert s s' H. apply (run_cp_inv_P (pool_ok MA) (op_ok MA)); [exact (step_pool MA)| |exact F].
  intros x t x' Hx K E. exact (ante_pool MA x t x' Hx K E).
Qed.
Theorem run_cp_px MA r ops s s' : px MA s -> Forall (op_nogift MA) ops -> run_cp r ops s = Some s' -> px MA s'.
Proof.
  intros H F. revert s s' H. apply (run_cp_inv_P (px MA) (op_nogift MA)); [exact (step_px MA)| |exact F].
  intros x t x' Hx K E. destruct K as [K _]. exact (ante_px MA x t x' Hx K E).
Qed.
Theorem run_cp_mok L r ops s s' : missed_ok L s -> Forall (op_len_ok L) ops -> run_cp r ops s = Some s' -> missed_ok L s'.
Proof.
  intros H F. revert s s' H. apply (run_cp_inv_P (missed_ok L) (op_len_ok L)); [exact (step_mok L)| |exact F].
  intros x t x' Hx _ E. exact (sm_ok L x x' (sm_ante x t x' E) Hx).
Qed.
