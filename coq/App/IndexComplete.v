(* C05 / C06, the converse of IndexProofs: in every reachable state every validator that is staked and
   not jailed IS in the power index, under the key of its current stake. Together with the soundness
   this is "the power index lists EXACTLY the staked, unjailed validators under a key matching their
   current stake". Premise (visible): validator addresses are well-formed byte strings (< 256 per
   byte) - true of every address that enters through a transaction or the genesis file. *)
From Coq Require Import List ZArith NArith Bool Lia.
From PM Require Import Base.Bytes Store.KV Store.MergeProofs Store.KVProofs Num.IntModel Num.DecModel
  App.Model App.BankProofs App.KeyProofs App.IndexProofs.
Import ListNotations.
Local Open Scope Z_scope.

Lemma inv_bytes_inj a : forall b, wf_bytes a -> wf_bytes b -> inv_bytes a = inv_bytes b -> a = b.
Proof.
  induction a as [|x a IH]; intros [|y b] Wa Wb E; try discriminate; auto.
  apply Forall_cons_iff in Wa. apply Forall_cons_iff in Wb. destruct Wa as [Hx Wa], Wb as [Hy Wb].
  change (inv_bytes (x :: a)) with ((255 - x)%N :: inv_bytes a) in E. change (inv_bytes (y :: b)) with ((255 - y)%N :: inv_bytes b) in E.
  pose proof (f_equal (hd 0%N) E) as E1. pose proof (f_equal (@tl _) E) as E2. cbn [hd tl] in E1, E2.
  assert (x = y) by lia. subst. f_equal. apply IH; auto.
Qed.
(* two rank keys of different (well-formed) addresses never coincide, whatever the stakes *)
Lemma rank_key_addr_inj t1 a1 t2 a2 : wf_bytes a1 -> wf_bytes a2 -> rank_key t1 a1 = rank_key t2 a2 -> a1 = a2.
Proof.
  intros W1 W2 E. unfold rank_key in E.
  assert (L : length (be_bytes 8 (power_of t1)) = length (be_bytes 8 (power_of t2))) by (rewrite !be_bytes_length; reflexivity).
  assert (E2 : inv_bytes a1 = inv_bytes a2).
  { revert E L. generalize (be_bytes 8 (power_of t1)) (be_bytes 8 (power_of t2)). intros p q.
    revert q. induction p as [|x p IH]; intros [|y q] E L; simpl in *; try discriminate; auto.
    injection E as _ E. apply (IH q); auto. }
  apply inv_bytes_inj; auto.
Qed.

Definition icomp (V : amap validator) (P : amap bytes) : Prop :=
  asorted V /\ asorted P /\ (forall a v, aget V a = Some v -> wf_bytes a) /\
  forall a v, aget V a = Some v -> v_status v = 2%N -> v_jailed v = false -> aget P (rank_key (v_tokens v) a) = Some a.
(* ... for every validator but x *)
Definition icompx (x : bytes) (V : amap validator) (P : amap bytes) : Prop :=
  asorted V /\ asorted P /\ (forall a v, aget V a = Some v -> wf_bytes a) /\
  forall a v, a <> x -> aget V a = Some v -> v_status v = 2%N -> v_jailed v = false -> aget P (rank_key (v_tokens v) a) = Some a.
Definition idx_complete (s : state) : Prop := icomp (vals s) (powidx s).

Lemma icomp_weaken x V P : icomp V P -> icompx x V P.
Proof. intros (SV & SP & W & H). split; [auto|]. split; [auto|]. split; [auto|]. intros a v _. apply H. Qed.
(* deleting one of x's keys cannot remove anybody else's entry *)
Lemma icompx_del x V P t : wf_bytes x -> icompx x V P -> icompx x V (adel P (rank_key t x)).
Proof.
  intros Wx (SV & SP & W & H). split; auto. split; [apply adel_sorted; auto|]. split; auto.
  intros a v N E St J. rewrite aget_adel by auto. destruct (beqb (rank_key t x) (rank_key (v_tokens v) a)) eqn:B; [|apply H; auto].
  apply beqb_eq in B. apply rank_key_addr_inj in B; auto; [congruence|eapply W; eauto].
Qed.
(* inserting one of x's keys cannot overwrite anybody else's entry *)
Lemma icompx_ins x V P t : wf_bytes x -> icompx x V P -> icompx x V (aset P (rank_key t x) x).
Proof.
  intros Wx (SV & SP & W & H). split; auto. split; [apply aset_sorted; auto|]. split; auto.
  intros a v N E St J. rewrite aget_aset by auto. destruct (beqb (rank_key t x) (rank_key (v_tokens v) a)) eqn:B; [|apply H; auto].
  apply beqb_eq in B. apply rank_key_addr_inj in B; auto; [congruence|eapply W; eauto].
Qed.
Lemma icompx_put x V P v1 : wf_bytes x -> icompx x V P -> icompx x (aset V x v1) P.
Proof.
  intros Wx (SV & SP & W & H). split; [apply aset_sorted; auto|]. split; auto. split.
  - intros a v. rewrite aget_aset by auto. destruct (beqb x a) eqn:B; [apply beqb_eq in B; subst; auto|apply W].
  - intros a v N. rewrite aget_aset by auto. destruct (beqb x a) eqn:B; [apply beqb_eq in B; congruence|]. apply H; auto.
Qed.
Lemma icompx_delval x V P : icompx x V P -> icompx x (adel V x) P.
Proof.
  intros (SV & SP & W & H). split; [apply adel_sorted; auto|]. split; auto. split.
  - intros a v. rewrite aget_adel by auto. destruct (beqb x a); [discriminate|apply W].
  - intros a v N. rewrite aget_adel by auto. destruct (beqb x a); [discriminate|]. apply H; auto.
Qed.
Lemma icompx_close x V P : icompx x V P ->
  (forall v, aget V x = Some v -> v_status v = 2%N -> v_jailed v = false -> aget P (rank_key (v_tokens v) x) = Some x) -> icomp V P.
Proof.
  intros (SV & SP & W & H) Hx. split; auto. split; auto. split; auto. intros a v E St J.
  destruct (list_eq_dec N.eq_dec a x) as [->|N]; [apply Hx; auto|apply H; auto].
Qed.

Ltac ck := unfold idx_complete in *; cbn [vals powidx set_bank set_vals set_powidx set_prev set_unstq set_sign
                                          set_queues set_misc set_params set_block put_val del_staked] in *.
Lemma ic_frame s s' : vals s' = vals s -> powidx s' = powidx s -> idx_complete s -> idx_complete s'.
Proof. unfold idx_complete. intros -> ->. auto. Qed.
Lemma wf_of s a v : idx_complete s -> get_val s a = Some v -> wf_bytes a.
Proof. intros (_ & _ & W & _) E. eapply W; eauto. Qed.

(* the pattern of every record update: drop the old key, write the record, insert the new key if eligible *)
Lemma reindex_ic s a v v1 : idx_complete s -> get_val s a = Some v ->
  idx_complete (set_staked (put_val (del_staked s a v) a v1) a v1).
Proof.
  intros H E. pose proof (wf_of s a v H E) as Wa.
  assert (X : icompx a (aset (vals s) a v1) (adel (powidx s) (rank_key (v_tokens v) a))).
  { apply icompx_put; auto. apply icompx_del; auto. apply icomp_weaken; auto. }
  unfold set_staked. destruct (v_jailed v1 || negb (v_status v1 =? 2)%N) eqn:C.
  - ck. apply (icompx_close a); auto. intros w. rewrite aget_aset by apply H. rewrite beqb_refl. intros [= <-] St J.
    rewrite J, St in C. discriminate.
  - ck. apply (icompx_close a); [apply icompx_ins; auto|].
    intros w. rewrite aget_aset by apply H. rewrite beqb_refl. intros [= <-] _ _.
    rewrite aget_aset by (apply adel_sorted; apply H). rewrite beqb_refl. reflexivity.
Qed.
(* drop the old key and write a record that is not eligible *)
Lemma unindex_ic s a v v1 : idx_complete s -> get_val s a = Some v -> (v_status v1 <> 2%N \/ v_jailed v1 = true) ->
  idx_complete (put_val (del_staked s a v) a v1).
Proof.
  intros H E C. pose proof (wf_of s a v H E) as Wa. ck. apply (icompx_close a).
  - apply icompx_put; auto. apply icompx_del; auto. apply icomp_weaken; auto.
  - intros w. rewrite aget_aset by apply H. rewrite beqb_refl. intros [= <-] St J. destruct C; congruence.
Qed.

Lemma force_unstake_ic s a v s' : idx_complete s -> get_val s a = Some v -> force_unstake s a v = Some s' -> idx_complete s'.
Proof.
  unfold force_unstake. intros H E.
  set (s1 := if (v_status v =? 1)%N then del_unstaking (del_staked s a v) a v else del_staked s a v).
  assert (F1 : vals s1 = vals s /\ powidx s1 = adel (powidx s) (rank_key (v_tokens v) a)).
  { unfold s1. destruct (v_status v =? 1)%N; auto. }
  destruct F1 as [F1 F2].
  destruct (if 0 <? v_tokens v then burn_staked s1 (v_tokens v) else Some s1) as [s2|] eqn:E2; [|discriminate].
  assert (G : vals s2 = vals s1 /\ powidx s2 = powidx s1).
  { destruct (0 <? v_tokens v); [apply burn_staked_frame in E2; tauto|injection E2 as <-; auto]. }
  destruct G as [G1 G2]. intros [= <-].
  pose proof (unindex_ic s a v (with_status (with_tokens v 0) 0) H E) as X.
  unfold idx_complete. cbn [vals powidx put_val set_vals]. rewrite G1, G2, F1, F2. apply X. left. cbn. discriminate.
Qed.
Definition sres_ic (r : sres) : Prop := match r with SOk s | SErr s => idx_complete s | SPanic => True end.
Lemma slash_ic s a h p f : idx_complete s -> sres_ic (slash s a h p f).
Proof.
  intros H. unfold slash.
  destruct (f <? 0); [exact H|]. destruct (height s <? h); [exact H|].
  destruct (get_val s a) as [v|] eqn:E; [|exact H].
  destruct (v_status v =? 0)%N; [exact H|].
  destruct (tokens_from_power p) as [amount|]; [|exact I].
  destruct (dec_mul (dec_from_int amount) f) as [d|]; [|exact I].
  destruct (dec_truncate_int d) as [sa|]; [|exact I].
  set (burn := Z.max (Z.min sa (v_tokens v)) 0).
  set (v1 := with_tokens v (v_tokens v - burn)).
  set (s2 := set_staked (put_val (del_staked s a v) a v1) a v1).
  assert (H2 : idx_complete s2) by (apply reindex_ic; auto).
  assert (G2 : get_val s2 a = Some v1).
  { unfold get_val, s2. rewrite set_staked_vals. apply get_put_val. apply H. }
  destruct (burn_staked s2 burn) as [s3|] eqn:E3; [|exact H2].
  destruct (burn_staked_frame _ _ _ E3) as (F1 & F2 & _).
  assert (H3 : idx_complete s3) by (eapply ic_frame; eauto).
  destruct (v_tokens v1 <? p_min_stake (pp s3)); [|exact H3].
  destruct (force_unstake s3 a v1) as [s4|] eqn:E4; [|exact H3].
  eapply force_unstake_ic; [exact H3| |exact E4]. unfold get_val. rewrite F1. exact G2.
Qed.
Lemma jail_ic s a s' : idx_complete s -> jail s a = Some s' -> idx_complete s'.
Proof.
  unfold jail. intros H. destruct (get_val s a) as [v|] eqn:E; [|discriminate].
  destruct (v_jailed v); [discriminate|]. intros [= <-].
  change (del_staked (put_val s a (with_jailed v true)) a (with_jailed v true))
    with (put_val (del_staked s a v) a (with_jailed v true)).
  apply unindex_ic; auto.
Qed.
Lemma unjail_ic s a s' : idx_complete s -> idx_sound s -> unjail s a = Some s' -> idx_complete s'.
Proof.
  unfold unjail. intros H HS. destruct (get_val s a) as [v|] eqn:E; [|discriminate].
  destruct (v_jailed v) eqn:J; [|discriminate]. intros [= <-].
  (* a was jailed: it has no entry (soundness), so deleting "its" key first changes nothing *)
  assert (N : noent (powidx s) a) by (eapply noent_unindexed; [exact HS|exact E|auto]).
  assert (D : adel (powidx s) (rank_key (v_tokens v) a) = powidx s).
  { apply amap_ext; [apply adel_sorted; apply H|apply H|]. intros k. rewrite aget_adel by apply H.
    destruct (beqb (rank_key (v_tokens v) a) k) eqn:B; auto. apply beqb_eq in B. subst k.
    destruct (aget (powidx s) (rank_key (v_tokens v) a)) as [b|] eqn:Eb; auto.
    destruct HS as (_ & _ & HS). destruct (HS _ _ Eb) as (w & Ew & _ & Jw & Kw).
    apply rank_key_addr_inj in Kw; [|eapply wf_of; eauto|eapply (wf_of s b w); eauto].
    subst b. exfalso. apply (N _ Eb). }
  pose proof (reindex_ic s a v (with_jailed v false) H E) as X.
  unfold del_staked in X. rewrite D in X. exact X.
Qed.

Lemma put_set_ic s a v1 : idx_complete s -> wf_bytes a -> idx_complete (set_staked (put_val s a v1) a v1).
Proof.
  intros H Wa.
  assert (X : icompx a (aset (vals s) a v1) (powidx s)) by (apply icompx_put; auto; apply icomp_weaken; auto).
  unfold set_staked. destruct (v_jailed v1 || negb (v_status v1 =? 2)%N) eqn:C.
  - ck. apply (icompx_close a); auto. intros w. rewrite aget_aset by apply H. rewrite beqb_refl. intros [= <-] St J.
    rewrite J, St in C. discriminate.
  - ck. apply (icompx_close a); [apply icompx_ins; auto|].
    intros w. rewrite aget_aset by apply H. rewrite beqb_refl. intros [= <-] _ _.
    rewrite aget_aset by apply H. rewrite beqb_refl. reflexivity.
Qed.
Lemma put_ineligible_ic s a v1 : idx_complete s -> wf_bytes a -> (v_status v1 <> 2%N \/ v_jailed v1 = true) -> idx_complete (put_val s a v1).
Proof.
  intros H Wa C. ck. apply (icompx_close a); [apply icompx_put; auto; apply icomp_weaken; auto|].
  intros w. rewrite aget_aset by apply H. rewrite beqb_refl. intros [= <-] St J. destruct C; congruence.
Qed.

Definition idx_exact (s : state) : Prop := idx_sound s /\ idx_complete s.

Lemma handle_signature_ic s a p sg s' : idx_complete s -> handle_signature s a p sg = Some s' -> idx_complete s'.
Proof.
  unfold handle_signature. intros H.
  destruct (aget (pkrel s) a); [|discriminate]. destruct (aget (sinfo s) a) as [si|]; [|discriminate].
  destruct (p_window (pp s) <=? 0); [discriminate|].
  match goal with |- context[let '(mi, ctr) := ?X in _] => destruct X as [mi ctr] end.
  set (s1 := set_sign s (sinfo s) mi). assert (H1 : idx_complete s1) by exact H.
  destruct (_ && _).
  - destruct (get_val s1 a) as [v|].
    + destruct (v_jailed v); [intros [= <-]; exact H1|].
      pose proof (slash_ic s1 a (height s - 2) p (p_slash_dt (pp s)) H1) as Hs.
      destruct (slash s1 a (height s - 2) p (p_slash_dt (pp s))) as [x|x|]; try discriminate;
        simpl in Hs; (destruct (jail x a) as [s3|] eqn:Ej; [|discriminate]);
        pose proof (jail_ic _ _ _ Hs Ej) as H3; intros [= <-]; exact H3.
    + intros [= <-]; exact H1.
  - intros [= <-]; exact H1.
Qed.
Lemma handle_double_sign_ic s a h t p s' : idx_complete s -> handle_double_sign s a h t p = Some s' -> idx_complete s'.
Proof.
  unfold handle_double_sign. intros H.
  destruct (aget (pkrel s) a); [|discriminate]. destruct (_ <? _); [discriminate|].
  destruct (get_val s a) as [v|]; [|discriminate]. destruct (v_status v =? 0)%N; [discriminate|].
  destruct (aget (sinfo s) a) as [si|]; [|discriminate]. destruct (si_tomb si); [discriminate|].
  pose proof (slash_ic s a (h - 1) p (p_slash_ds (pp s)) H) as Hs.
  destruct (slash s a (h - 1) p (p_slash_ds (pp s))) as [x|x|]; try discriminate; simpl in Hs.
  all: destruct (v_jailed v);
    [ destruct (get_val x a) as [v2|] eqn:G2; [|discriminate];
      destruct (force_unstake x a v2) as [s3|] eqn:Ef; [|discriminate];
      pose proof (force_unstake_ic _ _ _ _ Hs G2 Ef) as H3; intros [= <-]; exact H3
    | destruct (jail x a) as [s2|] eqn:Ej; [|discriminate]; pose proof (jail_ic _ _ _ Hs Ej) as H2;
      destruct (get_val s2 a) as [v2|] eqn:G2; [|discriminate];
      destruct (force_unstake s2 a v2) as [s3|] eqn:Ef; [|discriminate];
      pose proof (force_unstake_ic _ _ _ _ H2 G2 Ef) as H3; intros [= <-]; exact H3 ].
Qed.
Lemma reward_from_fees_ic s p s' : idx_complete s -> reward_from_fees s p = Some s' -> idx_complete s'.
Proof.
  unfold reward_from_fees. intros H.
  destruct (bank_send s (m_fee (ma s)) (m_pos (ma s)) (bal s (m_fee (ma s)))) as [s1|] eqn:E1; [|discriminate].
  destruct (bank_send_frame _ _ _ _ _ E1) as (F1 & F2 & _). assert (H1 : idx_complete s1) by (eapply ic_frame; eauto).
  destruct (get_val s1 p); [|intros [= <-]; auto].
  intros E2. destruct (bank_send_frame _ _ _ _ _ E2) as (G1 & G2 & _). eapply ic_frame; eauto.
Qed.
Lemma mint_award_ic s a amt : idx_complete s -> idx_complete (mint_award s a amt).
Proof.
  unfold mint_award. intros H. destruct (bank_mint s (m_pool (ma s)) amt) as [s1|] eqn:E1; auto.
  destruct (bank_mint_frame _ _ _ _ E1) as (F1 & F2 & _). assert (H1 : idx_complete s1) by (eapply ic_frame; eauto).
  destruct (bank_send s1 (m_pool (ma s1)) a amt) as [s2|] eqn:E2; auto.
  destruct (bank_send_frame _ _ _ _ _ E2) as (G1 & G2 & _). eapply ic_frame; eauto.
Qed.
Lemma mint_awards_ic s : idx_complete s -> idx_complete (mint_awards s).
Proof.
  unfold mint_awards. intros H.
  assert (G : forall l st, idx_complete st -> idx_complete (fold_left (fun st p => mint_award st (fst p) (snd p)) l st)).
  { induction l as [|x l IH]; simpl; auto. intros st Hst. apply IH. apply mint_award_ic; auto. }
  exact (G (awards s) s H).
Qed.
Lemma burn_validators_loop_ic l : forall s s', idx_complete s -> burn_validators_loop l s = Some s' -> idx_complete s'.
Proof.
  induction l as [|[a sev] r IH]; simpl; intros s s' H; [intros [= <-]; auto|].
  destruct (get_val s a) as [v|]; [|discriminate].
  match goal with |- context[slash s a ?h ?p ?f] =>
    pose proof (slash_ic s a h p f H) as Hs; destruct (slash s a h p f) as [x|x|] end;
  try discriminate; simpl in Hs; apply IH; exact Hs.
Qed.
Lemma fold_opt_ic {A} (f : state -> A -> option state) :
  (forall s x s', idx_complete s -> f s x = Some s' -> idx_complete s') ->
  forall l s s', idx_complete s -> fold_opt f l s = Some s' -> idx_complete s'.
Proof.
  intros Hf. induction l as [|x l IH]; simpl; intros s s' H; [intros [= <-]; auto|].
  destruct (f s x) as [s1|] eqn:E; [|discriminate]. apply IH. eapply Hf; eauto.
Qed.
Theorem begin_block_ic s h t prop votes evs s' : idx_complete s -> begin_block s h t prop votes evs = Some s' -> idx_complete s'.
Proof.
  unfold begin_block. intros H.
  set (s0 := set_block s h t). assert (H0 : idx_complete s0) by exact H.
  destruct (if 1 <? h then match proposer s0 with None => None | Some p => reward_from_fees s0 p end else Some s0)
    as [s1|] eqn:E1; [|discriminate].
  assert (H1 : idx_complete s1).
  { destruct (1 <? h); [|injection E1 as <-; auto]. destruct (proposer s0); [|discriminate].
    eapply reward_from_fees_ic; eauto. }
  pose proof (mint_awards_ic s1 H1) as H2.
  destruct (burn_validators_loop (burns (mint_awards s1)) (mint_awards s1)) as [s3|] eqn:E3; [|discriminate].
  pose proof (burn_validators_loop_ic _ _ _ H2 E3) as H3.
  set (s4 := set_misc s3 (Some prop) (pkrel s3)). assert (H4 : idx_complete s4) by exact H3.
  destruct (fold_opt _ votes s4) as [s5|] eqn:E5; [|discriminate].
  assert (H5 : idx_complete s5).
  { eapply (fold_opt_ic _ (fun s x s' Hs E => handle_signature_ic s _ _ _ s' Hs E)); eauto. }
  intros E6. eapply (fold_opt_ic _ (fun s x s' Hs E => handle_double_sign_ic s _ _ _ _ s' Hs E)); eauto.
Qed.
Lemma upd_loop_frame idx : forall n s prev total acc s' prev' total' acc',
  upd_loop idx n s prev total acc = Some (s', prev', total', acc') -> vals s' = vals s /\ powidx s' = powidx s.
Proof.
  induction idx as [|[k a] r IH]; intros n s prev total acc s' prev' total' acc'.
  - destruct n; simpl; intros [= <- _ _ _]; auto.
  - destruct n; simpl; [intros [= <- _ _ _]; auto|].
    destruct (get_val s a) as [v|]; [|discriminate]. destruct (v_jailed v); [discriminate|].
    destruct (power_of (v_tokens v) =? 0); [discriminate|].
    match goal with |- context[let '(s1, acc1) := ?X in _] => destruct X as [s1 acc1] eqn:EX end.
    intros E. destruct (IH _ _ _ _ _ _ _ _ _ E) as (F1 & F2).
    assert (G : vals s1 = vals s /\ powidx s1 = powidx s).
    { destruct (aget prev a) as [p|]; [destruct (p =? _)|]; injection EX as <- _; auto. }
    destruct G; split; congruence.
Qed.
Lemma update_tm_frame s s' ups : update_tm_validators s = Some (s', ups) -> vals s' = vals s /\ powidx s' = powidx s.
Proof.
  unfold update_tm_validators.
  destruct (upd_loop _ _ s (prevpow s) 0 []) as [[[[s1 leftover] total] acc]|] eqn:E; [|discriminate].
  destruct (upd_loop_frame _ _ _ _ _ _ _ _ _ _ E) as (F1 & F2).
  destruct (fold_opt _ leftover s1) as [s2|] eqn:E2; [|discriminate].
  assert (G : vals s2 = vals s1 /\ powidx s2 = powidx s1).
  { clear E F1 F2. revert s1 E2. induction leftover as [|p r IH]; simpl; intros s1 E2; [injection E2 as <-; auto|].
    destruct (get_val s1 (fst p)); [|discriminate]. destruct (IH _ E2) as (A1 & A2). auto. }
  destruct G as (G1 & G2). intros [= <- _]. destruct (rev acc ++ _); cbn [vals powidx set_prev]; split; congruence.
Qed.
Lemma finish_unstaking_ic s a v s' : idx_complete s -> finish_unstaking s a v = Some s' -> idx_complete s'.
Proof.
  unfold finish_unstaking. intros H. destruct (negb _); [discriminate|].
  destruct (bank_send _ _ a (v_tokens v)) as [s2|] eqn:E2; [|discriminate].
  destruct (bank_send_frame _ _ _ _ _ E2) as (F1 & F2 & _). unfold del_unstaking in F1, F2. cbn [vals powidx set_unstq] in F1, F2.
  intros [= <-]. ck. rewrite F1, F2. apply (icompx_close a); [apply icompx_delval; apply icomp_weaken; auto|].
  intros w. rewrite aget_adel by apply H. rewrite beqb_refl. discriminate.
Qed.
Lemma unstake_one_ic s a s' : idx_complete s -> unstake_one s a = Some s' -> idx_complete s'.
Proof.
  unfold unstake_one. intros H. destruct (get_val s a) as [v|]; [|intros [= <-]; auto].
  destruct (negb _); [intros [= <-]; auto|]. apply finish_unstaking_ic; auto.
Qed.
Lemma unstake_mature_ic s s' : idx_complete s -> unstake_mature s = Some s' -> idx_complete s'.
Proof.
  unfold unstake_mature. intros H. apply fold_opt_ic; auto.
  intros st p st' Hst. destruct (fold_opt unstake_one (snd p) st) as [st1|] eqn:E; [|discriminate].
  pose proof (fold_opt_ic unstake_one unstake_one_ic _ _ _ Hst E) as H1. intros [= <-]. exact H1.
Qed.
Theorem end_block_ic s s' ups : idx_complete s -> end_block s = Some (s', ups) -> idx_complete s'.
Proof.
  unfold end_block. intros H. destruct (update_tm_validators s) as [[s1 u]|] eqn:E; [|discriminate].
  destruct (update_tm_frame _ _ _ E) as (F1 & F2). assert (H1 : idx_complete s1) by (eapply ic_frame; eauto).
  destruct (unstake_mature s1) as [s2|] eqn:E2; [|discriminate]. intros [= <- _]. eapply unstake_mature_ic; eauto.
Qed.

(* transactions: the staking address must be a well-formed byte string *)
Definition hres_ic (r : hres) : Prop := match r with HOk s | HErr s => idx_complete s end.
Lemma handle_ic s m : idx_complete s -> idx_sound s -> wf_bytes (msg_signer m) -> hres_ic (handle s m).
Proof.
  intros H HS Wm. destruct m as [pk a amt|a|a|f t amt|f key v raw wf|f t amt act|f h raw]; simpl in *.
  - set (v0 := match get_val s a with Some v => v | None => _ end).
    destruct (v_status v0 =? 0)%N eqn:St0; cbn [negb]; [|exact H]. apply N.eqb_eq in St0.
    destruct (match aget (sinfo s) a with Some si => si_tomb si | None => false end); [exact H|].
    destruct (amt <? p_min_stake (pp s)); [exact H|]. destruct (bal s a <? amt); [exact H|].
    set (s1 := match get_val s a with Some _ => s | None => _ end).
    assert (H1 : idx_complete s1).
    { unfold s1. destruct (get_val s a); [auto|].
      pose proof (put_ineligible_ic s a v0 H Wm) as X. apply X. left. rewrite St0. discriminate. }
    destruct (bank_send s1 a (m_pool (ma s1)) amt) as [s2|] eqn:E; [|exact H1].
    destruct (bank_send_frame _ _ _ _ _ E) as (F1 & F2 & _). assert (H2 : idx_complete s2) by (eapply ic_frame; eauto). simpl.
    set (v1 := with_status (with_tokens v0 (v_tokens v0 + amt)) 2).
    pose proof (put_set_ic s2 a v1 H2 Wm) as H3.
    match goal with |- idx_complete (match ?X with _ => _ end) => destruct X end; exact H3.
  - destruct (get_val s a) as [v|] eqn:E; [|exact H]. destruct (negb _); [exact H|]. destruct (_ <? _); [exact H|]. simpl.
    pose proof (unindex_ic s a v (with_unstime (with_status v 1) (btime s + p_unstaking_time (pp s))) H E) as X.
    apply X. left. cbn. discriminate.
  - destruct (get_val s a) as [v|]; [|exact H]. destruct (_ <? _); [exact H|]. destruct (negb _); [exact H|].
    destruct (aget (sinfo s) a) as [si|]; [|exact H]. destruct (si_tomb si); [exact H|]. destruct (_ <? _); [exact H|].
    destruct (unjail s a) as [s1|] eqn:E; [|exact H]. simpl. eapply unjail_ic; eauto.
  - destruct (bank_send s f t amt) as [s1|] eqn:E; [|exact H]. simpl.
    destruct (bank_send_frame _ _ _ _ _ E) as (F1 & F2 & _). eapply ic_frame; eauto.
  - destruct (negb _); [exact H|]. destruct wf; simpl; auto. unfold apply_param. destruct v; exact H.
  - destruct (negb _); [exact H|]. destruct (act =? 1)%N.
    + destruct (bank_send s (m_dao (ma s)) t amt) as [s1|] eqn:E; [|exact H]. simpl.
      destruct (bank_send_frame _ _ _ _ _ E) as (F1 & F2 & _). eapply ic_frame; eauto.
    + destruct (act =? 2)%N; [|exact H].
      destruct (bank_burn s (m_dao (ma s)) amt) as [s1|] eqn:E; [|exact H]. simpl.
      destruct (bank_burn_frame _ _ _ _ E) as (F1 & F2 & _). eapply ic_frame; eauto.
  - destruct (negb _); [exact H|]. simpl. exact H.
Qed.
Lemma ante_frame s t s' : ante s t = Some s' -> vals s' = vals s /\ powidx s' = powidx s.
Proof.
  unfold ante. destruct (_ <? _); [discriminate|].
  match goal with |- context[match ?X with Some ka => _ | None => None end] => destruct X as [ka|] end; [|discriminate].
  destruct (negb _); [discriminate|]. destruct (t_in_index t); [discriminate|]. destruct (_ <? _); [discriminate|].
  destruct (_ && _); [discriminate|]. destruct (_ || _); [discriminate|].
  destruct (aget (accts s) _) as [b|]; [|discriminate]. destruct (b <? t_fee t); [discriminate|].
  intros E. destruct (bank_send_frame _ _ _ _ _ E) as (F1 & F2 & _). auto.
Qed.
Definition op_wf (o : op) : Prop := match o with OTx t => wf_bytes (msg_signer (t_msg t)) | _ => True end.
Theorem step_exact s o s' : idx_exact s -> op_wf o -> step s o = Some s' -> idx_exact s'.
Proof.
  intros [HS HC] W E. split; [eapply step_is; eauto|].
  destruct o as [h t p vs es|t|a amt|a sev| |]; simpl in *.
  - eapply begin_block_ic; eauto.
  - injection E as <-. unfold deliver_tx. destruct (_ || _); [exact HC|].
    destruct (ante s t) as [s1|] eqn:Ea; [|exact HC].
    destruct (ante_frame _ _ _ Ea) as (F1 & F2).
    assert (H1 : idx_complete s1) by (eapply ic_frame; eauto).
    assert (S1 : idx_sound s1) by (eapply frame_is; eauto).
    pose proof (handle_ic s1 (t_msg t) H1 S1 W) as Hh. destruct (handle s1 (t_msg t)); exact Hh.
  - injection E as <-. exact HC.
  - injection E as <-. exact HC.
  - destruct (end_block s) as [[s1 u]|] eqn:Ee; [|discriminate]. injection E as <-. eapply end_block_ic; eauto.
  - injection E as <-. exact HC.
Qed.
Theorem run_exact ops : forall s s', idx_exact s -> Forall op_wf ops -> run ops s = Some s' -> idx_exact s'.
Proof.
  unfold run. induction ops as [|o r IH]; simpl; intros s s' H F; [intros [= <-]; auto|].
  inversion F; subst. destruct (step s o) as [s1|] eqn:E; [|discriminate]. apply IH; auto. eapply step_exact; eauto.
Qed.
(* genesis *)
Lemma genesis_validator_ic s g : idx_complete s -> wf_bytes (g_addr g) -> idx_complete (genesis_validator s g).
Proof.
  destruct g as [[a pk] tokens]. unfold genesis_validator, g_addr. cbn [fst]. intros H Wa.
  exact (put_set_ic s a {| v_pk := pk; v_jailed := false; v_status := 2; v_tokens := tokens; v_unstime := 0 |} H Wa).
Qed.
Theorem init_chain_exact s0 gvals dao s ups : idx_exact s0 -> NoDup (map g_addr gvals) ->
  (forall g, In g gvals -> aget (vals s0) (g_addr g) = None) -> (forall g, In g gvals -> wf_bytes (g_addr g)) ->
  init_chain s0 gvals dao = Some (s, ups) -> idx_exact s.
Proof.
  intros [HS HC] ND A W E. split; [eapply init_chain_is; eauto|].
  unfold init_chain in E.
  assert (H1 : idx_complete (fold_left genesis_validator gvals s0)).
  { clear E ND A HS. revert s0 HC. induction gvals as [|g r IH]; simpl; auto. intros s0 HC.
    apply IH; [intros g' Hg'; apply W; right; auto|]. apply genesis_validator_ic; auto. apply W. left; auto. }
  destruct (update_tm_validators _) as [[s2 u]|] eqn:E2; [|discriminate].
  destruct (update_tm_frame _ _ _ E2) as (F1 & F2). assert (H2 : idx_complete s2) by (eapply ic_frame; eauto).
  destruct (bank_mint s2 _ dao) as [s3|] eqn:E3; injection E as <- _; auto.
  destruct (bank_mint_frame _ _ _ _ E3) as (G1 & G2 & _). eapply ic_frame; eauto.
Qed.
(* the reading: index membership is EXACTLY "staked and not jailed, under the key of the current stake" *)
Theorem index_exact_reading s a v : idx_exact s -> get_val s a = Some v ->
  (aget (powidx s) (rank_key (v_tokens v) a) = Some a <-> (v_status v = 2%N /\ v_jailed v = false)).
Proof.
  intros [HS HC] E. split.
  - intros Hk. destruct (indexed_is_staked_unjailed s _ a HS Hk) as (w & Ew & St & J & _).
    rewrite E in Ew. injection Ew as <-. auto.
  - intros [St J]. destruct HC as (_ & _ & _ & H). apply H; auto.
Qed.
