(* The consensus parameters given at InitChain may restrict the key types a validator may stake with
   (ConsensusParams.Validator.PubKeyTypes, x/pos/handler.go stakeNewValidator). The model knows key types by the length of the
   raw key: 32 bytes ed25519, anything else another type. With the restriction in force a first-time stake under a key of
   another type is refused by the handler BEFORE it validates or writes anything: the transaction has passed the ante
   handler, pays its fee, and leaves nothing else. Everything else is deliver_tx unchanged. *)
From Coq Require Import List ZArith NArith Bool Lia.
From PM Require Import Base.Bytes Store.KV Num.IntModel App.Model App.BankProofs App.TxProofs App.IndexProofs App.QueueProofs.
Import ListNotations.
Local Open Scope Z_scope.

Definition ed25519_key (pk : bytes) : bool := Nat.eqb (length pk) 32.
(* a stake message of an address that has no validator record yet, under a key the restriction does not admit *)
Definition refused_key (only_ed25519 : bool) (s : state) (m : msg) : bool :=
  match m with
  | MStake pk a _ => only_ed25519 && negb (ed25519_key pk) && (match get_val s a with Some _ => false | None => true end)
  | _ => false
  end.
Definition deliver_tx_cp (only_ed25519 : bool) (s : state) (t : tx) : dres :=
  if negb (msg_basic_ok (t_msg t)) || (t_fee t <? 0) || t_sig_empty t then DRejected s
  else match ante s t with
  | None => DRejected s
  | Some s1 => if refused_key only_ed25519 s1 (t_msg t) then DHandlerErr s1
               else match handle s1 (t_msg t) with HOk s2 => DOk s2 | HErr s2 => DHandlerErr s2 end
  end.

(* without the restriction, and for every message the restriction does not concern, this is deliver_tx *)
Theorem deliver_tx_cp_unrestricted s t : deliver_tx_cp false s t = deliver_tx s t.
Proof. unfold deliver_tx_cp, deliver_tx, refused_key. destruct (_ || _); [reflexivity|]. destruct (ante s t); [|reflexivity].
  destruct (t_msg t); reflexivity. Qed.
Theorem deliver_tx_cp_other_messages r s t : (forall pk a amt, t_msg t <> MStake pk a amt) -> deliver_tx_cp r s t = deliver_tx s t.
Proof. intros N. unfold deliver_tx_cp, deliver_tx, refused_key. destruct (_ || _); [reflexivity|]. destruct (ante s t); [|reflexivity].
  destruct (t_msg t) eqn:E; try reflexivity. exfalso. eapply N. reflexivity. Qed.

(* C11 with the restriction: a rejected transaction leaves the state as it was; one the handler refuses has paid its fee
   (it passed the ante handler) and changed nothing else *)
Theorem cp_rejected_unchanged r s t s' : deliver_tx_cp r s t = DRejected s' -> s' = s.
Proof. unfold deliver_tx_cp. destruct (_ || _); [intros [= <-]; reflexivity|]. destruct (ante s t) as [s1|]; [|intros [= <-]; reflexivity].
  destruct (refused_key r s1 (t_msg t)); [discriminate|]. destruct (handle s1 (t_msg t)); discriminate. Qed.
Theorem cp_handler_err_pays_fee_only r s t s' : bank_ok s -> 0 <= p_min_stake (pp s) ->
  deliver_tx_cp r s t = DHandlerErr s' -> ante s t = Some s'.
Proof.
  intros B M. unfold deliver_tx_cp. destruct (_ || _) eqn:G; [discriminate|]. destruct (ante s t) as [s1|] eqn:A; [|discriminate].
  destruct (refused_key r s1 (t_msg t)) eqn:R; [intros [= <-]; reflexivity|].
  intros H. rewrite <- A. apply (handler_err_pays_fee_only s t s' B M). unfold deliver_tx. rewrite G, A. exact H.
Qed.
(* the refusal itself: a first-time staker under a key of another type never gets a validator record, whatever it offers *)
Theorem cp_refuses_other_key_types s t pk a amt s1 : t_msg t = MStake pk a amt -> ed25519_key pk = false ->
  ante s t = Some s1 -> get_val s1 a = None ->
  negb (msg_basic_ok (t_msg t)) || (t_fee t <? 0) || t_sig_empty t = false ->
  deliver_tx_cp true s t = DHandlerErr s1.
Proof. intros E K A V G. unfold deliver_tx_cp. rewrite G, A, E. unfold refused_key. rewrite K, V. reflexivity. Qed.

(* ---- whole histories under the restriction ------------------------------------------------------------------------------
   The block cycle with deliver_tx_cp in the place of deliver_tx. Every invariant that the ordinary step preserves and that
   the ante handler preserves is preserved by every history under the restriction: a refused stake ends in exactly the
   ante handler's state, everything else is the ordinary step. *)
Definition step_cp (r : bool) (s : state) (o : op) : option state :=
  match o with
  | OTx t => Some (dres_state (deliver_tx_cp r s t))
  | _ => step s o
  end.
Definition run_cp (r : bool) (ops : list op) (s : state) : option state := fold_opt (step_cp r) ops s.

Lemma deliver_tx_cp_cases r s t :
  dres_state (deliver_tx_cp r s t) = dres_state (deliver_tx s t) \/ ante s t = Some (dres_state (deliver_tx_cp r s t)).
Proof.
  unfold deliver_tx_cp, deliver_tx. destruct (_ || _); [left; reflexivity|]. destruct (ante s t) as [s1|]; [|left; reflexivity].
  destruct (refused_key r s1 (t_msg t)); [right; reflexivity|left; reflexivity].
Qed.

Section Lift.
  Variable I : state -> Prop.
  Hypothesis I_step : forall s o s', I s -> step s o = Some s' -> I s'.
  Hypothesis I_ante : forall s t s', I s -> ante s t = Some s' -> I s'.
  Lemma step_cp_inv r s o s' : I s -> step_cp r s o = Some s' -> I s'.
  Proof.
    intros H. destruct o as [h tm p vs es|t|a amt|a sev| |]; simpl.
    - apply (I_step s (OBegin h tm p vs es)); exact H.
    - intros [= <-]. destruct (deliver_tx_cp_cases r s t) as [E|E].
      + rewrite E. apply (I_step s (OTx t)); [exact H|reflexivity].
      + eapply I_ante; eauto.
    - apply (I_step s (OAward a amt)); exact H.
    - apply (I_step s (OBurn a sev)); exact H.
    - apply (I_step s OEnd); exact H.
    - apply (I_step s OCommit); exact H.
  Qed.
  Theorem run_cp_inv r ops : forall s s', I s -> run_cp r ops s = Some s' -> I s'.
  Proof.
    unfold run_cp. induction ops as [|o ops IH]; simpl; intros s s' H; [intros [= <-]; exact H|].
    destruct (step_cp r s o) as [s1|] eqn:E; [|discriminate]. apply IH. eapply step_cp_inv; eauto.
  Qed.
End Lift.

(* C02 under the restriction: supply = sum of all balances in every reachable state of every history *)
Theorem run_cp_bank_ok r ops s s' : bank_ok s -> run_cp r ops s = Some s' -> bank_ok s'.
Proof. apply (run_cp_inv bank_ok); [exact step_pres | intros x t x' H E; exact (ante_pres x t x' H E)]. Qed.
(* C05/C06 under the restriction: the power index stays sound, every unstaking validator stays queued and every queued
   address stays an unstaking validator, in every reachable state of every history *)
Theorem run_cp_idx_sound r ops s s' : idx_sound s -> run_cp r ops s = Some s' -> idx_sound s'.
Proof. apply (run_cp_inv idx_sound); [exact step_is | intros x t x' H E; exact (ante_is x t x' H E)]. Qed.
Theorem run_cp_queue_ok r ops s s' : queue_ok s -> run_cp r ops s = Some s' -> queue_ok s'.
Proof. apply (run_cp_inv queue_ok); [exact step_q | intros x t x' H E; exact (ante_q x t x' H E)]. Qed.
Theorem run_cp_queue_sound r ops s s' : queue_sound s -> run_cp r ops s = Some s' -> queue_sound s'.
Proof. apply (run_cp_inv queue_sound); [exact step_qs | intros x t x' H E; exact (ante_qs x t x' H E)]. Qed.
(* without the restriction a history is the ordinary one *)
Theorem run_cp_unrestricted ops : forall s, run_cp false ops s = run ops s.
Proof.
  unfold run_cp, run. induction ops as [|o ops IH]; intros s; [reflexivity|]. simpl.
  assert (E : step_cp false s o = step s o) by (destruct o; simpl; try reflexivity; rewrite deliver_tx_cp_unrestricted; reflexivity).
  rewrite E. destruct (step s o); [apply IH|reflexivity].
Qed.

(* the same lift for invariants that need something of every operation of the history (e.g. "no transaction is signed by the
   pool's own address") *)
Section LiftP.
  Variable I : state -> Prop.
  Variable P : op -> Prop.
  Hypothesis I_step : forall s o s', I s -> P o -> step s o = Some s' -> I s'.
  Hypothesis I_ante : forall s t s', I s -> P (OTx t) -> ante s t = Some s' -> I s'.
  Lemma step_cp_inv_P r s o s' : I s -> P o -> step_cp r s o = Some s' -> I s'.
  Proof.
    intros H K. destruct o as [h tm p vs es|t|a amt|a sev| |]; simpl.
    - apply (I_step s (OBegin h tm p vs es)); assumption.
    - intros [= <-]. destruct (deliver_tx_cp_cases r s t) as [E|E].
      + rewrite E. apply (I_step s (OTx t)); [exact H|exact K|reflexivity].
      + eapply I_ante; eauto.
    - apply (I_step s (OAward a amt)); assumption.
    - apply (I_step s (OBurn a sev)); assumption.
    - apply (I_step s OEnd); assumption.
    - apply (I_step s OCommit); assumption.
  Qed.
  Theorem run_cp_inv_P r ops : Forall P ops -> forall s s', I s -> run_cp r ops s = Some s' -> I s'.
  Proof.
    unfold run_cp. induction ops as [|o ops IH]; simpl; intros F s s' H; [intros [= <-]; exact H|].
    inversion F as [|? ? Fo Fr]; subst. destruct (step_cp r s o) as [s1|] eqn:E; [|discriminate]. apply (IH Fr s1 s'). eapply step_cp_inv_P; eauto.
  Qed.
End LiftP.
