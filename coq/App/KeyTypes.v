(* The consensus parameters given at InitChain may restrict the key types a validator may stake with
   (ConsensusParams.Validator.PubKeyTypes, x/pos/handler.go stakeNewValidator). The model knows key types by the length of the
   raw key: 32 bytes ed25519, anything else another type. With the restriction in force a first-time stake under a key of
   another type is refused by the handler BEFORE it validates or writes anything: the transaction has passed the ante
   handler, pays its fee, and leaves nothing else. Everything else is deliver_tx unchanged. *)
From Coq Require Import List ZArith NArith Bool Lia.
From PM Require Import Base.Bytes Store.KV Num.IntModel App.Model App.BankProofs App.TxProofs.
Import ListNotations.
Local Open Scope Z_scope.

Definition ed25519_key (pk : bytes) : bool := Nat.eqb (length pk) 32.
(* a stake message of an address that has no validator record yet, under a key the restriction does not admit *)
Definition refused_key (only_ed25519 : bool) (s : state) (m : msg) : bool :=
  match m with
  | MStake pk a _ => only_ed25519 && negb (ed25519_key pk) && (match get_val s a with Some _ => false | None => true end)
  | _ => false
  end.
Definition deliver_tx_cp (only_ed25519 : bool) (s : state) (t : tx) : dres :=
  if negb (msg_basic_ok (t_msg t)) || (t_fee t <? 0) || t_sig_empty t then DRejected s
  else match ante s t with
  | None => DRejected s
  | Some s1 => if refused_key only_ed25519 s1 (t_msg t) then DHandlerErr s1
               else match handle s1 (t_msg t) with HOk s2 => DOk s2 | HErr s2 => DHandlerErr s2 end
  end.

(* without the restriction, and for every message the restriction does not concern, this is deliver_tx *)
Theorem deliver_tx_cp_unrestricted s t : deliver_tx_cp false s t = deliver_tx s t.
Proof. unfold deliver_tx_cp, deliver_tx, refused_key. destruct (_ || _); [reflexivity|]. destruct (ante s t); [|reflexivity].
  destruct (t_msg t); reflexivity. Qed.
Theorem deliver_tx_cp_other_messages r s t : (forall pk a amt, t_msg t <> MStake pk a amt) -> deliver_tx_cp r s t = deliver_tx s t.
Proof. intros N. unfold deliver_tx_cp, deliver_tx, refused_key. destruct (_ || _); [reflexivity|]. destruct (ante s t); [|reflexivity].
  destruct (t_msg t) eqn:E; try reflexivity. exfalso. eapply N. reflexivity. Qed.

(* C11 with the restriction: a rejected transaction leaves the state as it was; one the handler refuses has paid its fee
   (it passed the ante handler) and changed nothing else *)
Theorem cp_rejected_unchanged r s t s' : deliver_tx_cp r s t = DRejected s' -> s' = s.
Proof. unfold deliver_tx_cp. destruct (_ || _); [intros [= <-]; reflexivity|]. destruct (ante s t) as [s1|]; [|intros [= <-]; reflexivity].
  destruct (refused_key r s1 (t_msg t)); [discriminate|]. destruct (handle s1 (t_msg t)); discriminate. Qed.
Theorem cp_handler_err_pays_fee_only r s t s' : bank_ok s -> 0 <= p_min_stake (pp s) ->
  deliver_tx_cp r s t = DHandlerErr s' -> ante s t = Some s'.
Proof.
  intros B M. unfold deliver_tx_cp. destruct (_ || _) eqn:G; [discriminate|]. destruct (ante s t) as [s1|] eqn:A; [|discriminate].
  destruct (refused_key r s1 (t_msg t)) eqn:R; [intros [= <-]; reflexivity|].
  intros H. rewrite <- A. apply (handler_err_pays_fee_only s t s' B M). unfold deliver_tx. rewrite G, A. exact H.
Qed.
(* the refusal itself: a first-time staker under a key of another type never gets a validator record, whatever it offers *)
Theorem cp_refuses_other_key_types s t pk a amt s1 : t_msg t = MStake pk a amt -> ed25519_key pk = false ->
  ante s t = Some s1 -> get_val s1 a = None ->
  negb (msg_basic_ok (t_msg t)) || (t_fee t <? 0) || t_sig_empty t = false ->
  deliver_tx_cp true s t = DHandlerErr s1.
Proof. intros E K A V G. unfold deliver_tx_cp. rewrite G, A, E. unfold refused_key. rewrite K, V. reflexivity. Qed.
