(* C06, first sentence: a validator's status changes only along the legal transitions, and each kind of change has
   exactly one kind of cause. For every step of every history and every address a, either the status of a is unchanged or
     - the step is a delivered stake transaction of a itself, a was unknown or unstaked, it is staked afterwards and the
       staked amount is at least the minimum stake;
     - the step is a delivered begin-unstake transaction of a itself, a was staked and is unstaking afterwards;
     - the step is an EndBlock, a was unstaking and its record is gone afterwards (released);
     - the step is a BeginBlock, a had a record and is unstaked afterwards (forced unstake: slash below the minimum,
       double sign).
   Awards, burn requests, commits and every other transaction never change anybody's status. *)
From Coq Require Import List ZArith NArith Bool Lia.
From PM Require Import Base.Bytes Store.KV Store.MergeProofs Store.KVProofs Num.IntModel Num.DecModel
  App.Model App.BankProofs App.IndexProofs App.IndexComplete.
Import ListNotations.
Local Open Scope Z_scope.

Definition st (s : state) (a : bytes) : option N := option_map v_status (get_val s a).
Definition sv (s : state) : Prop := asorted (vals s).

Lemma st_frame s s' : vals s' = vals s -> forall b, st s' b = st s b.
Proof. intros E b. unfold st, get_val. rewrite E. reflexivity. Qed.
Lemma st_put s a v1 b : sv s -> st (put_val s a v1) b = if beqb a b then Some (v_status v1) else st s b.
Proof. intros S. unfold st, get_val. cbn [vals put_val set_vals]. rewrite aget_aset by auto. destruct (beqb a b); reflexivity. Qed.
Lemma sv_put s a v1 : sv s -> sv (put_val s a v1).
Proof. intros S. unfold sv. cbn [vals put_val set_vals]. apply aset_sorted; auto. Qed.
Lemma sv_frame s s' : vals s' = vals s -> sv s -> sv s'.
Proof. unfold sv. intros ->. auto. Qed.

(* ---------- forced unstake (BeginBlock) ---------- *)
Definition forced (s s' : state) : Prop :=
  sv s' /\ forall b, st s' b = st s b \/ ((exists k, st s b = Some k) /\ st s' b = Some 0%N).
Lemma forced_refl s : sv s -> forced s s. Proof. intros S. split; auto. Qed.
Lemma forced_trans s1 s2 s3 : forced s1 s2 -> forced s2 s3 -> forced s1 s3.
Proof.
  intros [_ H1] [S3 H2]. split; auto. intros b. destruct (H2 b) as [E2|[[k Ek] Z2]]; destruct (H1 b) as [E1|[[j Ej] Z1]].
  - left. congruence.
  - right. split; [exists j; auto|congruence].
  - right. split; [exists k; congruence|auto].
  - right. split; [exists j; auto|auto].
Qed.
Lemma forced_frame s s' : vals s' = vals s -> sv s -> forced s s'.
Proof. intros E S. split; [eapply sv_frame; eauto|]. intros b. left. apply st_frame; auto. Qed.
Lemma forced_same_status s a v v1 : sv s -> get_val s a = Some v -> v_status v1 = v_status v -> forced s (put_val s a v1).
Proof.
  intros S E Es. split; [apply sv_put; auto|]. intros b. left. rewrite st_put by auto. destruct (beqb a b) eqn:B; auto.
  apply beqb_eq in B; subst b. unfold st. rewrite E. cbn. congruence.
Qed.

Lemma bank_send_vals s f t a s' : bank_send s f t a = Some s' -> vals s' = vals s.
Proof. intros E. apply (bank_send_frame _ _ _ _ _ E). Qed.
Lemma bank_burn_vals s m a s' : bank_burn s m a = Some s' -> vals s' = vals s.
Proof. intros E. apply (bank_burn_frame _ _ _ _ E). Qed.
Lemma bank_mint_vals s m a s' : bank_mint s m a = Some s' -> vals s' = vals s.
Proof. intros E. apply (bank_mint_frame _ _ _ _ E). Qed.

Lemma force_unstake_forced s a v s' : sv s -> get_val s a = Some v -> force_unstake s a v = Some s' -> forced s s'.
Proof.
  intros S E. unfold force_unstake.
  set (s1 := if (v_status v =? 1)%N then del_unstaking (del_staked s a v) a v else del_staked s a v).
  assert (V1 : vals s1 = vals s) by (unfold s1; destruct (v_status v =? 1)%N; reflexivity).
  destruct (if 0 <? v_tokens v then burn_staked s1 (v_tokens v) else Some s1) as [s2|] eqn:E2; [|discriminate].
  assert (V2 : vals s2 = vals s).
  { destruct (0 <? v_tokens v); [|injection E2 as <-; exact V1]. unfold burn_staked in E2. destruct (_ <=? _); [discriminate|].
    rewrite (bank_burn_vals _ _ _ _ E2). exact V1. }
  intros [= <-]. assert (S2 : sv s2) by (eapply sv_frame; eauto).
  split; [apply sv_put; auto|]. intros b. rewrite st_put by auto. rewrite (st_frame s s2 V2).
  destruct (beqb a b) eqn:B; [|left; reflexivity]. apply beqb_eq in B; subst b. right. split; [|reflexivity].
  unfold st. rewrite E. cbn. eauto.
Qed.
Definition sres_forced (s : state) (r : sres) : Prop := match r with SOk x | SErr x => forced s x | SPanic => True end.
Lemma slash_forced s a h p f : sv s -> sres_forced s (slash s a h p f).
Proof.
  intros S. unfold slash. destruct (f <? 0); [apply forced_refl; auto|]. destruct (height s <? h); [apply forced_refl; auto|].
  destruct (get_val s a) as [v|] eqn:E; [|apply forced_refl; auto]. destruct (v_status v =? 0)%N; [apply forced_refl; auto|].
  destruct (tokens_from_power p) as [amount|]; [|exact I].
  destruct (dec_mul (dec_from_int amount) f) as [d|]; [|exact I].
  destruct (dec_truncate_int d) as [sa|]; [|exact I].
  set (burn := Z.max (Z.min sa (v_tokens v)) 0). set (v1 := with_tokens v (v_tokens v - burn)).
  set (s2 := set_staked (put_val (del_staked s a v) a v1) a v1).
  assert (V2 : vals s2 = vals (put_val s a v1)) by (unfold s2; rewrite set_staked_vals; reflexivity).
  assert (F2 : forced s s2).
  { eapply forced_trans; [apply (forced_same_status s a v v1 S E eq_refl)|]. apply forced_frame; [exact V2|apply sv_put; auto]. }
  destruct (burn_staked s2 burn) as [s3|] eqn:E3; [|exact F2].
  assert (V3 : vals s3 = vals s2) by (apply (burn_staked_frame _ _ _ E3)).
  assert (F3 : forced s s3) by (eapply forced_trans; [exact F2|apply forced_frame; [exact V3|apply F2]]).
  destruct (v_tokens v1 <? p_min_stake (pp s3)); [|exact F3].
  destruct (force_unstake s3 a v1) as [s4|] eqn:E4; [|exact F3]. cbn [sres_forced].
  eapply forced_trans; [exact F3|]. eapply force_unstake_forced; [apply F3| |exact E4].
  unfold get_val. rewrite V3, V2. cbn [vals put_val set_vals]. rewrite aget_aset by auto. rewrite beqb_refl. reflexivity.
Qed.
Lemma jail_forced s a s' : sv s -> jail s a = Some s' -> forced s s'.
Proof.
  unfold jail. intros S. destruct (get_val s a) as [v|] eqn:E; [|discriminate]. destruct (v_jailed v); [discriminate|]. intros [= <-].
  eapply forced_trans; [apply (forced_same_status s a v (with_jailed v true) S E eq_refl)|].
  apply forced_frame; [reflexivity|apply sv_put; auto].
Qed.
Lemma handle_signature_forced s a p sg s' : sv s -> handle_signature s a p sg = Some s' -> forced s s'.
Proof.
  unfold handle_signature. intros S.
  destruct (aget (pkrel s) a); [|discriminate]. destruct (aget (sinfo s) a) as [si|]; [|discriminate].
  destruct (p_window (pp s) <=? 0); [discriminate|].
  match goal with |- context[let '(mi, ctr) := ?X in _] => destruct X as [mi ctr] end.
  set (s1 := set_sign s (sinfo s) mi). assert (F1 : forced s s1) by (apply forced_frame; [reflexivity|auto]).
  assert (Plain : forall si1, forced s (set_sign s1 (aset (sinfo s1) a si1) (missed s1))) by (intros; apply forced_frame; [reflexivity|auto]).
  destruct (_ && _); [|intros [= <-]; apply Plain].
  destruct (get_val s1 a) as [v|]; [|intros [= <-]; apply Plain].
  destruct (v_jailed v); [intros [= <-]; apply Plain|].
  pose proof (slash_forced s1 a (height s - 2) p (p_slash_dt (pp s)) (proj1 F1)) as Hs.
  destruct (slash s1 a (height s - 2) p (p_slash_dt (pp s))) as [x|x|]; try discriminate; cbn [sres_forced] in Hs;
    (destruct (jail x a) as [s3|] eqn:Ej; [|discriminate]); intros [= <-];
    (eapply forced_trans; [exact F1|]); (eapply forced_trans; [exact Hs|]);
    (eapply forced_trans; [eapply jail_forced; [apply Hs|exact Ej]|]);
    (apply forced_frame; [reflexivity|eapply jail_forced; [apply Hs|exact Ej]]).
Qed.
Lemma handle_double_sign_forced s a h t p s' : sv s -> handle_double_sign s a h t p = Some s' -> forced s s'.
Proof.
  unfold handle_double_sign. intros S.
  destruct (aget (pkrel s) a); [|discriminate]. destruct (_ <? _); [discriminate|].
  destruct (get_val s a) as [v|]; [|discriminate]. destruct (v_status v =? 0)%N; [discriminate|].
  destruct (aget (sinfo s) a) as [si|]; [|discriminate]. destruct (si_tomb si); [discriminate|].
  pose proof (slash_forced s a (h - 1) p (p_slash_ds (pp s)) S) as Hs.
  assert (Tail : forall x, forced s x ->
    match (if v_jailed v then Some x else jail x a) with
    | None => None
    | Some s2 => match get_val s2 a with
                 | None => None
                 | Some v2 => match force_unstake s2 a v2 with
                              | None => None
                              | Some s3 => Some (set_sign s3 (aset (sinfo s3) a
                                  {| si_start := si_start si; si_offset := si_offset si; si_jailed_until := double_sign_jail_end;
                                     si_tomb := true; si_missed := si_missed si |}) (missed s3))
                              end
                 end
    end = Some s' -> forced s s').
  { intros x Hx. destruct (if v_jailed v then Some x else jail x a) as [s2|] eqn:E2; [|discriminate].
    assert (F2 : forced s s2).
    { destruct (v_jailed v); [injection E2 as <-; exact Hx|]. eapply forced_trans; [exact Hx|]. eapply jail_forced; [apply Hx|exact E2]. }
    destruct (get_val s2 a) as [v2|] eqn:G2; [|discriminate].
    destruct (force_unstake s2 a v2) as [s3|] eqn:E3; [|discriminate]. intros [= <-].
    pose proof (force_unstake_forced _ _ _ _ (proj1 F2) G2 E3) as F3.
    eapply forced_trans; [exact F2|]. eapply forced_trans; [exact F3|]. apply forced_frame; [reflexivity|apply F3]. }
  destruct (slash s a (h - 1) p (p_slash_ds (pp s))) as [x|x|]; try discriminate; apply Tail; exact Hs.
Qed.
Lemma fold_opt_forced {A} (f : state -> A -> option state) :
  (forall s x s', sv s -> f s x = Some s' -> forced s s') ->
  forall l s s', sv s -> fold_opt f l s = Some s' -> forced s s'.
Proof.
  intros Hf. induction l as [|x l IH]; simpl; intros s s' S; [intros [= <-]; apply forced_refl; auto|].
  destruct (f s x) as [s1|] eqn:E; [|discriminate]. intros E2. pose proof (Hf _ _ _ S E) as F1.
  eapply forced_trans; [exact F1|]. apply IH; [apply F1|exact E2].
Qed.
Lemma burn_validators_loop_forced l : forall s s', sv s -> burn_validators_loop l s = Some s' -> forced s s'.
Proof.
  induction l as [|[a sev] r IH]; simpl; intros s s' S; [intros [= <-]; apply forced_refl; auto|].
  destruct (get_val s a) as [v|]; [|discriminate].
  match goal with |- context[slash s a ?h ?p ?f] => pose proof (slash_forced s a h p f S) as Hs; destruct (slash s a h p f) as [x|x|] end;
    try discriminate; cbn [sres_forced] in Hs; intros E;
    (eapply forced_trans; [exact Hs|]);
    (eapply forced_trans; [apply (forced_frame x (set_queues x (awards x) (adel (burns x) a))); [reflexivity|apply Hs]|]);
    (apply IH; [apply sv_frame with (s := x); [reflexivity|apply Hs]|exact E]).
Qed.
Lemma mint_award_vals s a amt : vals (mint_award s a amt) = vals s.
Proof.
  unfold mint_award. destruct (bank_mint s _ amt) as [s1|] eqn:E1; [|reflexivity].
  destruct (bank_send s1 _ a amt) as [s2|] eqn:E2; [rewrite (bank_send_vals _ _ _ _ _ E2)|]; apply (bank_mint_vals _ _ _ _ E1).
Qed.
Lemma mint_awards_vals s : vals (mint_awards s) = vals s.
Proof.
  unfold mint_awards. cbn [vals set_queues].
  assert (G : forall l st0, vals (fold_left (fun st0 p => mint_award st0 (fst p) (snd p)) l st0) = vals st0).
  { induction l as [|x l IH]; simpl; intros st0; [reflexivity|]. rewrite IH. apply mint_award_vals. }
  apply G.
Qed.
Theorem begin_block_forced s h t prop votes evs s' : sv s -> begin_block s h t prop votes evs = Some s' -> forced s s'.
Proof.
  unfold begin_block. intros S.
  set (s0 := set_block s h t).
  destruct (if 1 <? h then match proposer s0 with None => None | Some p => reward_from_fees s0 p end else Some s0)
    as [s1|] eqn:E1; [|discriminate].
  assert (V1 : vals s1 = vals s).
  { destruct (1 <? h); [|injection E1 as <-; reflexivity]. destruct (proposer s0); [|discriminate].
    unfold reward_from_fees in E1. destruct (bank_send s0 _ _ _) as [sa|] eqn:Ea; [|discriminate].
    destruct (get_val sa _); [rewrite (bank_send_vals _ _ _ _ _ E1)|injection E1 as <-]; rewrite (bank_send_vals _ _ _ _ _ Ea); reflexivity. }
  assert (V2 : vals (mint_awards s1) = vals s) by (rewrite mint_awards_vals; exact V1).
  assert (S2 : sv (mint_awards s1)) by (eapply sv_frame; eauto).
  destruct (burn_validators_loop (burns (mint_awards s1)) (mint_awards s1)) as [s3|] eqn:E3; [|discriminate].
  pose proof (burn_validators_loop_forced _ _ _ S2 E3) as F3.
  set (s4 := set_misc s3 (Some prop) (pkrel s3)).
  assert (F4 : forced s s4).
  { eapply forced_trans; [apply (forced_frame s (mint_awards s1) V2 S)|]. eapply forced_trans; [exact F3|].
    apply forced_frame; [reflexivity|apply F3]. }
  destruct (fold_opt _ votes s4) as [s5|] eqn:E5; [|discriminate].
  assert (F5 : forced s4 s5).
  { eapply (fold_opt_forced _ (fun s x s' Hs E => handle_signature_forced s _ _ _ s' Hs E)); [apply F4|exact E5]. }
  intros E6.
  assert (F6 : forced s5 s').
  { eapply (fold_opt_forced _ (fun s x s' Hs E => handle_double_sign_forced s _ _ _ _ s' Hs E)); [apply F5|exact E6]. }
  eapply forced_trans; [exact F4|]. eapply forced_trans; [exact F5|exact F6].
Qed.

(* ---------- release at maturity (EndBlock) ---------- *)
Definition matured (s s' : state) : Prop :=
  sv s' /\ forall b, st s' b = st s b \/ (st s b = Some 1%N /\ st s' b = None).
Lemma matured_refl s : sv s -> matured s s. Proof. intros S. split; auto. Qed.
Lemma matured_trans s1 s2 s3 : matured s1 s2 -> matured s2 s3 -> matured s1 s3.
Proof.
  intros [_ H1] [S3 H2]. split; auto. intros b. destruct (H2 b) as [E2|[A2 Z2]]; destruct (H1 b) as [E1|[A1 Z1]].
  - left. congruence.
  - right. split; auto. congruence.
  - right. split; [congruence|auto].
  - rewrite Z1 in A2. discriminate.
Qed.
Lemma matured_frame s s' : vals s' = vals s -> sv s -> matured s s'.
Proof. intros E S. split; [eapply sv_frame; eauto|]. intros b. left. apply st_frame; auto. Qed.
Lemma unstake_one_matured s a s' : sv s -> unstake_one s a = Some s' -> matured s s'.
Proof.
  unfold unstake_one. intros S. destruct (get_val s a) as [v|] eqn:E; [|intros [= <-]; apply matured_refl; auto].
  destruct (v_status v =? 1)%N eqn:St; cbn [negb]; [|intros [= <-]; apply matured_refl; auto]. apply N.eqb_eq in St.
  unfold finish_unstaking. destruct (negb _); [discriminate|].
  destruct (bank_send _ _ a (v_tokens v)) as [s2|] eqn:E2; [|discriminate]. intros [= <-].
  assert (V2 : vals s2 = vals s) by (rewrite (bank_send_vals _ _ _ _ _ E2); reflexivity).
  split; [unfold sv; cbn [vals set_vals]; rewrite V2; apply adel_sorted; auto|].
  intros b. unfold st, get_val. cbn [vals set_vals]. rewrite V2, aget_adel by auto.
  destruct (beqb a b) eqn:B; [|left; reflexivity]. apply beqb_eq in B; subst b. right. unfold get_val in E. rewrite E. cbn. split; [congruence|reflexivity].
Qed.
Lemma fold_opt_matured {A} (f : state -> A -> option state) :
  (forall s x s', sv s -> f s x = Some s' -> matured s s') ->
  forall l s s', sv s -> fold_opt f l s = Some s' -> matured s s'.
Proof.
  intros Hf. induction l as [|x l IH]; simpl; intros s s' S; [intros [= <-]; apply matured_refl; auto|].
  destruct (f s x) as [s1|] eqn:E; [|discriminate]. intros E2. pose proof (Hf _ _ _ S E) as F1.
  eapply matured_trans; [exact F1|]. apply IH; [apply F1|exact E2].
Qed.
Theorem end_block_matured s s' ups : sv s -> end_block s = Some (s', ups) -> matured s s'.
Proof.
  unfold end_block. intros S. destruct (update_tm_validators s) as [[s1 u]|] eqn:E; [|discriminate].
  destruct (update_tm_frame s s1 u E) as [V1 _].
  destruct (unstake_mature s1) as [s2|] eqn:E2; [|discriminate]. intros [= <- _].
  eapply matured_trans; [apply (matured_frame s s1 V1 S)|].
  unfold unstake_mature in E2. revert E2. apply fold_opt_matured; [|eapply sv_frame; eauto].
  intros st0 p st' S0. destruct (fold_opt unstake_one (snd p) st0) as [st1|] eqn:E1; [|discriminate]. intros [= <-].
  pose proof (fold_opt_matured unstake_one unstake_one_matured _ _ _ S0 E1) as M1.
  eapply matured_trans; [exact M1|]. apply matured_frame; [reflexivity|apply M1].
Qed.

(* ---------- transactions ---------- *)
(* what a delivered message may do to the status of b *)
Definition msg_change (m : msg) (minstake : Z) (before after : option N) (b : bytes) : Prop :=
  match m with
  | MStake _ a amt => b = a /\ (before = None \/ before = Some 0%N) /\ after = Some 2%N /\ minstake <= amt
  | MUnstake a => b = a /\ before = Some 2%N /\ after = Some 1%N
  | _ => False
  end.
Definition hres_tr (s : state) (m : msg) (r : hres) : Prop :=
  match r with HOk s' | HErr s' => sv s' /\ forall b, st s' b = st s b \/ msg_change m (p_min_stake (pp s)) (st s b) (st s' b) b end.
Lemma keep s m : sv s -> sv s /\ forall b, st s b = st s b \/ msg_change m (p_min_stake (pp s)) (st s b) (st s b) b.
Proof. intros S. split; auto. Qed.
Lemma apply_param_vals s k v raw : vals (apply_param s k v raw) = vals s.
Proof. unfold apply_param. destruct v; reflexivity. Qed.
Lemma handle_tr s m : sv s -> msg_basic_ok m = true -> hres_tr s m (handle s m).
Proof.
  intros S BO. destruct m as [pk a amt|a|a|f t amt|f key v raw wf|f t amt act|f h raw]; cbn [handle hres_tr].
  - set (v0 := match get_val s a with Some v => v | None => _ end).
    destruct (v_status v0 =? 0)%N eqn:St0; cbn [negb]; [|apply keep; auto]. apply N.eqb_eq in St0.
    destruct (match aget (sinfo s) a with Some si => si_tomb si | None => false end); [apply keep; auto|].
    destruct (Z.ltb_spec amt (p_min_stake (pp s))) as [|Min]; [apply keep; auto|].
    destruct (Z.ltb_spec (bal s a) amt) as [|Enough]; [apply keep; auto|].
    set (s1 := match get_val s a with Some _ => s | None => _ end).
    assert (B0 : st s a = None \/ st s a = Some 0%N).
    { unfold st, v0 in *. destruct (get_val s a) as [v|]; [right; cbn; congruence|left; reflexivity]. }
    assert (S1 : sv s1 /\ accts s1 = accts s /\ forall b, b <> a -> st s1 b = st s b).
    { unfold s1. destruct (get_val s a) eqn:E; [split; auto|].
      split; [unfold sv; cbn [vals set_misc put_val set_vals]; apply aset_sorted; auto|]. split; [reflexivity|].
      intros b Nb. unfold st, get_val. cbn [vals set_misc put_val set_vals]. rewrite aget_aset by auto.
      destruct (beqb a b) eqn:B; [apply beqb_eq in B; congruence|reflexivity]. }
    destruct S1 as (S1 & A1 & T1).
    assert (Pos : 0 < amt) by (cbn [msg_basic_ok] in BO; apply andb_true_iff in BO; destruct BO as [_ BO]; apply Z.ltb_lt in BO; exact BO).
    destruct (bank_send s1 a (m_pool (ma s1)) amt) as [s2|] eqn:E.
    2:{ exfalso. unfold bank_send in E. destruct ((amt <? 0) || (bal s1 a <? amt)) eqn:G; [|discriminate].
        apply orb_true_iff in G. assert (bal s1 a = bal s a) by (unfold bal; rewrite A1; reflexivity).
        destruct G as [G|G]; apply Z.ltb_lt in G; lia. }
    cbn [hres_tr]. set (v1 := with_status (with_tokens v0 (v_tokens v0 + amt)) 2).
    assert (V2 : vals s2 = vals s1) by (apply (bank_send_vals _ _ _ _ _ E)).
    assert (S2 : sv s2) by (eapply sv_frame; eauto).
    assert (Fin : forall sx, vals sx = vals (put_val s2 a v1) -> sv sx /\ forall b, st sx b = st s b \/ msg_change (MStake pk a amt) (p_min_stake (pp s)) (st s b) (st sx b) b).
    { intros sx Ex. split; [eapply sv_frame; [exact Ex|apply sv_put; auto]|]. intros b. rewrite (st_frame _ sx Ex), st_put by auto.
      destruct (beqb a b) eqn:B.
      - apply beqb_eq in B; subst b. right. cbn [msg_change]. split; auto.
      - left. rewrite (st_frame s1 s2 V2). apply T1. intros ->. rewrite beqb_refl in B. discriminate. }
    match goal with |- _ /\ (forall b, st (match ?Y with _ => _ end) b = _ \/ _) => destruct Y end; apply Fin;
      unfold set_staked; destruct (_ || _); reflexivity.
  - destruct (get_val s a) as [v|] eqn:E; [|apply keep; auto]. destruct (v_status v =? 2)%N eqn:St; cbn [negb]; [|apply keep; auto].
    destruct (_ <? _); [apply keep; auto|]. cbn [hres_tr]. apply N.eqb_eq in St.
    set (v1 := with_unstime (with_status v 1) (btime s + p_unstaking_time (pp s))).
    match goal with |- sv ?X /\ _ => set (sx := X) end.
    assert (Vx : vals sx = vals (put_val s a v1)) by reflexivity.
    split; [eapply sv_frame; [exact Vx|apply sv_put; auto]|].
    intros b. rewrite (st_frame _ sx Vx), st_put by auto.
    destruct (beqb a b) eqn:B; [|left; reflexivity]. apply beqb_eq in B; subst b. right. cbn [msg_change].
    split; auto. split; [unfold st; rewrite E; cbn; congruence|reflexivity].
  - destruct (get_val s a) as [v|] eqn:E; [|apply keep; auto]. destruct (_ <? _); [apply keep; auto|]. destruct (negb _) eqn:J; [apply keep; auto|].
    destruct (aget (sinfo s) a) as [si|]; [|apply keep; auto]. destruct (si_tomb si); [apply keep; auto|]. destruct (_ <? _); [apply keep; auto|].
    destruct (unjail s a) as [s1|] eqn:Eu; [|apply keep; auto]. cbn [hres_tr].
    unfold unjail in Eu. rewrite E in Eu. destruct (v_jailed v); [|discriminate]. injection Eu as <-.
    assert (V : vals (set_staked (put_val s a (with_jailed v false)) a (with_jailed v false)) = vals (put_val s a (with_jailed v false)))
      by (apply set_staked_vals).
    split; [eapply sv_frame; [exact V|apply sv_put; auto]|]. intros b. left. rewrite (st_frame _ _ V), st_put by auto.
    destruct (beqb a b) eqn:B; [|reflexivity]. apply beqb_eq in B; subst b. unfold st. rewrite E. reflexivity.
  - destruct (bank_send s f t amt) as [s1|] eqn:E; [|apply keep; auto]. cbn [hres_tr].
    pose proof (bank_send_vals _ _ _ _ _ E) as V. split; [eapply sv_frame; eauto|]. intros b. left. apply st_frame; auto.
  - destruct (negb _); [apply keep; auto|]. destruct wf; [|apply keep; auto]. cbn [hres_tr].
    split; [eapply sv_frame; [apply apply_param_vals|auto]|]. intros b. left. apply st_frame. apply apply_param_vals.
  - destruct (negb _); [apply keep; auto|]. destruct (act =? 1)%N.
    + destruct (bank_send s _ t amt) as [s1|] eqn:E; [|apply keep; auto]. cbn [hres_tr].
      pose proof (bank_send_vals _ _ _ _ _ E) as V. split; [eapply sv_frame; eauto|]. intros b. left. apply st_frame; auto.
    + destruct (act =? 2)%N; [|apply keep; auto].
      destruct (bank_burn s _ amt) as [s1|] eqn:E; [|apply keep; auto]. cbn [hres_tr].
      pose proof (bank_burn_vals _ _ _ _ E) as V. split; [eapply sv_frame; eauto|]. intros b. left. apply st_frame; auto.
  - destruct (negb _); [apply keep; auto|]. cbn [hres_tr].
    split; [eapply sv_frame; [apply apply_param_vals|auto]|]. intros b. left. apply st_frame. apply apply_param_vals.
Qed.

(* ---------- one step of a history ---------- *)
Definition legal_change (s : state) (o : op) (b : bytes) (before after : option N) : Prop :=
  match o with
  | OBegin _ _ _ _ _ => (exists k, before = Some k) /\ after = Some 0%N                   (* forced unstake *)
  | OTx t => msg_signer (t_msg t) = b /\ msg_change (t_msg t) (p_min_stake (pp s)) before after b   (* its own stake / begin-unstake *)
  | OEnd => before = Some 1%N /\ after = None                                              (* released at maturity *)
  | _ => False
  end.
Theorem step_transitions s o s' b : sv s -> step s o = Some s' ->
  sv s' /\ (st s' b = st s b \/ legal_change s o b (st s b) (st s' b)).
Proof.
  intros S. destruct o as [h t p vs es|t|a amt|a sev| |]; cbn [step legal_change].
  - intros E. destruct (begin_block_forced _ _ _ _ _ _ _ S E) as [S' H]. split; auto.
  - intros [= <-]. unfold deliver_tx. destruct (negb (msg_basic_ok (t_msg t))) eqn:BO; cbn [orb]; [split; auto|].
    apply negb_false_iff in BO. destruct (_ || _); [split; auto|].
    destruct (ante s t) as [s1|] eqn:Ea; [|split; auto].
    assert (F1 : vals s1 = vals s /\ pp s1 = pp s).
    { unfold ante in Ea. destruct (_ <? _); [discriminate|].
      match type of Ea with context[match ?X with Some ka => _ | None => None end] => destruct X as [ka|] end; [|discriminate].
      destruct (negb _); [discriminate|]. destruct (t_in_index t); [discriminate|]. destruct (_ <? _); [discriminate|].
      destruct (_ && _); [discriminate|]. destruct (_ || _); [discriminate|].
      destruct (aget (accts s) _) as [bb|]; [|discriminate]. destruct (bb <? _); [discriminate|].
      destruct (bank_send_frame _ _ _ _ _ Ea) as (A & _ & C). auto. }
    destruct F1 as [V1 P1]. assert (S1 : sv s1) by (eapply sv_frame; eauto).
    pose proof (handle_tr s1 (t_msg t) S1 BO) as Hh.
    assert (G : forall sx, (sv sx /\ forall b0, st sx b0 = st s1 b0 \/ msg_change (t_msg t) (p_min_stake (pp s1)) (st s1 b0) (st sx b0) b0) ->
                sv sx /\ (st sx b = st s b \/ (msg_signer (t_msg t) = b /\ msg_change (t_msg t) (p_min_stake (pp s)) (st s b) (st sx b) b))).
    { intros sx [Sx Hx]. split; auto. rewrite <- (st_frame s s1 V1 b), <- P1. destruct (Hx b) as [Eq|Ch]; [left; exact Eq|right].
      split; auto. destruct (t_msg t); cbn [msg_change msg_signer] in *; try contradiction; destruct Ch as [-> _]; reflexivity. }
    destruct (handle s1 (t_msg t)); cbn [dres_state hres_tr] in *; apply G; exact Hh.
  - intros [= <-]. split; auto.
  - intros [= <-]. split; auto.
  - destruct (end_block s) as [[s1 u]|] eqn:E; [|discriminate]. intros [= <-].
    destruct (end_block_matured _ _ _ S E) as [S' H]. split; auto.
  - intros [= <-]. split; auto.
Qed.
(* over a whole history: the statuses a goes through are linked by legal changes only *)
Theorem run_keeps_sorted ops : forall s s', sv s -> run ops s = Some s' -> sv s'.
Proof.
  unfold run. induction ops as [|o r IH]; simpl; intros s s' S; [intros [= <-]; auto|].
  destruct (step s o) as [s1|] eqn:E; [|discriminate]. apply IH. exact (proj1 (step_transitions s o s1 [] S E)).
Qed.
