(* C08: handleValidatorSignature applies exactly the ring-buffer rule of RingProofs to the stored bit array,
   counter and offset of the validator - or, when the downtime threshold is crossed, resets them to the empty
   ring. With RingProofs.ring_is_sliding_window this is the "counter = misses in the sliding window" reading
   for the votes handled since the last reset. *)
From Coq Require Import List ZArith NArith Bool Lia PeanoNat.
From PM Require Import Base.Bytes Store.KV Store.MergeProofs Store.KVProofs Num.IntModel Num.DecModel
  App.Model App.BankProofs App.IndexProofs App.RingProofs.
Import ListNotations.
Local Open Scope Z_scope.

Lemma le_bytes_length n z : length (le_bytes n z) = n.
Proof. revert z; induction n as [|n IH]; intros z; simpl; auto. Qed.
Lemma le_bytes_inj n : forall x y, 0 <= x < 256 ^ Z.of_nat n -> 0 <= y < 256 ^ Z.of_nat n -> le_bytes n x = le_bytes n y -> x = y.
Proof.
  induction n as [|n IH]; intros x y Hx Hy E.
  - simpl in *. lia.
  - cbn [le_bytes] in E. injection E as E1 E2.
    rewrite Nat2Z.inj_succ, Z.pow_succ_r in Hx, Hy by lia.
    pose proof (Z.mod_pos_bound x 256 ltac:(lia)). pose proof (Z.mod_pos_bound y 256 ltac:(lia)).
    assert (x mod 256 = y mod 256) by lia.
    assert (x / 256 = y / 256).
    { apply IH; auto; split; try (apply Z.div_pos; lia); apply Z.div_lt_upper_bound; lia. }
    pose proof (Z.div_mod x 256 ltac:(lia)). pose proof (Z.div_mod y 256 ltac:(lia)). lia.
Qed.
Lemma missed_key_inj a i j : 0 <= i < 256 ^ 8 -> 0 <= j < 256 ^ 8 -> missed_key a i = missed_key a j -> i = j.
Proof. unfold missed_key. intros Hi Hj E. apply app_inv_head in E. apply (le_bytes_inj 8); auto. Qed.

Lemma missed_key_inj2 a b i j : length a = length b -> 0 <= i < 256 ^ 8 -> 0 <= j < 256 ^ 8 ->
  missed_key a i = missed_key b j -> a = b /\ i = j.
Proof.
  unfold missed_key. intros L Hi Hj E.
  assert (A : a = b).
  { pose proof (f_equal (firstn (length a)) E) as F. rewrite firstn_app, Nat.sub_diag, firstn_all in F. cbn [firstn] in F.
    rewrite app_nil_r in F. rewrite L, firstn_app, Nat.sub_diag, firstn_all in F. cbn [firstn] in F. rewrite app_nil_r in F. exact F. }
  subst b. split; [reflexivity|]. apply app_inv_head in E. apply (le_bytes_inj 8); auto.
Qed.

(* the validator's ring, read from the state *)
Definition bit_at (m : amap bool) (a : bytes) (i : Z) : bool := match aget m (missed_key a i) with Some b => b | None => false end.
Definition ring_of (m : amap bool) (a : bytes) (si : signinfo) : ring :=
  (fun i => bit_at m a (Z.of_nat i), si_missed si, Z.to_nat (si_offset si)).
Definition ring_eq (W : nat) (r1 r2 : ring) : Prop :=
  let '(b1, c1, o1) := r1 in let '(b2, c2, o2) := r2 in c1 = c2 /\ o1 = o2 /\ forall i, (i < W)%nat -> b1 i = b2 i.

(* the (bits, counter) update at the head of handle_signature IS ring_step *)
Definition ring_update (m : amap bool) (a : bytes) (si : signinfo) (w : Z) (sg : bool) : amap bool * Z :=
  let index := Z.rem (si_offset si) w in
  let previous := match aget m (missed_key a index) with Some b => b | None => false end in
  let missd := negb sg in
  if negb previous && missd then (aset m (missed_key a index) true, si_missed si + 1)
  else if previous && negb missd then (aset m (missed_key a index) false, si_missed si - 1)
  else (m, si_missed si).
Lemma bit_update_is_ring_step m a si w sg : asorted m -> 0 < w < 256 ^ 8 -> 0 <= si_offset si ->
  ring_eq (Z.to_nat w)
    (ring_of (fst (ring_update m a si w sg)) a
             {| si_start := si_start si; si_offset := si_offset si + 1; si_jailed_until := si_jailed_until si;
                si_tomb := si_tomb si; si_missed := snd (ring_update m a si w sg) |})
    (ring_step (Z.to_nat w) (ring_of m a si) (negb sg)).
Proof.
  intros Sm Hw Ho. unfold ring_update. cbv zeta. fold (bit_at m a (Z.rem (si_offset si) w)).
  assert (Ei : Z.rem (si_offset si) w = Z.of_nat (Z.to_nat (si_offset si) mod Z.to_nat w)).
  { rewrite Z.rem_mod_nonneg by lia. rewrite Nat2Z.inj_mod, !Z2Nat.id by lia. reflexivity. }
  assert (Ri : 0 <= Z.rem (si_offset si) w < 256 ^ 8).
  { rewrite Z.rem_mod_nonneg by lia. pose proof (Z.mod_pos_bound (si_offset si) w ltac:(lia)). lia. }
  unfold ring_step, ring_of. cbn [si_missed si_offset].
  assert (Eo : Z.to_nat (si_offset si + 1) = S (Z.to_nat (si_offset si))) by lia.
  set (ix := (Z.to_nat (si_offset si) mod Z.to_nat w)%nat) in *.
  assert (Pb : bit_at m a (Z.of_nat ix) = bit_at m a (Z.rem (si_offset si) w)) by (rewrite Ei; reflexivity).
  rewrite Pb.
  assert (Upd : forall x i, (i < Z.to_nat w)%nat ->
            bit_at (aset m (missed_key a (Z.rem (si_offset si) w)) x) a (Z.of_nat i) = upd (fun i => bit_at m a (Z.of_nat i)) ix x i).
  { intros x i Hi. unfold bit_at, upd. rewrite aget_aset by exact Sm.
    destruct (beqb (missed_key a (Z.rem (si_offset si) w)) (missed_key a (Z.of_nat i))) eqn:B.
    - apply beqb_eq in B. apply missed_key_inj in B; [|lia|lia]. rewrite Ei in B. apply Nat2Z.inj in B. subst i.
      rewrite Nat.eqb_refl. reflexivity.
    - destruct (Nat.eqb_spec i ix) as [->|N]; [|reflexivity]. rewrite Ei in B. rewrite beqb_refl in B. discriminate. }
  destruct (bit_at m a (Z.rem (si_offset si) w)) eqn:Pv; destruct sg; cbn [negb andb fst snd]; unfold ring_eq;
    (split; [reflexivity|split; [exact Eo|]]); intros i Hi; try reflexivity; symmetry; rewrite <- Upd by auto; reflexivity.
Qed.

(* slashing and jailing touch neither the signing infos nor the bit arrays *)
Lemma sm_burn_staked s a s' : burn_staked s a = Some s' -> sinfo s' = sinfo s /\ missed s' = missed s.
Proof.
  unfold burn_staked, bank_burn. destruct (_ <=? _); [discriminate|]. destruct (_ || _); [discriminate|]. intros [= <-]. auto.
Qed.
Lemma sm_force_unstake s a v s' : force_unstake s a v = Some s' -> sinfo s' = sinfo s /\ missed s' = missed s.
Proof.
  unfold force_unstake.
  set (s1 := if (v_status v =? 1)%N then del_unstaking (del_staked s a v) a v else del_staked s a v).
  assert (F : sinfo s1 = sinfo s /\ missed s1 = missed s) by (unfold s1; destruct (v_status v =? 1)%N; auto).
  destruct (0 <? v_tokens v).
  - destruct (burn_staked s1 (v_tokens v)) as [s2|] eqn:E; [|discriminate]. intros [= <-].
    destruct (sm_burn_staked _ _ _ E) as [G1 G2]. cbn [sinfo missed put_val set_vals]. destruct F; split; congruence.
  - intros [= <-]. exact F.
Qed.
Definition sres_sm (s : state) (r : sres) : Prop :=
  match r with SOk s' | SErr s' => sinfo s' = sinfo s /\ missed s' = missed s | SPanic => True end.
Lemma sm_slash s a h p f : sres_sm s (slash s a h p f).
Proof.
  unfold slash. destruct (f <? 0); [split; auto|]. destruct (height s <? h); [split; auto|].
  destruct (get_val s a) as [v|]; [|split; auto]. destruct (v_status v =? 0)%N; [split; auto|].
  destruct (tokens_from_power p) as [amount|]; [|exact I].
  destruct (dec_mul (dec_from_int amount) f) as [d|]; [|exact I].
  destruct (dec_truncate_int d) as [sa|]; [|exact I].
  set (burn := Z.max (Z.min sa (v_tokens v)) 0). set (v1 := with_tokens v (v_tokens v - burn)).
  set (s2 := set_staked (put_val (del_staked s a v) a v1) a v1).
  assert (G2 : sinfo s2 = sinfo s /\ missed s2 = missed s) by (unfold s2, set_staked; destruct (_ || _); auto).
  destruct (burn_staked s2 burn) as [s3|] eqn:E3; [|exact G2].
  destruct (sm_burn_staked _ _ _ E3) as [A1 A2].
  assert (G3 : sinfo s3 = sinfo s /\ missed s3 = missed s) by (destruct G2; split; congruence).
  destruct (v_tokens v1 <? p_min_stake (pp s3)); [|exact G3].
  destruct (force_unstake s3 a v1) as [s4|] eqn:E4; [|exact G3].
  destruct (sm_force_unstake _ _ _ _ E4) as [B1 B2]. simpl. destruct G3; split; congruence.
Qed.
Lemma sm_jail s a s' : jail s a = Some s' -> sinfo s' = sinfo s /\ missed s' = missed s.
Proof. unfold jail. destruct (get_val s a) as [v|]; [|discriminate]. destruct (v_jailed v); [discriminate|]. intros [= <-]. auto. Qed.

Lemma cleared_bits (m : amap bool) a i : asorted m ->
  bit_at (filter (fun p => negb (has_prefix a (fst p) && Nat.eqb (length (fst p)) (length a + 8))) m) a i = false.
Proof.
  intros S. unfold bit_at.
  destruct (aget (filter _ m) (missed_key a i)) as [b|] eqn:E; auto.
  apply aget_in in E. apply filter_In in E. destruct E as [_ F]. cbn [fst] in F.
  assert (P : has_prefix a (missed_key a i) = true) by (apply has_prefix_app; exists (le_bytes 8 i); reflexivity).
  assert (L : Nat.eqb (length (missed_key a i)) (length a + 8) = true).
  { unfold missed_key. rewrite app_length, le_bytes_length. apply Nat.eqb_refl. }
  rewrite P, L in F. discriminate.
Qed.

Lemma handle_signature_unfold s a power sg : handle_signature s a power sg =
  match aget (pkrel s) a, aget (sinfo s) a with
  | Some _, Some si =>
    let w := p_window (pp s) in
    if w <=? 0 then None else
    let '(mi, ctr) := ring_update (missed s) a si w sg in
    let si1 := {| si_start := si_start si; si_offset := si_offset si + 1; si_jailed_until := si_jailed_until si;
                  si_tomb := si_tomb si; si_missed := ctr |} in
    let s1 := set_sign s (sinfo s) mi in
    let min_height := si_start si + w in
    let max_missed := w - min_signed_per_window (pp s) in
    if (min_height <? height s) && (max_missed <? ctr) then
      match get_val s1 a with
      | Some v =>
        if v_jailed v then Some (set_sign s1 (aset (sinfo s1) a si1) (missed s1))
        else
          let s2 := match slash s1 a (height s - 2) power (p_slash_dt (pp s)) with
                    | SOk x => Some x | SErr x => Some x | SPanic => None end in
          match s2 with
          | None => None
          | Some s2 =>
            match jail s2 a with
            | None => None
            | Some s3 =>
              let si2 := {| si_start := si_start si; si_offset := 0;
                            si_jailed_until := btime s + p_downtime_jail (pp s);
                            si_tomb := si_tomb si; si_missed := 0 |} in
              let mi2 := filter (fun p => negb (has_prefix a (fst p) && Nat.eqb (length (fst p)) (length a + 8))) (missed s3) in
              Some (set_sign s3 (aset (sinfo s3) a si2) mi2)
            end
          end
      | None => Some (set_sign s1 (aset (sinfo s1) a si1) (missed s1))
      end
    else Some (set_sign s1 (aset (sinfo s1) a si1) (missed s1))
  | _, _ => None
  end.
Proof. reflexivity. Qed.

(* one vote for validator a: its ring makes exactly one ring step, or is reset when it is jailed for downtime *)
Theorem handle_signature_is_ring_step s a p sg s' si :
  asorted (missed s) -> asorted (sinfo s) -> aget (sinfo s) a = Some si -> 0 <= si_offset si ->
  0 < p_window (pp s) < 256 ^ 8 -> handle_signature s a p sg = Some s' ->
  exists si', aget (sinfo s') a = Some si' /\
    (ring_eq (Z.to_nat (p_window (pp s))) (ring_of (missed s') a si')
             (ring_step (Z.to_nat (p_window (pp s))) (ring_of (missed s) a si) (negb sg)) \/
     (* the threshold was crossed: slashed, jailed, and the window cleared *)
     ring_eq (Z.to_nat (p_window (pp s))) (ring_of (missed s') a si') ring0).
Proof.
  intros Sm Ss Esi Ho Hw. rewrite handle_signature_unfold. destruct (aget (pkrel s) a); [|discriminate]. rewrite Esi. cbv zeta.
  destruct (Z.leb_spec (p_window (pp s)) 0); [lia|].
  pose proof (bit_update_is_ring_step (missed s) a si (p_window (pp s)) sg Sm Hw Ho) as R.
  destruct (ring_update (missed s) a si (p_window (pp s)) sg) as [mi ctr] eqn:EM. cbn [fst snd] in R.
  assert (Smi : asorted mi).
  { unfold ring_update in EM. cbv zeta in EM. revert EM. destruct (_ && _); [intros [= <- _]; apply aset_sorted; auto|].
    destruct (_ && _); [intros [= <- _]; apply aset_sorted; auto|intros [= <- _]; auto]. }
  set (si1 := {| si_start := si_start si; si_offset := si_offset si + 1; si_jailed_until := si_jailed_until si;
                 si_tomb := si_tomb si; si_missed := ctr |}) in *.
  set (s1 := set_sign s (sinfo s) mi).
  assert (Counted : forall x, sinfo x = sinfo s -> missed x = mi ->
            exists si', aget (sinfo (set_sign x (aset (sinfo x) a si1) (missed x))) a = Some si' /\
              ring_eq (Z.to_nat (p_window (pp s))) (ring_of (missed (set_sign x (aset (sinfo x) a si1) (missed x))) a si')
                      (ring_step (Z.to_nat (p_window (pp s))) (ring_of (missed s) a si) (negb sg))).
  { intros x E1 E2. exists si1. cbn [sinfo missed set_sign]. rewrite E1, E2. rewrite aget_aset by auto. rewrite beqb_refl.
    split; [reflexivity|exact R]. }
  destruct (_ && _).
  - destruct (get_val s1 a) as [v|] eqn:Ev.
    + destruct (v_jailed v).
      * intros [= <-]. destruct (Counted s1 eq_refl eq_refl) as (si' & E' & R'). exists si'. split; auto.
      * pose proof (sm_slash s1 a (height s - 2) p (p_slash_dt (pp s))) as Hs.
        destruct (slash s1 a (height s - 2) p (p_slash_dt (pp s))) as [x|x|]; try discriminate; simpl in Hs; destruct Hs as [X1 X2];
          (destruct (jail x a) as [s3|] eqn:Ej; [|discriminate]); destruct (sm_jail _ _ _ Ej) as [J1 J2]; intros [= <-].
        all: eexists; split; [cbn [sinfo set_sign]; rewrite aget_aset by (rewrite J1, X1; exact Ss); rewrite beqb_refl; reflexivity|].
        all: right; unfold ring_eq, ring_of, ring0; cbn [si_missed si_offset missed set_sign]; split; [reflexivity|split; [reflexivity|]];
             intros i _; apply cleared_bits; rewrite J2, X2; unfold s1; cbn [missed set_sign]; exact Smi.
    + intros [= <-]. destruct (Counted s1 eq_refl eq_refl) as (si' & E' & R'). exists si'. split; auto.
  - intros [= <-]. destruct (Counted s1 eq_refl eq_refl) as (si' & E' & R'). exists si'. split; auto.
Qed.
