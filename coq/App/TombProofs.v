(* C09: a validator convicted of double signing is tombstoned and jailed PERMANENTLY.
   In every reachable state of every history: (1) a tombstone is never lifted, (2) a validator whose
   signing info is tombstoned is jailed whenever it has a record at all (after the repair of
   finding F24, a tombstoned address can never stake again), hence - with the soundness of the
   power index - it is never offered to Tendermint again. *)
From Coq Require Import List ZArith NArith Bool Lia.
From PM Require Import Base.Bytes Store.KV Store.MergeProofs Store.KVProofs Num.IntModel Num.DecModel
  App.Model App.BankProofs App.IndexProofs.
Import ListNotations.
Local Open Scope Z_scope.

Definition tombed (S : amap signinfo) (a : bytes) : Prop := exists si, aget S a = Some si /\ si_tomb si = true.
Definition tomb_ok (s : state) : Prop :=
  asorted (sinfo s) /\ asorted (vals s) /\
  forall a v, tombed (sinfo s) a -> aget (vals s) a = Some v -> v_jailed v = true.
(* tombstones only accumulate *)
Definition tomb_mono (s s' : state) : Prop := forall a, tombed (sinfo s) a -> tombed (sinfo s') a.
Lemma tomb_mono_refl s : tomb_mono s s. Proof. intros a H; exact H. Qed.
Lemma tomb_mono_trans s1 s2 s3 : tomb_mono s1 s2 -> tomb_mono s2 s3 -> tomb_mono s1 s3.
Proof. intros A B a H. apply B, A, H. Qed.
Definition tk (s s' : state) : Prop := tomb_ok s' /\ tomb_mono s s'.

(* frames *)
Lemma tframe s s' : sinfo s' = sinfo s -> vals s' = vals s -> tomb_ok s -> tk s s'.
Proof. unfold tk, tomb_ok, tomb_mono. intros -> ->. intros H. split; auto. Qed.
Lemma tk_trans s1 s2 s3 : tk s1 s2 -> tk s2 s3 -> tk s1 s3.
Proof. intros [_ M1] [O M2]. split; auto. eapply tomb_mono_trans; eauto. Qed.
Lemma tk_refl s : tomb_ok s -> tk s s.
Proof. intros H. split; auto. apply tomb_mono_refl. Qed.

(* writing a validator record that is jailed, or keeps the flag, or belongs to a non-tombstoned address *)
Lemma put_val_tk s a v1 : tomb_ok s ->
  (v_jailed v1 = true \/ ~ tombed (sinfo s) a \/ (exists v, get_val s a = Some v /\ v_jailed v1 = v_jailed v)) ->
  tk s (put_val s a v1).
Proof.
  intros (SS & SV & H) C. split; [|intros b Hb; exact Hb]. split; [exact SS|]. split; [apply aset_sorted; auto|].
  cbn [sinfo vals put_val set_vals]. intros b w Tb. rewrite aget_aset by auto. destruct (beqb a b) eqn:B.
  - apply beqb_eq in B; subst b. intros [= <-]. destruct C as [C|[C|(v & E & C)]]; [exact C|contradiction|].
    rewrite C. apply (H a v Tb E).
  - apply H; auto.
Qed.
Lemma del_val_tk s a : tomb_ok s -> tk s (set_vals s (adel (vals s) a)).
Proof.
  intros (SS & SV & H). split; [|intros b Hb; exact Hb]. split; [exact SS|]. split; [apply adel_sorted; auto|].
  cbn [sinfo vals set_vals]. intros b w Tb. rewrite aget_adel by auto. destruct (beqb a b); [discriminate|]. apply H; auto.
Qed.
(* rewriting a's signing info without lifting a tombstone *)
Lemma set_sinfo_tk s a si1 mi : tomb_ok s ->
  ((exists si, aget (sinfo s) a = Some si /\ si_tomb si1 = si_tomb si) \/ si_tomb si1 = false \/
   (forall v, get_val s a = Some v -> v_jailed v = true)) ->
  (forall si, aget (sinfo s) a = Some si -> si_tomb si = true -> si_tomb si1 = true) ->
  tk s (set_sign s (aset (sinfo s) a si1) mi).
Proof.
  intros (SS & SV & H) C K. split.
  - split; [apply aset_sorted; auto|]. split; [exact SV|]. cbn [sinfo vals set_sign].
    intros b w (sb & Eb & Tb). rewrite aget_aset in Eb by auto. destruct (beqb a b) eqn:B.
    + apply beqb_eq in B; subst b. injection Eb as <-. intros Ev.
      destruct C as [(si & Es & C)|[C|C]].
      * apply (H a w); auto. exists si. split; auto. congruence.
      * congruence.
      * apply C; auto.
    + apply H. exists sb; auto.
  - intros b (sb & Eb & Tb). cbn [sinfo set_sign]. unfold tombed. rewrite aget_aset by auto. destruct (beqb a b) eqn:B.
    + apply beqb_eq in B; subst b. exists si1. split; auto. eapply K; eauto.
    + exists sb; auto.
Qed.

Ltac tfr := apply tframe; reflexivity.

Lemma bank_send_t s f t a s' : bank_send s f t a = Some s' -> sinfo s' = sinfo s /\ vals s' = vals s.
Proof. unfold bank_send. destruct (_ || _); [discriminate|]. intros [= <-]. auto. Qed.
Lemma bank_mint_t s m a s' : bank_mint s m a = Some s' -> sinfo s' = sinfo s /\ vals s' = vals s.
Proof. unfold bank_mint. destruct (_ <? _); [discriminate|]. intros [= <-]. auto. Qed.
Lemma bank_burn_t s m a s' : bank_burn s m a = Some s' -> sinfo s' = sinfo s /\ vals s' = vals s.
Proof. unfold bank_burn. destruct (_ || _); [discriminate|]. intros [= <-]. auto. Qed.
Lemma burn_staked_t s a s' : burn_staked s a = Some s' -> sinfo s' = sinfo s /\ vals s' = vals s.
Proof. unfold burn_staked. destruct (_ <=? _); [discriminate|]. apply bank_burn_t. Qed.
Lemma set_staked_t s a v : sinfo (set_staked s a v) = sinfo s /\ vals (set_staked s a v) = vals s.
Proof. unfold set_staked. destruct (_ || _); auto. Qed.
Lemma tk_frame_r s s1 s2 : tk s s1 -> sinfo s2 = sinfo s1 -> vals s2 = vals s1 -> tk s s2.
Proof. intros H E1 E2. eapply tk_trans; [exact H|]. apply tframe; auto. apply H. Qed.

(* what a function does to one validator's jailed flag *)
Definition jkeep (a : bytes) (s s' : state) : Prop :=
  forall v', get_val s' a = Some v' -> exists v, get_val s a = Some v /\ v_jailed v' = v_jailed v.
Lemma jkeep_refl a s : jkeep a s s. Proof. intros v E. exists v; auto. Qed.
Lemma jkeep_trans a s1 s2 s3 : jkeep a s1 s2 -> jkeep a s2 s3 -> jkeep a s1 s3.
Proof. intros A B v3 E3. destruct (B v3 E3) as (v2 & E2 & J2). destruct (A v2 E2) as (v1 & E1 & J1). exists v1. split; auto. congruence. Qed.
Lemma jkeep_frame a s s' : vals s' = vals s -> jkeep a s s'.
Proof. intros E v. unfold get_val. rewrite E. intros H. exists v; auto. Qed.

(* slashing machinery: never touches the signing infos *)
Definition keeps (a : bytes) (s s' : state) : Prop := tomb_ok s' /\ sinfo s' = sinfo s /\ jkeep a s s'.
Lemma keeps_refl a s : tomb_ok s -> keeps a s s.
Proof. intros H. split; auto. split; auto. apply jkeep_refl. Qed.
Lemma keeps_trans a s1 s2 s3 : keeps a s1 s2 -> keeps a s2 s3 -> keeps a s1 s3.
Proof. intros (_ & E1 & J1) (O & E2 & J2). split; auto. split; [congruence|eapply jkeep_trans; eauto]. Qed.
Lemma keeps_frame a s s' : tomb_ok s -> sinfo s' = sinfo s -> vals s' = vals s -> keeps a s s'.
Proof. intros H E1 E2. split; [apply (tframe s s' E1 E2 H)|]. split; auto. apply jkeep_frame; auto. Qed.
Lemma keeps_tk a s s' : keeps a s s' -> tk s s'.
Proof. intros (O & E & _). split; auto. intros b. rewrite E. auto. Qed.
Lemma put_keep a s v v1 : tomb_ok s -> get_val s a = Some v -> v_jailed v1 = v_jailed v -> keeps a s (put_val s a v1).
Proof.
  intros H E J. split; [apply (put_val_tk s a v1 H); right; right; exists v; auto|]. split; [reflexivity|].
  intros v'. unfold get_val. cbn [vals put_val set_vals]. rewrite aget_aset by apply H. rewrite beqb_refl.
  intros [= <-]. exists v; auto.
Qed.

Lemma force_unstake_t s a v s' : tomb_ok s -> get_val s a = Some v -> force_unstake s a v = Some s' -> keeps a s s'.
Proof.
  unfold force_unstake. intros H E.
  set (s1 := if (v_status v =? 1)%N then del_unstaking (del_staked s a v) a v else del_staked s a v).
  assert (F1 : sinfo s1 = sinfo s /\ vals s1 = vals s) by (unfold s1; destruct (v_status v =? 1)%N; auto).
  destruct F1 as [F1 F2].
  destruct (if 0 <? v_tokens v then burn_staked s1 (v_tokens v) else Some s1) as [s2|] eqn:E2; [|discriminate].
  assert (G : sinfo s2 = sinfo s /\ vals s2 = vals s).
  { destruct (0 <? v_tokens v); [apply burn_staked_t in E2; destruct E2; split; congruence|injection E2 as <-; auto]. }
  destruct G as [G1 G2]. intros [= <-].
  assert (K2 : keeps a s s2) by (apply keeps_frame; auto).
  eapply keeps_trans; [exact K2|]. apply (put_keep a s2 v); [apply K2|unfold get_val; rewrite G2; exact E|reflexivity].
Qed.

Definition sres_t (a : bytes) (s : state) (r : sres) : Prop :=
  match r with SOk s' | SErr s' => keeps a s s' | SPanic => True end.
Lemma slash_t s a h p f : tomb_ok s -> sres_t a s (slash s a h p f).
Proof.
  intros H. unfold slash. pose proof (keeps_refl a s H) as R.
  destruct (f <? 0); [exact R|]. destruct (height s <? h); [exact R|].
  destruct (get_val s a) as [v|] eqn:E; [|exact R].
  destruct (v_status v =? 0)%N; [exact R|].
  destruct (tokens_from_power p) as [amount|]; [|exact I].
  destruct (dec_mul (dec_from_int amount) f) as [d|]; [|exact I].
  destruct (dec_truncate_int d) as [sa|]; [|exact I].
  set (burn := Z.max (Z.min sa (v_tokens v)) 0).
  set (v1 := with_tokens v (v_tokens v - burn)).
  set (s2 := set_staked (put_val (del_staked s a v) a v1) a v1).
  assert (K2 : keeps a s s2).
  { unfold s2. destruct (set_staked_t (put_val (del_staked s a v) a v1) a v1) as [X1 X2].
    eapply keeps_trans; [apply (put_keep a (del_staked s a v) v v1 H E eq_refl)|].
    apply keeps_frame; auto. apply (put_keep a (del_staked s a v) v v1 H E eq_refl). }
  assert (G2 : get_val s2 a = Some v1).
  { unfold get_val, s2. rewrite (proj2 (set_staked_t _ _ _)). apply get_put_val. apply H. }
  destruct (burn_staked s2 burn) as [s3|] eqn:E3; [|exact K2].
  destruct (burn_staked_t _ _ _ E3) as [F1 F2].
  assert (K3 : keeps a s s3) by (eapply keeps_trans; [exact K2|apply keeps_frame; auto; apply K2]).
  destruct (v_tokens v1 <? p_min_stake (pp s3)); [|exact K3].
  destruct (force_unstake s3 a v1) as [s4|] eqn:E4; [|exact K3].
  assert (G3 : get_val s3 a = Some v1) by (unfold get_val; rewrite F2; exact G2).
  eapply keeps_trans; [exact K3|]. eapply force_unstake_t; [apply K3|exact G3|exact E4].
Qed.

Lemma jail_t s a s' : tomb_ok s -> jail s a = Some s' ->
  tomb_ok s' /\ sinfo s' = sinfo s /\ (forall v', get_val s' a = Some v' -> v_jailed v' = true).
Proof.
  unfold jail. intros H. destruct (get_val s a) as [v|] eqn:E; [|discriminate].
  destruct (v_jailed v); [discriminate|]. intros [= <-]. split; [|split; [reflexivity|]].
  - apply (tframe (put_val s a (with_jailed v true)) _ eq_refl eq_refl).
    apply (put_val_tk s a (with_jailed v true) H). left; reflexivity.
  - intros v'. unfold get_val, del_staked. cbn [vals set_powidx put_val set_vals]. rewrite aget_aset by apply H.
    rewrite beqb_refl. intros [= <-]. reflexivity.
Qed.
Lemma unjail_t s a s' : tomb_ok s -> ~ tombed (sinfo s) a -> unjail s a = Some s' -> tomb_ok s' /\ sinfo s' = sinfo s.
Proof.
  unfold unjail. intros H N. destruct (get_val s a) as [v|] eqn:E; [|discriminate].
  destruct (v_jailed v); [|discriminate]. intros [= <-].
  destruct (set_staked_t (put_val s a (with_jailed v false)) a (with_jailed v false)) as [X1 X2]. split; [|exact X1].
  apply (tframe (put_val s a (with_jailed v false)) _ X1 X2). apply put_val_tk; auto.
Qed.

(* rewriting a's info keeping its tombstone flag *)
Lemma same_flag_tk s a si si' mi : tomb_ok s -> aget (sinfo s) a = Some si -> si_tomb si' = si_tomb si ->
  tk s (set_sign s (aset (sinfo s) a si') mi).
Proof.
  intros H E T. apply set_sinfo_tk; auto.
  - left. exists si; auto.
  - intros si0 E0 T0. rewrite E in E0. injection E0 as <-. congruence.
Qed.

Lemma handle_signature_tk s a p sg s' : tomb_ok s -> handle_signature s a p sg = Some s' -> tk s s'.
Proof.
  unfold handle_signature. intros H.
  destruct (aget (pkrel s) a); [|discriminate]. destruct (aget (sinfo s) a) as [si|] eqn:Esi; [|discriminate].
  destruct (p_window (pp s) <=? 0); [discriminate|].
  match goal with |- context[let '(mi, ctr) := ?X in _] => destruct X as [mi ctr] end.
  set (s1 := set_sign s (sinfo s) mi).
  assert (K1 : keeps a s s1) by (apply keeps_frame; auto).
  pose proof (keeps_tk _ _ _ K1) as T1.
  assert (Esi1 : aget (sinfo s1) a = Some si) by exact Esi.
  destruct (_ && _).
  - destruct (get_val s1 a) as [v|] eqn:Ev.
    + destruct (v_jailed v).
      * intros [= <-]. eapply tk_trans; [exact T1|]. apply (same_flag_tk s1 a si); [apply K1|exact Esi1|reflexivity].
      * pose proof (slash_t s1 a (height s - 2) p (p_slash_dt (pp s)) (proj1 K1)) as Hs.
        destruct (slash s1 a (height s - 2) p (p_slash_dt (pp s))) as [x|x|]; try discriminate;
          simpl in Hs; destruct Hs as (Ox & Ex & Jx);
          (destruct (jail x a) as [s3|] eqn:Ej; [|discriminate]);
          destruct (jail_t _ _ _ Ox Ej) as (O3 & E3 & J3); intros [= <-].
        all: assert (Esi3 : aget (sinfo s3) a = Some si) by (rewrite E3, Ex; exact Esi1).
        all: assert (T3 : tk s s3) by (split; [exact O3|intros b0; rewrite E3, Ex; auto]).
        all: eapply tk_trans; [exact T3|]; apply (same_flag_tk s3 a si); [exact O3|exact Esi3|reflexivity].
    + intros [= <-]. eapply tk_trans; [exact T1|]. apply (same_flag_tk s1 a si); [apply K1|exact Esi1|reflexivity].
  - intros [= <-]. eapply tk_trans; [exact T1|]. apply (same_flag_tk s1 a si); [apply K1|exact Esi1|reflexivity].
Qed.

Lemma ds_finish s0 x a v2 s3 si1 : tomb_ok x -> tomb_mono s0 x -> get_val x a = Some v2 -> v_jailed v2 = true ->
  force_unstake x a v2 = Some s3 -> si_tomb si1 = true ->
  tk s0 (set_sign s3 (aset (sinfo s3) a si1) (missed s3)).
Proof.
  intros Ox M G2 J2 Ef T1. destruct (force_unstake_t x a v2 s3 Ox G2 Ef) as (O3 & E3 & J3).
  assert (Jfin : forall w, get_val s3 a = Some w -> v_jailed w = true).
  { intros w Ew. destruct (J3 w Ew) as (w2 & Ew2 & Jw2). rewrite G2 in Ew2. injection Ew2 as <-. congruence. }
  assert (T3 : tk s0 s3) by (split; [exact O3|intros b0 Hb; rewrite E3; apply M; exact Hb]).
  eapply tk_trans; [exact T3|]. apply set_sinfo_tk; [exact O3|right; right; exact Jfin|intros; exact T1].
Qed.
Lemma handle_double_sign_tk s a h t p s' : tomb_ok s -> handle_double_sign s a h t p = Some s' -> tk s s'.
Proof.
  unfold handle_double_sign. intros H.
  destruct (aget (pkrel s) a); [|discriminate]. destruct (_ <? _); [discriminate|].
  destruct (get_val s a) as [v|] eqn:Ev; [|discriminate]. destruct (v_status v =? 0)%N; [discriminate|].
  destruct (aget (sinfo s) a) as [si|] eqn:Esi; [|discriminate]. destruct (si_tomb si); [discriminate|].
  pose proof (slash_t s a (h - 1) p (p_slash_ds (pp s)) H) as Hs.
  assert (Tail : forall x, keeps a s x ->
    match (if v_jailed v then Some x else jail x a) with
    | Some s2 => match get_val s2 a with
                 | Some v2 => match force_unstake s2 a v2 with
                              | Some s3 => Some (set_sign s3 (aset (sinfo s3) a
                                  {| si_start := si_start si; si_offset := si_offset si; si_jailed_until := double_sign_jail_end;
                                     si_tomb := true; si_missed := si_missed si |}) (missed s3))
                              | None => None end
                 | None => None end
    | None => None end = Some s' -> tk s s').
  { intros x (Ox & Ex & Jx). destruct (v_jailed v) eqn:Jv.
    - destruct (get_val x a) as [v2|] eqn:G2; [|discriminate].
      destruct (force_unstake x a v2) as [s3|] eqn:Ef; [|discriminate]. intros [= <-].
      apply (ds_finish s x a v2 s3); auto.
      + intros b0 Hb. rewrite Ex. exact Hb.
      + destruct (Jx v2 G2) as (w1 & Ew1 & Jw1). rewrite Ev in Ew1. injection Ew1 as <-. congruence.
    - destruct (jail x a) as [s2|] eqn:Ej; [|discriminate]. destruct (jail_t _ _ _ Ox Ej) as (O2 & E2 & J2).
      destruct (get_val s2 a) as [v2|] eqn:G2; [|discriminate].
      destruct (force_unstake s2 a v2) as [s3|] eqn:Ef; [|discriminate]. intros [= <-].
      apply (ds_finish s s2 a v2 s3); auto. intros b0 Hb. rewrite E2, Ex. exact Hb. }
  destruct (slash s a (h - 1) p (p_slash_ds (pp s))) as [x|x|]; try discriminate; simpl in Hs; apply Tail; exact Hs.
Qed.

Lemma reward_from_fees_tk s p s' : tomb_ok s -> reward_from_fees s p = Some s' -> tk s s'.
Proof.
  unfold reward_from_fees. intros H.
  destruct (bank_send s (m_fee (ma s)) (m_pos (ma s)) (bal s (m_fee (ma s)))) as [s1|] eqn:E1; [|discriminate].
  destruct (bank_send_t _ _ _ _ _ E1) as (F1 & F2). pose proof (tframe s s1 F1 F2 H) as T1.
  destruct (get_val s1 p); [|intros [= <-]; auto].
  intros E2. destruct (bank_send_t _ _ _ _ _ E2) as (G1 & G2). eapply tk_frame_r; eauto.
Qed.
Lemma mint_award_tk s a amt : tomb_ok s -> tk s (mint_award s a amt).
Proof.
  unfold mint_award. intros H. destruct (bank_mint s (m_pool (ma s)) amt) as [s1|] eqn:E1; [|apply tk_refl; auto].
  destruct (bank_mint_t _ _ _ _ E1) as (F1 & F2). pose proof (tframe s s1 F1 F2 H) as T1.
  destruct (bank_send s1 (m_pool (ma s1)) a amt) as [s2|] eqn:E2; auto.
  destruct (bank_send_t _ _ _ _ _ E2) as (G1 & G2). eapply tk_frame_r; eauto.
Qed.
Lemma mint_awards_tk s : tomb_ok s -> tk s (mint_awards s).
Proof.
  unfold mint_awards. intros H.
  assert (G : forall l st, tomb_ok st -> tk st (fold_left (fun st p => mint_award st (fst p) (snd p)) l st)).
  { induction l as [|x l IH]; simpl; intros st Hst; [apply tk_refl; auto|].
    pose proof (mint_award_tk st (fst x) (snd x) Hst) as T. eapply tk_trans; [exact T|]. apply IH. apply T. }
  specialize (G (awards s) s H). eapply tk_frame_r; [exact G|reflexivity|reflexivity].
Qed.
Lemma burn_validators_loop_tk l : forall s s', tomb_ok s -> burn_validators_loop l s = Some s' -> tk s s'.
Proof.
  induction l as [|[a sev] r IH]; simpl; intros s s' H; [intros [= <-]; apply tk_refl; auto|].
  destruct (get_val s a) as [v|]; [|discriminate].
  assert (Tail : forall x, keeps a s x -> burn_validators_loop r (set_queues x (awards x) (adel (burns x) a)) = Some s' -> tk s s').
  { intros x Hs E. pose proof (keeps_tk _ _ _ Hs) as Tx.
    pose proof (tframe x (set_queues x (awards x) (adel (burns x) a)) eq_refl eq_refl (proj1 Tx)) as Tq.
    eapply tk_trans; [exact Tx|]. eapply tk_trans; [exact Tq|]. apply IH; [apply Tq|exact E]. }
  match goal with |- context[slash s a ?h ?p ?f] =>
    pose proof (slash_t s a h p f H) as Hs; destruct (slash s a h p f) as [x|x|] end;
  try discriminate; simpl in Hs; apply Tail; exact Hs.
Qed.
Lemma fold_opt_tk {A} (f : state -> A -> option state) :
  (forall s x s', tomb_ok s -> f s x = Some s' -> tk s s') ->
  forall l s s', tomb_ok s -> fold_opt f l s = Some s' -> tk s s'.
Proof.
  intros Hf. induction l as [|x l IH]; simpl; intros s s' H; [intros [= <-]; apply tk_refl; auto|].
  destruct (f s x) as [s1|] eqn:E; [|discriminate]. intros E2.
  pose proof (Hf _ _ _ H E) as T1. eapply tk_trans; [exact T1|]. apply IH; auto. apply T1.
Qed.
Theorem begin_block_tk s h t prop votes evs s' : tomb_ok s -> begin_block s h t prop votes evs = Some s' -> tk s s'.
Proof.
  unfold begin_block. intros H.
  set (s0 := set_block s h t). assert (T0 : tk s s0) by (apply tframe; auto).
  destruct (if 1 <? h then match proposer s0 with None => None | Some p => reward_from_fees s0 p end else Some s0)
    as [s1|] eqn:E1; [|discriminate].
  assert (T1 : tk s s1).
  { destruct (1 <? h); [|injection E1 as <-; auto]. destruct (proposer s0); [|discriminate].
    eapply tk_trans; [exact T0|]. eapply reward_from_fees_tk; [apply T0|eauto]. }
  pose proof (mint_awards_tk s1 (proj1 T1)) as T2.
  destruct (burn_validators_loop (burns (mint_awards s1)) (mint_awards s1)) as [s3|] eqn:E3; [|discriminate].
  pose proof (burn_validators_loop_tk _ _ _ (proj1 T2) E3) as T3.
  set (s4 := set_misc s3 (Some prop) (pkrel s3)). assert (T4 : tk s3 s4) by (apply tframe; auto; apply T3).
  destruct (fold_opt _ votes s4) as [s5|] eqn:E5; [|discriminate].
  assert (T5 : tk s4 s5).
  { eapply (fold_opt_tk _ (fun s x s' Hs E => handle_signature_tk s _ _ _ s' Hs E)); [apply T4|eauto]. }
  intros E6.
  assert (T6 : tk s5 s').
  { eapply (fold_opt_tk _ (fun s x s' Hs E => handle_double_sign_tk s _ _ _ _ s' Hs E)); [apply T5|eauto]. }
  eapply tk_trans; [exact T1|]. eapply tk_trans; [exact T2|]. eapply tk_trans; [exact T3|].
  eapply tk_trans; [exact T4|]. eapply tk_trans; [exact T5|exact T6].
Qed.

(* EndBlock: the validator-set walk writes neither records nor infos; matured validators are deleted *)
Lemma upd_loop_t idx : forall n s prev total acc s' prev' total' acc',
  upd_loop idx n s prev total acc = Some (s', prev', total', acc') -> sinfo s' = sinfo s /\ vals s' = vals s.
Proof.
  induction idx as [|[k a] r IH]; intros n s prev total acc s' prev' total' acc'.
  - destruct n; simpl; intros [= <- _ _ _]; auto.
  - destruct n; simpl; [intros [= <- _ _ _]; auto|].
    destruct (get_val s a) as [v|]; [|discriminate]. destruct (v_jailed v); [discriminate|].
    destruct (power_of (v_tokens v) =? 0); [discriminate|].
    match goal with |- context[let '(s1, acc1) := ?X in _] => destruct X as [s1 acc1] eqn:EX end.
    intros E. destruct (IH _ _ _ _ _ _ _ _ _ E) as (F1 & F2).
    assert (G : sinfo s1 = sinfo s /\ vals s1 = vals s).
    { destruct (aget prev a) as [p|]; [destruct (p =? _)|]; injection EX as <- _; auto. }
    destruct G; split; congruence.
Qed.
Lemma leftover_fold_t l : forall s1 s2,
  fold_opt (fun st (p : bytes * Z) => match get_val st (fst p) with
                                      | None => None
                                      | Some _ => Some (set_prev st (adel (prevpow st) (fst p)) (prevtotal st)) end) l s1 = Some s2 ->
  sinfo s2 = sinfo s1 /\ vals s2 = vals s1.
Proof.
  induction l as [|p r IH]; simpl; intros s1 s2; [intros [= <-]; auto|].
  destruct (get_val s1 (fst p)); [|discriminate]. intros E. destruct (IH _ _ E) as (A1 & A2).
  cbn [vals sinfo set_prev] in *. auto.
Qed.
Lemma update_tm_validators_t s s' ups : update_tm_validators s = Some (s', ups) -> sinfo s' = sinfo s /\ vals s' = vals s.
Proof.
  unfold update_tm_validators.
  destruct (upd_loop _ _ s (prevpow s) 0 []) as [[[[s1 leftover] total] acc]|] eqn:E; [|discriminate].
  destruct (upd_loop_t _ _ _ _ _ _ _ _ _ _ E) as (F1 & F2).
  destruct (fold_opt _ leftover s1) as [s2|] eqn:E2; [|discriminate].
  destruct (leftover_fold_t _ _ _ E2) as (G1 & G2).
  intros [= <- _]. destruct (rev acc ++ _); cbn [vals sinfo set_prev]; split; congruence.
Qed.
Lemma finish_unstaking_tk s a v s' : tomb_ok s -> finish_unstaking s a v = Some s' -> tk s s'.
Proof.
  unfold finish_unstaking. intros H. destruct (negb _); [discriminate|].
  destruct (bank_send _ _ a (v_tokens v)) as [s2|] eqn:E2; [|discriminate].
  destruct (bank_send_t _ _ _ _ _ E2) as (F1 & F2). intros [= <-].
  assert (T2 : tk s s2) by (apply tframe; auto).
  eapply tk_trans; [exact T2|]. apply del_val_tk. apply T2.
Qed.
Lemma unstake_one_tk s a s' : tomb_ok s -> unstake_one s a = Some s' -> tk s s'.
Proof.
  unfold unstake_one. intros H. destruct (get_val s a) as [v|]; [|intros [= <-]; apply tk_refl; auto].
  destruct (negb _); [intros [= <-]; apply tk_refl; auto|]. apply finish_unstaking_tk; auto.
Qed.
Lemma unstake_mature_tk s s' : tomb_ok s -> unstake_mature s = Some s' -> tk s s'.
Proof.
  unfold unstake_mature. intros H. apply fold_opt_tk; auto.
  intros st p st' Hst. destruct (fold_opt unstake_one (snd p) st) as [st1|] eqn:E; [|discriminate].
  pose proof (fold_opt_tk unstake_one unstake_one_tk _ _ _ Hst E) as T1. intros [= <-].
  eapply tk_frame_r; [exact T1|reflexivity|reflexivity].
Qed.
Theorem end_block_tk s s' ups : tomb_ok s -> end_block s = Some (s', ups) -> tk s s'.
Proof.
  unfold end_block. intros H. destruct (update_tm_validators s) as [[s1 u]|] eqn:E; [|discriminate].
  destruct (update_tm_validators_t _ _ _ E) as (F1 & F2). pose proof (tframe s s1 F1 F2 H) as T1.
  destruct (unstake_mature s1) as [s2|] eqn:E2; [|discriminate]. intros [= <- _].
  eapply tk_trans; [exact T1|]. eapply unstake_mature_tk; [apply T1|eauto].
Qed.

(* transactions *)
Definition hres_tk (s : state) (r : hres) : Prop := match r with HOk s' | HErr s' => tk s s' end.
Lemma handle_tk s m : tomb_ok s -> hres_tk s (handle s m).
Proof.
  intros H. pose proof (tk_refl s H) as R.
  destruct m as [pk a amt|a|a|f t amt|f key v raw wf|f t amt act|f h raw]; simpl.
  - (* stake: refused for a tombstoned address; a new record starts unjailed, an old one keeps its flag *)
    set (v0 := match get_val s a with Some v => v | None => _ end).
    destruct (negb (v_status v0 =? 0)%N); [exact R|].
    destruct (match aget (sinfo s) a with Some si => si_tomb si | None => false end) eqn:Tb; [exact R|].
    assert (NT : ~ tombed (sinfo s) a).
    { intros (si & E & T). rewrite E in Tb. congruence. }
    destruct (amt <? p_min_stake (pp s)); [exact R|]. destruct (bal s a <? amt); [exact R|].
    set (s1 := match get_val s a with Some _ => s | None => _ end).
    assert (T1 : tk s s1 /\ sinfo s1 = sinfo s).
    { unfold s1. destruct (get_val s a); [auto|]. split; [|reflexivity].
      eapply tk_frame_r; [apply (put_val_tk s a v0 H); right; left; exact NT|reflexivity|reflexivity]. }
    destruct T1 as [T1 S1].
    destruct (bank_send s1 a (m_pool (ma s1)) amt) as [s2|] eqn:E; [|exact T1].
    destruct (bank_send_t _ _ _ _ _ E) as (F1 & F2). assert (T2 : tk s s2) by (eapply tk_frame_r; eauto). simpl.
    set (v1 := with_status (with_tokens v0 (v_tokens v0 + amt)) 2).
    assert (NT2 : ~ tombed (sinfo s2) a) by (rewrite F1, S1; exact NT).
    assert (T3 : tk s (set_staked (put_val s2 a v1) a v1)).
    { destruct (set_staked_t (put_val s2 a v1) a v1) as [X1 X2]. eapply tk_trans; [exact T2|].
      eapply tk_frame_r; [apply (put_val_tk s2 a v1 (proj1 T2)); right; left; exact NT2|exact X1|exact X2]. }
    match goal with |- tk s (match ?X with _ => _ end) => destruct X eqn:Es end; [exact T3|].
    eapply tk_trans; [exact T3|]. apply set_sinfo_tk; [apply T3|right; left; reflexivity|].
    intros si0 E0. rewrite Es in E0. discriminate.
  - destruct (get_val s a) as [v|] eqn:E; [|exact R]. destruct (negb _); [exact R|]. destruct (_ <? _); [exact R|]. simpl.
    eapply tk_frame_r; [apply (put_val_tk (del_staked s a v) a (with_unstime (with_status v 1) (btime s + p_unstaking_time (pp s))) H);
                        right; right; exists v; split; auto|reflexivity|reflexivity].
  - destruct (get_val s a) as [v|]; [|exact R]. destruct (_ <? _); [exact R|]. destruct (negb _); [exact R|].
    destruct (aget (sinfo s) a) as [si|] eqn:Es; [|exact R]. destruct (si_tomb si) eqn:Ts; [exact R|]. destruct (_ <? _); [exact R|].
    destruct (unjail s a) as [s1|] eqn:E; [|exact R]. simpl.
    assert (NT : ~ tombed (sinfo s) a) by (intros (si' & E' & T'); rewrite Es in E'; injection E' as <-; congruence).
    destruct (unjail_t s a s1 H NT E) as [O1 E1]. split; auto. intros b0. rewrite E1. auto.
  - destruct (bank_send s f t amt) as [s1|] eqn:E; [|exact R]. simpl.
    destruct (bank_send_t _ _ _ _ _ E) as (F1 & F2). apply tframe; auto.
  - destruct (negb _); [exact R|]. destruct wf; simpl; auto. unfold apply_param. destruct v; apply tframe; auto.
  - destruct (negb _); [exact R|]. destruct (act =? 1)%N.
    + destruct (bank_send s (m_dao (ma s)) t amt) as [s1|] eqn:E; [|exact R]. simpl.
      destruct (bank_send_t _ _ _ _ _ E) as (F1 & F2). apply tframe; auto.
    + destruct (act =? 2)%N; [|exact R].
      destruct (bank_burn s (m_dao (ma s)) amt) as [s1|] eqn:E; [|exact R]. simpl.
      destruct (bank_burn_t _ _ _ _ E) as (F1 & F2). apply tframe; auto.
  - destruct (negb _); [exact R|]. simpl. apply tframe; auto.
Qed.
Lemma ante_tk s t s' : tomb_ok s -> ante s t = Some s' -> tk s s'.
Proof.
  unfold ante. intros H. destruct (_ <? _); [discriminate|].
  match goal with |- context[match ?X with Some ka => _ | None => None end] => destruct X as [ka|] end; [|discriminate].
  destruct (negb _); [discriminate|]. destruct (t_in_index t); [discriminate|]. destruct (_ <? _); [discriminate|].
  destruct (_ && _); [discriminate|]. destruct (_ || _); [discriminate|].
  destruct (aget (accts s) _) as [b|]; [|discriminate]. destruct (b <? t_fee t); [discriminate|].
  intros E. destruct (bank_send_t _ _ _ _ _ E) as (F1 & F2). apply tframe; auto.
Qed.
Theorem deliver_tx_tk s t : tomb_ok s -> tk s (dres_state (deliver_tx s t)).
Proof.
  intros H. unfold deliver_tx. destruct (_ || _); [apply tk_refl; auto|].
  destruct (ante s t) as [s1|] eqn:E; [|apply tk_refl; auto]. pose proof (ante_tk _ _ _ H E) as T1.
  pose proof (handle_tk s1 (t_msg t) (proj1 T1)) as Hh. destruct (handle s1 (t_msg t)); simpl in *; eapply tk_trans; eauto.
Qed.
Theorem step_tk s o s' : tomb_ok s -> step s o = Some s' -> tk s s'.
Proof.
  intros H. destruct o as [h t p vs es|t|a amt|a sev| |]; simpl.
  - apply begin_block_tk; auto.
  - intros [= <-]. apply deliver_tx_tk; auto.
  - intros [= <-]. apply tframe; auto.
  - intros [= <-]. apply tframe; auto.
  - destruct (end_block s) as [[s1 u]|] eqn:E; [|discriminate]. intros [= <-]. eapply end_block_tk; eauto.
  - intros [= <-]; apply tk_refl; auto.
Qed.
Theorem run_tk ops : forall s s', tomb_ok s -> run ops s = Some s' -> tk s s'.
Proof. unfold run. apply fold_opt_tk. apply step_tk. Qed.

(* genesis: nobody is tombstoned *)
Lemma genesis_validator_tomb s g : tomb_ok s -> (forall a, ~ tombed (sinfo s) a) ->
  tomb_ok (genesis_validator s g) /\ (forall a, ~ tombed (sinfo (genesis_validator s g)) a).
Proof.
  destruct g as [[a pk] tokens]. unfold genesis_validator. intros H NT.
  set (v := {| v_pk := pk; v_jailed := false; v_status := 2; v_tokens := tokens; v_unstime := 0 |}).
  set (s1 := set_staked (put_val s a v) a v).
  assert (T1 : tk s s1).
  { unfold s1. destruct (set_staked_t (put_val s a v) a v) as [X1 X2].
    eapply tk_frame_r; [apply (put_val_tk s a v H); right; left; apply NT|exact X1|exact X2]. }
  assert (S1 : sinfo s1 = sinfo s) by (unfold s1; rewrite (proj1 (set_staked_t _ _ _)); reflexivity).
  assert (NT1 : forall b, ~ tombed (sinfo s1) b) by (intros b; rewrite S1; apply NT).
  set (si0 := {| si_start := 0; si_offset := 0; si_jailed_until := 0; si_tomb := false; si_missed := 0 |}).
  assert (T2 : tk s1 (set_sign s1 (aset (sinfo s1) a si0) (missed s1))).
  { apply set_sinfo_tk; [apply T1|right; left; reflexivity|]. intros si E T. exfalso. apply (NT1 a). exists si; auto. }
  split.
  - apply (tframe (set_sign s1 (aset (sinfo s1) a si0) (missed s1)) _ eq_refl eq_refl). apply T2.
  - intros b (sb & Eb & Tb). cbn [sinfo set_misc set_sign] in Eb. rewrite aget_aset in Eb by apply T1.
    destruct (beqb a b); [injection Eb as <-; discriminate|]. apply (NT1 b). exists sb; auto.
Qed.
Theorem init_chain_tomb s0 gvals dao s ups : tomb_ok s0 -> (forall a, ~ tombed (sinfo s0) a) ->
  init_chain s0 gvals dao = Some (s, ups) -> tomb_ok s.
Proof.
  unfold init_chain. intros H NT.
  assert (H1 : tomb_ok (fold_left genesis_validator gvals s0)).
  { revert s0 H NT. induction gvals as [|g r IH]; simpl; auto. intros s0 H NT.
    destruct (genesis_validator_tomb s0 g H NT) as [A B]. apply IH; auto. }
  destruct (update_tm_validators _) as [[s2 u]|] eqn:E; [|discriminate].
  destruct (update_tm_validators_t _ _ _ E) as (F1 & F2). pose proof (tframe _ s2 F1 F2 H1) as T2.
  destruct (bank_mint s2 _ dao) as [s3|] eqn:E3; intros [= <- _]; [|apply T2].
  destruct (bank_mint_t _ _ _ _ E3) as (G1 & G2). apply (tframe s2 s3 G1 G2). apply T2.
Qed.

(* ---- the reading ---- *)
(* once tombstoned, in every later state of every continuation: still tombstoned, and jailed if it has a record;
   with the index soundness it has no entry in the power index, so it is never offered to Tendermint *)
Theorem tombstoned_forever ops s s' a : tomb_ok s -> tombed (sinfo s) a -> run ops s = Some s' ->
  tombed (sinfo s') a /\ forall v, get_val s' a = Some v -> v_jailed v = true.
Proof.
  intros H T E. destruct (run_tk ops s s' H E) as [O M]. split; [apply M; exact T|].
  intros v Ev. destruct O as (_ & _ & HO). apply (HO a v); auto.
Qed.
Theorem tombstoned_never_indexed ops s s' a : tomb_ok s -> idx_sound s -> tombed (sinfo s) a -> run ops s = Some s' ->
  forall k, aget (powidx s') k <> Some a.
Proof.
  intros H I T E k Hk. destruct (tombstoned_forever ops s s' a H T E) as [_ J].
  pose proof (run_is ops s s' I E) as I'. destruct (indexed_is_staked_unjailed s' k a I' Hk) as (v & Ev & _ & Jv & _).
  rewrite (J v Ev) in Jv. discriminate.
Qed.
