(* A generic frame library: any projection of the state that every setter except [set_prev] leaves alone is left alone
   by the whole block cycle except the validator-set update. Instantiated below with the module's record of Tendermint's
   validator set (prevpow, prevtotal). *)
From Coq Require Import List ZArith NArith Bool Lia.
From PM Require Import Base.Bytes Store.KV Store.MergeProofs Store.KVProofs Num.IntModel Num.DecModel App.Model.
Import ListNotations.
Local Open Scope Z_scope.

Section Frame.
Variable T : Type.
Variable pi : state -> T.
Hypothesis Hbank : forall s a u, pi (set_bank s a u) = pi s.
Hypothesis Hvals : forall s v, pi (set_vals s v) = pi s.
Hypothesis Hpowidx : forall s p, pi (set_powidx s p) = pi s.
Hypothesis Hunstq : forall s q, pi (set_unstq s q) = pi s.
Hypothesis Hsign : forall s a b, pi (set_sign s a b) = pi s.
Hypothesis Hqueues : forall s a b, pi (set_queues s a b) = pi s.
Hypothesis Hmisc : forall s a b, pi (set_misc s a b) = pi s.
Hypothesis Hparams : forall s a b c d e, pi (set_params s a b c d e) = pi s.
Hypothesis Hblock : forall s a b, pi (set_block s a b) = pi s.

Ltac fr := repeat first [rewrite Hbank | rewrite Hvals | rewrite Hpowidx | rewrite Hunstq | rewrite Hsign | rewrite Hqueues
                         | rewrite Hmisc | rewrite Hparams | rewrite Hblock].

Lemma fr_bank_send s f t a s' : bank_send s f t a = Some s' -> pi s' = pi s.
Proof. unfold bank_send. destruct (_ || _); [discriminate|]. intros [= <-]. fr. reflexivity. Qed.
Lemma fr_bank_mint s m a s' : bank_mint s m a = Some s' -> pi s' = pi s.
Proof. unfold bank_mint. destruct (_ <? _); [discriminate|]. intros [= <-]. fr. reflexivity. Qed.
Lemma fr_bank_burn s m a s' : bank_burn s m a = Some s' -> pi s' = pi s.
Proof. unfold bank_burn. destruct (_ || _); [discriminate|]. intros [= <-]. fr. reflexivity. Qed.
Lemma fr_put_val s a v : pi (put_val s a v) = pi s. Proof. unfold put_val. fr. reflexivity. Qed.
Lemma fr_set_staked s a v : pi (set_staked s a v) = pi s. Proof. unfold set_staked. destruct (_ || _); fr; reflexivity. Qed.
Lemma fr_del_staked s a v : pi (del_staked s a v) = pi s. Proof. unfold del_staked. fr. reflexivity. Qed.
Lemma fr_del_unstaking s a v : pi (del_unstaking s a v) = pi s.
Proof. unfold del_unstaking. cbv zeta. fr. reflexivity. Qed.
Lemma fr_burn_staked s a s' : burn_staked s a = Some s' -> pi s' = pi s.
Proof. unfold burn_staked. destruct (_ <=? _); [discriminate|]. apply fr_bank_burn. Qed.
Lemma fr_force_unstake s a v s' : force_unstake s a v = Some s' -> pi s' = pi s.
Proof.
  unfold force_unstake.
  set (s1 := if (v_status v =? 1)%N then del_unstaking (del_staked s a v) a v else del_staked s a v).
  assert (F1 : pi s1 = pi s) by (unfold s1; destruct (v_status v =? 1)%N; rewrite ?fr_del_unstaking, fr_del_staked; reflexivity).
  destruct (if 0 <? v_tokens v then burn_staked s1 (v_tokens v) else Some s1) as [s2|] eqn:E2; [|discriminate].
  assert (F2 : pi s2 = pi s) by (destruct (0 <? v_tokens v); [rewrite (fr_burn_staked _ _ _ E2)|injection E2 as <-]; exact F1).
  intros [= <-]. rewrite fr_put_val. exact F2.
Qed.
Definition sres_fr (s : state) (r : sres) : Prop := match r with SOk x | SErr x => pi x = pi s | SPanic => True end.
Lemma fr_slash s a h p f : sres_fr s (slash s a h p f).
Proof.
  unfold slash. destruct (f <? 0); [reflexivity|]. destruct (height s <? h); [reflexivity|].
  destruct (get_val s a) as [v|]; [|reflexivity]. destruct (v_status v =? 0)%N; [reflexivity|].
  destruct (tokens_from_power p) as [amount|]; [|exact I].
  destruct (dec_mul (dec_from_int amount) f) as [d|]; [|exact I].
  destruct (dec_truncate_int d) as [sa|]; [|exact I].
  set (burn := Z.max (Z.min sa (v_tokens v)) 0). set (v1 := with_tokens v (v_tokens v - burn)).
  set (s2 := set_staked (put_val (del_staked s a v) a v1) a v1).
  assert (F2 : pi s2 = pi s) by (unfold s2; rewrite fr_set_staked, fr_put_val, fr_del_staked; reflexivity).
  destruct (burn_staked s2 burn) as [s3|] eqn:E3; [|exact F2].
  assert (F3 : pi s3 = pi s) by (rewrite (fr_burn_staked _ _ _ E3); exact F2).
  destruct (v_tokens v1 <? p_min_stake (pp s3)); [|exact F3].
  destruct (force_unstake s3 a v1) as [s4|] eqn:E4; [|exact F3].
  cbn [sres_fr]. rewrite (fr_force_unstake _ _ _ _ E4). exact F3.
Qed.
Lemma fr_jail s a s' : jail s a = Some s' -> pi s' = pi s.
Proof.
  unfold jail. destruct (get_val s a) as [v|]; [|discriminate]. destruct (v_jailed v); [discriminate|]. intros [= <-].
  rewrite fr_del_staked, fr_put_val. reflexivity.
Qed.
Lemma fr_unjail s a s' : unjail s a = Some s' -> pi s' = pi s.
Proof.
  unfold unjail. destruct (get_val s a) as [v|]; [|discriminate]. destruct (v_jailed v); [|discriminate]. intros [= <-].
  rewrite fr_set_staked, fr_put_val. reflexivity.
Qed.
Lemma fr_handle_signature s a p sg s' : handle_signature s a p sg = Some s' -> pi s' = pi s.
Proof.
  unfold handle_signature.
  destruct (aget (pkrel s) a); [|discriminate]. destruct (aget (sinfo s) a) as [si|]; [|discriminate].
  destruct (p_window (pp s) <=? 0); [discriminate|].
  match goal with |- context[let '(mi, ctr) := ?X in _] => destruct X as [mi ctr] end.
  set (s1 := set_sign s (sinfo s) mi). assert (F1 : pi s1 = pi s) by (unfold s1; fr; reflexivity).
  destruct (_ && _); [|intros [= <-]; fr; exact F1].
  destruct (get_val s1 a) as [v|]; [|intros [= <-]; fr; exact F1].
  destruct (v_jailed v); [intros [= <-]; fr; exact F1|].
  pose proof (fr_slash s1 a (height s - 2) p (p_slash_dt (pp s))) as Hs.
  destruct (slash s1 a (height s - 2) p (p_slash_dt (pp s))) as [x|x|]; try discriminate; cbn [sres_fr] in Hs;
    (destruct (jail x a) as [s3|] eqn:Ej; [|discriminate]); intros [= <-]; fr; rewrite (fr_jail _ _ _ Ej), Hs; exact F1.
Qed.
Lemma fr_handle_double_sign s a h t p s' : handle_double_sign s a h t p = Some s' -> pi s' = pi s.
Proof.
  unfold handle_double_sign.
  destruct (aget (pkrel s) a); [|discriminate]. destruct (_ <? _); [discriminate|].
  destruct (get_val s a) as [v|]; [|discriminate]. destruct (v_status v =? 0)%N; [discriminate|].
  destruct (aget (sinfo s) a) as [si|]; [|discriminate]. destruct (si_tomb si); [discriminate|].
  pose proof (fr_slash s a (h - 1) p (p_slash_ds (pp s))) as Hs.
  assert (Tail : forall x, pi x = pi s ->
    match (if v_jailed v then Some x else jail x a) with
    | None => None
    | Some s2 => match get_val s2 a with
                 | None => None
                 | Some v2 => match force_unstake s2 a v2 with
                              | None => None
                              | Some s3 => Some (set_sign s3 (aset (sinfo s3) a
                                  {| si_start := si_start si; si_offset := si_offset si; si_jailed_until := double_sign_jail_end;
                                     si_tomb := true; si_missed := si_missed si |}) (missed s3))
                              end
                 end
    end = Some s' -> pi s' = pi s).
  { intros x Hx. destruct (if v_jailed v then Some x else jail x a) as [s2|] eqn:E2; [|discriminate].
    assert (F2 : pi s2 = pi s) by (destruct (v_jailed v); [injection E2 as <-; exact Hx|rewrite (fr_jail _ _ _ E2); exact Hx]).
    destruct (get_val s2 a) as [v2|]; [|discriminate].
    destruct (force_unstake s2 a v2) as [s3|] eqn:E3; [|discriminate]. intros [= <-]. fr. rewrite (fr_force_unstake _ _ _ _ E3). exact F2. }
  destruct (slash s a (h - 1) p (p_slash_ds (pp s))) as [x|x|]; try discriminate; apply Tail; exact Hs.
Qed.
Lemma fr_reward_from_fees s p s' : reward_from_fees s p = Some s' -> pi s' = pi s.
Proof.
  unfold reward_from_fees. destruct (bank_send s _ _ _) as [s1|] eqn:E1; [|discriminate].
  destruct (get_val s1 p); [|intros [= <-]; eapply fr_bank_send; eauto].
  intros E2. rewrite (fr_bank_send _ _ _ _ _ E2). eapply fr_bank_send; eauto.
Qed.
Lemma fr_mint_award s a amt : pi (mint_award s a amt) = pi s.
Proof.
  unfold mint_award. destruct (bank_mint s _ amt) as [s1|] eqn:E1; [|reflexivity].
  destruct (bank_send s1 _ a amt) as [s2|] eqn:E2; [rewrite (fr_bank_send _ _ _ _ _ E2)|]; eapply fr_bank_mint; eauto.
Qed.
Lemma fr_mint_awards s : pi (mint_awards s) = pi s.
Proof.
  unfold mint_awards. fr.
  assert (G : forall l st, pi (fold_left (fun st p => mint_award st (fst p) (snd p)) l st) = pi st).
  { induction l as [|x l IH]; simpl; intros st; [reflexivity|]. rewrite IH. apply fr_mint_award. }
  apply G.
Qed.
Lemma fr_burn_validators_loop l : forall s s', burn_validators_loop l s = Some s' -> pi s' = pi s.
Proof.
  induction l as [|[a sev] r IH]; simpl; intros s s'; [intros [= <-]; reflexivity|].
  destruct (get_val s a) as [v|]; [|discriminate].
  match goal with |- context[slash s a ?h ?p ?f] => pose proof (fr_slash s a h p f) as Hs; destruct (slash s a h p f) as [x|x|] end;
    try discriminate; cbn [sres_fr] in Hs; intros E; rewrite (IH _ _ E); fr; exact Hs.
Qed.
Lemma fr_fold_opt {A} (f : state -> A -> option state) : (forall s x s', f s x = Some s' -> pi s' = pi s) ->
  forall l s s', fold_opt f l s = Some s' -> pi s' = pi s.
Proof.
  intros Hf. induction l as [|x l IH]; simpl; intros s s'; [intros [= <-]; reflexivity|].
  destruct (f s x) as [s1|] eqn:E; [|discriminate]. intros E2. rewrite (IH _ _ E2). eapply Hf; eauto.
Qed.
Theorem fr_begin_block s h t prop votes evs s' : begin_block s h t prop votes evs = Some s' -> pi s' = pi s.
Proof.
  unfold begin_block. set (s0 := set_block s h t). assert (F0 : pi s0 = pi s) by (unfold s0; fr; reflexivity).
  destruct (if 1 <? h then match proposer s0 with None => None | Some p => reward_from_fees s0 p end else Some s0)
    as [s1|] eqn:E1; [|discriminate].
  assert (F1 : pi s1 = pi s).
  { destruct (1 <? h); [|injection E1 as <-; exact F0]. destruct (proposer s0); [|discriminate]. rewrite (fr_reward_from_fees _ _ _ E1). exact F0. }
  destruct (burn_validators_loop (burns (mint_awards s1)) (mint_awards s1)) as [s3|] eqn:E3; [|discriminate].
  assert (F3 : pi s3 = pi s) by (rewrite (fr_burn_validators_loop _ _ _ E3), fr_mint_awards; exact F1).
  set (s4 := set_misc s3 (Some prop) (pkrel s3)). assert (F4 : pi s4 = pi s) by (unfold s4; fr; exact F3).
  destruct (fold_opt _ votes s4) as [s5|] eqn:E5; [|discriminate].
  assert (F5 : pi s5 = pi s).
  { rewrite (fr_fold_opt _ (fun s x s' E => fr_handle_signature s _ _ _ s' E) _ _ _ E5). exact F4. }
  intros E6. rewrite (fr_fold_opt _ (fun s x s' E => fr_handle_double_sign s _ _ _ _ s' E) _ _ _ E6). exact F5.
Qed.
Lemma fr_finish_unstaking s a v s' : finish_unstaking s a v = Some s' -> pi s' = pi s.
Proof.
  unfold finish_unstaking. destruct (negb _); [discriminate|].
  destruct (bank_send _ _ a (v_tokens v)) as [s2|] eqn:E2; [|discriminate]. intros [= <-]. fr.
  rewrite (fr_bank_send _ _ _ _ _ E2). apply fr_del_unstaking.
Qed.
Lemma fr_unstake_one s a s' : unstake_one s a = Some s' -> pi s' = pi s.
Proof.
  unfold unstake_one. destruct (get_val s a) as [v|]; [|intros [= <-]; reflexivity].
  destruct (negb _); [intros [= <-]; reflexivity|]. apply fr_finish_unstaking.
Qed.
Lemma fr_unstake_mature s s' : unstake_mature s = Some s' -> pi s' = pi s.
Proof.
  unfold unstake_mature. apply fr_fold_opt. intros st p st'.
  destruct (fold_opt unstake_one (snd p) st) as [st1|] eqn:E; [|discriminate]. intros [= <-]. fr.
  eapply (fr_fold_opt unstake_one fr_unstake_one); eauto.
Qed.
Lemma fr_apply_param s k v raw : pi (apply_param s k v raw) = pi s.
Proof. unfold apply_param. destruct v; fr; reflexivity. Qed.
Lemma fr_handle s m : pi (match handle s m with HOk x | HErr x => x end) = pi s.
Proof.
  destruct m as [pk a amt|a|a|f t amt|f key v raw wf|f t amt act|f h raw]; cbn [handle].
  - set (v0 := match get_val s a with Some v => v | None => _ end).
    destruct (negb (v_status v0 =? 0)%N); [reflexivity|].
    destruct (match aget (sinfo s) a with Some si => si_tomb si | None => false end); [reflexivity|].
    destruct (amt <? p_min_stake (pp s)); [reflexivity|]. destruct (bal s a <? amt); [reflexivity|].
    set (s1 := match get_val s a with Some _ => s | None => _ end).
    assert (F1 : pi s1 = pi s) by (unfold s1; destruct (get_val s a); [reflexivity|fr; apply fr_put_val]).
    destruct (bank_send s1 a (m_pool (ma s1)) amt) as [s2|] eqn:E; [|exact F1].
    assert (F2 : pi s2 = pi s) by (rewrite (fr_bank_send _ _ _ _ _ E); exact F1).
    match goal with |- pi (match ?Y with _ => _ end) = _ => destruct Y end; fr; rewrite fr_set_staked, fr_put_val; exact F2.
  - destruct (get_val s a) as [v|]; [|reflexivity]. destruct (negb _); [reflexivity|]. destruct (_ <? _); [reflexivity|].
    fr. rewrite fr_put_val, fr_del_staked. reflexivity.
  - destruct (get_val s a) as [v|]; [|reflexivity]. destruct (_ <? _); [reflexivity|]. destruct (negb _); [reflexivity|].
    destruct (aget (sinfo s) a) as [si|]; [|reflexivity]. destruct (si_tomb si); [reflexivity|]. destruct (_ <? _); [reflexivity|].
    destruct (unjail s a) as [s1|] eqn:E; [|reflexivity]. eapply fr_unjail; eauto.
  - destruct (bank_send s f t amt) as [s1|] eqn:E; [|reflexivity]. eapply fr_bank_send; eauto.
  - destruct (negb _); [reflexivity|]. destruct wf; [|reflexivity]. apply fr_apply_param.
  - destruct (negb _); [reflexivity|]. destruct (act =? 1)%N.
    + destruct (bank_send s _ t amt) as [s1|] eqn:E; [|reflexivity]. eapply fr_bank_send; eauto.
    + destruct (act =? 2)%N; [|reflexivity]. destruct (bank_burn s _ amt) as [s1|] eqn:E; [|reflexivity]. eapply fr_bank_burn; eauto.
  - destruct (negb _); [reflexivity|]. apply fr_apply_param.
Qed.
Lemma fr_ante s t s' : ante s t = Some s' -> pi s' = pi s.
Proof.
  unfold ante. destruct (_ <? _); [discriminate|].
  match goal with |- context[match ?X with Some ka => _ | None => None end] => destruct X as [ka|] end; [|discriminate].
  destruct (negb _); [discriminate|]. destruct (t_in_index t); [discriminate|]. destruct (_ <? _); [discriminate|].
  destruct (_ && _); [discriminate|]. destruct (_ || _); [discriminate|].
  destruct (aget (accts s) _) as [b|]; [|discriminate]. destruct (b <? _); [discriminate|]. apply fr_bank_send.
Qed.
Theorem fr_deliver_tx s t : pi (dres_state (deliver_tx s t)) = pi s.
Proof.
  unfold deliver_tx. destruct (_ || _); [reflexivity|]. destruct (ante s t) as [s1|] eqn:Ea; [|reflexivity].
  pose proof (fr_handle s1 (t_msg t)) as Hh. destruct (handle s1 (t_msg t)); cbn [dres_state]; rewrite Hh; eapply fr_ante; eauto.
Qed.
(* every step except EndBlock *)
Theorem fr_step s o s' : o <> OEnd -> step s o = Some s' -> pi s' = pi s.
Proof.
  intros N. destruct o as [h t p vs es|t|a amt|a sev| |]; cbn [step]; try congruence.
  - apply fr_begin_block.
  - intros [= <-]. apply fr_deliver_tx.
  - intros [= <-]. unfold k_award. fr. reflexivity.
  - intros [= <-]. unfold k_burn. fr. reflexivity.
Qed.
End Frame.
