(* C04 / C06 / C08 / C09: step lemmas of the staking module model. *)
From Coq Require Import List ZArith NArith Bool Lia.
From PM Require Import Base.Bytes Store.KV Store.MergeProofs Store.KVProofs Num.IntModel Num.DecModel Num.DecProofs
  App.Model App.BankProofs App.KeyProofs.
Import ListNotations.
Local Open Scope Z_scope.

(* ---------- C09: unjail succeeds only under its preconditions ---------- *)
Theorem unjail_preconditions s a s' : handle s (MUnjail a) = HOk s' ->
  exists v si, get_val s a = Some v /\ v_jailed v = true /\ p_min_stake (pp s) <= v_tokens v /\
    aget (sinfo s) a = Some si /\ si_tomb si = false /\ si_jailed_until si <= btime s /\
    unjail s a = Some s'.
Proof.
  simpl. destruct (get_val s a) as [v|] eqn:Ev; [|discriminate].
  destruct (Z.ltb_spec (v_tokens v) (p_min_stake (pp s))); [discriminate|].
  destruct (v_jailed v) eqn:Ej; simpl; [|discriminate].
  destruct (aget (sinfo s) a) as [si|] eqn:Es; [|discriminate].
  destruct (si_tomb si) eqn:Et; [discriminate|].
  destruct (Z.ltb_spec (btime s) (si_jailed_until si)); [discriminate|].
  destruct (unjail s a) as [s1|] eqn:Eu; [|discriminate]. intros [= <-].
  exists v, si. repeat split; auto.
Qed.
(* after a successful unjail the validator is unjailed and, if staked, indexed under its current stake *)
Theorem unjail_effect s a s' v : asorted (vals s) -> asorted (powidx s) -> get_val s a = Some v -> unjail s a = Some s' ->
  exists v', get_val s' a = Some v' /\ v_jailed v' = false /\ v_tokens v' = v_tokens v /\ v_status v' = v_status v /\
    (v_status v = 2%N -> aget (powidx s') (rank_key (v_tokens v) a) = Some a).
Proof.
  intros Sv Sp Ev. unfold unjail. rewrite Ev. destruct (v_jailed v); [|discriminate]. intros [= <-].
  exists (with_jailed v false). unfold set_staked. simpl.
  destruct (N.eqb_spec (v_status v) 2) as [E2|E2]; simpl.
  - unfold get_val. cbn [vals set_powidx put_val set_vals powidx]. rewrite !aget_aset by auto. rewrite !beqb_refl'.
    repeat split; auto.
  - unfold get_val. cbn [vals put_val set_vals]. rewrite aget_aset by auto. rewrite beqb_refl'.
    repeat split; auto. intros; contradiction.
Qed.
(* jailing removes the validator's entry from the power index *)
Theorem jail_removes_from_index s a s' v : asorted (vals s) -> asorted (powidx s) -> get_val s a = Some v -> jail s a = Some s' ->
  aget (powidx s') (rank_key (v_tokens v) a) = None /\
  exists v', get_val s' a = Some v' /\ v_jailed v' = true.
Proof.
  intros Sv Sp Ev. unfold jail. rewrite Ev. destruct (v_jailed v); [discriminate|]. intros [= <-].
  unfold del_staked. cbn [powidx set_powidx put_val set_vals with_jailed v_tokens]. split.
  - rewrite aget_adel by auto. rewrite beqb_refl'. reflexivity.
  - exists (with_jailed v true). unfold get_val. cbn [vals set_powidx put_val set_vals]. rewrite aget_aset by auto.
    rewrite beqb_refl'. auto.
Qed.
(* a jailed (or not staked) validator is never put into the index *)
Theorem set_staked_skips_jailed s a v : v_jailed v = true \/ v_status v <> 2%N -> set_staked s a v = s.
Proof.
  unfold set_staked. intros [H|H]; [rewrite H; reflexivity|].
  destruct (N.eqb_spec (v_status v) 2); [contradiction|]. rewrite orb_true_r. reflexivity.
Qed.
Lemma aget_aset_same {V} (m : amap V) k v : aget (aset m k v) k = Some v.
Proof.
  induction m as [|[k0 v0] r IH]; simpl; [rewrite bcompare_refl; auto|].
  destruct (bcompare k k0) eqn:C; simpl; rewrite ?bcompare_refl, ?C; auto.
Qed.
(* confirmed double-sign evidence tombstones and jails for ever *)
Theorem double_sign_tombstones s a h t p s' : handle_double_sign s a h t p = Some s' ->
  exists si, aget (sinfo s') a = Some si /\ si_tomb si = true /\ si_jailed_until si = double_sign_jail_end.
Proof.
  unfold handle_double_sign.
  destruct (aget (pkrel s) a); [|discriminate]. destruct (_ <? _); [discriminate|].
  destruct (get_val s a) as [v|]; [|discriminate]. destruct (v_status v =? 0)%N; [discriminate|].
  destruct (aget (sinfo s) a) as [si|] eqn:Esi; [|discriminate]. destruct (si_tomb si); [discriminate|].
  destruct (match slash s a (h - 1) p (p_slash_ds (pp s)) with SOk x | SErr x => Some x | SPanic => None end) as [s1|] eqn:E1; [|discriminate].
  destruct (if v_jailed v then Some s1 else jail s1 a) as [s2|] eqn:E2; [|discriminate].
  destruct (get_val s2 a) as [v2|]; [|discriminate].
  destruct (force_unstake s2 a v2) as [s3|] eqn:E3; [|discriminate]. intros [= <-].
  eexists. cbn [sinfo set_sign]. split; [apply aget_aset_same|split; reflexivity].
Qed.
(* a tombstoned validator can never be unjailed *)
Theorem tombstoned_never_unjails s a si : aget (sinfo s) a = Some si -> si_tomb si = true ->
  forall s', handle s (MUnjail a) <> HOk s'.
Proof.
  intros Es Et s' E. destruct (unjail_preconditions _ _ _ E) as (v & si' & _ & _ & _ & Es' & Et' & _). congruence.
Qed.

(* ---------- C04: staking moves exactly the staked amount ---------- *)
Lemma bal_set_staked s a v x : bal (set_staked s a v) x = bal s x.
Proof. unfold set_staked. destruct (_ || _); reflexivity. Qed.
Lemma supply_set_staked s a v : supply (set_staked s a v) = supply s.
Proof. unfold set_staked. destruct (_ || _); reflexivity. Qed.
Lemma vals_set_staked s a v : vals (set_staked s a v) = vals s.
Proof. unfold set_staked. destruct (_ || _); reflexivity. Qed.

Theorem stake_exact s pk a amt s' : bank_ok s -> a <> m_pool (ma s) ->
  handle s (MStake pk a amt) = HOk s' ->
  p_min_stake (pp s) <= amt /\
  bal s' a = bal s a - amt /\ bal s' (m_pool (ma s)) = bal s (m_pool (ma s)) + amt /\ supply s' = supply s /\
  exists v', get_val s' a = Some v' /\ v_status v' = 2%N /\
    v_tokens v' = match get_val s a with Some v => v_tokens v | None => 0 end + amt.
Proof.
  intros Hb Hne. simpl.
  set (v0 := match get_val s a with Some v => v | None => _ end).
  destruct (negb (v_status v0 =? 0)%N); [discriminate|].
  destruct (match aget (sinfo s) a with Some si => si_tomb si | None => false end); [discriminate|].
  destruct (Z.ltb_spec amt (p_min_stake (pp s))); [discriminate|].
  destruct (Z.ltb_spec (bal s a) amt); [discriminate|].
  set (s1 := match get_val s a with Some _ => s | None => _ end).
  assert (A1 : accts s1 = accts s) by (unfold s1; destruct (get_val s a); reflexivity).
  assert (M1 : ma s1 = ma s) by (unfold s1; destruct (get_val s a); reflexivity).
  assert (S1 : supply s1 = supply s) by (unfold s1; destruct (get_val s a); reflexivity).
  destruct (bank_send s1 a (m_pool (ma s1)) amt) as [s2|] eqn:Es; [|discriminate].
  set (v1 := with_status (with_tokens v0 (v_tokens v0 + amt)) 2).
  set (s3 := set_staked (put_val s2 a v1) a v1).
  intros E. assert (E' : s' = match aget (sinfo s3) a with Some _ => s3 | None =>
      set_sign s3 (aset (sinfo s3) a {| si_start := height s3; si_offset := 0; si_jailed_until := 0; si_tomb := false; si_missed := 0 |}) (missed s3) end)
    by (injection E as <-; reflexivity). clear E.
  assert (B3 : forall x, bal s' x = bal s2 x).
  { intros x. rewrite E'. destruct (aget (sinfo s3) a); unfold s3; [|change (bal (set_sign ?X _ _) x) with (bal X x)];
      rewrite bal_set_staked; reflexivity. }
  assert (Sup : supply s' = supply s2).
  { rewrite E'. destruct (aget (sinfo s3) a); unfold s3; [|change (supply (set_sign ?X _ _)) with (supply X)];
      rewrite supply_set_staked; reflexivity. }
  assert (V3 : vals s' = aset (vals s2) a v1).
  { rewrite E'. destruct (aget (sinfo s3) a); unfold s3; [|change (vals (set_sign ?X _ _)) with (vals X)];
      rewrite vals_set_staked; reflexivity. }
  split; [lia|]. destruct Hb as (Sa & _ & _).
  unfold bank_send in Es. destruct (_ || _); [discriminate|]. injection Es as <-.
  rewrite !B3, Sup. unfold bal. cbn [accts supply set_bank]. rewrite A1, M1, S1.
  fold (getz (accts s) a). fold (getz (aset (accts s) a (getz (accts s) a - amt)) (m_pool (ma s))).
  fold (getz (aset (aset (accts s) a (getz (accts s) a - amt)) (m_pool (ma s))
          (getz (aset (accts s) a (getz (accts s) a - amt)) (m_pool (ma s)) + amt)) a).
  fold (getz (aset (aset (accts s) a (getz (accts s) a - amt)) (m_pool (ma s))
          (getz (aset (accts s) a (getz (accts s) a - amt)) (m_pool (ma s)) + amt)) (m_pool (ma s))).
  fold (getz (accts s) (m_pool (ma s))).
  rewrite !getz_aset by (auto; apply aset_sorted; auto). rewrite !beqb_refl'.
  assert (N1 : beqb (m_pool (ma s)) a = false).
  { destruct (beqb (m_pool (ma s)) a) eqn:E; auto. apply beqb_eq in E. congruence. }
  assert (N2 : beqb a (m_pool (ma s)) = false).
  { destruct (beqb a (m_pool (ma s))) eqn:E; auto. apply beqb_eq in E. congruence. }
  rewrite N1, N2. split; [reflexivity|]. split; [reflexivity|]. split; [reflexivity|].
  exists v1. split; [unfold get_val; rewrite V3; apply aget_aset_same|]. split; [reflexivity|].
  unfold v1, v0. cbn. destruct (get_val s a); reflexivity.
Qed.

(* ---------- C08: the threshold ---------- *)
Theorem min_signed_is_half_even p : min_signed_per_window p = round_half_even (p_min_signed p * p_window p) P.
Proof. unfold min_signed_per_window. apply chop_round_eq. Qed.

(* ---------- C06: maturity is not early ---------- *)
(* only queue slots whose completion time is at or before the block time are processed *)
Theorem mature_slots_are_due s k l : 0 <= btime s < 256 ^ 8 ->
  In (k, l) (filter (fun p => bleb (fst p) (time_key (btime s))) (unstq s)) ->
  forall t, 0 <= t < 256 ^ 8 -> k = time_key t -> t <= btime s.
Proof.
  intros Hb Hin t Ht ->. apply filter_In in Hin. destruct Hin as [_ Hle]. simpl in Hle.
  unfold bleb, time_key in Hle. rewrite be_bytes_compare in Hle by (simpl; lia).
  destruct (Z.compare_spec t (btime s)); try lia; discriminate.
Qed.
