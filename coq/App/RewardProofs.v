(* C10: at BeginBlock the WHOLE balance of the fee collector goes to the previous proposer (or stays in the pos
   module account when that address is not a validator), exactly once: afterwards the collector is empty; an
   award mints exactly its amount to its address. *)
From Coq Require Import List ZArith NArith Bool Lia.
From PM Require Import Base.Bytes Store.KV Store.MergeProofs Store.KVProofs Num.IntModel Num.DecModel
  App.Model App.BankProofs App.IndexProofs App.PoolProofs.
Import ListNotations.
Local Open Scope Z_scope.

Lemma beqb_neq a b : a <> b -> beqb a b = false.
Proof. intros N. destruct (beqb a b) eqn:B; auto. apply beqb_eq in B. contradiction. Qed.

Theorem reward_from_fees_exact s p s' : bank_ok s ->
  m_fee (ma s) <> m_pos (ma s) -> p <> m_fee (ma s) -> p <> m_pos (ma s) ->
  reward_from_fees s p = Some s' ->
  bal s' (m_fee (ma s)) = 0 /\ supply s' = supply s /\
  (forall x, x <> m_fee (ma s) -> x <> m_pos (ma s) -> x <> p -> bal s' x = bal s x) /\
  match get_val s p with
  | Some _ => bal s' p = bal s p + bal s (m_fee (ma s)) /\ bal s' (m_pos (ma s)) = bal s (m_pos (ma s))
  | None => bal s' p = bal s p /\ bal s' (m_pos (ma s)) = bal s (m_pos (ma s)) + bal s (m_fee (ma s))
  end.
Proof.
  unfold reward_from_fees. intros B D1 D2 D3.
  set (F := m_fee (ma s)) in *. set (Po := m_pos (ma s)) in *. set (fees := bal s F).
  destruct (bank_send s F Po fees) as [s1|] eqn:E1; [|discriminate].
  pose proof (send_pres _ _ _ _ _ B E1) as B1. pose proof (send_ma _ _ _ _ _ E1) as M1.
  destruct (bank_send_frame _ _ _ _ _ E1) as (V1 & _ & _).
  assert (Bal1 : forall x, bal s1 x = bal s x - (if beqb F x then fees else 0) + (if beqb Po x then fees else 0)).
  { intros x. apply (bal_send s F Po fees s1 x B E1). }
  assert (G1 : get_val s1 p = get_val s p) by (unfold get_val; rewrite V1; reflexivity).
  rewrite G1. destruct (get_val s p) as [v|].
  - rewrite M1. fold Po. intros E2. pose proof (bank_send_ok _ _ _ _ _ B1 E2) as [_ S2].
    assert (Bal2 : forall x, bal s' x = bal s1 x - (if beqb Po x then fees else 0) + (if beqb p x then fees else 0)).
    { intros x. apply (bal_send s1 Po p fees s' x B1 E2). }
    split; [rewrite Bal2, Bal1; rewrite !beqb_refl, (beqb_neq Po F), (beqb_neq p F) by auto; unfold fees; lia|].
    split; [pose proof (proj2 (bank_send_ok _ _ _ _ _ B E1)); congruence|].
    split; [intros x N1 N2 N3; rewrite Bal2, Bal1; rewrite (beqb_neq F x), (beqb_neq Po x), (beqb_neq p x) by auto; lia|].
    split; rewrite Bal2, Bal1.
    + rewrite beqb_refl, (beqb_neq F p), (beqb_neq Po p) by auto. lia.
    + rewrite !beqb_refl, (beqb_neq F Po), (beqb_neq p Po) by auto. lia.
  - intros [= <-].
    split; [rewrite Bal1; rewrite beqb_refl, (beqb_neq Po F) by auto; unfold fees; lia|].
    split; [exact (proj2 (bank_send_ok _ _ _ _ _ B E1))|].
    split; [intros x N1 N2 N3; rewrite Bal1; rewrite (beqb_neq F x), (beqb_neq Po x) by auto; lia|].
    split; rewrite Bal1.
    + rewrite (beqb_neq F p), (beqb_neq Po p) by auto. lia.
    + rewrite beqb_refl, (beqb_neq F Po) by auto. lia.
Qed.
