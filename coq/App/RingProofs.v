(* C08: the missed-block ring buffer of handleValidatorSignature IS a sliding window.
   Pure statement about the bit-array / counter / offset update exactly as coded (flip the bit at
   offset mod W and move the counter by one only when the bit changes): after ANY sequence of
   votes, for ANY window size W >= 1, the counter equals the number of misses among the most
   recent min(n, W) votes, and the array holds exactly those votes. *)
From Coq Require Import List ZArith NArith Bool Lia PeanoNat.
Import ListNotations.
Local Open Scope Z_scope.

Definition ring := ((nat -> bool) * Z * nat)%type.             (* bits, missed counter, index offset *)
Definition upd (b : nat -> bool) (i : nat) (x : bool) : nat -> bool := fun j => if Nat.eqb j i then x else b j.
(* [m] = the validator MISSED this block *)
Definition ring_step (W : nat) (r : ring) (m : bool) : ring :=
  let '(b, c, o) := r in
  let i := (o mod W)%nat in
  let prev := b i in
  if negb prev && m then (upd b i true, c + 1, S o)
  else if prev && negb m then (upd b i false, c - 1, S o)
  else (b, c, S o).
Definition ring0 : ring := (fun _ => false, 0, O).

Definition b2z (x : bool) : Z := if x then 1 else 0.
Fixpoint cnt (l : list bool) : Z := match l with [] => 0 | x :: r => b2z x + cnt r end.

(* [hist]: the votes so far, NEWEST first *)
Definition ring_inv (W : nat) (r : ring) (hist : list bool) : Prop :=
  let '(b, c, o) := r in
  o = length hist /\ c = cnt (firstn W hist) /\
  (forall k, (k < o)%nat -> (k < W)%nat -> b ((o - 1 - k) mod W)%nat = nth k hist false) /\
  (forall i, (o <= i)%nat -> (i < W)%nat -> b i = false).

Lemma cnt_firstn_S n : forall l, cnt (firstn (S n) l) = cnt (firstn n l) + b2z (nth n l false).
Proof.
  induction n as [|n IH]; intros [|x l]; try (cbn; lia).
  change (firstn (S (S n)) (x :: l)) with (x :: firstn (S n) l). change (firstn (S n) (x :: l)) with (x :: firstn n l).
  cbn [cnt nth]. rewrite IH. lia.
Qed.
Lemma mod_shift_neq W o k : (0 < W)%nat -> (k + 1 < W)%nat -> (k < o)%nat -> ((o - 1 - k) mod W <> o mod W)%nat.
Proof.
  intros HW Hk Ho E. set (x := (o - 1 - k)%nat) in *.
  pose proof (Nat.div_mod x W ltac:(lia)) as Dx. pose proof (Nat.div_mod o W ltac:(lia)) as Do.
  rewrite E in Dx. assert (o = x + (k + 1))%nat by (unfold x; lia).
  destruct (le_lt_dec (o / W) (x / W)) as [L|L]; nia.
Qed.
Lemma mod_last W o : (0 < W)%nat -> (W <= o)%nat -> ((o - 1 - (W - 1)) mod W = o mod W)%nat.
Proof.
  intros HW Ho. replace (o - 1 - (W - 1))%nat with (o - W)%nat by lia.
  replace o with ((o - W) + 1 * W)%nat at 2 by lia. rewrite Nat.mod_add by lia. reflexivity.
Qed.

Theorem ring_step_inv W r hist m : (0 < W)%nat -> ring_inv W r hist -> ring_inv W (ring_step W r m) (m :: hist).
Proof.
  intros HW. destruct r as [[b c] o]. intros (Eo & Ec & Hb & Hz).
  (* the bit about to be overwritten is the vote that leaves the window (or nothing) *)
  assert (Prev : b (o mod W)%nat = nth (W - 1) hist false).
  { destruct (le_lt_dec W o) as [L|L].
    - rewrite <- (mod_last W o HW L). apply Hb; lia.
    - rewrite Nat.mod_small by lia. rewrite (Hz o) by lia. rewrite nth_overflow; auto. lia. }
  assert (Cn : cnt (firstn W (m :: hist)) = c - b2z (b (o mod W)%nat) + b2z m).
  { destruct W as [|W']; [lia|]. cbn [firstn cnt]. rewrite Ec, cnt_firstn_S, Prev.
    replace (S W' - 1)%nat with W' by lia. lia. }
  assert (Bits : forall b' : nat -> bool, b' (o mod W)%nat = m -> (forall j, j <> (o mod W)%nat -> b' j = b j) ->
            (forall k, (k < S o)%nat -> (k < W)%nat -> b' ((S o - 1 - k) mod W)%nat = nth k (m :: hist) false) /\
            (forall i, (S o <= i)%nat -> (i < W)%nat -> b' i = false)).
  { intros b' Hi Hj. split.
    - intros [|k] Hk1 Hk2; cbn [nth].
      + replace (S o - 1 - 0)%nat with o by lia. exact Hi.
      + replace (S o - 1 - S k)%nat with (o - 1 - k)%nat by lia.
        rewrite Hj; [apply Hb; lia|]. apply mod_shift_neq; lia.
    - intros i Hi1 Hi2. rewrite Hj; [apply Hz; lia|]. rewrite Nat.mod_small by lia. lia. }
  unfold ring_step. cbv zeta.
  destruct (b (o mod W)%nat) eqn:Pb; destruct m; cbn [negb andb].
  - (* was missed, missed again: nothing changes *)
    destruct (Bits b Pb (fun j _ => eq_refl)) as [B1 B2].
    split; [cbn; lia|]. split; [rewrite Cn; cbn; lia|]. split; auto.
  - (* was missed, now signed: clear the bit, counter - 1 *)
    destruct (Bits (upd b (o mod W)%nat false)) as [B1 B2].
    { unfold upd. rewrite Nat.eqb_refl. reflexivity. }
    { intros j Hj. unfold upd. destruct (Nat.eqb_spec j (o mod W)%nat); [contradiction|reflexivity]. }
    split; [cbn; lia|]. split; [rewrite Cn; cbn; lia|]. split; auto.
  - (* was signed, now missed: set the bit, counter + 1 *)
    destruct (Bits (upd b (o mod W)%nat true)) as [B1 B2].
    { unfold upd. rewrite Nat.eqb_refl. reflexivity. }
    { intros j Hj. unfold upd. destruct (Nat.eqb_spec j (o mod W)%nat); [contradiction|reflexivity]. }
    split; [cbn; lia|]. split; [rewrite Cn; cbn; lia|]. split; auto.
  - destruct (Bits b Pb (fun j _ => eq_refl)) as [B1 B2].
    split; [cbn; lia|]. split; [rewrite Cn; cbn; lia|]. split; auto.
Qed.
Lemma ring0_inv W : ring_inv W ring0 [].
Proof. split; [reflexivity|]. split; [destruct W; reflexivity|]. split; [intros k H; inversion H|auto]. Qed.

(* votes in chronological order *)
Theorem ring_is_sliding_window W votes : (0 < W)%nat ->
  ring_inv W (fold_left (ring_step W) votes ring0) (rev votes).
Proof.
  intros HW. assert (G : forall vs r hist, ring_inv W r hist -> ring_inv W (fold_left (ring_step W) vs r) (rev vs ++ hist)).
  { induction vs as [|m vs IH]; intros r hist H; simpl; auto.
    rewrite <- app_assoc. simpl. apply IH. apply ring_step_inv; auto. }
  specialize (G votes ring0 [] (ring0_inv W)). rewrite app_nil_r in G. exact G.
Qed.
(* the reading the property is about: the counter = misses among the most recent min(n, W) votes *)
Corollary ring_counter_is_window_misses W votes : (0 < W)%nat ->
  snd (fst (fold_left (ring_step W) votes ring0)) = cnt (firstn W (rev votes)).
Proof.
  intros HW. pose proof (ring_is_sliding_window W votes HW) as H.
  destruct (fold_left (ring_step W) votes ring0) as [[b c] o]. destruct H as (_ & Ec & _). exact Ec.
Qed.
