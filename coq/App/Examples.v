(* a small concrete genesis and history used as non-vacuity witnesses by the Props files *)
From Coq Require Import List ZArith NArith Bool.
From PM Require Import Base.Bytes Store.KV Store.MergeProofs App.Model App.BankProofs.
Import ListNotations.
Local Open Scope Z_scope.

Definition A1 : bytes := [1;1]%N.  Definition A2 : bytes := [2;2]%N.  Definition A3 : bytes := [3;3]%N.
Definition FEE : bytes := [240]%N. Definition POOL : bytes := [241]%N. Definition POS : bytes := [242]%N. Definition DAO : bytes := [243]%N.
Definition ex_pp : pparams :=
  {| p_unstaking_time := 10; p_max_validators := 2; p_min_stake := 1000000; p_max_evidence_age := 100;
     p_window := 3; p_min_signed := 500000000000000000; p_downtime_jail := 5;
     p_slash_ds := 50000000000000000; p_slash_dt := 10000000000000000 |}.
Definition ex_s0 : state :=
  {| accts := [(A1, 5000000); (A2, 3000000); (A3, 7); (POOL, 2000000)]; supply := 10000007;
     vals := []; powidx := []; prevpow := []; prevtotal := 0; unstq := []; sinfo := []; missed := [];
     awards := []; burns := []; proposer := None; pkrel := []; pp := ex_pp;
     ap := {| a_max_memo := 256; a_sig_limit := 7; a_fee_default := 1; a_fee_multis := [] |};
     ma := {| m_fee := FEE; m_pool := POOL; m_pos := POS; m_dao := DAO |};
     acl := [([1]%N, A1)]; dao_owner := A1; params_raw := []; height := 0; btime := 0;
     haspk := [(A1, A1); (A2, A2); (A3, A3)] |}.
Definition ex_genesis := init_chain ex_s0 [(A1, [11]%N, 2000000)] 500.
Definition ex_tx (m : msg) (signer : bytes) (fee : Z) : tx :=
  {| t_msg := m; t_fee := fee; t_memo_len := 0; t_attached := Some signer; t_multi_count := 0;
     t_signed_by := signer; t_mutated := false; t_sig_empty := false; t_in_index := false; t_gov_fee := 10000 |}.
Definition ex_ops : list op :=
  [ OBegin 1 100 A1 [] [];
    OTx (ex_tx (MStake [22]%N A2 1500000) A2 0);
    OAward A3 40;
    OEnd; OCommit;
    OBegin 2 101 A1 [{| vo_addr := A1; vo_power := 2; vo_signed := false |}] [];
    OTx (ex_tx (MUnstake A2) A2 0);
    OTx (ex_tx (MSend A1 A3 10) A2 0);              (* wrong key: rejected *)
    OEnd; OCommit;
    OBegin 3 120 A1 [{| vo_addr := A1; vo_power := 2; vo_signed := false |}] [];
    OEnd; OCommit ].
Definition ex_final : option state :=
  match ex_genesis with Some (s, _) => run ex_ops s | None => None end.

Lemma ex_s0_bank_ok : bank_ok ex_s0.
Proof.
  unfold bank_ok, binv. split; [|split; [reflexivity|]].
  - simpl. repeat split; intros y Hy; repeat (destruct Hy as [<-|Hy]; [reflexivity|]); destruct Hy.
  - intros k b. simpl.
    repeat (match goal with |- context[bcompare k ?X] => destruct (bcompare k X) end; try discriminate;
            try (intros [= <-]; vm_compute; discriminate)).
Qed.
Lemma ex_final_some : exists s, ex_final = Some s /\ supply s = 10000547 /\
  aget (accts s) A2 = Some 3000000 /\ aget (vals s) A2 = None /\ aget (accts s) A3 = Some 47.
Proof. vm_compute. eexists; repeat split; reflexivity. Qed.
Lemma ex_award_paid : exists s, ex_final = Some s /\ aget (accts s) A3 = Some 47.
Proof. destruct ex_final_some as (s & E & _ & _ & _ & A). eauto. Qed.
