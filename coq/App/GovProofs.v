(* C17 over whole histories: the governance view (every parameter of every subspace, the ACL, the DAO owner,
   the upgrade plan, the raw parameter store) is changed by NO operation of the block cycle except a
   delivered change-parameter / upgrade transaction whose sender is the ACL owner of that key. *)
From Coq Require Import List ZArith NArith Bool Lia.
From PM Require Import Base.Bytes Store.KV Num.IntModel Num.DecModel App.Model App.BankProofs App.TxProofs.
Import ListNotations.
Local Open Scope Z_scope.

Lemma gv_send s f t a s' : bank_send s f t a = Some s' -> gov_view s' = gov_view s.
Proof. unfold bank_send. destruct (_ || _); [discriminate|]. intros [= <-]. reflexivity. Qed.
Lemma gv_mint s m a s' : bank_mint s m a = Some s' -> gov_view s' = gov_view s.
Proof. unfold bank_mint. destruct (_ <? _); [discriminate|]. intros [= <-]. reflexivity. Qed.
Lemma gv_burn s m a s' : bank_burn s m a = Some s' -> gov_view s' = gov_view s.
Proof. unfold bank_burn. destruct (_ || _); [discriminate|]. intros [= <-]. reflexivity. Qed.
Lemma gv_burn_staked s a s' : burn_staked s a = Some s' -> gov_view s' = gov_view s.
Proof. unfold burn_staked. destruct (_ <=? _); [discriminate|]. apply gv_burn. Qed.
Lemma gv_set_staked s a v : gov_view (set_staked s a v) = gov_view s.
Proof. unfold set_staked. destruct (_ || _); reflexivity. Qed.
Lemma gv_force_unstake s a v s' : force_unstake s a v = Some s' -> gov_view s' = gov_view s.
Proof.
  unfold force_unstake.
  set (s1 := if (v_status v =? 1)%N then del_unstaking (del_staked s a v) a v else del_staked s a v).
  assert (G1 : gov_view s1 = gov_view s) by (unfold s1; destruct (v_status v =? 1)%N; reflexivity).
  destruct (0 <? v_tokens v).
  - destruct (burn_staked s1 (v_tokens v)) as [s2|] eqn:E; [|discriminate]. intros [= <-].
    rewrite <- G1, <- (gv_burn_staked _ _ _ E). reflexivity.
  - intros [= <-]. rewrite <- G1. reflexivity.
Qed.
Definition sres_gv (s : state) (r : sres) : Prop :=
  match r with SOk s' | SErr s' => gov_view s' = gov_view s | SPanic => True end.
Lemma gv_slash s a h p f : sres_gv s (slash s a h p f).
Proof.
  unfold slash. destruct (f <? 0); [reflexivity|]. destruct (height s <? h); [reflexivity|].
  destruct (get_val s a) as [v|]; [|reflexivity]. destruct (v_status v =? 0)%N; [reflexivity|].
  destruct (tokens_from_power p) as [amount|]; [|exact I].
  destruct (dec_mul (dec_from_int amount) f) as [d|]; [|exact I].
  destruct (dec_truncate_int d) as [sa|]; [|exact I].
  set (burn := Z.max (Z.min sa (v_tokens v)) 0). set (v1 := with_tokens v (v_tokens v - burn)).
  set (s2 := set_staked (put_val (del_staked s a v) a v1) a v1).
  assert (G2 : gov_view s2 = gov_view s) by (unfold s2; rewrite gv_set_staked; reflexivity).
  destruct (burn_staked s2 burn) as [s3|] eqn:E3; [|exact G2].
  assert (G3 : gov_view s3 = gov_view s) by (rewrite (gv_burn_staked _ _ _ E3); exact G2).
  destruct (v_tokens v1 <? p_min_stake (pp s3)); [|exact G3].
  destruct (force_unstake s3 a v1) as [s4|] eqn:E4; [|exact G3]. simpl. rewrite (gv_force_unstake _ _ _ _ E4). exact G3.
Qed.
Lemma gv_jail s a s' : jail s a = Some s' -> gov_view s' = gov_view s.
Proof. unfold jail. destruct (get_val s a) as [v|]; [|discriminate]. destruct (v_jailed v); [discriminate|]. intros [= <-]. reflexivity. Qed.
Lemma gv_unjail s a s' : unjail s a = Some s' -> gov_view s' = gov_view s.
Proof.
  unfold unjail. destruct (get_val s a) as [v|]; [|discriminate]. destruct (v_jailed v); [|discriminate]. intros [= <-].
  rewrite gv_set_staked. reflexivity.
Qed.
Lemma gv_handle_signature s a p sg s' : handle_signature s a p sg = Some s' -> gov_view s' = gov_view s.
Proof.
  unfold handle_signature.
  destruct (aget (pkrel s) a); [|discriminate]. destruct (aget (sinfo s) a) as [si|]; [|discriminate].
  destruct (p_window (pp s) <=? 0); [discriminate|].
  match goal with |- context[let '(mi, ctr) := ?X in _] => destruct X as [mi ctr] end.
  set (s1 := set_sign s (sinfo s) mi).
  destruct (_ && _).
  - destruct (get_val s1 a) as [v|].
    + destruct (v_jailed v); [intros [= <-]; reflexivity|].
      pose proof (gv_slash s1 a (height s - 2) p (p_slash_dt (pp s))) as Hs.
      destruct (slash s1 a (height s - 2) p (p_slash_dt (pp s))) as [x|x|]; try discriminate; simpl in Hs;
        (destruct (jail x a) as [s3|] eqn:Ej; [|discriminate]); intros [= <-];
        change (gov_view s3 = gov_view s); rewrite (gv_jail _ _ _ Ej); exact Hs.
    + intros [= <-]; reflexivity.
  - intros [= <-]; reflexivity.
Qed.
Lemma gv_handle_double_sign s a h t p s' : handle_double_sign s a h t p = Some s' -> gov_view s' = gov_view s.
Proof.
  unfold handle_double_sign.
  destruct (aget (pkrel s) a); [|discriminate]. destruct (_ <? _); [discriminate|].
  destruct (get_val s a) as [v|]; [|discriminate]. destruct (v_status v =? 0)%N; [discriminate|].
  destruct (aget (sinfo s) a) as [si|]; [|discriminate]. destruct (si_tomb si); [discriminate|].
  pose proof (gv_slash s a (h - 1) p (p_slash_ds (pp s))) as Hs.
  destruct (slash s a (h - 1) p (p_slash_ds (pp s))) as [x|x|]; try discriminate; simpl in Hs.
  all: destruct (v_jailed v);
    [ destruct (get_val x a) as [v2|]; [|discriminate];
      destruct (force_unstake x a v2) as [s3|] eqn:Ef; [|discriminate]; intros [= <-];
      change (gov_view s3 = gov_view s); rewrite (gv_force_unstake _ _ _ _ Ef); exact Hs
    | destruct (jail x a) as [s2|] eqn:Ej; [|discriminate];
      destruct (get_val s2 a) as [v2|]; [|discriminate];
      destruct (force_unstake s2 a v2) as [s3|] eqn:Ef; [|discriminate]; intros [= <-];
      change (gov_view s3 = gov_view s); rewrite (gv_force_unstake _ _ _ _ Ef), (gv_jail _ _ _ Ej); exact Hs ].
Qed.
Lemma gv_reward s p s' : reward_from_fees s p = Some s' -> gov_view s' = gov_view s.
Proof.
  unfold reward_from_fees.
  destruct (bank_send s (m_fee (ma s)) (m_pos (ma s)) (bal s (m_fee (ma s)))) as [s1|] eqn:E1; [|discriminate].
  destruct (get_val s1 p); [|intros [= <-]; eapply gv_send; eauto].
  intros E2. rewrite (gv_send _ _ _ _ _ E2). eapply gv_send; eauto.
Qed.
Lemma gv_mint_award s a amt : gov_view (mint_award s a amt) = gov_view s.
Proof.
  unfold mint_award. destruct (bank_mint s (m_pool (ma s)) amt) as [s1|] eqn:E1; auto.
  destruct (bank_send s1 (m_pool (ma s1)) a amt) as [s2|] eqn:E2; [rewrite (gv_send _ _ _ _ _ E2)|]; eapply gv_mint; eauto.
Qed.
Lemma gv_mint_awards s : gov_view (mint_awards s) = gov_view s.
Proof.
  unfold mint_awards.
  assert (G : forall l st, gov_view (fold_left (fun st p => mint_award st (fst p) (snd p)) l st) = gov_view st).
  { induction l as [|x l IH]; simpl; auto. intros st. rewrite IH. apply gv_mint_award. }
  exact (G (awards s) s).
Qed.
Lemma gv_burn_loop l : forall s s', burn_validators_loop l s = Some s' -> gov_view s' = gov_view s.
Proof.
  induction l as [|[a sev] r IH]; simpl; intros s s'; [intros [= <-]; auto|].
  destruct (get_val s a) as [v|]; [|discriminate].
  match goal with |- context[slash s a ?h ?p ?f] =>
    pose proof (gv_slash s a h p f) as Hs; destruct (slash s a h p f) as [x|x|] end;
  try discriminate; simpl in Hs; intros E; rewrite (IH _ _ E); exact Hs.
Qed.
Lemma gv_fold {A} (f : state -> A -> option state) :
  (forall s x s', f s x = Some s' -> gov_view s' = gov_view s) ->
  forall l s s', fold_opt f l s = Some s' -> gov_view s' = gov_view s.
Proof.
  intros Hf. induction l as [|x l IH]; simpl; intros s s'; [intros [= <-]; auto|].
  destruct (f s x) as [s1|] eqn:E; [|discriminate]. intros E2. rewrite (IH _ _ E2). eapply Hf; eauto.
Qed.
Theorem gv_begin_block s h t prop votes evs s' : begin_block s h t prop votes evs = Some s' -> gov_view s' = gov_view s.
Proof.
  unfold begin_block. set (s0 := set_block s h t).
  destruct (if 1 <? h then match proposer s0 with None => None | Some p => reward_from_fees s0 p end else Some s0)
    as [s1|] eqn:E1; [|discriminate].
  assert (G1 : gov_view s1 = gov_view s).
  { destruct (1 <? h); [|injection E1 as <-; reflexivity]. destruct (proposer s0); [|discriminate].
    rewrite (gv_reward _ _ _ E1). reflexivity. }
  destruct (burn_validators_loop (burns (mint_awards s1)) (mint_awards s1)) as [s3|] eqn:E3; [|discriminate].
  assert (G3 : gov_view s3 = gov_view s) by (rewrite (gv_burn_loop _ _ _ E3), gv_mint_awards; exact G1).
  set (s4 := set_misc s3 (Some prop) (pkrel s3)).
  destruct (fold_opt _ votes s4) as [s5|] eqn:E5; [|discriminate]. intros E6.
  rewrite (gv_fold _ (fun s x s' E => gv_handle_double_sign s _ _ _ _ s' E) _ _ _ E6).
  rewrite (gv_fold _ (fun s x s' E => gv_handle_signature s _ _ _ s' E) _ _ _ E5). exact G3.
Qed.
Lemma gv_upd_loop idx : forall n s prev total acc s' prev' total' acc',
  upd_loop idx n s prev total acc = Some (s', prev', total', acc') -> gov_view s' = gov_view s.
Proof.
  induction idx as [|[k a] r IH]; intros n s prev total acc s' prev' total' acc'.
  - destruct n; simpl; intros [= <- _ _ _]; auto.
  - destruct n; simpl; [intros [= <- _ _ _]; auto|].
    destruct (get_val s a) as [v|]; [|discriminate]. destruct (v_jailed v); [discriminate|].
    destruct (power_of (v_tokens v) =? 0); [discriminate|].
    match goal with |- context[let '(s1, acc1) := ?X in _] => destruct X as [s1 acc1] eqn:EX end.
    intros E. rewrite (IH _ _ _ _ _ _ _ _ _ E).
    destruct (aget prev a) as [p|]; [destruct (p =? _)|]; injection EX as <- _; reflexivity.
Qed.
Lemma gv_update_tm s s' ups : update_tm_validators s = Some (s', ups) -> gov_view s' = gov_view s.
Proof.
  unfold update_tm_validators.
  destruct (upd_loop _ _ s (prevpow s) 0 []) as [[[[s1 leftover] total] acc]|] eqn:E; [|discriminate].
  destruct (fold_opt _ leftover s1) as [s2|] eqn:E2; [|discriminate].
  assert (G2 : gov_view s2 = gov_view s1).
  { eapply (gv_fold _ _ leftover s1 s2 E2). Unshelve.
    intros st p st'. cbv beta. destruct (get_val st (fst p)); [|discriminate]. intros [= <-]. reflexivity. }
  intros [= <- _]. rewrite <- (gv_upd_loop _ _ _ _ _ _ _ _ _ _ E), <- G2. destruct (rev acc ++ _); reflexivity.
Qed.
Lemma gv_finish s a v s' : finish_unstaking s a v = Some s' -> gov_view s' = gov_view s.
Proof.
  unfold finish_unstaking. destruct (negb _); [discriminate|].
  destruct (bank_send _ _ a (v_tokens v)) as [s2|] eqn:E2; [|discriminate]. intros [= <-].
  change (gov_view s2 = gov_view s). rewrite (gv_send _ _ _ _ _ E2). reflexivity.
Qed.
Lemma gv_unstake_one s a s' : unstake_one s a = Some s' -> gov_view s' = gov_view s.
Proof.
  unfold unstake_one. destruct (get_val s a) as [v|]; [|intros [= <-]; auto].
  destruct (negb _); [intros [= <-]; auto|]. apply gv_finish.
Qed.
Lemma gv_unstake_mature s s' : unstake_mature s = Some s' -> gov_view s' = gov_view s.
Proof.
  unfold unstake_mature. apply gv_fold.
  intros st p st'. destruct (fold_opt unstake_one (snd p) st) as [st1|] eqn:E; [|discriminate]. intros [= <-].
  change (gov_view st1 = gov_view st). eapply gv_fold; [|exact E]. apply gv_unstake_one.
Qed.
Theorem gv_end_block s s' ups : end_block s = Some (s', ups) -> gov_view s' = gov_view s.
Proof.
  unfold end_block. destruct (update_tm_validators s) as [[s1 u]|] eqn:E; [|discriminate].
  destruct (unstake_mature s1) as [s2|] eqn:E2; [|discriminate]. intros [= <- _].
  rewrite (gv_unstake_mature _ _ E2). eapply gv_update_tm; eauto.
Qed.
Lemma gv_ante s t s' : ante s t = Some s' -> gov_view s' = gov_view s.
Proof.
  unfold ante. destruct (_ <? _); [discriminate|].
  match goal with |- context[match ?X with Some ka => _ | None => None end] => destruct X as [ka|] end; [|discriminate].
  destruct (negb _); [discriminate|]. destruct (t_in_index t); [discriminate|]. destruct (_ <? _); [discriminate|].
  destruct (_ && _); [discriminate|]. destruct (_ || _); [discriminate|].
  destruct (aget (accts s) _) as [b|]; [|discriminate]. destruct (b <? t_fee t); [discriminate|]. apply gv_send.
Qed.

(* the only way the governance view moves: an accepted change-param / upgrade transaction from the owner *)
Theorem params_change_only_by_owner_tx s o s' : step s o = Some s' -> gov_view s' <> gov_view s ->
  exists t s1, o = OTx t /\ ante s t = Some s1 /\ acl s1 = acl s /\
    ((exists f key v raw wf, t_msg t = MChangeParam f key v raw wf /\ beqb (owner_of (acl s) key) f = true /\ msg_signer (t_msg t) = f) \/
     (exists f h raw, t_msg t = MUpgrade f h raw /\ beqb (owner_of (acl s) [103;111;118;47;117;112;103;114;97;100;101]%N) f = true)).
Proof.
  destruct o as [h t p vs es|t|a amt|a sev| |]; simpl; intros E Hne.
  - exfalso. apply Hne. eapply gv_begin_block; eauto.
  - injection E as <-. unfold deliver_tx in Hne. destruct (_ || _); [exfalso; apply Hne; reflexivity|].
    destruct (ante s t) as [s1|] eqn:Ea; [|exfalso; apply Hne; reflexivity].
    pose proof (gv_ante _ _ _ Ea) as G1.
    assert (A1 : acl s1 = acl s) by (unfold gov_view in G1; congruence).
    destruct (handle s1 (t_msg t)) as [s2|s2] eqn:Eh; simpl in Hne.
    + assert (Hne1 : gov_view s2 <> gov_view s1) by (rewrite G1; exact Hne).
      exists t, s1. split; auto. split; auto. split; auto.
      destruct (params_change_needs_owner s1 (t_msg t) s2 Eh Hne1) as [(f & key & v & raw & wf & Em & Ow)|(f & hh & raw & Em & Ow)].
      * left. exists f, key, v, raw, wf. rewrite <- A1. split; auto. split; auto. rewrite Em. reflexivity.
      * right. exists f, hh, raw. rewrite <- A1. auto.
    + exfalso. apply Hne.
      (* a failing handler wrote nothing to the governance view *)
      clear Hne. rewrite <- G1. destruct (t_msg t) as [pk a amt|a|a|f tt amt|f key v raw wf|f tt amt act|f hh raw]; simpl in Eh.
      * set (v0 := match get_val s1 a with Some v => v | None => _ end) in *.
        destruct (negb (v_status v0 =? 0)%N); [injection Eh as <-; reflexivity|].
        destruct (match aget (sinfo s1) a with Some si => si_tomb si | None => false end); [injection Eh as <-; reflexivity|].
        destruct (_ <? _); [injection Eh as <-; reflexivity|]. destruct (_ <? _); [injection Eh as <-; reflexivity|].
        set (s1' := match get_val s1 a with Some _ => s1 | None => _ end) in *.
        assert (G : gov_view s1' = gov_view s1) by (unfold s1'; destruct (get_val s1 a); reflexivity).
        destruct (bank_send s1' a (m_pool (ma s1')) amt); [discriminate|]. injection Eh as <-. exact G.
      * destruct (get_val s1 a) as [v|]; [|injection Eh as <-; reflexivity]. destruct (negb _); [injection Eh as <-; reflexivity|].
        destruct (_ <? _); [injection Eh as <-; reflexivity|discriminate].
      * destruct (get_val s1 a) as [v|]; [|injection Eh as <-; reflexivity]. destruct (_ <? _); [injection Eh as <-; reflexivity|].
        destruct (negb _); [injection Eh as <-; reflexivity|]. destruct (aget (sinfo s1) a) as [si|]; [|injection Eh as <-; reflexivity].
        destruct (si_tomb si); [injection Eh as <-; reflexivity|]. destruct (_ <? _); [injection Eh as <-; reflexivity|].
        destruct (unjail s1 a); [discriminate|injection Eh as <-; reflexivity].
      * destruct (bank_send s1 f tt amt); [discriminate|injection Eh as <-; reflexivity].
      * destruct (negb _); [injection Eh as <-; reflexivity|]. destruct wf; discriminate.
      * destruct (negb _); [injection Eh as <-; reflexivity|]. destruct (act =? 1)%N.
        -- destruct (bank_send s1 (m_dao (ma s1)) tt amt); [discriminate|injection Eh as <-; reflexivity].
        -- destruct (act =? 2)%N; [|injection Eh as <-; reflexivity].
           destruct (bank_burn s1 (m_dao (ma s1)) amt); [discriminate|injection Eh as <-; reflexivity].
      * destruct (negb _); [injection Eh as <-; reflexivity|discriminate].
  - injection E as <-. exfalso. apply Hne. reflexivity.
  - injection E as <-. exfalso. apply Hne. reflexivity.
  - destruct (end_block s) as [[s1 u]|] eqn:Ee; [|discriminate]. injection E as <-. exfalso. apply Hne. eapply gv_end_block; eauto.
  - injection E as <-. exfalso. apply Hne. reflexivity.
Qed.

(* ---------- an ACL that lists a key more than once: the FIRST entry names the owner (ACL.GetOwner's loop) ---------- *)
Lemma owner_of_first_entry l1 k a l2 :
  (forall p, In p l1 -> fst p <> k) -> owner_of (l1 ++ (k, a) :: l2) k = a.
Proof.
  intros H. unfold owner_of. induction l1 as [|q r IH]; cbn [app find fst].
  - replace (beqb k k) with true by (symmetry; apply beqb_eq; reflexivity). reflexivity.
  - destruct (beqb (fst q) k) eqn:E.
    + apply beqb_eq in E. exfalso. apply (H q); [left; reflexivity|exact E].
    + apply IH. intros p Hp. apply H. right. exact Hp.
Qed.
(* so entries for the same key further down change nothing, whatever address they carry *)
Lemma owner_of_ignores_later_entries l1 k a l2 l2' :
  (forall p, In p l1 -> fst p <> k) -> owner_of (l1 ++ (k, a) :: l2) k = owner_of (l1 ++ (k, a) :: l2') k.
Proof. intros H. rewrite !owner_of_first_entry by exact H. reflexivity. Qed.
