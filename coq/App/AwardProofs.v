(* C10, second sentence, for the whole award queue: at BeginBlock every address receives exactly the amount queued for
   it, newly minted (the supply grows by exactly the sum of the queue), nobody else's balance moves, and the queue is
   empty afterwards; awards queued for one address during a block add up. *)
From Coq Require Import List ZArith NArith Bool Lia.
From PM Require Import Base.Bytes Store.KV Store.MergeProofs Store.KVProofs Num.IntModel App.Model App.BankProofs
  App.IndexProofs App.PoolProofs App.TxProofs.
Import ListNotations.
Local Open Scope Z_scope.

Definition queued (l : list (bytes * Z)) (b : bytes) : Z :=
  fold_right (fun p acc => (if beqb (fst p) b then snd p else 0) + acc) 0 l.
Definition qtotal (l : list (bytes * Z)) : Z := fold_right (fun p acc => snd p + acc) 0 l.

(* one award of a non-negative amount always goes through: the pool has just been credited with it *)
Lemma mint_award_effect s a amt : bank_ok s -> 0 <= amt ->
  let s' := mint_award s a amt in
  bank_ok s' /\ ma s' = ma s /\ supply s' = supply s + amt /\
  forall b, bal s' b = bal s b + (if beqb a b then amt else 0).
Proof.
  intros B N. unfold mint_award.
  destruct (bank_mint s (m_pool (ma s)) amt) as [s1|] eqn:E1.
  2:{ exfalso. unfold bank_mint in E1. destruct (Z.ltb_spec amt 0); [lia|discriminate]. }
  pose proof (mint_pres _ _ _ _ B E1) as B1. pose proof (mint_ma _ _ _ _ E1) as M1.
  assert (S1 : supply s1 = supply s + amt).
  { unfold bank_mint in E1. destruct (amt <? 0); [discriminate|]. injection E1 as <-. reflexivity. }
  destruct (bank_send s1 (m_pool (ma s1)) a amt) as [s2|] eqn:E2.
  2:{ exfalso. unfold bank_send in E2. destruct ((amt <? 0) || (bal s1 (m_pool (ma s1)) <? amt)) eqn:G; [|discriminate].
      apply orb_true_iff in G. destruct G as [G|G]; apply Z.ltb_lt in G; [lia|].
      destruct (bal_mint _ _ _ _ (m_pool (ma s1)) B E1) as [_ Eb]. rewrite M1 in Eb, G. rewrite beqb_refl in Eb.
      destruct B as (_ & _ & NN). pose proof (getz_nonneg (accts s) (m_pool (ma s)) NN). unfold bal in *. unfold getz in *. lia. }
  cbv zeta. split; [eapply send_pres; eauto|]. split; [rewrite (send_ma _ _ _ _ _ E2); exact M1|].
  split.
  - unfold bank_send in E2. destruct (_ || _); [discriminate|]. injection E2 as <-. exact S1.
  - intros b. destruct (bal_send _ _ _ _ _ b B1 E2) as [_ Eb2]. destruct (bal_mint _ _ _ _ b B E1) as [_ Eb1].
    rewrite Eb2, Eb1, M1. destruct (beqb (m_pool (ma s)) b); destruct (beqb a b); lia.
Qed.

Lemma fold_awards_effect l : forall s, bank_ok s -> (forall a x, In (a, x) l -> 0 <= x) ->
  let s' := fold_left (fun st p => mint_award st (fst p) (snd p)) l s in
  bank_ok s' /\ ma s' = ma s /\ supply s' = supply s + qtotal l /\ forall b, bal s' b = bal s b + queued l b.
Proof.
  induction l as [|[a x] l IH]; intros s B NN; cbn [fold_left fst snd].
  - unfold qtotal, queued. cbn [fold_right]. split; [exact B|]. split; [reflexivity|]. split; [lia|]. intros b. lia.
  - destruct (mint_award_effect s a x B (NN a x (or_introl eq_refl))) as (B1 & M1 & S1 & E1).
    destruct (IH (mint_award s a x) B1 (fun b y I => NN b y (or_intror I))) as (B2 & M2 & S2 & E2).
    cbv zeta in *. split; [exact B2|]. split; [congruence|]. split.
    + rewrite S2, S1. unfold qtotal. cbn [fold_right snd]. lia.
    + intros b. rewrite E2, E1. unfold queued. cbn [fold_right fst snd]. lia.
Qed.

(* BeginBlock's mintValidatorAwards *)
Theorem mint_awards_exact s : bank_ok s -> (forall a x, In (a, x) (awards s) -> 0 <= x) ->
  let s' := mint_awards s in
  awards s' = [] /\ bank_ok s' /\ supply s' = supply s + qtotal (awards s) /\
  forall b, bal s' b = bal s b + queued (awards s) b.
Proof.
  intros B NN. unfold mint_awards. destruct (fold_awards_effect (awards s) s B NN) as (B1 & M1 & S1 & E1).
  cbv zeta in *. split; [reflexivity|]. split; [exact B1|]. split; [exact S1|exact E1].
Qed.
(* with one entry per address (the queue is a map) "queued" is simply the entry *)
Lemma queued_map (m : amap Z) b : asorted m -> queued m b = match aget m b with Some x => x | None => 0 end.
Proof.
  induction m as [|[k v] m IH]; intros S; [reflexivity|]. destruct S as [Hx S]. unfold queued. cbn [fold_right fst snd aget].
  fold (queued m b). rewrite (IH S). destruct (beqb k b) eqn:Bq.
  - apply beqb_eq in Bq; subst k. rewrite bcompare_refl.
    assert (aget m b = None).
    { destruct (aget m b) as [y|] eqn:Ey; auto. apply aget_in in Ey. specialize (Hx _ Ey). cbn [fst] in Hx. unfold cmp in Hx.
      rewrite bcompare_refl in Hx. discriminate. }
    rewrite H. lia.
  - destruct (bcompare b k) eqn:C.
    + apply bcompare_eq in C; subst. rewrite beqb_refl in Bq. discriminate.
    + assert (aget m b = None).
      { destruct (aget m b) as [y|] eqn:Ey; auto. apply aget_in in Ey. specialize (Hx _ Ey). cbn [fst] in Hx. unfold cmp in Hx.
        pose proof (bcompare_lt_trans _ _ _ C Hx) as T. rewrite bcompare_refl in T. discriminate. }
      rewrite H. lia.
    + lia.
Qed.
(* AwardCoinsTo: amounts queued for one address add up *)
Theorem k_award_accumulates s a x : asorted (awards s) ->
  forall b, getz (awards (k_award s a x)) b = getz (awards s) b + (if beqb a b then x else 0).
Proof.
  intros S b. unfold k_award. cbn [awards set_queues]. unfold getz. rewrite aget_aset by auto.
  destruct (beqb a b) eqn:Bq; [apply beqb_eq in Bq; subst b|]; destruct (aget (awards s) a); lia.
Qed.
