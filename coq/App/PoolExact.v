(* C04, the other half: in histories in which nobody sends coins to the pool's own address (no send / DAO transfer /
   award names it as the recipient) the staked pool holds EXACTLY the sum of the stake recorded for the validators
   that are staked or unstaking - not a token more. PoolProofs has "at least"; here "at most", by the mirrored
   accounting: every token that enters the pool is recorded as stake in the same step (stake), every recorded token
   that disappears leaves the pool in the same step (slash and forced-unstake burns, the payout at maturity), awards
   pass through without staying. Extra invariants carried along: the pool's address has no validator record and no
   queued award. *)
From Coq Require Import List ZArith NArith Bool Lia.
From PM Require Import Base.Bytes Store.KV Store.MergeProofs Store.KVProofs Num.IntModel Num.DecModel
  App.Model App.BankProofs App.IndexProofs App.QueueProofs App.PoolProofs.
Import ListNotations.
Local Open Scope Z_scope.

Section Exact.
Variable MA : modaddrs.
Notation P := (m_pool MA).

Definition upper (s : state) : Prop := bal s P <= ssum (vals s).
Definition nv (s : state) : Prop := aget (vals s) P = None.          (* the pool's address is no validator *)
Definition na (s : state) : Prop := forall amt, ~ In (P, amt) (awards s).   (* ... and has no queued award *)
Definition px (s : state) : Prop := pool_ok MA s /\ nv s /\ na s /\ upper s.

(* "u s s'": s' keeps the three extra invariants of s, given pool_ok of s *)
Definition keeps (s s' : state) : Prop := (nv s -> nv s') /\ (na s -> na s') /\ (nv s -> upper s -> upper s').
Lemma keeps_refl s : keeps s s. Proof. repeat split; auto. Qed.
Lemma keeps_trans s1 s2 s3 : keeps s1 s2 -> keeps s2 s3 -> keeps s1 s3.
Proof. intros (A1 & B1 & C1) (A2 & B2 & C2). repeat split; auto. Qed.
Lemma keeps_frame s s' : accts s' = accts s -> vals s' = vals s -> awards s' = awards s -> keeps s s'.
Proof. intros E1 E2 E3. unfold keeps, nv, na, upper, bal. rewrite E1, E2, E3. auto. Qed.

(* ---------- bank primitives ---------- *)
Lemma send_awards s f t a s' : bank_send s f t a = Some s' -> awards s' = awards s.
Proof. unfold bank_send. destruct (_ || _); [discriminate|]. intros [= <-]. reflexivity. Qed.
Lemma mint_awards_f s m a s' : bank_mint s m a = Some s' -> awards s' = awards s.
Proof. unfold bank_mint. destruct (_ <? _); [discriminate|]. intros [= <-]. reflexivity. Qed.
Lemma burn_awards s m a s' : bank_burn s m a = Some s' -> awards s' = awards s.
Proof. unfold bank_burn. destruct (_ || _); [discriminate|]. intros [= <-]. reflexivity. Qed.

(* a transfer that does not name the pool as the recipient cannot raise its balance *)
Lemma send_keeps s f t amt s' : bank_ok s -> t <> P -> bank_send s f t amt = Some s' -> keeps s s'.
Proof.
  intros B Nt E. destruct (bank_send_frame _ _ _ _ _ E) as (F1 & _ & _). pose proof (send_awards _ _ _ _ _ E) as Fa.
  destruct (bal_send s f t amt s' P B E) as [N Eb].
  unfold keeps, nv, na, upper. rewrite F1, Fa. repeat split; auto. intros _ U. rewrite Eb.
  destruct (beqb t P) eqn:Bt; [apply beqb_eq in Bt; contradiction|]. destruct (beqb f P); lia.
Qed.
Lemma burn_keeps s m amt s' : bank_ok s -> bank_burn s m amt = Some s' -> m <> P -> keeps s s'.
Proof.
  intros B E Nm. destruct (bank_burn_frame _ _ _ _ E) as (F1 & _ & _). pose proof (burn_awards _ _ _ _ E) as Fa.
  destruct (bal_burn s m amt s' P B E) as [N Eb].
  unfold keeps, nv, na, upper. rewrite F1, Fa. repeat split; auto. intros _ U. rewrite Eb.
  destruct (beqb m P) eqn:Bm; [apply beqb_eq in Bm; contradiction|]. lia.
Qed.
Lemma mint_keeps s m amt s' : bank_ok s -> bank_mint s m amt = Some s' -> m <> P -> keeps s s'.
Proof.
  intros B E Nm. destruct (bank_mint_frame _ _ _ _ E) as (F1 & _ & _). pose proof (mint_awards_f _ _ _ _ E) as Fa.
  destruct (bal_mint s m amt s' P B E) as [N Eb].
  unfold keeps, nv, na, upper. rewrite F1, Fa. repeat split; auto. intros _ U. rewrite Eb.
  destruct (beqb m P) eqn:Bm; [apply beqb_eq in Bm; contradiction|]. lia.
Qed.

(* rewriting the record of a validator other than the pool's address: the recorded sum may not shrink *)
Lemma put_val_keeps s a v1 : asorted (vals s) -> a <> P -> stkz (vals s) a <= stk v1 -> keeps s (put_val s a v1).
Proof.
  intros S Na Le. unfold keeps, nv, na, upper. cbn [vals awards put_val set_vals]. repeat split; auto.
  - intros H. rewrite aget_aset by auto. destruct (beqb a P) eqn:B; [apply beqb_eq in B; contradiction|exact H].
  - intros _ U. rewrite ssum_aset by auto. rewrite bal_put_val. lia.
Qed.

(* the recorded sum is at least any single record (all are non-negative) *)
Lemma ssum_nonneg_list W : (forall b w, In (b, w) W -> 0 <= stk w) -> 0 <= ssum W.
Proof.
  induction W as [|[k0 v0] r IH]; intros NN; cbn [ssum]; [lia|].
  assert (0 <= stk v0) by (apply (NN k0 v0); left; reflexivity).
  assert (0 <= ssum r) by (apply IH; intros b w I; apply (NN b w); right; exact I). lia.
Qed.
Lemma ssum_ge_member W a v : (forall b w, In (b, w) W -> 0 <= stk w) -> In (a, v) W -> stk v <= ssum W.
Proof.
  induction W as [|[k0 v0] r IH]; intros NN I; [destruct I|]. cbn [ssum].
  assert (N0 : 0 <= stk v0) by (apply (NN k0 v0); left; reflexivity).
  assert (NR : forall b w, In (b, w) r -> 0 <= stk w) by (intros b w Ib; apply (NN b w); right; exact Ib).
  destruct I as [E|I].
  - injection E as -> ->. pose proof (ssum_nonneg_list r NR). lia.
  - specialize (IH NR I). lia.
Qed.
Lemma ssum_ge_stkz V a : vals_ok V -> stkz V a <= ssum V.
Proof.
  intros [S H]. assert (NN : forall b w, In (b, w) V -> 0 <= stk w).
  { intros b w I. apply (in_aget V b w S) in I. destruct (H b w I) as [N Z0]. unfold stk. destruct (_ =? _)%N; lia. }
  unfold stkz. destruct (aget V a) as [v|] eqn:E; [|apply ssum_nonneg_list; exact NN].
  apply (ssum_ge_member V a v NN). apply aget_in. exact E.
Qed.

Lemma nv_neq s a v : nv s -> get_val s a = Some v -> a <> P.
Proof. unfold nv, get_val. intros N E ->. congruence. Qed.

Lemma force_unstake_keeps s a v s' : pool_ok MA s -> nv s -> get_val s a = Some v -> force_unstake s a v = Some s' -> keeps s s'.
Proof.
  intros H N E. pose proof (nv_neq s a v N E) as Na. unfold force_unstake.
  set (s1 := if (v_status v =? 1)%N then del_unstaking (del_staked s a v) a v else del_staked s a v).
  assert (F1 : accts s1 = accts s /\ vals s1 = vals s /\ awards s1 = awards s /\ ma s1 = ma s /\ supply s1 = supply s)
    by (unfold s1; destruct (v_status v =? 1)%N; repeat split; reflexivity).
  destruct F1 as (A1 & V1 & W1 & M1 & U1).
  destruct H as (EM & B & V & D & L). destruct (proj2 V a v E) as [Nv Zv].
  assert (B1 : bank_ok s1) by (unfold bank_ok; rewrite A1, U1; exact B).
  destruct (0 <? v_tokens v) eqn:Pos.
  - unfold burn_staked. destruct (v_tokens v <=? 0) eqn:Le; [discriminate|].
    replace (ma s1) with MA by congruence.
    destruct (bank_burn s1 P (v_tokens v)) as [s2|] eqn:E2; [|discriminate].
    destruct (bank_burn_frame _ _ _ _ E2) as (G1 & _ & _). pose proof (burn_awards _ _ _ _ E2) as Ga.
    destruct (bal_burn _ _ _ _ P B1 E2) as [_ Eb]. rewrite beqb_refl in Eb. intros [= <-].
    unfold keeps, nv, na, upper. cbn [vals awards put_val set_vals]. rewrite ?bal_put_val, G1, V1, Ga, W1. repeat split; auto.
    + intros Hn. rewrite aget_aset by apply V. destruct (beqb a P) eqn:Bq; [apply beqb_eq in Bq; contradiction|exact Hn].
    + intros _ U. rewrite ssum_aset by apply V. unfold stkz. unfold get_val in E. rewrite E. rewrite Eb.
      assert (stk v = v_tokens v).
      { unfold stk. destruct (v_status v =? 0)%N eqn:S0; auto. apply N.eqb_eq in S0. apply Zv in S0. apply Z.ltb_lt in Pos. lia. }
      assert (bal s1 P = bal s P) by (unfold bal; rewrite A1; reflexivity).
      unfold stk at 2. cbn. lia.
  - apply Z.ltb_ge in Pos. intros [= <-].
    unfold keeps, nv, na, upper. cbn [vals awards put_val set_vals]. rewrite ?bal_put_val, V1, W1. repeat split; auto.
    + intros Hn. rewrite aget_aset by apply V. destruct (beqb a P) eqn:Bq; [apply beqb_eq in Bq; contradiction|exact Hn].
    + intros _ U. rewrite ssum_aset by apply V. unfold stkz. unfold get_val in E. rewrite E.
      assert (stk v = 0) by (unfold stk; destruct (v_status v =? 0)%N; lia).
      assert (bal s1 P = bal s P) by (unfold bal; rewrite A1; reflexivity).
      unfold stk at 2. cbn. lia.
Qed.

Definition sres_keeps (s : state) (r : sres) : Prop := match r with SOk x | SErr x => keeps s x | SPanic => True end.
Lemma slash_keeps s a h p f : pool_ok MA s -> nv s -> sres_keeps s (slash s a h p f).
Proof.
  intros H N. unfold slash.
  destruct (f <? 0); [apply keeps_refl|]. destruct (height s <? h); [apply keeps_refl|].
  destruct (get_val s a) as [v|] eqn:E; [|apply keeps_refl].
  destruct (v_status v =? 0)%N eqn:St; [apply keeps_refl|].
  destruct (tokens_from_power p) as [amount|]; [|exact I].
  destruct (dec_mul (dec_from_int amount) f) as [d|]; [|exact I].
  destruct (dec_truncate_int d) as [sa|]; [|exact I].
  pose proof (nv_neq s a v N E) as Na.
  set (burn := Z.max (Z.min sa (v_tokens v)) 0).
  set (v1 := with_tokens v (v_tokens v - burn)).
  pose proof H as (EM & B & V & M & L). destruct (proj2 V a v E) as [Nv Zv].
  assert (Hb : 0 <= burn <= v_tokens v) by (unfold burn; lia).
  assert (Sv : stk v = v_tokens v) by (unfold stk; rewrite St; auto).
  assert (Sv1 : stk v1 = v_tokens v - burn) by (unfold stk, v1; cbn; rewrite St; auto).
  set (s2 := set_staked (put_val (del_staked s a v) a v1) a v1).
  assert (V2 : vals s2 = aset (vals s) a v1) by (unfold s2; rewrite set_staked_vals; reflexivity).
  assert (A2 : accts s2 = accts s /\ supply s2 = supply s /\ ma s2 = ma s /\ awards s2 = awards s).
  { unfold s2, set_staked. destruct (_ || _); repeat split; reflexivity. }
  destruct A2 as (A2 & U2 & M2 & W2).
  assert (SS2 : ssum (vals s2) = ssum (vals s) - burn).
  { rewrite V2, ssum_aset by apply V. unfold stkz. unfold get_val in E. rewrite E. lia. }
  assert (B2 : bank_ok s2) by (unfold bank_ok; rewrite A2, U2; exact B).
  assert (Bal2 : bal s2 P = bal s P) by (unfold bal; rewrite A2; auto).
  assert (N2 : nv s -> nv s2).
  { unfold nv. rewrite V2. intros Hn. rewrite aget_aset by apply V. destruct (beqb a P) eqn:Bq; [apply beqb_eq in Bq; contradiction|exact Hn]. }
  (* the pool can always afford the burn: it backs every record *)
  assert (Afford : burn <= bal s2 P).
  { rewrite Bal2. pose proof (ssum_ge_stkz (vals s) a V) as G. unfold stkz in G. unfold get_val in E. rewrite E in G. lia. }
  unfold burn_staked. fold s2. destruct (burn <=? 0) eqn:Le.
  - (* nothing to burn: the record is unchanged too *)
    apply Z.leb_le in Le. assert (burn = 0) by lia.
    unfold sres_keeps, keeps, na, upper. rewrite W2, SS2, Bal2. repeat split; auto. intros _ U. lia.
  - replace (ma s2) with MA by congruence.
    destruct (bank_burn s2 P burn) as [s3|] eqn:E3.
    2:{ exfalso. unfold bank_burn in E3. apply Z.leb_gt in Le.
        destruct ((burn <? 0) || (bal s2 P <? burn)) eqn:G; [|discriminate].
        apply orb_true_iff in G. destruct G as [G|G]; [apply Z.ltb_lt in G|apply Z.ltb_lt in G]; lia. }
    destruct (bank_burn_frame _ _ _ _ E3) as (F1 & _ & Fp). pose proof (burn_ma _ _ _ _ E3) as Fm.
    pose proof (burn_awards _ _ _ _ E3) as Fa.
    destruct (bal_burn _ _ _ _ P B2 E3) as [_ Eb]. rewrite beqb_refl in Eb.
    assert (K3 : keeps s s3).
    { split; [|split].
      - intros Hn. unfold nv. rewrite F1. exact (N2 Hn).
      - unfold na. rewrite Fa, W2. auto.
      - intros _ U. unfold upper in *. rewrite F1, Eb, SS2, Bal2. lia. }
    assert (H3 : pool_ok MA s3).
    { pose proof (slash_pool MA s a h p f H) as Hs. (* re-derive pool_ok of s3 directly *)
      split; [congruence|]. split; [eapply burn_pres; eauto|]. rewrite F1. split.
      - rewrite V2. apply vals_ok_aset; auto; unfold v1; cbn; [lia|]. intros S0. rewrite S0 in St. discriminate.
      - split; [exact M|]. rewrite Eb, SS2, Bal2. lia. }
    destruct (v_tokens v1 <? p_min_stake (pp s3)); [|exact K3].
    destruct (force_unstake s3 a v1) as [s4|] eqn:E4; [|exact K3].
    assert (G3 : get_val s3 a = Some v1).
    { unfold get_val. rewrite F1, V2. rewrite aget_aset by apply V. rewrite beqb_refl. reflexivity. }
    cbn [sres_keeps]. eapply keeps_trans; [exact K3|]. eapply force_unstake_keeps; eauto. apply K3. exact N.
Qed.

Lemma same_stk_keeps s a v v1 : pool_ok MA s -> nv s -> get_val s a = Some v -> stk v1 = stk v -> keeps s (put_val s a v1).
Proof.
  intros H N E Es. apply put_val_keeps; [apply H|eapply nv_neq; eauto|].
  unfold stkz. unfold get_val in E. rewrite E. lia.
Qed.
Lemma jail_keeps s a s' : pool_ok MA s -> nv s -> jail s a = Some s' -> keeps s s'.
Proof.
  unfold jail. intros H N. destruct (get_val s a) as [v|] eqn:E; [|discriminate].
  destruct (v_jailed v); [discriminate|]. intros [= <-].
  eapply keeps_trans; [eapply (same_stk_keeps s a v (with_jailed v true)); eauto|apply keeps_frame; reflexivity].
Qed.
Lemma unjail_keeps s a s' : pool_ok MA s -> nv s -> unjail s a = Some s' -> keeps s s'.
Proof.
  unfold unjail. intros H N. destruct (get_val s a) as [v|] eqn:E; [|discriminate].
  destruct (v_jailed v); [|discriminate]. intros [= <-].
  eapply keeps_trans; [eapply (same_stk_keeps s a v (with_jailed v false)); eauto|].
  unfold set_staked. destruct (_ || _); apply keeps_frame; reflexivity.
Qed.

(* carrying pool_ok and the three extra invariants together *)
Lemma px_step s s' : px s -> pool_ok MA s' -> keeps s s' -> px s'.
Proof. intros (H & N & A & U) H' (K1 & K2 & K3). split; [exact H'|]. split; [auto|]. split; auto. Qed.
Lemma px_frame s s' : accts s' = accts s -> supply s' = supply s -> vals s' = vals s -> ma s' = ma s -> awards s' = awards s -> px s -> px s'.
Proof.
  intros E1 E2 E3 E4 E5 H. apply (px_step s s' H); [eapply pool_frame; eauto; apply H|apply keeps_frame; auto].
Qed.

Lemma handle_signature_px s a p sg s' : px s -> handle_signature s a p sg = Some s' -> px s'.
Proof.
  intros H E. pose proof (handle_signature_pool MA s a p sg s' (proj1 H) E) as H'. revert E.
  unfold handle_signature.
  destruct (aget (pkrel s) a); [|discriminate]. destruct (aget (sinfo s) a) as [si|]; [|discriminate].
  destruct (p_window (pp s) <=? 0); [discriminate|].
  match goal with |- context[let '(mi, ctr) := ?X in _] => destruct X as [mi ctr] end.
  set (s1 := set_sign s (sinfo s) mi). assert (H1 : px s1) by (unfold s1; revert H; apply px_frame; reflexivity).
  destruct (_ && _).
  - destruct (get_val s1 a) as [v|].
    + destruct (v_jailed v); [intros [= <-]; revert H1; apply px_frame; reflexivity|].
      pose proof (slash_keeps s1 a (height s - 2) p (p_slash_dt (pp s)) (proj1 H1) (proj1 (proj2 H1))) as Ks.
      pose proof (slash_pool MA s1 a (height s - 2) p (p_slash_dt (pp s)) (proj1 H1)) as Hs.
      destruct (slash s1 a (height s - 2) p (p_slash_dt (pp s))) as [x|x|]; try discriminate;
        cbn [sres_keeps sres_pool] in Ks, Hs; pose proof (px_step s1 x H1 Hs Ks) as Hx;
        (destruct (jail x a) as [s3|] eqn:Ej; [|discriminate]);
        pose proof (px_step x s3 Hx (jail_pool MA _ _ _ Hs Ej) (jail_keeps _ _ _ Hs (proj1 (proj2 Hx)) Ej)) as H3;
        intros [= <-]; revert H3; apply px_frame; reflexivity.
    + intros [= <-]; revert H1; apply px_frame; reflexivity.
  - intros [= <-]; revert H1; apply px_frame; reflexivity.
Qed.

Lemma handle_double_sign_px s a h t p s' : px s -> handle_double_sign s a h t p = Some s' -> px s'.
Proof.
  unfold handle_double_sign. intros H.
  destruct (aget (pkrel s) a); [|discriminate]. destruct (_ <? _); [discriminate|].
  destruct (get_val s a) as [v|]; [|discriminate]. destruct (v_status v =? 0)%N; [discriminate|].
  destruct (aget (sinfo s) a) as [si|]; [|discriminate]. destruct (si_tomb si); [discriminate|].
  pose proof (slash_pool MA s a (h - 1) p (p_slash_ds (pp s)) (proj1 H)) as Hs.
  pose proof (slash_keeps s a (h - 1) p (p_slash_ds (pp s)) (proj1 H) (proj1 (proj2 H))) as Ks.
  assert (Tail : forall x, px x ->
    match (if v_jailed v then Some x else jail x a) with
    | None => None
    | Some s2 => match get_val s2 a with
                 | None => None
                 | Some v2 => match force_unstake s2 a v2 with
                              | None => None
                              | Some s3 => Some (set_sign s3 (aset (sinfo s3) a
                                  {| si_start := si_start si; si_offset := si_offset si; si_jailed_until := double_sign_jail_end;
                                     si_tomb := true; si_missed := si_missed si |}) (missed s3))
                              end
                 end
    end = Some s' -> px s').
  { intros x Hx. destruct (if v_jailed v then Some x else jail x a) as [s2|] eqn:E2; [|discriminate].
    assert (H2 : px s2).
    { destruct (v_jailed v); [injection E2 as <-; exact Hx|].
      apply (px_step x s2 Hx); [eapply jail_pool; eauto; apply Hx|eapply jail_keeps; eauto; apply Hx]. }
    destruct (get_val s2 a) as [v2|] eqn:G2; [|discriminate].
    destruct (force_unstake s2 a v2) as [s3|] eqn:E3; [|discriminate]. intros [= <-].
    assert (H3 : px s3).
    { apply (px_step s2 s3 H2); [eapply force_unstake_pool; eauto; apply H2|eapply force_unstake_keeps; eauto; apply H2]. }
    revert H3; apply px_frame; reflexivity. }
  destruct (slash s a (h - 1) p (p_slash_ds (pp s))) as [x|x|]; try discriminate;
    cbn [sres_keeps sres_pool] in Ks, Hs; apply Tail; apply (px_step s x H Hs Ks).
Qed.

Lemma reward_from_fees_px s p s' : px s -> reward_from_fees s p = Some s' -> px s'.
Proof.
  intros H E. pose proof (reward_from_fees_pool MA s p s' (proj1 H) E) as H'. revert E.
  unfold reward_from_fees. pose proof (proj1 H) as (EM & B & _ & (D1 & D2 & D3) & _). rewrite EM.
  destruct (bank_send s (m_fee MA) (m_pos MA) (bal s (m_fee MA))) as [s1|] eqn:E1; [|discriminate].
  assert (K1 : keeps s s1) by (eapply send_keeps; [exact B|intro X; apply D2; symmetry; exact X|exact E1]).
  assert (P1 : pool_ok MA s1) by (eapply pool_send_other; [apply H| |exact E1]; auto).
  pose proof (px_step s s1 H P1 K1) as H1.
  destruct (get_val s1 p) as [vp|] eqn:Ep; [|intros [= <-]; exact H1].
  replace (ma s1) with MA by (symmetry; apply P1).
  intros E2. apply (px_step s1 s' H1 H'). eapply send_keeps; [apply P1| |exact E2].
  eapply nv_neq; [apply H1|exact Ep].
Qed.
Lemma mint_award_px s a amt : px s -> a <> P -> px (mint_award s a amt).
Proof.
  intros H Na. pose proof (mint_award_pool MA s a amt (proj1 H)) as H'. revert H'.
  unfold mint_award. destruct H as ((EM & B & V & M & L) & N & A & U). rewrite EM.
  destruct (bank_mint s P amt) as [s1|] eqn:E1; [intros H'|intros _; exact (conj (conj EM (conj B (conj V (conj M L)))) (conj N (conj A U)))].
  destruct (bank_mint_frame _ _ _ _ E1) as (F1 & _ & _). pose proof (mint_ma _ _ _ _ E1) as Fm.
  pose proof (mint_awards_f _ _ _ _ E1) as Fa.
  destruct (bal_mint _ _ _ _ P B E1) as [Nn Eb]. rewrite beqb_refl in Eb.
  pose proof (mint_pres _ _ _ _ B E1) as B1.
  revert H'. replace (ma s1) with MA by congruence.
  destruct (bank_send s1 P a amt) as [s2|] eqn:E2.
  - intros H'. destruct (bank_send_frame _ _ _ _ _ E2) as (G1 & _ & _). pose proof (send_awards _ _ _ _ _ E2) as Ga.
    destruct (bal_send _ _ _ _ _ P B1 E2) as [_ Eb2]. rewrite beqb_refl in Eb2.
    destruct (beqb a P) eqn:Ba; [apply beqb_eq in Ba; contradiction|].
    split; [exact H'|]. unfold nv, na, upper in *. rewrite G1, F1, Ga, Fa, Eb2, Eb. repeat split; auto. lia.
  - (* the forward cannot fail: the pool has just received the amount *)
    exfalso. unfold bank_send in E2. destruct ((amt <? 0) || (bal s1 P <? amt)) eqn:G; [|discriminate].
    apply orb_true_iff in G. destruct G as [G|G]; apply Z.ltb_lt in G; [lia|].
    pose proof (ssum_nonneg_list (vals s)) as NNs.
    assert (0 <= ssum (vals s)).
    { apply NNs. intros b w I. apply (in_aget (vals s) b w (proj1 V)) in I. destruct (proj2 V b w I) as [N0 Z0].
      unfold stk. destruct (_ =? _)%N; lia. }
    lia.
Qed.

Lemma mint_awards_px s : px s -> px (mint_awards s).
Proof.
  unfold mint_awards. intros H.
  assert (G : forall l st, px st -> (forall a amt, In (a, amt) l -> a <> P) ->
                 px (fold_left (fun st p => mint_award st (fst p) (snd p)) l st)).
  { induction l as [|[a amt] l IH]; cbn [fold_left fst snd]; intros st Hst NP; [exact Hst|].
    apply IH; [apply mint_award_px; auto; apply (NP a amt); left; reflexivity|].
    intros b x I. apply (NP b x). right. exact I. }
  assert (NP : forall a amt, In (a, amt) (awards s) -> a <> P).
  { intros a amt I ->. destruct H as (_ & _ & A & _). exact (A amt I). }
  specialize (G (awards s) s H NP). set (s1 := fold_left _ (awards s) s) in *.
  destruct G as (H1 & N1 & A1 & U1). split; [revert H1; apply pool_frame; reflexivity|].
  split; [exact N1|]. split; [intros amt []|exact U1].
Qed.
Lemma burn_validators_loop_px l : forall s s', px s -> burn_validators_loop l s = Some s' -> px s'.
Proof.
  induction l as [|[a sev] r IH]; simpl; intros s s' H; [intros [= <-]; auto|].
  destruct (get_val s a) as [v|]; [|discriminate].
  match goal with |- context[slash s a ?h ?p ?f] =>
    pose proof (slash_pool MA s a h p f (proj1 H)) as Hs; pose proof (slash_keeps s a h p f (proj1 H) (proj1 (proj2 H))) as Ks;
    destruct (slash s a h p f) as [x|x|] end;
  try discriminate; cbn [sres_pool sres_keeps] in Hs, Ks; apply IH; pose proof (px_step s x H Hs Ks) as Hx;
  revert Hx; apply px_frame; reflexivity.
Qed.
Lemma fold_opt_px {A} (f : state -> A -> option state) :
  (forall s x s', px s -> f s x = Some s' -> px s') ->
  forall l s s', px s -> fold_opt f l s = Some s' -> px s'.
Proof.
  intros Hf. induction l as [|x l IH]; simpl; intros s s' H; [intros [= <-]; auto|].
  destruct (f s x) as [s1|] eqn:E; [|discriminate]. apply IH. eapply Hf; eauto.
Qed.
Theorem begin_block_px s h t prop votes evs s' : px s -> begin_block s h t prop votes evs = Some s' -> px s'.
Proof.
  unfold begin_block. intros H.
  set (s0 := set_block s h t). assert (H0 : px s0) by (unfold s0; revert H; apply px_frame; reflexivity).
  destruct (if 1 <? h then match proposer s0 with None => None | Some p => reward_from_fees s0 p end else Some s0)
    as [s1|] eqn:E1; [|discriminate].
  assert (H1 : px s1).
  { destruct (1 <? h); [|injection E1 as <-; auto]. destruct (proposer s0); [|discriminate].
    eapply reward_from_fees_px; eauto. }
  pose proof (mint_awards_px s1 H1) as H2.
  destruct (burn_validators_loop (burns (mint_awards s1)) (mint_awards s1)) as [s3|] eqn:E3; [|discriminate].
  pose proof (burn_validators_loop_px _ _ _ H2 E3) as H3.
  set (s4 := set_misc s3 (Some prop) (pkrel s3)). assert (H4 : px s4) by (unfold s4; revert H3; apply px_frame; reflexivity).
  destruct (fold_opt _ votes s4) as [s5|] eqn:E5; [|discriminate].
  assert (H5 : px s5).
  { eapply (fold_opt_px _ (fun s x s' Hs E => handle_signature_px s _ _ _ s' Hs E)); eauto. }
  intros E6. eapply (fold_opt_px _ (fun s x s' Hs E => handle_double_sign_px s _ _ _ _ s' Hs E)); eauto.
Qed.

(* ---- EndBlock ---- *)
Lemma upd_loop_fr idx : forall n s prev total acc s' prev' total' acc',
  upd_loop idx n s prev total acc = Some (s', prev', total', acc') ->
  accts s' = accts s /\ supply s' = supply s /\ vals s' = vals s /\ ma s' = ma s /\ awards s' = awards s.
Proof.
  induction idx as [|[k a] r IH]; intros n s prev total acc s' prev' total' acc'.
  - destruct n; simpl; intros [= <- _ _ _]; repeat split; reflexivity.
  - destruct n; simpl; [intros [= <- _ _ _]; repeat split; reflexivity|].
    destruct (get_val s a) as [v|]; [|discriminate]. destruct (v_jailed v); [discriminate|].
    destruct (power_of (v_tokens v) =? 0); [discriminate|].
    match goal with |- context[let '(s1, acc1) := ?X in _] => destruct X as [s1 acc1] eqn:EX end.
    intros E. destruct (IH _ _ _ _ _ _ _ _ _ E) as (A1 & A2 & A3 & A4 & A5).
    assert (G : accts s1 = accts s /\ supply s1 = supply s /\ vals s1 = vals s /\ ma s1 = ma s /\ awards s1 = awards s).
    { destruct (aget prev a) as [p|]; [destruct (p =? _)|]; injection EX as <- _; repeat split; reflexivity. }
    destruct G as (G1 & G2 & G3 & G4 & G5). repeat split; congruence.
Qed.
Lemma update_tm_validators_px s s' ups : px s -> update_tm_validators s = Some (s', ups) -> px s'.
Proof.
  unfold update_tm_validators. intros H.
  destruct (upd_loop _ _ s (prevpow s) 0 []) as [[[[s1 leftover] total] acc]|] eqn:E; [|discriminate].
  destruct (upd_loop_fr _ _ _ _ _ _ _ _ _ _ E) as (A1 & A2 & A3 & A4 & A5).
  assert (H1 : px s1) by (revert H; apply px_frame; auto).
  destruct (fold_opt _ leftover s1) as [s2|] eqn:E2; [|discriminate].
  assert (H2 : px s2).
  { eapply (fold_opt_px _ _ leftover s1 s2 H1 E2). Unshelve.
    intros st p st' Hst. cbv beta. destruct (get_val st (fst p)); [|discriminate]. intros [= <-].
    revert Hst; apply px_frame; reflexivity. }
  intros [= <- _]. destruct (rev acc ++ _); [exact H2|]. revert H2; apply px_frame; reflexivity.
Qed.
Lemma finish_unstaking_px s a v s' : px s -> get_val s a = Some v -> v_status v = 1%N ->
  finish_unstaking s a v = Some s' -> px s'.
Proof.
  intros H E St F. pose proof (finish_unstaking_pool MA s a v s' (proj1 H) E St F) as H'. revert F.
  unfold finish_unstaking. destruct H as (Hp & N & A & U). pose proof (nv_neq s a v N E) as Na.
  set (s1 := del_unstaking s a v).
  destruct (negb (is_int64 (v_tokens v))); [discriminate|].
  destruct Hp as (EM & B & V & M & L).
  replace (ma s1) with MA by (unfold s1; cbn; congruence).
  assert (B1 : bank_ok s1) by exact B.
  destruct (bank_send s1 P a (v_tokens v)) as [s2|] eqn:E2; [|discriminate].
  destruct (bank_send_frame _ _ _ _ _ E2) as (F1 & _ & _). pose proof (send_awards _ _ _ _ _ E2) as Fa.
  destruct (bal_send _ _ _ _ _ P B1 E2) as [Nn Eb]. rewrite beqb_refl in Eb.
  destruct (beqb a P) eqn:Ba; [apply beqb_eq in Ba; contradiction|].
  intros [= <-]. split; [exact H'|]. unfold nv, na, upper in *. cbn [vals awards set_vals]. rewrite ?bal_set_vals, F1, Fa.
  change (vals s1) with (vals s). change (awards s1) with (awards s).
  split; [rewrite aget_adel by apply V; destruct (beqb a P); [reflexivity|exact N]|]. split; [exact A|].
  rewrite ssum_adel by apply V. unfold stkz. unfold get_val in E. rewrite E. rewrite Eb.
  assert (stk v = v_tokens v) by (unfold stk; rewrite St; reflexivity).
  assert (bal s1 P = bal s P) by reflexivity. lia.
Qed.
Lemma unstake_one_px s a s' : px s -> unstake_one s a = Some s' -> px s'.
Proof.
  unfold unstake_one. intros H. destruct (get_val s a) as [v|] eqn:E; [|intros [= <-]; auto].
  destruct (v_status v =? 1)%N eqn:St; cbn [negb]; [|intros [= <-]; auto].
  apply N.eqb_eq in St. eapply finish_unstaking_px; eauto.
Qed.
Lemma unstake_mature_px s s' : px s -> unstake_mature s = Some s' -> px s'.
Proof.
  unfold unstake_mature. intros H. apply fold_opt_px; auto.
  intros st p st' Hst. destruct (fold_opt unstake_one (snd p) st) as [st1|] eqn:E; [|discriminate].
  pose proof (fold_opt_px unstake_one unstake_one_px _ _ _ Hst E) as H1. intros [= <-].
  revert H1; apply px_frame; reflexivity.
Qed.
Theorem end_block_px s s' ups : px s -> end_block s = Some (s', ups) -> px s'.
Proof.
  unfold end_block. intros H. destruct (update_tm_validators s) as [[s1 u]|] eqn:E; [|discriminate].
  pose proof (update_tm_validators_px _ _ _ H E) as H1.
  destruct (unstake_mature s1) as [s2|] eqn:E2; [|discriminate]. intros [= <- _].
  eapply unstake_mature_px; eauto.
Qed.

(* ---- transactions ---- *)
Definition msg_nogift (m : msg) : Prop :=
  match m with MSend _ t _ => t <> P | MDao _ t _ _ => t <> P | _ => True end.
Lemma apply_param_px s k v raw : px s -> px (apply_param s k v raw).
Proof. unfold apply_param. intros H. destruct v; revert H; apply px_frame; reflexivity. Qed.
Definition hres_px (r : hres) : Prop := match r with HOk s | HErr s => px s end.
Lemma handle_px s m : px s -> msg_signer m <> P -> msg_nogift m -> hres_px (handle s m).
Proof.
  intros H NS NG. pose proof (handle_pool MA s m (proj1 H) NS) as H'.
  destruct m as [pk a amt|a|a|f t amt|f key v raw wf|f t amt act|f h raw]; simpl in *.
  - (* stake: what enters the pool is recorded *)
    revert H'. set (v0 := match get_val s a with Some v => v | None => _ end).
    destruct (v_status v0 =? 0)%N eqn:St0; cbn [negb]; [|intros _; exact H]. apply N.eqb_eq in St0.
    destruct (match aget (sinfo s) a with Some si => si_tomb si | None => false end); [intros _; exact H|].
    destruct (amt <? p_min_stake (pp s)); [intros _; exact H|]. destruct (bal s a <? amt); [intros _; exact H|].
    destruct H as (Hp & N & A & U). pose proof Hp as (EM & B & V & M & L).
    assert (T0 : v_tokens v0 = 0 /\ stkz (vals s) a = 0).
    { unfold v0, stkz. destruct (get_val s a) as [v|] eqn:E; unfold get_val in E; rewrite E; [|auto].
      subst v0. destruct (proj2 V a v E) as [_ Zv]. split; auto. unfold stk. rewrite St0. reflexivity. }
    destruct T0 as [T0 K0].
    set (s1 := match get_val s a with Some _ => s | None => _ end).
    assert (F1 : accts s1 = accts s /\ supply s1 = supply s /\ ma s1 = ma s /\ awards s1 = awards s /\
                 ssum (vals s1) = ssum (vals s) /\ stkz (vals s1) a = 0 /\ asorted (vals s1) /\ (nv s -> nv s1)).
    { unfold s1. destruct (get_val s a) eqn:E; [repeat split; auto; apply V|].
      cbn [accts supply ma awards vals set_misc put_val set_vals]. repeat split; auto.
      - assert (Z0 : stk v0 = 0) by (unfold stk; rewrite St0; reflexivity). rewrite ssum_aset by apply V. rewrite K0, Z0. lia.
      - assert (Z0 : stk v0 = 0) by (unfold stk; rewrite St0; reflexivity). unfold stkz. rewrite aget_aset by apply V. rewrite beqb_refl. exact Z0.
      - apply aset_sorted. apply V.
      - unfold nv. cbn [vals set_misc put_val set_vals]. intros Hn. rewrite aget_aset by apply V.
        destruct (beqb a P) eqn:Bq; [apply beqb_eq in Bq; contradiction|exact Hn]. }
    destruct F1 as (A1 & U1 & M1 & W1 & S1 & K1 & SV1 & N1).
    replace (ma s1) with MA by congruence.
    assert (B1 : bank_ok s1) by (unfold bank_ok; rewrite A1, U1; exact B).
    destruct (bank_send s1 a P amt) as [s2|] eqn:E.
    2:{ intros Hq. cbn [hres_px]. split; [exact Hq|]. unfold nv, na, upper in *. rewrite W1, S1. repeat split; auto.
        unfold bal. rewrite A1. exact U. }
    destruct (bank_send_frame _ _ _ _ _ E) as (G1 & _ & _). pose proof (send_awards _ _ _ _ _ E) as Ga.
    destruct (bal_send _ _ _ _ _ P B1 E) as [Nn Eb]. rewrite beqb_refl in Eb.
    assert (Na : beqb a P = false).
    { destruct (beqb a P) eqn:Ba; auto. apply beqb_eq in Ba. contradiction. }
    rewrite Na in Eb. cbn [hres_px].
    set (v1 := with_status (with_tokens v0 (v_tokens v0 + amt)) 2).
    intros Hq.
    assert (X : nv (put_val s2 a v1) /\ na (put_val s2 a v1) /\ upper (put_val s2 a v1)).
    { unfold nv, na, upper in *. cbn [vals awards put_val set_vals]. rewrite ?bal_put_val, G1, Ga, W1. split; [|split; [exact A|]].
      - rewrite aget_aset by exact SV1. rewrite Na. apply N1. exact N.
      - rewrite ssum_aset by exact SV1. rewrite K1, S1, Eb. unfold stk, v1. cbn.
        assert (bal s1 P = bal s P) by (unfold bal; rewrite A1; reflexivity). lia. }
    match goal with |- px (match ?Y with _ => _ end) => destruct Y end;
      (split; [exact Hq|]); destruct X as (X1 & X2 & X3); unfold nv, na, upper, set_staked in *;
      destruct (_ || _); cbn [vals awards accts set_sign set_powidx] in *; repeat split; auto.
  - (* begin unstake *)
    revert H'. destruct (get_val s a) as [v|] eqn:E; [|intros _; exact H]. destruct (v_status v =? 2)%N eqn:St; cbn [negb]; [|intros _; exact H].
    destruct (_ <? _); [intros _; exact H|]. cbn [hres_pool hres_px]. apply N.eqb_eq in St. intros Hq.
    apply (px_step s _ H Hq).
    set (v1 := with_unstime (with_status v 1) (btime s + p_unstaking_time (pp s))).
    eapply keeps_trans; [apply (keeps_frame s (del_staked s a v)); reflexivity|].
    eapply keeps_trans; [|apply keeps_frame; reflexivity].
    apply (same_stk_keeps (del_staked s a v) a v v1); [apply del_staked_pool; apply H|apply H|exact E|].
    unfold stk, v1. cbn. rewrite St. reflexivity.
  - revert H'. destruct (get_val s a) as [v|]; [|intros _; exact H]. destruct (_ <? _); [intros _; exact H|]. destruct (negb _); [intros _; exact H|].
    destruct (aget (sinfo s) a) as [si|]; [|intros _; exact H]. destruct (si_tomb si); [intros _; exact H|]. destruct (_ <? _); [intros _; exact H|].
    destruct (unjail s a) as [s1|] eqn:E; [|intros _; exact H]. cbn [hres_pool hres_px]. intros Hq.
    apply (px_step s s1 H Hq). eapply unjail_keeps; eauto; apply H.
  - revert H'. destruct (bank_send s f t amt) as [s1|] eqn:E; [|intros _; exact H]. cbn [hres_pool hres_px]. intros Hq.
    apply (px_step s s1 H Hq). eapply send_keeps; eauto. apply H.
  - destruct (negb _); [exact H|]. destruct wf; cbn [hres_px]; auto. apply apply_param_px; auto.
  - revert H'. pose proof (proj1 H) as (EM & B & _ & (D1 & D2 & D3) & _). destruct (negb _); [intros _; exact H|]. rewrite EM. destruct (act =? 1)%N.
    + destruct (bank_send s (m_dao MA) t amt) as [s1|] eqn:E; [|intros _; exact H]. cbn [hres_pool hres_px]. intros Hq.
      apply (px_step s s1 H Hq). eapply send_keeps; eauto.
    + destruct (act =? 2)%N; [|intros _; exact H].
      destruct (bank_burn s (m_dao MA) amt) as [s1|] eqn:E; [|intros _; exact H]. cbn [hres_pool hres_px]. intros Hq.
      apply (px_step s s1 H Hq). eapply burn_keeps; eauto.
  - destruct (negb _); [exact H|]. cbn [hres_px]. revert H; apply px_frame; reflexivity.
Qed.

Lemma ante_px s t s' : px s -> msg_signer (t_msg t) <> P -> ante s t = Some s' -> px s'.
Proof.
  intros H NS E. pose proof (ante_pool MA s t s' (proj1 H) NS E) as H'. revert E.
  unfold ante. destruct (_ <? _); [discriminate|].
  match goal with |- context[match ?X with Some ka => _ | None => None end] => destruct X as [ka|] end; [|discriminate].
  destruct (negb _); [discriminate|]. destruct (t_in_index t); [discriminate|]. destruct (_ <? _); [discriminate|].
  destruct (_ && _); [discriminate|]. destruct (_ || _); [discriminate|].
  destruct (aget (accts s) _) as [b|]; [|discriminate]. destruct (b <? t_fee t); [discriminate|].
  intros E. apply (px_step s s' H H'). pose proof (proj1 H) as (EM & B & _ & (D1 & D2 & D3) & _).
  eapply send_keeps; [exact B| |exact E]. rewrite EM. intro X. apply D1. symmetry. exact X.
Qed.
Theorem deliver_tx_px s t : px s -> msg_signer (t_msg t) <> P -> msg_nogift (t_msg t) -> px (dres_state (deliver_tx s t)).
Proof.
  intros H NS NG. unfold deliver_tx. destruct (_ || _); [exact H|].
  destruct (ante s t) as [s1|] eqn:E; [|exact H]. pose proof (ante_px _ _ _ H NS E) as H1.
  pose proof (handle_px s1 (t_msg t) H1 NS NG) as Hh. destruct (handle s1 (t_msg t)); exact Hh.
Qed.

Lemma in_aset {V} (m : amap V) a v k x : In (k, x) (aset m a v) -> (k = a /\ x = v) \/ In (k, x) m.
Proof.
  induction m as [|[k0 v0] m IH]; cbn [aset].
  - intros [E|[]]. injection E as <- <-. left; auto.
  - destruct (bcompare a k0) eqn:C.
    + intros [E|I]; [injection E as <- <-; left; auto|right; right; exact I].
    + intros [E|I]; [injection E as <- <-; left; auto|right; exact I].
    + intros [E|I]; [right; left; exact E|]. destruct (IH I) as [L|R]; [left; exact L|right; right; exact R].
Qed.

(* ---- every history without gifts to the pool's address, not signed by it ---- *)
Definition op_nogift (o : op) : Prop :=
  match o with
  | OTx t => msg_signer (t_msg t) <> P /\ msg_nogift (t_msg t)
  | OAward a _ => a <> P
  | _ => True
  end.
Theorem step_px s o s' : px s -> op_nogift o -> step s o = Some s' -> px s'.
Proof.
  intros H K. destruct o as [h t p vs es|t|a amt|a sev| |]; simpl in *.
  - apply begin_block_px; auto.
  - intros [= <-]. destruct K. apply deliver_tx_px; auto.
  - intros [= <-]. unfold k_award. destruct H as (Hp & N & A & U).
    split; [revert Hp; apply pool_frame; reflexivity|]. split; [exact N|]. split; [|exact U].
    unfold na. cbn [awards set_queues]. intros x I. apply in_aset in I. destruct I as [[E _]|I]; [congruence|exact (A x I)].
  - intros [= <-]. unfold k_burn. revert H; apply px_frame; reflexivity.
  - destruct (end_block s) as [[s1 u]|] eqn:E; [|discriminate]. intros [= <-]. eapply end_block_px; eauto.
  - intros [= <-]; auto.
Qed.
Theorem run_px ops : forall s s', px s -> Forall op_nogift ops -> run ops s = Some s' -> px s'.
Proof.
  unfold run. induction ops as [|o r IH]; simpl; intros s s' H F; [intros [= <-]; auto|].
  inversion F; subst. destruct (step s o) as [s1|] eqn:E; [|discriminate]. apply IH; auto. eapply step_px; eauto.
Qed.
(* the reading: exactly the recorded stake *)
Theorem pool_holds_exactly_the_recorded_stake s : px s -> bal s P = ssum (vals s).
Proof. intros ((_ & _ & _ & _ & L) & _ & _ & U). unfold upper in U. lia. Qed.

(* ---- genesis: a pool account funded with exactly the genesis stake ---- *)
Lemma genesis_fold_up gvals : forall s, vals_ok (vals s) ->
  (forall g, In g gvals -> aget (vals s) (g_addr g) = None) -> NoDup (map g_addr gvals) ->
  (forall g, In g gvals -> 0 <= snd g) -> (forall g, In g gvals -> g_addr g <> P) -> nv s -> na s ->
  let s' := fold_left genesis_validator gvals s in
  nv s' /\ na s' /\ ssum (vals s') = ssum (vals s) + gsum gvals /\ bal s' P = bal s P.
Proof.
  induction gvals as [|g r IH]; intros s V A ND NN NP N0 A0; cbn [fold_left].
  - unfold gsum. cbn [fold_right]. repeat split; auto. lia.
  - inversion ND as [|? ? NI ND']; subst.
    pose proof (genesis_validator_pool_step s g) as St. destruct g as [[a pk] tokens]. destruct St as (S1 & S2 & S3 & S4).
    pose proof (A _ (or_introl eq_refl)) as Ea. unfold g_addr in Ea; cbn [fst] in Ea.
    pose proof (NP _ (or_introl eq_refl)) as Npa. unfold g_addr in Npa; cbn [fst] in Npa.
    set (s1 := genesis_validator s (a, pk, tokens)) in *.
    assert (V1 : vals_ok (vals s1)).
    { rewrite S4. apply vals_ok_aset; auto; cbn; [apply (NN (a, pk, tokens)); left; reflexivity|discriminate]. }
    assert (A1 : forall g, In g r -> aget (vals s1) (g_addr g) = None).
    { intros g' Hg'. rewrite S4. rewrite aget_aset by apply V. destruct (beqb a (g_addr g')) eqn:Bq; [|apply A; right; auto].
      apply beqb_eq in Bq. exfalso. apply NI. unfold g_addr at 1. cbn [fst]. rewrite Bq. apply in_map; auto. }
    assert (N1 : nv s1).
    { unfold nv. rewrite S4. rewrite aget_aset by apply V. destruct (beqb a P) eqn:Bq; [apply beqb_eq in Bq; contradiction|exact N0]. }
    assert (W1 : na s1).
    { unfold na, s1, genesis_validator. cbn [awards set_misc set_sign]. unfold set_staked. destruct (_ || _); exact A0. }
    destruct (IH s1 V1 A1 ND' (fun g I => NN g (or_intror I)) (fun g I => NP g (or_intror I)) N1 W1) as (I1 & I2 & I3 & I4).
    split; [exact I1|]. split; [exact I2|]. split.
    + rewrite I3, S4, ssum_aset by apply V. unfold stkz. rewrite Ea. unfold gsum. cbn [fold_right snd]. unfold stk. cbn. lia.
    + rewrite I4. unfold bal. rewrite S2. reflexivity.
Qed.
Theorem init_chain_px s0 gvals dao s ups : ma s0 = MA -> bank_ok s0 -> vals_ok (vals s0) -> mods_distinct MA ->
  (forall g, In g gvals -> aget (vals s0) (g_addr g) = None) -> NoDup (map g_addr gvals) ->
  (forall g, In g gvals -> 0 <= snd g) -> (forall g, In g gvals -> g_addr g <> P) ->
  nv s0 -> na s0 -> ssum (vals s0) + gsum gvals = bal s0 P ->
  init_chain s0 gvals dao = Some (s, ups) -> px s.
Proof.
  intros EM B V D A ND NN NP N0 A0 L E.
  assert (Hp : pool_ok MA s) by (eapply init_chain_pool; eauto; lia).
  revert E. unfold init_chain.
  assert (H1 : px (fold_left genesis_validator gvals s0)).
  { destruct (genesis_fold_up gvals s0 V A ND NN NP N0 A0) as (I1 & I2 & I3 & I4).
    split; [apply genesis_fold_pool; auto; lia|]. split; [exact I1|]. split; [exact I2|]. unfold upper. lia. }
  destruct (update_tm_validators _) as [[s2 u]|] eqn:E; [|discriminate].
  pose proof (update_tm_validators_px _ _ _ H1 E) as H2.
  replace (ma s2) with MA by (symmetry; apply H2).
  destruct (bank_mint s2 (m_dao MA) dao) as [s3|] eqn:E3; intros [= <- _]; [|exact H2].
  apply (px_step s2 s3 H2 Hp). eapply mint_keeps; [apply H2|exact E3|]. destruct D as (_ & _ & D3). intro X. apply D3. symmetry. exact X.
Qed.
End Exact.
