(* C14 — Store queries return committed data. Statements only. Merkle proofs are an oracle of the
   model (soundness of IAVL range proofs and collision-freeness of the hashes are the library's
   contract); their verification against the app hash of EVERY height is checked on the
   implementation by the `ms` engine. *)
From Coq Require Import List ZArith NArith Bool Permutation.
From PM Require Import Base.Bytes Store.KV Store.MergeProofs Store.RootMulti Store.RootMultiProofs Store.QueryHistory.
Import ListNotations.
Local Open Scope Z_scope.

(* a query at a height that is on disk returns exactly the value committed at that height ... *)
Theorem C14_query_reads_committed ms name key h t c : h <> 0 ->
  find (fun p => beqb (fst p) name) (ms_trees ms) = Some (name, t) -> vget (t_disk t) h = Some c ->
  ms_query ms name key h = QValue (aget c key).
Proof. exact (query_reads_committed ms name key h t c). Qed.
(* ... whatever has been written to the working tree since, and whatever was committed later *)
Theorem C14_later_writes_irrelevant ts name f n t : In (n, t) (upd_tree ts name f) ->
  exists t0, In (n, t0) ts /\ t_disk t = t_disk t0 /\ t_ver t = t_ver t0.
Proof. exact (working_writes_do_not_touch_disk ts name f n t). Qed.
Theorem C14_later_commits_irrelevant p t tf units h : store_commit p t = Some (tf, units) ->
  h <> t_ver t + 1 -> to_release p (t_ver t + 1) <> Some h -> vget (t_disk tf) h = vget (t_disk t) h.
Proof. exact (store_commit_keeps_other_versions p t tf units h). Qed.
(* a pruned or future height yields no value (never data of another height) *)
Theorem C14_pruned_or_future_returns_nothing ms name key h t : h <> 0 ->
  find (fun p => beqb (fst p) name) (ms_trees ms) = Some (name, t) -> vget (t_disk t) h = None ->
  ms_query ms name key h = QNoVersion.
Proof. exact (query_pruned_or_future_returns_nothing ms name key h t). Qed.
(* ---- over whole histories, any number of substores: once height h holds content c in a substore, then after ANY
   sequence of writes, deletes, transient writes, pruning changes and commits a query at h answers with c's value or
   with "no such version" (pruned) - never with data of another height (Store/QueryHistory.v) ---- *)
Theorem C14_query_after_any_history h cs ops ms ms' name key : h <> 0 ->
  all_frozen h cs (ms_trees ms) -> mrun ops ms = Some ms' ->
  match find (fun p => beqb (fst p) name) cs with
  | Some (_, c) => ms_query ms' name key h = QValue (aget c key) \/ ms_query ms' name key h = QNoVersion
  | None => ms_query ms' name key h = QNoStore
  end.
Proof. exact (query_after_any_history h cs ops ms ms' name key). Qed.
Theorem C14_frozen_forever h cs ops ms ms' : mrun ops ms = Some ms' -> all_frozen h cs (ms_trees ms) -> all_frozen h cs (ms_trees ms').
Proof. exact (mrun_frozen h cs ops ms ms'). Qed.
(* the premise holds for every height not above the substores' versions, with the contents on disk *)
Theorem C14_frozen_premise h ts : (forall n t, In (n, t) ts -> h <= t_ver t) ->
  all_frozen h (map (fun p => (fst p, match vget (t_disk (snd p)) h with Some c => c | None => [] end)) ts) ts.
Proof. exact (all_frozen_intro h ts). Qed.
(* a concrete history: two substores, pruning keeps one recent version; height 1 is answered with the value
   committed at 1 while it is retained and with "no such version" once released, never with the later values *)
Definition c14_a : bytes := [97]%N.  Definition c14_b : bytes := [98]%N.
Definition c14_ms1 := mrun [MSet c14_a [1]%N [10]%N; MSet c14_b [2]%N [20]%N; MCommit]
                           (ms_init [c14_a; c14_b] {| keep_recent := 1; keep_every := 0 |}).
Example C14_ex_history : match c14_ms1 with
  | Some ms1 =>
    ms_query ms1 c14_a [1]%N 1 = QValue (Some [10]%N) /\
    match mrun [MSet c14_a [1]%N [11]%N; MCommit] ms1 with
    | Some ms2 => ms_query ms2 c14_a [1]%N 1 = QValue (Some [10]%N) /\ ms_query ms2 c14_a [1]%N 2 = QValue (Some [11]%N) /\
      match mrun [MDelete c14_a [1]%N; MCommit] ms2 with
      | Some ms3 => ms_query ms3 c14_a [1]%N 1 = QNoVersion /\ ms_query ms3 c14_a [1]%N 2 = QValue (Some [11]%N)
                    /\ ms_query ms3 c14_a [1]%N 3 = QValue None
      | None => False end
    | None => False end
  | None => False end.
Proof. vm_compute. repeat split; reflexivity. Qed.
Print Assumptions C14_query_reads_committed.
Print Assumptions C14_query_after_any_history.
Print Assumptions C14_later_commits_irrelevant.
