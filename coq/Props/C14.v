(* C14 — Store queries return committed data. Statements only. Merkle proofs are an oracle of the
   model (soundness of IAVL range proofs and collision-freeness of the hashes are the library's
   contract); their verification against the app hash of EVERY height is checked on the
   implementation by the `ms` engine. *)
From Coq Require Import List ZArith NArith Bool Permutation.
From PM Require Import Base.Bytes Store.KV Store.MergeProofs Store.RootMulti Store.RootMultiProofs.
Import ListNotations.
Local Open Scope Z_scope.

(* a query at a height that is on disk returns exactly the value committed at that height ... *)
Theorem C14_query_reads_committed ms name key h t c : h <> 0 ->
  find (fun p => beqb (fst p) name) (ms_trees ms) = Some (name, t) -> vget (t_disk t) h = Some c ->
  ms_query ms name key h = QValue (aget c key).
Proof. exact (query_reads_committed ms name key h t c). Qed.
(* ... whatever has been written to the working tree since, and whatever was committed later *)
Theorem C14_later_writes_irrelevant ts name f n t : In (n, t) (upd_tree ts name f) ->
  exists t0, In (n, t0) ts /\ t_disk t = t_disk t0 /\ t_ver t = t_ver t0.
Proof. exact (working_writes_do_not_touch_disk ts name f n t). Qed.
Theorem C14_later_commits_irrelevant p t tf units h : store_commit p t = Some (tf, units) ->
  h <> t_ver t + 1 -> to_release p (t_ver t + 1) <> Some h -> vget (t_disk tf) h = vget (t_disk t) h.
Proof. exact (store_commit_keeps_other_versions p t tf units h). Qed.
(* a pruned or future height yields no value (never data of another height) *)
Theorem C14_pruned_or_future_returns_nothing ms name key h t : h <> 0 ->
  find (fun p => beqb (fst p) name) (ms_trees ms) = Some (name, t) -> vget (t_disk t) h = None ->
  ms_query ms name key h = QNoVersion.
Proof. exact (query_pruned_or_future_returns_nothing ms name key h t). Qed.
Print Assumptions C14_query_reads_committed.
Print Assumptions C14_later_commits_irrelevant.
