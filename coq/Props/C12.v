(* C12 — Commit is durable and versions are readable. Statements only. L2 model: the iavl library is
   its contract (SaveVersion / DeleteVersion one atomic batch each, LoadVersion(target) needs target). *)
From Coq Require Import List ZArith NArith Bool Permutation.
From PM Require Import Base.Bytes Store.KV Store.MergeProofs Store.RootMulti Store.RootMultiProofs Store.QueryHistory Store.MultiCrash.
Import ListNotations.
Local Open Scope Z_scope.

(* a substore commit adds exactly the new version with exactly the working content ... *)
Theorem C12_new_version p t tf units : 0 <= keep_recent p -> vget (t_disk t) (t_ver t + 1) = None ->
  store_commit p t = Some (tf, units) ->
  t_ver tf = t_ver t + 1 /\ t_work tf = t_work t /\ vget (t_disk tf) (t_ver t + 1) = Some (t_work t).
Proof. exact (store_commit_new_version p t tf units). Qed.
(* ... removes exactly the version the pruning rule releases (an error, never wrong data, when read) ... *)
Theorem C12_released_version_unreadable p t tf units r : store_commit p t = Some (tf, units) ->
  to_release p (t_ver t + 1) = Some r -> vget (t_disk tf) r = None.
Proof. exact (store_commit_released_gone p t tf units r). Qed.
Theorem C12_release_rule p v r : to_release p v = Some r -> r = v - 1 - keep_recent p /\ keep_recent p < v - 1.
Proof. exact (to_release_lt p v r). Qed.
(* ... and leaves every other retained version exactly as it was committed *)
Theorem C12_retained_versions_untouched p t tf units h : store_commit p t = Some (tf, units) ->
  h <> t_ver t + 1 -> to_release p (t_ver t + 1) <> Some h -> vget (t_disk tf) h = vget (t_disk t) h.
Proof. exact (store_commit_keeps_other_versions p t tf units h). Qed.
(* writes to the working tree never touch what is on disk *)
Theorem C12_working_writes_do_not_touch_disk ts name f n t : In (n, t) (upd_tree ts name f) ->
  exists t0, In (n, t0) ts /\ t_disk t = t_disk t0 /\ t_ver t = t_ver t0.
Proof. exact (working_writes_do_not_touch_disk ts name f n t). Qed.
Example C12_ex :
  let ms0 := ms_init [[97]%N; [98]%N] {| keep_recent := 1; keep_every := 0 |} in
  let ms1 := ms_set ms0 [97]%N [1]%N [10]%N in
  match commit_in_order ms1 [] None with
  | Some (ms2, false) =>
    match commit_in_order (ms_set ms2 [97]%N [1]%N [11]%N) [[98]%N; [97]%N] None with
    | Some (ms3, false) =>
      match commit_in_order (ms_tset ms3 [116;114]%N [5]%N [5]%N) [] None with
      | Some (ms4, false) => fst (ms_last ms4) = 3 /\ ms_query ms4 [97]%N [1]%N 2 = QValue (Some [11]%N) /\
                             ms_query ms4 [97]%N [1]%N 1 = QNoVersion /\ ms_transient ms4 = [([116;114]%N, [])] /\
                             option_map (fun m => fst (ms_last m)) (reopen ms4) = Some 3
      | _ => False end
    | _ => False end
  | _ => False end.
Proof. vm_compute. repeat split; reflexivity. Qed.
(* THE WHOLE MULTISTORE, any number of substores: after a commit that ran to the end, stopping and reopening gives
   every substore at the new version with exactly the content its working tree had, and the commit id reported by
   Commit is the one the reopened store reports *)
Theorem C12_multistore_commit_durable ms ms' : 0 <= keep_recent (ms_prune ms) -> 0 <= fst (ms_last ms) ->
  NoDup (map fst (ms_trees ms)) ->
  (forall n t, In (n, t) (ms_trees ms) -> 0 <= t_ver t /\ vget (t_disk t) (t_ver t + 1) = None) ->
  commit ms None = Some (ms', false) ->
  exists ms2, reopen ms' = Some ms2 /\ ms_last ms2 = ms_last ms' /\ ms_latest ms2 = fst (ms_last ms) + 1 /\
    Forall2 (fun l nt => fst l = fst nt /\ t_work (snd l) = t_work (snd nt) /\ t_ver (snd l) = t_ver (snd nt) + 1)
            (ms_trees ms2) (ms_trees ms).
Proof. exact (multistore_commit_durable ms ms'). Qed.
(* over whole histories, any number of substores: a version that no pruning policy in force during the history ever
   releases stays readable with exactly the content committed at it, whatever is written, deleted, committed or
   re-configured afterwards (Store/QueryHistory.v); a released one is gone (C12_released_version_unreadable), and by
   C14_query_after_any_history nothing else can ever be read at that height *)
Theorem C12_retained_version_stays_readable h cs ops ms ms' name key c : h <> 0 ->
  policies_ok h (ms_prune ms) ops -> all_kept h cs (ms_trees ms) -> mrun ops ms = Some ms' ->
  find (fun p => beqb (fst p) name) cs = Some (name, c) -> ms_query ms' name key h = QValue (aget c key).
Proof. exact (retained_version_stays_readable h cs ops ms ms' name key c). Qed.
Theorem C12_kept_forever h cs ops ms ms' : policies_ok h (ms_prune ms) ops -> mrun ops ms = Some ms' ->
  all_kept h cs (ms_trees ms) -> all_kept h cs (ms_trees ms').
Proof. exact (mrun_kept h cs ops ms ms'). Qed.
Example C12_ex_keep_everything kr h : never_releases {| keep_recent := kr; keep_every := 1 |} h.
Proof. exact (keep_every_1_never_releases kr h). Qed.
Print Assumptions C12_new_version.
Print Assumptions C12_retained_version_stays_readable.
Print Assumptions C12_retained_versions_untouched.
Print Assumptions C12_released_version_unreadable.
Print Assumptions C12_multistore_commit_durable.
