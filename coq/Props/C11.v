(* C11 — Rejected transactions leave no trace. Statements only. *)
From Coq Require Import List ZArith NArith Bool.
From PM Require Import Base.Bytes Store.KV Store.MergeProofs Num.IntModel Num.DecModel Num.DecProofs
  App.Model App.BankProofs App.TxProofs App.KeyTypes App.KeyProofs App.Examples.
Import ListNotations.
Local Open Scope Z_scope.

(* undecodable / basic-invalid / ante-refused: the state is exactly what it was *)
Theorem C11_rejected_unchanged s t s' : deliver_tx s t = DRejected s' -> s' = s.
Proof. exact (rejected_unchanged s t s'). Qed.
(* a failing handler has written nothing (every handler validates before its first write) ... *)
Theorem C11_handler_err_unchanged s m s' : bank_ok s -> 0 <= p_min_stake (pp s) -> handle s m = HErr s' -> s' = s.
Proof. exact (handler_err_unchanged s m s'). Qed.
(* ... so the transaction has paid its fee and changed nothing else *)
Theorem C11_handler_err_pays_fee_only s t s' : bank_ok s -> 0 <= p_min_stake (pp s) ->
  deliver_tx s t = DHandlerErr s' -> ante s t = Some s'.
Proof. exact (handler_err_pays_fee_only s t s'). Qed.
(* the same two statements when the consensus parameters admit ed25519 validator keys only (deliver_tx_cp true), and the
   refusal itself: a first-time stake under another key type pays its fee and leaves nothing else *)
Theorem C11_cp_rejected_unchanged r s t s' : deliver_tx_cp r s t = DRejected s' -> s' = s.
Proof. exact (cp_rejected_unchanged r s t s'). Qed.
Theorem C11_cp_handler_err_pays_fee_only r s t s' : bank_ok s -> 0 <= p_min_stake (pp s) ->
  deliver_tx_cp r s t = DHandlerErr s' -> ante s t = Some s'.
Proof. exact (cp_handler_err_pays_fee_only r s t s'). Qed.
Theorem C11_cp_refuses_other_key_types s t pk a amt s1 : t_msg t = MStake pk a amt -> ed25519_key pk = false ->
  ante s t = Some s1 -> get_val s1 a = None ->
  negb (msg_basic_ok (t_msg t)) || (t_fee t <? 0) || t_sig_empty t = false ->
  deliver_tx_cp true s t = DHandlerErr s1.
Proof. exact (cp_refuses_other_key_types s t pk a amt s1). Qed.
Theorem C11_cp_is_deliver_tx_without_the_restriction s t : deliver_tx_cp false s t = deliver_tx s t.
Proof. exact (deliver_tx_cp_unrestricted s t). Qed.
Example C11_ex : match ex_genesis with
  | Some (s, _) => deliver_tx s (ex_tx (MSend A1 A3 10) A2 0) = DRejected s /\
                   match deliver_tx s (ex_tx (MUnjail A1) A1 0) with DHandlerErr s1 => supply s1 = supply s | _ => False end
  | None => False end.
Proof. vm_compute. split; reflexivity. Qed.
Print Assumptions C11_rejected_unchanged.
Print Assumptions C11_handler_err_pays_fee_only.
Print Assumptions C11_cp_handler_err_pays_fee_only.
Print Assumptions C11_cp_refuses_other_key_types.
