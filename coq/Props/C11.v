(* C11 — Rejected transactions leave no trace. Statements only. *)
From Coq Require Import List ZArith NArith Bool.
From PM Require Import Base.Bytes Store.KV Store.MergeProofs Num.IntModel Num.DecModel Num.DecProofs
  App.Model App.BankProofs App.TxProofs App.KeyProofs App.Examples.
Import ListNotations.
Local Open Scope Z_scope.

(* undecodable / basic-invalid / ante-refused: the state is exactly what it was *)
Theorem C11_rejected_unchanged s t s' : deliver_tx s t = DRejected s' -> s' = s.
Proof. exact (rejected_unchanged s t s'). Qed.
(* a failing handler has written nothing (every handler validates before its first write) ... *)
Theorem C11_handler_err_unchanged s m s' : bank_ok s -> 0 <= p_min_stake (pp s) -> handle s m = HErr s' -> s' = s.
Proof. exact (handler_err_unchanged s m s'). Qed.
(* ... so the transaction has paid its fee and changed nothing else *)
Theorem C11_handler_err_pays_fee_only s t s' : bank_ok s -> 0 <= p_min_stake (pp s) ->
  deliver_tx s t = DHandlerErr s' -> ante s t = Some s'.
Proof. exact (handler_err_pays_fee_only s t s'). Qed.
Example C11_ex : match ex_genesis with
  | Some (s, _) => deliver_tx s (ex_tx (MSend A1 A3 10) A2 0) = DRejected s /\
                   match deliver_tx s (ex_tx (MUnjail A1) A1 0) with DHandlerErr s1 => supply s1 = supply s | _ => False end
  | None => False end.
Proof. vm_compute. split; reflexivity. Qed.
Print Assumptions C11_rejected_unchanged.
Print Assumptions C11_handler_err_pays_fee_only.
