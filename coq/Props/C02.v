(* C02 — Token conservation: supply equals balances; only mint/burn move it. Statements only. *)
From Coq Require Import List ZArith NArith Bool.
From PM Require Import Base.Bytes Store.KV Store.MergeProofs Num.IntModel Num.DecModel Num.DecProofs
  App.Model App.BankProofs App.TxProofs App.KeyTypes App.KeyProofs App.Examples.
Import ListNotations.
Local Open Scope Z_scope.

(* the invariant: accounts form a map, their sum is the recorded supply, no balance is negative *)
Theorem C02_genesis s0 gv dao s ups : bank_ok s0 -> init_chain s0 gv dao = Some (s, ups) -> bank_ok s.
Proof. exact (init_chain_pres s0 gv dao s ups). Qed.
(* ... in every state reachable by any history of blocks, transactions, votes, evidence, awards, burns *)
Theorem C02_all_histories ops s s' : bank_ok s -> run ops s = Some s' -> bank_ok s'.
Proof. exact (run_pres ops s s'). Qed.
Theorem C02_step s o s' : bank_ok s -> step s o = Some s' -> bank_ok s'.
Proof. exact (step_pres s o s'). Qed.
(* the supply moves only through the mint and burn primitives, by exactly their amount; a send never moves it *)
Theorem C02_send_moves_nothing s from to amt s' : bank_ok s -> bank_send s from to amt = Some s' ->
  bank_ok s' /\ supply s' = supply s.
Proof. exact (bank_send_ok s from to amt s'). Qed.
Theorem C02_mint_exact s m amt s' : bank_ok s -> bank_mint s m amt = Some s' ->
  bank_ok s' /\ supply s' = supply s + amt /\ 0 <= amt.
Proof. exact (bank_mint_ok s m amt s'). Qed.
Theorem C02_burn_exact s m amt s' : bank_ok s -> bank_burn s m amt = Some s' ->
  bank_ok s' /\ supply s' = supply s - amt /\ 0 <= amt.
Proof. exact (bank_burn_ok s m amt s'). Qed.
Example C02_ex_genesis_consistent : bank_ok ex_s0.
Proof. exact ex_s0_bank_ok. Qed.
Example C02_ex_history : exists s, ex_final = Some s /\ supply s = 10000547 /\
  aget (accts s) A2 = Some 3000000 /\ aget (vals s) A2 = None /\ aget (accts s) A3 = Some 47.
Proof. exact ex_final_some. Qed.
(* ... and in every history run under consensus parameters that admit ed25519 validator keys only (run_cp true: deliver_tx_cp
   in the place of deliver_tx), which without the restriction is the ordinary history *)
Theorem C02_all_histories_under_key_restriction r ops s s' : bank_ok s -> run_cp r ops s = Some s' -> bank_ok s'.
Proof. exact (run_cp_bank_ok r ops s s'). Qed.
Theorem C02_unrestricted_history_is_the_ordinary_one ops s : run_cp false ops s = run ops s.
Proof. exact (run_cp_unrestricted ops s). Qed.
Print Assumptions C02_all_histories.
Print Assumptions C02_all_histories_under_key_restriction.
Print Assumptions C02_genesis.
Print Assumptions C02_mint_exact.
