(* C10 — Rewards: fees go to the proposer, awards are minted exactly once. Statements only. *)
From Coq Require Import List ZArith NArith Bool.
From PM Require Import Base.Bytes Store.KV Store.MergeProofs Num.IntModel Num.DecModel Num.DecProofs
  App.Model App.BankProofs App.TxProofs App.KeyProofs App.RewardProofs App.AwardProofs App.Examples.
Import ListNotations.
Local Open Scope Z_scope.

Theorem C10_award_queue_emptied s : awards (mint_awards s) = [].
Proof. exact (awards_queue_emptied s). Qed.
Theorem C10_awards_conserve s : bank_ok s -> bank_ok (mint_awards s).
Proof. exact (mint_awards_pres s). Qed.
Theorem C10_fee_reward_conserves s p s' : bank_ok s -> reward_from_fees s p = Some s' -> bank_ok s'.
Proof. exact (reward_from_fees_pres s p s'). Qed.
Theorem C10_one_award_mints_exactly s a amt s1 s2 : bank_ok s ->
  bank_mint s (m_pool (ma s)) amt = Some s1 -> bank_send s1 (m_pool (ma s1)) a amt = Some s2 ->
  mint_award s a amt = s2 /\ supply s2 = supply s + amt.
Proof. exact (one_award_mints_exactly s a amt s1 s2). Qed.
(* the WHOLE fee-collector balance goes to the previous proposer (or stays in the pos account when that address is
   not a validator), the collector is empty afterwards, nobody else's balance moves, the supply does not change *)
Theorem C10_fees_go_to_the_proposer_in_full s p s' : bank_ok s ->
  m_fee (ma s) <> m_pos (ma s) -> p <> m_fee (ma s) -> p <> m_pos (ma s) ->
  reward_from_fees s p = Some s' ->
  bal s' (m_fee (ma s)) = 0 /\ supply s' = supply s /\
  (forall x, x <> m_fee (ma s) -> x <> m_pos (ma s) -> x <> p -> bal s' x = bal s x) /\
  match get_val s p with
  | Some _ => bal s' p = bal s p + bal s (m_fee (ma s)) /\ bal s' (m_pos (ma s)) = bal s (m_pos (ma s))
  | None => bal s' p = bal s p /\ bal s' (m_pos (ma s)) = bal s (m_pos (ma s)) + bal s (m_fee (ma s))
  end.
Proof. exact (reward_from_fees_exact s p s'). Qed.
(* the whole queue at BeginBlock: every address receives exactly what was queued for it, newly minted; the supply grows
   by exactly the sum of the queue; nobody else's balance moves; the queue is empty afterwards (App/AwardProofs.v) *)
Theorem C10_every_queued_award_is_minted_exactly_once s : bank_ok s -> (forall a x, In (a, x) (awards s) -> 0 <= x) ->
  let s' := mint_awards s in
  awards s' = [] /\ bank_ok s' /\ supply s' = supply s + qtotal (awards s) /\
  forall b, bal s' b = bal s b + queued (awards s) b.
Proof. exact (mint_awards_exact s). Qed.
Theorem C10_queued_is_the_map_entry (m : amap Z) b : dsorted true m -> queued m b = match aget m b with Some x => x | None => 0 end.
Proof. exact (queued_map m b). Qed.
(* awards queued for the same address during a block add up *)
Theorem C10_awards_accumulate s a x : dsorted true (awards s) ->
  forall b, getz (awards (k_award s a x)) b = getz (awards s) b + (if beqb a b then x else 0).
Proof. exact (k_award_accumulates s a x). Qed.
Example C10_ex : exists s, ex_final = Some s /\ aget (accts s) A3 = Some 47.
Proof. exact ex_award_paid. Qed.
Print Assumptions C10_award_queue_emptied.
Print Assumptions C10_one_award_mints_exactly.
Print Assumptions C10_fees_go_to_the_proposer_in_full.
Print Assumptions C10_every_queued_award_is_minted_exactly_once.
