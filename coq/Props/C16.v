(* C16 — Store wrappers are transparent: prefix isolation, exact gas, faithful trace.
   Statements only; every proof is [exact <lemma>]. *)
From Coq Require Import List NArith Bool.
From PM Require Import Base.Bytes Store.KV Store.MergeProofs Store.KVProofs Store.DirtyProofs Store.WrapProofs Store.IterGas.
Import ListNotations.
Local Open Scope N_scope.

(* the key range [prefix, PrefixEndBytes(prefix)) is exactly the set of keys with that prefix,
   for every non-empty prefix including all-0xFF ones (end = nil: unbounded) *)
Theorem C16_prefix_end_bytes p k : p <> [] -> wf_bytes p -> wf_bytes k ->
  (has_prefix p k = true <->
   bleb p k = true /\ match prefix_end_bytes p with None => True | Some e => bltb k e = true end).
Proof. exact (prefix_end_bytes_spec p k). Qed.

(* gas: ConsumeGas adds exactly; out-of-gas exactly when the total crosses the limit (and the
   total is kept); an overflowing total is reported, never wrapped *)
Theorem C16_consume amount w : gas_ok w -> amount <= max_u64 ->
  let total := w_consumed w + amount in
  match consume amount w with
  | (Ok _, w') => total <= max_u64 /\ w_consumed w' = total /\
                  match w_limit w with Some lim => total <= lim | None => True end
  | (Panic POutOfGas, w') => total <= max_u64 /\ w_consumed w' = total /\
                  exists lim, w_limit w = Some lim /\ lim < total
  | (Panic PGasOverflow, w') => max_u64 < total
  | (Panic _, _) => False
  end.
Proof. exact (consume_spec amount w). Qed.
(* a gas store that does not panic returns what the wrapped store returns *)
Theorem C16_gas_get_transparent p k w r p' w' :
  s_get (Gas p) k w = (Ok r, p', w') ->
  exists w1 p1 w2, consume (g_read_flat (w_cfg w)) w = (Ok tt, w1) /\ s_get p k w1 = (Ok r, p1, w2) /\ p' = Gas p1.
Proof. exact (gas_get_transparent p k w r p' w'). Qed.
(* a traced read returns the wrapped result and appends exactly one "read" line *)
Theorem C16_trace_get p k w r p' w' :
  s_get (Trace p) k w = (Ok r, p', w') ->
  exists p1 w1, s_get p k w = (Ok r, p1, w1) /\ p' = Trace p1 /\
    w_trace w' = (1, k, match r with Some x => x | None => [] end) :: w_trace w1.
Proof. exact (trace_get_logs p k w r p' w'). Qed.

(* whole operations: exact charges *)
Theorem C16_gas_set_exact m k v w p' w' : s_set (Gas (Base m)) k v w = (Ok tt, p', w') ->
  p' = Gas (Base (aset m k v)) /\
  w_consumed w' = w_consumed w + g_write_flat (w_cfg w) + mul64 (g_write_byte (w_cfg w)) (blen v).
Proof. exact (gas_set_exact m k v w p' w'). Qed.
Theorem C16_gas_get_exact m k w r p' w' : s_get (Gas (Base m)) k w = (Ok r, p', w') ->
  r = aget m k /\ p' = Gas (Base m) /\
  w_consumed w' = w_consumed w + g_read_flat (w_cfg w) + mul64 (g_read_byte (w_cfg w)) (olen r).
Proof. exact (gas_get_exact m k w r p' w'). Qed.
Theorem C16_gas_delete_exact m k w p' w' : s_delete (Gas (Base m)) k w = (Ok tt, p', w') ->
  p' = Gas (Base (adel m k)) /\ w_consumed w' = w_consumed w + g_delete (w_cfg w).
Proof. exact (gas_delete_exact m k w p' w'). Qed.
Theorem C16_gas_has_exact m k w r p' w' : s_has (Gas (Base m)) k w = (Ok r, p', w') ->
  r = (match aget m k with Some _ => true | None => false end) /\ p' = Gas (Base m) /\
  w_consumed w' = w_consumed w + g_has (w_cfg w).
Proof. exact (gas_has_exact m k w r p' w'). Qed.
(* prefix isolation: a prefix store touches exactly prefix ++ k and nothing without the prefix; iterating it
   (either direction) yields exactly the parent's items carrying the prefix, with the prefix stripped *)
Theorem C16_prefix_set_isolated pfx m k v w : dsorted true m ->
  s_set (Prefix pfx (Base m)) k v w = (Ok tt, Prefix pfx (Base (aset m (pfx ++ k) v)), w) /\
  forall k', has_prefix pfx k' = false -> aget (aset m (pfx ++ k) v) k' = aget m k'.
Proof. exact (prefix_set_isolated pfx m k v w). Qed.
Theorem C16_prefix_delete_isolated pfx m k w : dsorted true m ->
  s_delete (Prefix pfx (Base m)) k w = (Ok tt, Prefix pfx (Base (adel m (pfx ++ k))), w) /\
  forall k', has_prefix pfx k' = false -> aget (adel m (pfx ++ k)) k' = aget m k'.
Proof. exact (prefix_delete_isolated pfx m k w). Qed.
Theorem C16_prefix_iteration_is_the_prefixed_items pfx m asc w : pfx <> [] -> wf_bytes pfx ->
  (forall k v, In (k, v) m -> wf_bytes k) ->
  exists it, s_iter (Prefix pfx (Base m)) [] None asc w = (Ok it, Prefix pfx (Base m), w) /\
             drain it = map (fun p => (strip pfx (fst p), snd p)) (dir asc (filter (fun p => has_prefix pfx (fst p)) m)).
Proof. exact (prefix_iter_all pfx m asc w). Qed.

(* iterator step gas (store/gaskv gasIterator): the complete  for ; Valid(); Next() { Key(); Value() }  loop over a gas
   store returns exactly the in-range items in order and charges ReadCostPerByte*len(value) + IterNextCostFlat per
   item, plus the first item's charge once more when the iterator is created; nothing else *)
Theorem C16_gas_iteration_exact m st en asc w :
  let l := kv_range m st en asc in
  within w (w_consumed w + head_cost (w_cfg w) l + iter_cost (w_cfg w) l) ->
  s_iter_all (Gas (Base m)) st en asc w =
  (Ok l, Gas (Base m), set_consumed w (w_consumed w + head_cost (w_cfg w) l + iter_cost (w_cfg w) l)).
Proof. exact (gas_store_iteration_exact m st en asc w). Qed.
(* out-of-gas is raised at exactly the step whose charge crosses the limit: the items before it are charged in full
   and returned to the loop body, the crossing step panics, and the reported total is past the limit but not past
   that step's full charge *)
Theorem C16_gas_iteration_out_of_gas_at_the_crossing l1 k v l2 w acc lim :
  w_limit w = Some lim ->
  w_consumed w + iter_cost (w_cfg w) l1 <= lim ->
  lim < w_consumed w + iter_cost (w_cfg w) l1 + step_cost (w_cfg w) (k, v) ->
  w_consumed w + iter_cost (w_cfg w) l1 + step_cost (w_cfg w) (k, v) <= max_u64 ->
  exists w', it_collect (S (length (l1 ++ (k, v) :: l2))) (IGas (IList (l1 ++ (k, v) :: l2))) w acc
             = (Panic POutOfGas, w') /\
             lim < w_consumed w' /\
             w_consumed w' <= w_consumed w + iter_cost (w_cfg w) l1 + step_cost (w_cfg w) (k, v).
Proof. exact (gas_iteration_out_of_gas l1 k v l2 w acc lim). Qed.
(* the trace of an iteration: a complete loop over a traced store returns exactly the in-range items and appends, per
   item and in iteration order, one iterKey line and one iterValue line (newest first in w_trace); no gas is touched *)
Theorem C16_trace_iteration_exact m st en asc w :
  let l := kv_range m st en asc in
  exists w', s_iter_all (Trace (Base m)) st en asc w = (Ok l, Trace (Base m), w') /\
             w_trace w' = rev (trace_lines l) ++ w_trace w /\
             w_consumed w' = w_consumed w /\ w_limit w' = w_limit w /\ w_cfg w' = w_cfg w.
Proof. exact (trace_store_iteration_exact m st en asc w). Qed.
(* stacking: a gas store over a prefix store over a map. The complete loop returns exactly the parent's items carrying the
   prefix, stripped, in iteration order, and is charged for the values only (key bytes are never charged), the first
   item once more at creation *)
Theorem C16_gas_over_prefix_iteration_exact pfx m asc w :
  pfx <> [] -> wf_bytes pfx -> (forall k v, In (k, v) m -> wf_bytes k) ->
  let l := prefixed_items pfx m asc in
  within w (w_consumed w + head_cost (w_cfg w) l + iter_cost (w_cfg w) l) ->
  s_iter_all (Gas (Prefix pfx (Base m))) [] None asc w =
  (Ok (stripped pfx l), Gas (Prefix pfx (Base m)),
   set_consumed w (w_consumed w + head_cost (w_cfg w) l + iter_cost (w_cfg w) l)).
Proof. exact (gas_prefix_store_iteration_exact pfx m asc w). Qed.
Example C16_ex_iter_gas :
  let w := {| w_limit := Some 1000; w_consumed := 0; w_trace := []; w_cfg := kv_gas_config |} in
  let '(r, _, w') := s_iter_all (Gas (Base [([1], [7; 7]); ([2], [8])])) [] None true w in
  r = Ok [([1], [7; 7]); ([2], [8])] /\ w_consumed w' = 105.     (* (6+30) + (6+30) + (3+30) *)
Proof. vm_compute. split; reflexivity. Qed.
(* non-vacuity: the carry over 0xFF, and the all-0xFF prefix *)
Example C16_ex_prefix_end :
  prefix_end_bytes [97; 255; 255] = Some [98] /\ prefix_end_bytes [255; 255] = None /\
  prefix_end_bytes [1; 2] = Some [1; 3].
Proof. repeat split; vm_compute; reflexivity. Qed.
Example C16_ex_oog :
  let w := {| w_limit := Some 2999; w_consumed := 0; w_trace := []; w_cfg := kv_gas_config |} in
  let '(r1, s1, w1) := s_set (Gas (Base [])) [1] [7] w in          (* 2000 + 30 *)
  let '(r2, s2, w2) := s_get s1 [1] w1 in                           (* +1000 crosses 2999 *)
  r1 = Ok tt /\ r2 = Panic POutOfGas /\ w_consumed w1 = 2030 /\ w_consumed w2 = 3030.
Proof. vm_compute. repeat split; reflexivity. Qed.

Print Assumptions C16_prefix_end_bytes.
Print Assumptions C16_consume.
Print Assumptions C16_gas_get_transparent.
Print Assumptions C16_trace_get.
Print Assumptions C16_gas_set_exact.
Print Assumptions C16_prefix_iteration_is_the_prefixed_items.
Print Assumptions C16_gas_iteration_exact.
Print Assumptions C16_gas_iteration_out_of_gas_at_the_crossing.
Print Assumptions C16_trace_iteration_exact.
Print Assumptions C16_gas_over_prefix_iteration_exact.
