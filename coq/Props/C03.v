(* C03 — Only the signer's key authorises a transaction. Over the ideal-signature abstraction:
   a signature is a record of which key signed which sign doc ([t_mutated] = a signed field was
   changed afterwards). Statements only. *)
From Coq Require Import List ZArith NArith Bool.
From PM Require Import Base.Bytes Store.KV Store.MergeProofs Num.IntModel Num.DecModel Num.DecProofs
  App.Model App.BankProofs App.TxProofs App.KeyProofs App.Examples.
Import ListNotations.
Local Open Scope Z_scope.

Theorem C03_accept s t s' : ante s t = Some s' ->
  exists ka, key_used s t = Some ka /\ ka = msg_signer (t_msg t) /\ t_signed_by t = ka /\ t_mutated t = false /\
    t_in_index t = false /\ required_fee s (t_gov_fee t) (t_msg t) <= t_fee t /\ t_memo_len t <= a_max_memo (ap s) /\
    bank_send s (msg_signer (t_msg t)) (m_fee (ma s)) (t_fee t) = Some s'.
Proof. exact (ante_accept s t s'). Qed.
Theorem C03_forgery_rejected s t :
  (forall ka, key_used s t = Some ka -> t_signed_by t <> ka) \/ t_mutated t = true -> ante s t = None.
Proof. exact (ante_rejects_forgery s t). Qed.
(* the key - attached to the signature, or the one on the account's record, whoever's it is - must be the signer's own *)
Theorem C03_foreign_key_rejected s t ka : key_used s t = Some ka -> ka <> msg_signer (t_msg t) -> ante s t = None.
Proof. exact (ante_rejects_foreign_key s t ka). Qed.
Theorem C03_replay_rejected s t : t_in_index t = true -> ante s t = None.
Proof. exact (ante_rejects_replay s t). Qed.
Example C03_ex : match ex_genesis with
  | Some (s, _) => ante s (ex_tx (MSend A1 A3 10) A2 0) = None /\ ante s (ex_tx (MSend A1 A3 10) A1 0) <> None
  | None => False end.
Proof. vm_compute. split; [reflexivity|discriminate]. Qed.
Print Assumptions C03_accept.
Print Assumptions C03_forgery_rejected.
