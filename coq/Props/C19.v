(* C19 — Signatures bind key and message; stored keys survive export/import. Statements only.
   Over IDEAL primitives (a signature records who signed what; an armor opens under its own
   passphrase only): unforgeability of ed25519/secp256k1 and authenticity of scrypt+AES-GCM are
   hypotheses of the model, exercised (not proved) on the real primitives by the `keys` engine. *)
From Coq Require Import List NArith Bool.
From PM Require Import Base.Bytes Store.KV Store.MergeProofs Crypto.KeysModel Crypto.KeysProofs.
Import ListNotations.
Local Open Scope N_scope.

Theorem C19_plain_signature_binds_key_and_message id m b o : verify (PK id) m (SPlain b o) = true <-> b = id /\ o = m.
Proof. exact (verify_plain_iff id m b o). Qed.
Theorem C19_multisig_positional ks m sigs :
  verify (PMulti ks) m (SMulti sigs) = true <-> Forall2 (fun k s => verify k m s = true) ks sigs.
Proof. exact (verify_multi_iff ks m sigs). Qed.
Theorem C19_multisig_needs_every_key ks m sigs : verify (PMulti ks) m (SMulti sigs) = true -> length sigs = length ks.
Proof. exact (verify_multi_length ks m sigs). Qed.
Theorem C19_wrong_passphrase_changes_nothing (s : kb) ad (a : armor) p : aget s ad = Some a -> p <> snd a ->
  (forall np, kstep s (KUpdate ad p np) = (s, KErr)) /\ kstep s (KDelete ad p) = (s, KErr) /\
  (forall m, kstep s (KSign ad p m) = (s, KErr)) /\ (forall ep, kstep s (KExport ad p ep) = (s, KErr)).
Proof. exact (wrong_pass_changes_nothing s ad a p). Qed.
Theorem C19_import_wrong_passphrase (s : kb) (a : armor) dp np : dp <> snd a -> kstep s (KImport a dp np) = (s, KErr).
Proof. exact (import_wrong_pass_changes_nothing s a dp np). Qed.
Theorem C19_export_import_roundtrip (s1 s2 : kb) ad dp ep np (a : armor) :
  kstep s1 (KExport ad dp ep) = (s1, KArmor a) -> aget s2 (addr_of (fst a)) = None ->
  kstep s2 (KImport a ep np) = (aset s2 (addr_of (fst a)) (fst a, np), KOk) /\
  (exists a0, aget s1 ad = Some a0 /\ fst a0 = fst a).
Proof. exact (export_import_roundtrip s1 s2 ad dp ep np a). Qed.
Example C19_ex :
  verify (PMulti [PK 1; PMulti [PK 2; PK 3]]) 9 (SMulti [SPlain 1 9; SMulti [SPlain 2 9; SPlain 3 9]]) = true /\
  verify (PMulti [PK 1; PMulti [PK 2; PK 3]]) 9 (SMulti [SMulti [SPlain 2 9; SPlain 3 9]; SPlain 1 9]) = false /\
  verify (PMulti [PK 1; PK 2]) 9 (SMulti [SPlain 1 9]) = false /\
  verify (PMulti [PK 1; PK 2]) 9 (SMulti [SPlain 1 9; SPlain 2 8]) = false.
Proof. repeat split; reflexivity. Qed.
Print Assumptions C19_multisig_positional.
Print Assumptions C19_wrong_passphrase_changes_nothing.
Print Assumptions C19_export_import_roundtrip.
