(* C06 — Validator lifecycle: legal transitions only, and unstaking pays out on time. Statements only.
   Proved: the order and injectivity of the power-index keys, that a jailed / not-staked validator
   is never indexed, that jailing removes the entry, and that only queue slots due at the block
   time are processed (never earlier). The history-level exactness of index and queue is checked on
   the implementation after every op (oracle c06) and by correspondence; its Coq proof is partial. *)
From Coq Require Import List ZArith NArith Bool.
From PM Require Import Base.Bytes Store.KV Store.MergeProofs Num.IntModel Num.DecModel Num.DecProofs
  App.Model App.BankProofs App.TxProofs App.KeyProofs App.PosProofs App.Examples.
Import ListNotations.
Local Open Scope Z_scope.

Theorem C06_index_only_staked_unjailed_partial s a v : v_jailed v = true \/ v_status v <> 2%N -> set_staked s a v = s.
Proof. exact (set_staked_skips_jailed s a v). Qed.
Theorem C06_jail_removes_index_entry s a s' v : dsorted true (vals s) -> dsorted true (powidx s) ->
  get_val s a = Some v -> jail s a = Some s' ->
  aget (powidx s') (rank_key (v_tokens v) a) = None /\ exists v', get_val s' a = Some v' /\ v_jailed v' = true.
Proof. exact (jail_removes_from_index s a s' v). Qed.
Theorem C06_index_key_matches_stake t1 a1 t2 a2 :
  0 <= power_of t1 < 2 ^ 64 -> 0 <= power_of t2 < 2 ^ 64 -> wf_bytes a1 -> wf_bytes a2 -> length a1 = length a2 ->
  rank_key t1 a1 = rank_key t2 a2 -> power_of t1 = power_of t2 /\ a1 = a2.
Proof. exact (rank_key_injective t1 a1 t2 a2). Qed.
Theorem C06_maturity_never_early s k l : 0 <= btime s < 256 ^ 8 ->
  In (k, l) (filter (fun p => bleb (fst p) (time_key (btime s))) (unstq s)) ->
  forall t, 0 <= t < 256 ^ 8 -> k = time_key t -> t <= btime s.
Proof. exact (mature_slots_are_due s k l). Qed.
Theorem C06_payout_is_whole_stake s a v s' : bank_ok s -> finish_unstaking s a v = Some s' -> bank_ok s'.
Proof. exact (finish_unstaking_pres s a v s'). Qed.
Example C06_ex : exists s, ex_final = Some s /\ aget (accts s) A2 = Some 3000000 /\ aget (vals s) A2 = None.
Proof. destruct ex_final_some as (s & E & _ & B & V & _). eauto. Qed.
Print Assumptions C06_jail_removes_index_entry.
Print Assumptions C06_maturity_never_early.
