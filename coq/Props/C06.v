(* C06 — Validator lifecycle: legal transitions only, and unstaking pays out on time. Statements only.
   Proved: the order and injectivity of the power-index keys, that a jailed / not-staked validator
   is never indexed, that jailing removes the entry, and that only queue slots due at the block
   time are processed (never earlier), AND over all histories: the power index is sound in every reachable
   state (App/IndexProofs.v), every unstaking validator is queued under its completion time in every
   reachable state, and EndBlock leaves no unstaking validator whose completion time has been reached
   and the queue is sound (every queued address is an unstaking validator with that completion time), so
   EndBlock never releases anybody early (App/QueueProofs.v); the index is also COMPLETE (every staked unjailed
   validator is indexed under the key of its current stake) for well-formed addresses (App/IndexComplete.v).
   The labelled transition relation itself (App/TransitionProofs.v): in every step of every history the status of an address
   is unchanged, or changes by exactly one of: its own delivered stake (unknown/unstaked -> staked, amount >= the minimum),
   its own delivered begin-unstake (staked -> unstaking), release at an EndBlock (unstaking -> removed), a forced unstake
   in a BeginBlock (any -> unstaked). *)
From Coq Require Import List ZArith NArith Bool.
From PM Require Import Base.Bytes Store.KV Store.MergeProofs Num.IntModel Num.DecModel Num.DecProofs
  App.Model App.BankProofs App.TxProofs App.KeyProofs App.PosProofs App.IndexProofs App.IndexComplete App.QueueProofs App.ExportProofs App.TransitionProofs App.KeyTypes App.Examples App.Invariants.
Import ListNotations.
Local Open Scope Z_scope.

Theorem C06_index_only_staked_unjailed_partial s a v : v_jailed v = true \/ v_status v <> 2%N -> set_staked s a v = s.
Proof. exact (set_staked_skips_jailed s a v). Qed.
Theorem C06_jail_removes_index_entry s a s' v : dsorted true (vals s) -> dsorted true (powidx s) ->
  get_val s a = Some v -> jail s a = Some s' ->
  aget (powidx s') (rank_key (v_tokens v) a) = None /\ exists v', get_val s' a = Some v' /\ v_jailed v' = true.
Proof. exact (jail_removes_from_index s a s' v). Qed.
Theorem C06_index_key_matches_stake t1 a1 t2 a2 :
  0 <= power_of t1 < 2 ^ 64 -> 0 <= power_of t2 < 2 ^ 64 -> wf_bytes a1 -> wf_bytes a2 -> length a1 = length a2 ->
  rank_key t1 a1 = rank_key t2 a2 -> power_of t1 = power_of t2 /\ a1 = a2.
Proof. exact (rank_key_injective t1 a1 t2 a2). Qed.
Theorem C06_maturity_never_early s k l : 0 <= btime s < 256 ^ 8 ->
  In (k, l) (filter (fun p => bleb (fst p) (time_key (btime s))) (unstq s)) ->
  forall t, 0 <= t < 256 ^ 8 -> k = time_key t -> t <= btime s.
Proof. exact (mature_slots_are_due s k l). Qed.
Theorem C06_payout_is_whole_stake s a v s' : bank_ok s -> finish_unstaking s a v = Some s' -> bank_ok s'.
Proof. exact (finish_unstaking_pres s a v s'). Qed.
(* ---- legal transitions only: every step of every history, every address ---- *)
Theorem C06_only_legal_transitions s o s' b : dsorted true (vals s) -> step s o = Some s' ->
  dsorted true (vals s') /\ (st s' b = st s b \/ legal_change s o b (st s b) (st s' b)).
Proof. exact (step_transitions s o s' b). Qed.
Theorem C06_legal_change_reading s o b before after : legal_change s o b before after ->
  match o with
  | OBegin _ _ _ _ _ => (exists k, before = Some k) /\ after = Some 0%N
  | OTx t => msg_signer (t_msg t) = b /\
             ((exists pk amt, t_msg t = MStake pk b amt /\ (before = None \/ before = Some 0%N) /\ after = Some 2%N /\ p_min_stake (pp s) <= amt) \/
              (t_msg t = MUnstake b /\ before = Some 2%N /\ after = Some 1%N))
  | OEnd => before = Some 1%N /\ after = None
  | _ => False
  end.
Proof.
  destruct o as [h t p vs es|t|a amt|a sev| |]; cbn [legal_change]; auto.
  intros [Sg Ch]. split; auto. destruct (t_msg t); cbn [msg_change] in Ch; try contradiction.
  - destruct Ch as (-> & B & A & M). left. exists pk, amt. auto.
  - destruct Ch as (-> & B & A). right. auto.
Qed.
(* ---- every reachable state of every history ---- *)
Theorem C06_index_sound_all_histories ops s s' : idx_sound s -> run ops s = Some s' -> idx_sound s'.
Proof. exact (run_is ops s s'). Qed.
Theorem C06_not_staked_never_indexed_all_histories ops s s' a v : idx_sound s -> run ops s = Some s' ->
  get_val s' a = Some v -> v_status v <> 2%N -> forall k, aget (powidx s') k <> Some a.
Proof. intros H E. exact (not_staked_never_indexed s' a v (run_is ops s s' H E)). Qed.
Theorem C06_unstaking_always_queued_all_histories ops s s' b v : queue_ok s -> run ops s = Some s' ->
  get_val s' b = Some v -> v_status v = 1%N ->
  exists l, aget (unstq s') (time_key (v_unstime v)) = Some l /\ In b l.
Proof.
  intros H E Eb St. destruct (run_q ops s s' H E) as (_ & _ & Hq). apply (Hq b v); auto. discriminate.
Qed.
(* released at the first block at or after the completion time: after EndBlock nobody whose time has come is left *)
Theorem C06_released_on_time s s' ups b v : queue_ok s -> end_block s = Some (s', ups) ->
  0 <= btime s < 256 ^ 8 -> get_val s' b = Some v -> v_status v = 1%N -> 0 <= v_unstime v < 256 ^ 8 ->
  btime s < v_unstime v.
Proof. exact (released_on_time s s' ups b v). Qed.
(* the power index lists EXACTLY the staked, unjailed validators under the key of their current stake, in every
   reachable state of every history whose staking addresses are well-formed byte strings *)
Theorem C06_index_exact_all_histories ops s s' : idx_exact s -> Forall op_wf ops -> run ops s = Some s' -> idx_exact s'.
Proof. exact (run_exact ops s s'). Qed.
Theorem C06_index_exact_reading s a v : idx_exact s -> get_val s a = Some v ->
  (aget (powidx s) (rank_key (v_tokens v) a) = Some a <-> (v_status v = 2%N /\ v_jailed v = false)).
Proof. exact (index_exact_reading s a v). Qed.
Theorem C06_genesis_index_exact s0 gvals dao s ups : idx_exact s0 -> NoDup (map g_addr gvals) ->
  (forall g, In g gvals -> aget (vals s0) (g_addr g) = None) -> (forall g, In g gvals -> wf_bytes (g_addr g)) ->
  init_chain s0 gvals dao = Some (s, ups) -> idx_exact s.
Proof. exact (init_chain_exact s0 gvals dao s ups). Qed.
Example C06_ex_exact_premises : (exists s ups, ex_genesis = Some (s, ups) /\ idx_exact s /\ queue_sound s) /\ Forall op_wf ex_ops.
Proof. split; [exact ex_genesis_idx_exact|exact ex_ops_wf]. Qed.
(* the other direction: every queued address is an unstaking validator whose completion time is the slot's,
   in every reachable state; hence EndBlock never touches an unstaking validator whose time is still ahead *)
Theorem C06_queue_sound_all_histories ops s s' : queue_sound s -> run ops s = Some s' -> queue_sound s'.
Proof. exact (run_qs ops s s'). Qed.
Theorem C06_never_released_early s s' ups b v : queue_sound s -> end_block s = Some (s', ups) ->
  0 <= btime s < 256 ^ 8 -> get_val s b = Some v -> v_status v = 1%N -> 0 <= v_unstime v < 256 ^ 8 ->
  btime s < v_unstime v -> get_val s' b = Some v.
Proof. exact (not_released_early s s' ups b v). Qed.
Theorem C06_genesis_queue_sound s0 gvals dao s ups : queue_sound s0 -> NoDup (map g_addr gvals) ->
  (forall g, In g gvals -> aget (vals s0) (g_addr g) = None) -> init_chain s0 gvals dao = Some (s, ups) -> queue_sound s.
Proof. exact (init_chain_qs s0 gvals dao s ups). Qed.
Theorem C06_genesis_queue_ok s0 gvals dao s ups : queue_ok s0 -> init_chain s0 gvals dao = Some (s, ups) -> queue_ok s.
Proof. exact (init_chain_q s0 gvals dao s ups). Qed.
(* a restart from the exported state (ExportGenesis -> InitGenesis rebuilds index and queue from the records): in
   every state satisfying the history-level invariants the rebuilt index IS the index, the rebuilt queue has the same
   members and the live records are the same; and whatever list of distinct live records InitGenesis is given, the
   state it builds satisfies the invariants (App/ExportProofs.v; the engine's export/import stream checks the same
   projections on the real code) *)
Theorem C06_restart_from_export_is_identity s : idx_sound s -> idx_complete s -> queue_ok s -> queue_sound s ->
  let '(V', P', Q') := import (export (vals s)) in
  V' = export (vals s) /\ same_live (vals s) V' /\ P' = powidx s /\ (forall k a, queued Q' k a <-> queued (unstq s) k a).
Proof. exact (export_import_roundtrip s). Qed.
Theorem C06_import_establishes_invariants l : NoDup (map fst l) -> (forall a v, In (a, v) l -> wf_bytes a) ->
  let '(V', P', Q') := import l in
  isound V' P' /\ icomp V' P' /\ qc V' Q' /\ qs V' Q' /\
  forall a, aget V' a = match find (fun av => beqb (fst av) a) l with Some av => Some (snd av) | None => None end.
Proof. exact (import_establishes_the_invariants l). Qed.
Theorem C06_import_is_the_three_store_writes s av :
  let s' := import_validator s av in (vals s', powidx s', unstq s') = imp_one (vals s, powidx s, unstq s) av.
Proof. exact (import_validator_is_imp_one s av). Qed.
Example C06_ex_restart : match ex_final with
  | Some s => import (export (vals s)) = (export (vals s), powidx s, unstq s) | None => False end.
Proof. vm_compute. reflexivity. Qed.
Example C06_ex_premises : exists s ups, ex_genesis = Some (s, ups) /\ bank_ok s /\ idx_sound s /\ PoolProofs.pool_ok ex_ma s /\ queue_ok s.
Proof. exact ex_genesis_all_ok. Qed.
Example C06_ex : exists s, ex_final = Some s /\ aget (accts s) A2 = Some 3000000 /\ aget (vals s) A2 = None.
Proof. destruct ex_final_some as (s & E & _ & B & V & _). eauto. Qed.
(* the same history-level invariants when the consensus parameters admit ed25519 validator keys only *)
Theorem C06_index_sound_under_key_restriction r ops s s' : idx_sound s -> run_cp r ops s = Some s' -> idx_sound s'.
Proof. exact (run_cp_idx_sound r ops s s'). Qed.
Theorem C06_unstaking_queued_under_key_restriction r ops s s' : queue_ok s -> run_cp r ops s = Some s' -> queue_ok s'.
Proof. exact (run_cp_queue_ok r ops s s'). Qed.
Theorem C06_queue_sound_under_key_restriction r ops s s' : queue_sound s -> run_cp r ops s = Some s' -> queue_sound s'.
Proof. exact (run_cp_queue_sound r ops s s'). Qed.
Print Assumptions C06_jail_removes_index_entry.
Print Assumptions C06_index_sound_under_key_restriction.
Print Assumptions C06_restart_from_export_is_identity.
Print Assumptions C06_only_legal_transitions.
Print Assumptions C06_import_establishes_invariants.
Print Assumptions C06_maturity_never_early.
Print Assumptions C06_index_sound_all_histories.
Print Assumptions C06_unstaking_always_queued_all_histories.
Print Assumptions C06_released_on_time.
Print Assumptions C06_queue_sound_all_histories.
Print Assumptions C06_never_released_early.
Print Assumptions C06_index_exact_all_histories.
