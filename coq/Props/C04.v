(* C04 — Staked pool backs validator stake one-for-one. Statements only.
   Proved here: the exact step lemmas (stake moves exactly the amount account -> pool -> record;
   every other pool movement is a mint/burn/send accounted by C02) AND the history-level backing
   invariant: in every reachable state the pool holds at least the sum of the recorded stake of all
   validators that are not unstaked, unstaked validators record no stake, no stake is negative
   (App/PoolProofs.v; premises: distinct module addresses, no transaction signed by the pool's own
   address). The pool may hold MORE only through tokens sent to its address: in histories in which no send, DAO
   transfer or award names the pool's address as the recipient it holds EXACTLY the recorded stake, in every
   reachable state (App/PoolExact.v, C04_pool_holds_exactly_the_stake_all_histories). *)
From Coq Require Import List ZArith NArith Bool Lia.
From PM Require Import Base.Bytes Store.KV Store.MergeProofs App.QueueProofs Num.IntModel Num.DecModel Num.DecProofs
  App.Model App.BankProofs App.TxProofs App.KeyProofs App.PosProofs App.IndexProofs App.PoolProofs App.PoolExact App.Examples App.Invariants App.KeyTypes App.KeyTypesMore.
Import ListNotations.
Local Open Scope Z_scope.

Theorem C04_stake_exact_partial s pk a amt s' : bank_ok s -> a <> m_pool (ma s) ->
  handle s (MStake pk a amt) = HOk s' ->
  p_min_stake (pp s) <= amt /\
  bal s' a = bal s a - amt /\ bal s' (m_pool (ma s)) = bal s (m_pool (ma s)) + amt /\ supply s' = supply s /\
  exists v', get_val s' a = Some v' /\ v_status v' = 2%N /\
    v_tokens v' = match get_val s a with Some v => v_tokens v | None => 0 end + amt.
Proof. exact (stake_exact s pk a amt s'). Qed.
Theorem C04_unstake_payout_conserves s a v s' : bank_ok s -> finish_unstaking s a v = Some s' -> bank_ok s'.
Proof. exact (finish_unstaking_pres s a v s'). Qed.
Theorem C04_force_unstake_conserves s a v s' : bank_ok s -> force_unstake s a v = Some s' -> bank_ok s'.
Proof. exact (force_unstake_pres s a v s'). Qed.
(* every reachable state of every history: the pool backs the recorded stake *)
Theorem C04_pool_backs_stake_all_histories MA ops s s' :
  pool_ok MA s -> Forall (op_ok MA) ops -> run ops s = Some s' -> pool_ok MA s'.
Proof. exact (run_pool MA ops s s'). Qed.
Theorem C04_pool_backs_stake_step MA s o s' : pool_ok MA s -> op_ok MA o -> step s o = Some s' -> pool_ok MA s'.
Proof. exact (step_pool MA s o s'). Qed.
Theorem C04_genesis MA s0 gvals dao s ups : ma s0 = MA -> bank_ok s0 -> vals_ok (vals s0) -> mods_distinct MA ->
  (forall g, In g gvals -> aget (vals s0) (g_addr g) = None) -> NoDup (map g_addr gvals) ->
  (forall g, In g gvals -> 0 <= snd g) -> ssum (vals s0) + gsum gvals <= bal s0 (m_pool MA) ->
  init_chain s0 gvals dao = Some (s, ups) -> pool_ok MA s.
Proof. exact (init_chain_pool MA s0 gvals dao s ups). Qed.
(* ... and not a token more, unless somebody sends coins to the pool's own address *)
Theorem C04_pool_holds_exactly_the_stake_all_histories MA ops s s' :
  px MA s -> Forall (op_nogift MA) ops -> run ops s = Some s' -> px MA s' /\ bal s' (m_pool MA) = ssum (vals s').
Proof. intros H F E. pose proof (run_px MA ops s s' H F E) as H'. split; [exact H'|]. exact (pool_holds_exactly_the_recorded_stake MA s' H'). Qed.
Theorem C04_exact_step MA s o s' : px MA s -> op_nogift MA o -> step s o = Some s' -> px MA s'.
Proof. exact (step_px MA s o s'). Qed.
Theorem C04_exact_genesis MA s0 gvals dao s ups : ma s0 = MA -> bank_ok s0 -> vals_ok (vals s0) -> mods_distinct MA ->
  (forall g, In g gvals -> aget (vals s0) (g_addr g) = None) -> NoDup (map g_addr gvals) ->
  (forall g, In g gvals -> 0 <= snd g) -> (forall g, In g gvals -> g_addr g <> m_pool MA) ->
  nv MA s0 -> na MA s0 -> ssum (vals s0) + gsum gvals = bal s0 (m_pool MA) ->
  init_chain s0 gvals dao = Some (s, ups) -> px MA s.
Proof. exact (init_chain_px MA s0 gvals dao s ups). Qed.
Example C04_ex_exact_premises : (exists s ups, ex_genesis = Some (s, ups) /\ px ex_ma s) /\ Forall (op_nogift ex_ma) ex_ops.
Proof.
  split.
  - destruct ex_genesis as [[s ups]|] eqn:E; [|vm_compute in E; discriminate]. exists s, ups. split; auto.
    unfold ex_genesis in E. apply (init_chain_px ex_ma ex_s0 [(A1, [11]%N, 2000000)] 500 s ups); [reflexivity|exact ex_s0_bank_ok| | | | | | | | | |exact E].
    + split; [exact I|]. intros a v Ea. discriminate Ea.
    + repeat split; discriminate.
    + intros g [<-|[]]. reflexivity.
    + repeat constructor. intros [].
    + intros g [<-|[]]. cbn. lia.
    + intros g [<-|[]]. discriminate.
    + reflexivity.
    + intros amt [].
    + reflexivity.
  - repeat constructor; cbn; try discriminate; auto.
Qed.
(* what the invariant says *)
Theorem C04_pool_ok_reading MA s : pool_ok MA s ->
  (ssum (vals s) <= bal s (m_pool MA)) /\ (forall a v, get_val s a = Some v -> 0 <= v_tokens v /\ (v_status v = 0%N -> v_tokens v = 0)).
Proof. intros (_ & _ & V & _ & L). split; [exact L|]. intros a v E. exact (proj2 V a v E). Qed.
Example C04_ex_premises : (exists s ups, ex_genesis = Some (s, ups) /\ bank_ok s /\ idx_sound s /\ pool_ok ex_ma s /\ QueueProofs.queue_ok s)
  /\ Forall (op_ok ex_ma) ex_ops.
Proof. split; [exact ex_genesis_all_ok|exact ex_ops_signers_ok]. Qed.
Example C04_ex : match ex_genesis with
  | Some (s, _) => match handle s (MStake [22]%N A2 1500000) with
                   | HOk s' => bal s' POOL = 3500000 /\ bal s' A2 = 1500000 /\ option_map v_tokens (get_val s' A2) = Some 1500000
                   | _ => False end
  | None => False end.
Proof. vm_compute. repeat split; reflexivity. Qed.
(* both history-level statements when the consensus parameters admit ed25519 validator keys only (run_cp, App/KeyTypes.v) *)
Theorem C04_pool_backs_stake_under_key_restriction MA r ops s s' :
  pool_ok MA s -> Forall (op_ok MA) ops -> run_cp r ops s = Some s' -> pool_ok MA s'.
Proof. exact (run_cp_pool MA r ops s s'). Qed.
Theorem C04_pool_holds_exactly_the_stake_under_key_restriction MA r ops s s' :
  px MA s -> Forall (op_nogift MA) ops -> run_cp r ops s = Some s' -> px MA s'.
Proof. exact (run_cp_px MA r ops s s'). Qed.
Print Assumptions C04_pool_holds_exactly_the_stake_under_key_restriction.
Print Assumptions C04_stake_exact_partial.
Print Assumptions C04_pool_backs_stake_all_histories.
Print Assumptions C04_genesis.
Print Assumptions C04_pool_holds_exactly_the_stake_all_histories.
