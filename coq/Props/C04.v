(* C04 — Staked pool backs validator stake one-for-one. Statements only.
   Proved here: the exact step lemmas (stake moves exactly the amount account -> pool -> record;
   every other pool movement is a mint/burn/send accounted by C02). The history-level sum
   invariant pool = sum of stake is checked on the implementation after every op by the oracle
   of bin/props/apporacles.py (c04) and by correspondence with this model; its Coq proof is
   not done yet (C04_partial). *)
From Coq Require Import List ZArith NArith Bool.
From PM Require Import Base.Bytes Store.KV Store.MergeProofs Num.IntModel Num.DecModel Num.DecProofs
  App.Model App.BankProofs App.TxProofs App.KeyProofs App.PosProofs App.Examples.
Import ListNotations.
Local Open Scope Z_scope.

Theorem C04_stake_exact_partial s pk a amt s' : bank_ok s -> a <> m_pool (ma s) ->
  handle s (MStake pk a amt) = HOk s' ->
  p_min_stake (pp s) <= amt /\
  bal s' a = bal s a - amt /\ bal s' (m_pool (ma s)) = bal s (m_pool (ma s)) + amt /\ supply s' = supply s /\
  exists v', get_val s' a = Some v' /\ v_status v' = 2%N /\
    v_tokens v' = match get_val s a with Some v => v_tokens v | None => 0 end + amt.
Proof. exact (stake_exact s pk a amt s'). Qed.
Theorem C04_unstake_payout_conserves s a v s' : bank_ok s -> finish_unstaking s a v = Some s' -> bank_ok s'.
Proof. exact (finish_unstaking_pres s a v s'). Qed.
Theorem C04_force_unstake_conserves s a v s' : bank_ok s -> force_unstake s a v = Some s' -> bank_ok s'.
Proof. exact (force_unstake_pres s a v s'). Qed.
Example C04_ex : match ex_genesis with
  | Some (s, _) => match handle s (MStake [22]%N A2 1500000) with
                   | HOk s' => bal s' POOL = 3500000 /\ bal s' A2 = 1500000 /\ option_map v_tokens (get_val s' A2) = Some 1500000
                   | _ => False end
  | None => False end.
Proof. vm_compute. repeat split; reflexivity. Qed.
Print Assumptions C04_stake_exact_partial.
