(* C07 — Slashing burns exactly the stated fraction and never more than the stake. Statements only. *)
From Coq Require Import List ZArith NArith Bool.
From PM Require Import Base.Bytes Store.KV Store.MergeProofs Num.IntModel Num.DecModel Num.DecProofs
  App.Model App.BankProofs App.TxProofs App.KeyProofs App.Examples.
Import ListNotations.
Local Open Scope Z_scope.

(* the amount computed by slash(): trunc(power * 10^6 * fraction), exactly (the Dec product is exact) *)
Theorem C07_slash_amount_exact power f amount d sa :
  tokens_from_power power = Some amount -> dec_mul (dec_from_int amount) f = Some d -> dec_truncate_int d = Some sa ->
  sa = Z.quot (power * 10 ^ 6 * f) P.
Proof. exact (slash_amount_exact power f amount d sa). Qed.
(* whatever a slash does, supply still equals the sum of balances: what left the record left pool and supply *)
Theorem C07_slash_conserves s a h p f : bank_ok s -> sres_ok (slash s a h p f).
Proof. exact (slash_pres s a h p f). Qed.
Theorem C07_force_unstake_conserves s a v s' : bank_ok s -> force_unstake s a v = Some s' -> bank_ok s'.
Proof. exact (force_unstake_pres s a v s'). Qed.
Theorem C07_double_sign_conserves s a h t p s' : bank_ok s -> handle_double_sign s a h t p = Some s' -> bank_ok s'.
Proof. exact (handle_double_sign_pres s a h t p s'). Qed.
Example C07_ex : match ex_genesis with
  | Some (s, _) => match slash s A1 0 2 (P / 4) with
                   | SOk s' => option_map v_tokens (get_val s' A1) = Some 1500000 /\ supply s' = supply s - 500000
                   | _ => False end
  | None => False end.
Proof. vm_compute. split; reflexivity. Qed.
Print Assumptions C07_slash_amount_exact.
Print Assumptions C07_slash_conserves.
