(* C07 — Slashing burns exactly the stated fraction and never more than the stake. Statements only. *)
From Coq Require Import List ZArith NArith Bool.
From PM Require Import Base.Bytes Store.KV Store.MergeProofs Num.IntModel Num.DecModel Num.DecProofs
  App.Model App.BankProofs App.TxProofs App.KeyProofs App.PoolProofs App.PoolExact App.SlashExact App.Examples.
Import ListNotations.
Local Open Scope Z_scope.

(* the amount computed by slash(): trunc(power * 10^6 * fraction), exactly (the Dec product is exact) *)
Theorem C07_slash_amount_exact power f amount d sa :
  tokens_from_power power = Some amount -> dec_mul (dec_from_int amount) f = Some d -> dec_truncate_int d = Some sa ->
  sa = Z.quot (power * 10 ^ 6 * f) P.
Proof. exact (slash_amount_exact power f amount d sa). Qed.
(* whatever a slash does, supply still equals the sum of balances: what left the record left pool and supply *)
Theorem C07_slash_conserves s a h p f : bank_ok s -> sres_ok (slash s a h p f).
Proof. exact (slash_pres s a h p f). Qed.
Theorem C07_force_unstake_conserves s a v s' : bank_ok s -> force_unstake s a v = Some s' -> bank_ok s'.
Proof. exact (force_unstake_pres s a v s'). Qed.
Theorem C07_double_sign_conserves s a h t p s' : bank_ok s -> handle_double_sign s a h t p = Some s' -> bank_ok s'.
Proof. exact (handle_double_sign_pres s a h t p s'). Qed.
(* the whole effect of one slash, in any state satisfying the pool invariant (every reachable state: C04): exactly
   D = min(trunc(p*10^6*f), stake) - or the whole stake when the remainder falls below the minimum stake - leaves the
   validator's record, the staked pool and the supply; nobody else's balance, no other validator's record changes; a
   non-positive amount changes nothing (App/SlashExact.v) *)
Theorem C07_slash_exact MA s a h p f v amount d sa : pool_ok MA s -> get_val s a = Some v -> v_status v <> 0%N ->
  (f <? 0) = false -> (height s <? h) = false ->
  tokens_from_power p = Some amount -> dec_mul (dec_from_int amount) f = Some d -> dec_truncate_int d = Some sa ->
  let burn := Z.max (Z.min sa (v_tokens v)) 0 in
  (burn = 0 -> exists x, slash s a h p f = SErr x /\ accts x = accts s /\ supply x = supply s /\ forall b, get_val x b = get_val s b) /\
  (0 < burn -> exists s', slash s a h p f = SOk s' /\
     removed MA s s' a (if v_tokens v - burn <? p_min_stake (pp s) then v_tokens v else burn)).
Proof. exact (slash_exact MA s a h p f v amount d sa). Qed.
Theorem C07_removed_reading MA s s' a D : removed MA s s' a D ->
  supply s' = supply s - D /\ bal s' (m_pool MA) = bal s (m_pool MA) - D /\ (forall x, x <> m_pool MA -> bal s' x = bal s x) /\
  (exists v v', get_val s a = Some v /\ get_val s' a = Some v' /\ stk v' = stk v - D) /\ (forall b, b <> a -> get_val s' b = get_val s b).
Proof. intros (A & B & C & (v & v' & E1 & E2 & K & _) & R). repeat split; auto. exists v, v'. auto. Qed.
Theorem C07_forced_unstake_burns_the_whole_remainder MA s a v s' : pool_ok MA s -> get_val s a = Some v -> force_unstake s a v = Some s' ->
  removed MA s s' a (stk v) /\ exists v', get_val s' a = Some v' /\ v_status v' = 0%N /\ v_tokens v' = 0.
Proof. exact (force_unstake_exact MA s a v s'). Qed.
Example C07_ex : match ex_genesis with
  | Some (s, _) => match slash s A1 0 2 (P / 4) with
                   | SOk s' => option_map v_tokens (get_val s' A1) = Some 1500000 /\ supply s' = supply s - 500000
                   | _ => False end
  | None => False end.
Proof. vm_compute. split; reflexivity. Qed.
Print Assumptions C07_slash_amount_exact.
Print Assumptions C07_slash_conserves.
Print Assumptions C07_slash_exact.
