(* C15 — Cache-wrapped stores behave like an overlay that is applied atomically.
   Statements only; every proof is [exact <lemma>]. *)
From Coq Require Import List NArith Bool.
From PM Require Import Base.Bytes Store.KV Store.MergeProofs Store.KVProofs Store.DirtyProofs.
Import ListNotations.

(* iteration: the merge iterator state machine (skipUntilExistsOrInvalid/Key/Value/Next as
   coded) always terminates and returns the overlay of the parent items with the cache items:
   sorted in the iteration direction (so duplicate-free), deleted keys absent, cache value
   wins. For any range: the two inputs are the in-range items of parent and cache. *)
Theorem C15_merge_iterator_total asc par cac : exists l, merge_run par cac asc = Some l.
Proof. exact (merge_iterator_total asc par cac). Qed.
Theorem C15_merge_iterator_is_overlay asc par cac l :
  dsorted asc par -> dsorted asc cac -> merge_run par cac asc = Some l ->
  dsorted asc l /\ forall k, assoc l k = overlay_at par cac k.
Proof. exact (merge_iterator_is_overlay asc par cac l). Qed.

(* reads and writes on a nest of cache stores of any depth over a base map *)
Theorem C15_get s k w : nest_ok s ->
  exists s', s_get s k w = (Ok (aget (abs s) k), s', w) /\ nest_ok s' /\ abs s' = abs s.
Proof. exact (get_refines s k w). Qed.
Theorem C15_set s k v w : nest_ok s ->
  exists s', s_set s k v w = (Ok tt, s', w) /\ nest_ok s' /\ abs s' = aset (abs s) k v /\
    match s, s' with Cache _ p, Cache _ p' => p' = p | _, _ => True end.
Proof. exact (set_refines s k v w). Qed.
Theorem C15_delete s k w : nest_ok s ->
  exists s', s_delete s k w = (Ok tt, s', w) /\ nest_ok s' /\ abs s' = adel (abs s) k /\
    match s, s' with Cache _ p, Cache _ p' => p' = p | _, _ => True end.
Proof. exact (delete_refines s k w). Qed.
(* Write: afterwards the parent holds exactly the overlaid view and the wrapper is clean *)
Theorem C15_write c p w : nest_ok (Cache c p) ->
  exists p', c_write (Cache c p) w = (Ok tt, Cache c_empty p', w) /\ nest_ok (Cache c_empty p') /\
    abs p' = abs (Cache c p) /\ abs (Cache c_empty p') = abs (Cache c p).
Proof. exact (write_refines c p w). Qed.
(* the view of a cache store at a key: its own entry if it has one, else the parent's *)
Theorem C15_view c m k : cache_ok c m -> dsorted true m -> aget (cache_abs c m) k = view c m k.
Proof. exact (cache_abs_view c m k). Qed.

(* what cachekv.iterator hands to the merge iterator - dirtyItems (unsorted cache -> sorted linked list, stale
   entries replaced) followed by newMemIterator's scan - is EXACTLY the dirty entries of the cache in the range,
   in iteration order, with their current values; [dinv] is the invariant of (cache, unsortedCache, sortedCache) *)
Theorem C15_cache_items_are_the_dirty_entries c s e asc : dinv c ->
  mem_items (dirty_items c s e) s e asc = dir asc (filter (fun it => in_domain (fst it) s e) (dlist c)).
Proof. exact (mem_items_are_the_dirty_entries c s e asc). Qed.
(* iterating a nest of cache stores of any depth, any range, either direction: exactly the in-range items of the
   overlaid view, in order; the parent is untouched and the invariants are kept *)
Theorem C15_iterator_is_the_overlaid_view s st en asc w : nest_ok s -> dnest s ->
  exists l s', s_iter s st en asc w = (Ok (IList l), s', w) /\ l = kv_range (abs s) st en asc /\
               nest_ok s' /\ dnest s' /\ abs s' = abs s.
Proof. exact (iter_refines s st en asc w). Qed.
(* the structural invariant is kept by every other operation as well *)
Theorem C15_structure_kept_by_get s k w r s' w' : dnest s -> s_get s k w = (r, s', w') -> dnest s'.
Proof. exact (s_get_dnest s k w r s' w'). Qed.
Theorem C15_structure_kept_by_has s k w r s' w' : dnest s -> s_has s k w = (r, s', w') -> dnest s'.
Proof. exact (s_has_dnest s k w r s' w'). Qed.
Theorem C15_structure_kept_by_set s k v w r s' w' : dnest s -> s_set s k v w = (r, s', w') -> dnest s'.
Proof. exact (s_set_dnest s k v w r s' w'). Qed.
Theorem C15_structure_kept_by_delete s k w r s' w' : dnest s -> s_delete s k w = (r, s', w') -> dnest s'.
Proof. exact (s_delete_dnest s k w r s' w'). Qed.
Theorem C15_structure_kept_by_write s w r s' w' : dnest s -> c_write s w = (r, s', w') -> dnest s'.
Proof. exact (c_write_dnest s w r s' w'). Qed.
Example C15_ex_dnest : dnest (Cache c_empty (Cache c_empty (Base [([1], [10]); ([2], [20]); ([3], [30])]%N))).
Proof. simpl. split; [exact dinv_empty|split; [exact dinv_empty|exact I]]. Qed.

(* non-vacuity *)
Example C15_ex_nest_ok :
  nest_ok (Cache c_empty (Cache c_empty (Base [([1], [10]); ([2], [20]); ([3], [30])]%N))).
Proof.
  assert (E : forall m, cache_ok c_empty m) by (intros m; split; [exact I|intros k e H; discriminate H]).
  simpl. split; [split; [|apply E]|apply E].
  repeat split; intros y Hy; repeat (destruct Hy as [<-|Hy]; [reflexivity|]); destruct Hy.
Qed.
Example C15_ex_run :
  let m := [([1], [10]); ([2], [20]); ([3], [30])]%N in
  let s0 := Cache c_empty (Cache c_empty (Base m)) in
  let w := {| w_limit := None; w_consumed := 0; w_trace := []; w_cfg := kv_gas_config |} in
  let '(_, s1, _) := s_delete s0 [2]%N w in
  let '(_, s2, _) := s_set s1 [4]%N [40]%N w in
  let '(r, s3, _) := s_iter_all s2 [] None false w in
  r = Ok [([4], [40]); ([3], [30]); ([1], [10])]%N /\
  let '(_, s4, _) := c_write s3 w in
  match s4 with Cache _ p => abs p = [([1], [10]); ([3], [30]); ([4], [40])]%N | _ => False end.
Proof. vm_compute. split; reflexivity. Qed.

Print Assumptions C15_merge_iterator_is_overlay.
Print Assumptions C15_merge_iterator_total.
Print Assumptions C15_cache_items_are_the_dirty_entries.
Print Assumptions C15_iterator_is_the_overlaid_view.
Print Assumptions C15_get.
Print Assumptions C15_set.
Print Assumptions C15_write.
