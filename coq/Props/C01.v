(* C01 — Replicated execution is deterministic. Statements only.
   The models are Gallina functions, hence deterministic; the content is that the implementation's
   sources of nondeterminism do not reach the observables. The one that lies inside the modelled
   code is Go's map iteration over the substores at Commit: the commit hash must not depend on it.
   The others (validator decode cache, goroutine-driven IAVL iterator, restart, read-only
   traffic) are checked on the implementation by replaying every history on a fresh, a restarted
   and a CheckTx/Simulate/Query-interleaved instance (bin/props/C01.py). *)
From Coq Require Import List ZArith NArith Bool Permutation.
From PM Require Import Base.Bytes Store.KV Store.MergeProofs Store.RootMulti Store.RootMultiProofs App.Model.
Import ListNotations.
Local Open Scope Z_scope.

(* the app hash is a function of the name-sorted substore commit ids: any commit order gives the same *)
Theorem C01_commit_hash_order_independent l l' : Permutation l l' -> NoDup (names l) -> sort_infos l = sort_infos l'.
Proof. exact (commit_hash_order_independent l l'). Qed.
(* the model's step is a function: equal states and equal requests give equal results (stated for the record) *)
Theorem C01_step_functional s o : forall r1 r2, step s o = r1 -> step s o = r2 -> r1 = r2.
Proof. intros r1 r2 <- <-. reflexivity. Qed.
(* no-longer-staked validators are reported in address order whatever order the map yields them:
   the model keeps them in a sorted association list, and adel/aset keep it sorted *)
Theorem C01_prevstate_map_stays_sorted (m : amap Z) k v : dsorted true m -> dsorted true (aset m k v) /\ dsorted true (adel m k).
Proof. intros S. split; [apply KVProofs.aset_sorted|apply KVProofs.adel_sorted]; exact S. Qed.
Example C01_ex_order :
  sort_infos [([98]%N, (1, [])); ([97]%N, (1, [([1]%N, [2]%N)]))] = sort_infos [([97]%N, (1, [([1]%N, [2]%N)])); ([98]%N, (1, []))].
Proof. vm_compute. reflexivity. Qed.
Print Assumptions C01_commit_hash_order_independent.
