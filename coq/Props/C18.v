(* C18 — Integer, decimal and coin arithmetic is exact and overflow-safe.
   Statements only; every proof is [exact <lemma>]. A Go panic is [None]. *)
From Coq Require Import List ZArith Bool.
From PM Require Import Base.Bytes Num.IntModel Num.IntProofs Num.DecModel Num.DecProofs Num.CoinsModel Num.CoinsProofs.
Import ListNotations.
Local Open Scope Z_scope.

(* Int / Uint: exact Z arithmetic inside the range, a panic exactly outside it *)
Theorem C18_int_add a b :
  (in_int (a + b) /\ int_add a b = Some (a + b)) \/ (~ in_int (a + b) /\ int_add a b = None).
Proof. exact (int_add_exact a b). Qed.
Theorem C18_int_sub a b :
  (in_int (a - b) /\ int_sub a b = Some (a - b)) \/ (~ in_int (a - b) /\ int_sub a b = None).
Proof. exact (int_sub_exact a b). Qed.
Theorem C18_int_mul a b : in_int a -> in_int b ->
  (in_int (a * b) /\ int_mul a b = Some (a * b)) \/ (~ in_int (a * b) /\ int_mul a b = None).
Proof. exact (int_mul_exact a b). Qed.
Theorem C18_int_quo a b : in_int a ->
  (b = 0 /\ int_quo a b = None) \/ (b <> 0 /\ int_quo a b = Some (Z.quot a b) /\ in_int (Z.quot a b)).
Proof. exact (int_quo_exact a b). Qed.
Theorem C18_int_mod a b : in_int b ->
  (b = 0 /\ int_mod a b = None) \/
  (b <> 0 /\ exists r, int_mod a b = Some r /\ 0 <= r < Z.abs b /\ (exists q, a = q * b + r) /\ in_int r).
Proof. exact (int_mod_exact a b). Qed.
Theorem C18_int_int64 a :
  (- 2 ^ 63 <= a < 2 ^ 63 /\ int_int64 a = Some a) \/ (~ (- 2 ^ 63 <= a < 2 ^ 63) /\ int_int64 a = None).
Proof. exact (int_int64_exact a). Qed.
Theorem C18_uint_add a b :
  (in_uint (a + b) /\ uint_add a b = Some (a + b)) \/ (~ in_uint (a + b) /\ uint_add a b = None).
Proof. exact (uint_add_exact a b). Qed.
Theorem C18_uint_sub a b :
  (in_uint (a - b) /\ uint_sub a b = Some (a - b)) \/ (~ in_uint (a - b) /\ uint_sub a b = None).
Proof. exact (uint_sub_exact a b). Qed.
Theorem C18_uint_mul a b :
  (in_uint (a * b) /\ uint_mul a b = Some (a * b)) \/ (~ in_uint (a * b) /\ uint_mul a b = None).
Proof. exact (uint_mul_exact a b). Qed.
Theorem C18_uint_quo a b : in_uint a -> in_uint b ->
  (b = 0 /\ uint_quo a b = None) \/ (b <> 0 /\ uint_quo a b = Some (a / b) /\ in_uint (a / b)).
Proof. exact (uint_quo_exact a b). Qed.
Theorem C18_tokens_to_power t : 0 <= t ->
  (t < 2 ^ 63 * 10 ^ 6 /\ tokens_to_power t = Some (t / 10 ^ 6)) \/
  (2 ^ 63 * 10 ^ 6 <= t /\ tokens_to_power t = None).
Proof. exact (tokens_to_power_exact t). Qed.

(* Dec: the rounding used by Mul, RoundInt, RoundInt64 is half-to-even for both signs,
   and it is the ONLY q with that property *)
Theorem C18_dec_round_is_half_even d : is_rhe d P (chop_round d).
Proof. exact (chop_round_spec d). Qed.
Theorem C18_dec_round_unique n q1 q2 : is_rhe n P q1 -> is_rhe n P q2 -> q1 = q2.
Proof. exact (round_half_even_unique n P q1 q2 P_pos). Qed.
Theorem C18_dec_round_sign_symmetric d : chop_round (- d) = - chop_round d.
Proof. exact (chop_round_opp d). Qed.
Theorem C18_dec_mul a b : dec_mul a b = dec_chk (round_half_even (a * b) P).
Proof. exact (dec_mul_exact a b). Qed.
Theorem C18_dec_mul_truncate a b : dec_mul_truncate a b = dec_chk (Z.quot (a * b) P).
Proof. exact (dec_mul_truncate_exact a b). Qed.
Theorem C18_dec_quo_truncate a b : b <> 0 -> dec_quo_truncate a b = dec_chk (Z.quot (a * P) b).
Proof. exact (dec_quo_truncate_exact a b). Qed.
Theorem C18_dec_round_up_is_ceiling d : chop_round_up d = ceil_div d P.
Proof. exact (chop_round_up_eq d). Qed.
Theorem C18_dec_ceil a : dec_ceil a = ceil_div a P * P.
Proof. exact (dec_ceil_exact a). Qed.
Theorem C18_dec_range z : (Z.abs z < 2 ^ 315 /\ dec_chk z = Some z) \/ (~ Z.abs z < 2 ^ 315 /\ dec_chk z = None).
Proof. exact (dec_chk_spec z). Qed.

(* Quo / QuoRoundUp: the full statement is FALSE of the code as it is (finding F9) ... *)
Theorem C18_dec_quo_refuted : exists a b, b <> 0 /\ dec_quo a b <> dec_chk (spec_quo a b).
Proof. exact dec_quo_refuted. Qed.
Theorem C18_dec_quo_round_up_refuted :
  exists a b, b <> 0 /\ dec_quo_round_up a b <> dec_chk (spec_quo_round_up a b).
Proof. exact dec_quo_round_up_refuted. Qed.
(* ... what is proved instead: they round the 36-digit truncated quotient, and Quo is exact
   whenever that 36-digit division is exact *)
Theorem C18_dec_quo_partial a b : b <> 0 ->
  dec_quo a b = dec_chk (round_half_even (Z.quot (a * P * P) b) P).
Proof. exact (dec_quo_partial a b). Qed.
Theorem C18_dec_quo_round_up_partial a b : b <> 0 ->
  dec_quo_round_up a b = dec_chk (ceil_div (Z.quot (a * P * P) b) P).
Proof. exact (dec_quo_round_up_partial a b). Qed.
Theorem C18_dec_quo_exact_when_divisible a b : 0 < b -> Z.rem (a * P * P) b = 0 ->
  dec_quo a b = dec_chk (spec_quo a b).
Proof. exact (dec_quo_exact_when_divisible a b). Qed.

(* Coins *)
Theorem C18_coins_add a b r : ssorted a -> ssorted b -> safe_add a b = Some r ->
  canon r /\ forall d, lookup r d = lookup a d + lookup b d.
Proof. exact (safe_add_canon a b r). Qed.
Theorem C18_coins_add_panics_only_on_overflow a b : ssorted a -> ssorted b ->
  (forall d, in_int (lookup a d + lookup b d)) -> exists r, safe_add a b = Some r.
Proof. exact (safe_add_total a b). Qed.
Theorem C18_coins_add_valid a b r : ssorted a -> all_pos a -> ssorted b -> all_pos b ->
  safe_add a b = Some r -> ssorted r /\ all_pos r.
Proof. exact (safe_add_valid_shape a b r). Qed.
Theorem C18_coins_add_sub_inverse a b s : ssorted a -> all_pos a -> all_int a -> ssorted b -> all_pos b ->
  safe_add a b = Some s -> coins_sub s b = Some a.
Proof. exact (add_sub_inverse a b s). Qed.
Theorem C18_coins_safe_sub a b r flag : ssorted a -> ssorted b -> safe_sub a b = Some (r, flag) ->
  canon r /\ (forall d, lookup r d = lookup a d - lookup b d) /\
  (flag = true <-> exists d, lookup a d - lookup b d < 0).
Proof. exact (safe_sub_spec a b r flag). Qed.
Theorem C18_coins_valid_is_canonical cs : coins_valid cs = true -> ssorted cs /\ all_pos cs.
Proof. exact (coins_valid_canon cs). Qed.
Theorem C18_coins_amount_of cs d : ssorted cs -> valid_denom d = true -> amount_of cs d = Some (lookup cs d).
Proof. exact (amount_of_spec cs d). Qed.
Theorem C18_coins_is_all_gte a b : ssorted a -> all_pos a -> ssorted b -> all_pos b ->
  (is_all_gte a b = true <-> forall d, lookup b d <= lookup a d).
Proof. exact (is_all_gte_spec a b). Qed.

(* non-vacuity: concrete operands meeting the hypotheses, with non-trivial results *)
Example C18_ex_mul_panics : int_mul (2 ^ 200) (2 ^ 60) = None /\ int_mul (2 ^ 200) (2 ^ 54) = Some (2 ^ 254).
Proof. split; vm_compute; reflexivity. Qed.
Example C18_ex_tie_to_even :
  chop_round (5 * 10 ^ 17) = 0 /\ chop_round (15 * 10 ^ 17) = 2 /\ chop_round (- (25 * 10 ^ 17)) = -2.
Proof. repeat split; vm_compute; reflexivity. Qed.
Example C18_ex_coins :
  let a := [([97;97;97]%N, 5); ([98;98;98]%N, 7)] in let b := [([97;97;97]%N, 5)] in
  coins_valid a = true /\ coins_valid b = true /\ coins_sub a b = Some [([98;98;98]%N, 7)] /\
  safe_sub b a = Some ([([98;98;98]%N, -7)], true).
Proof. repeat split; vm_compute; reflexivity. Qed.

Print Assumptions C18_int_mul.
Print Assumptions C18_dec_round_is_half_even.
Print Assumptions C18_dec_round_unique.
Print Assumptions C18_dec_quo_truncate.
Print Assumptions C18_dec_quo_refuted.
Print Assumptions C18_coins_add.
Print Assumptions C18_coins_add_sub_inverse.
Print Assumptions C18_coins_safe_sub.
Print Assumptions C18_coins_amount_of.
Print Assumptions C18_coins_is_all_gte.
