(* C08 — Downtime accounting: sliding window is exact. Statements only.
   Proved: the required-signed threshold is the half-even rounding of fraction * window (incl. 0.5 * odd).
   The ring-buffer = sliding-window refinement and the exact jailing block are checked on the
   implementation for every vote of every history by the oracle c08 (which recomputes the window
   from the vote stream) and by correspondence with handle_signature; Coq proof: partial. *)
From Coq Require Import List ZArith NArith Bool.
From PM Require Import Base.Bytes Store.KV Store.MergeProofs Num.IntModel Num.DecModel Num.DecProofs
  App.Model App.BankProofs App.TxProofs App.KeyProofs App.PosProofs App.Examples.
Import ListNotations.
Local Open Scope Z_scope.

Theorem C08_threshold_partial p : min_signed_per_window p = round_half_even (p_min_signed p * p_window p) P.
Proof. exact (min_signed_is_half_even p). Qed.
Theorem C08_signature_handling_conserves s a p sg s' : bank_ok s -> handle_signature s a p sg = Some s' -> bank_ok s'.
Proof. exact (handle_signature_pres s a p sg s'). Qed.
Example C08_ex_half_of_odd_window :
  min_signed_per_window {| p_unstaking_time := 0; p_max_validators := 1; p_min_stake := 0; p_max_evidence_age := 0;
     p_window := 5; p_min_signed := 500000000000000000; p_downtime_jail := 0; p_slash_ds := 0; p_slash_dt := 0 |} = 2 /\
  min_signed_per_window {| p_unstaking_time := 0; p_max_validators := 1; p_min_stake := 0; p_max_evidence_age := 0;
     p_window := 7; p_min_signed := 500000000000000000; p_downtime_jail := 0; p_slash_ds := 0; p_slash_dt := 0 |} = 4.
Proof. split; vm_compute; reflexivity. Qed.
Print Assumptions C08_threshold_partial.
