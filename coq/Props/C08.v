(* C08 — Downtime accounting: sliding window is exact. Statements only.
   Proved: the required-signed threshold is the half-even rounding of fraction * window (incl. 0.5 * odd).
   Proved: the ring buffer update rule of handleValidatorSignature (flip the bit at offset mod W, move the
   counter only when the bit changes) IS a sliding window, for every window size and every vote sequence
   (App/RingProofs.v): the counter equals the misses among the most recent min(n, W) votes and the array holds
   exactly those votes; and handle_signature applies exactly this rule to the stored bits / counter / offset, or
   resets them when it jails (App/RingTie.v). Proved over whole histories (App/MissedProofs.v): in every reachable state
   the counter of every validator equals the number of missed entries stored in its bit array - through votes,
   downtime jailing (array and counter cleared together), double signs, (re-)staking, every transaction, rewards,
   burns and EndBlock. Oracle + correspondence (not a Coq theorem): \"jailed at exactly the first crossing after
   start+W\" as a statement about whole vote histories. *)
From Coq Require Import List ZArith NArith Bool.
From PM Require Import Base.Bytes Store.KV Store.MergeProofs Num.IntModel Num.DecModel Num.DecProofs
  App.Model App.BankProofs App.TxProofs App.KeyProofs App.PosProofs App.RingProofs App.RingTie App.MissedProofs App.KeyTypes App.KeyTypesMore App.Examples.
Import ListNotations.
Local Open Scope Z_scope.

Theorem C08_threshold_partial p : min_signed_per_window p = round_half_even (p_min_signed p * p_window p) P.
Proof. exact (min_signed_is_half_even p). Qed.
Theorem C08_signature_handling_conserves s a p sg s' : bank_ok s -> handle_signature s a p sg = Some s' -> bank_ok s'.
Proof. exact (handle_signature_pres s a p sg s'). Qed.
(* the ring buffer is a sliding window: for all W >= 1 and all vote sequences (true = missed) *)
Theorem C08_ring_buffer_is_sliding_window W votes : (0 < W)%nat ->
  ring_inv W (fold_left (ring_step W) votes ring0) (rev votes).
Proof. exact (ring_is_sliding_window W votes). Qed.
Theorem C08_counter_is_misses_in_window W votes : (0 < W)%nat ->
  snd (fst (fold_left (ring_step W) votes ring0)) = cnt (firstn W (rev votes)).
Proof. exact (ring_counter_is_window_misses W votes). Qed.
(* ... and handleValidatorSignature applies exactly that rule to the validator's stored bit array, counter and
   offset - or, when the threshold is crossed (slash + jail), resets them to the empty ring so that the same misses
   are not punished again *)
Theorem C08_one_vote_is_one_ring_step s a p sg s' si :
  dsorted true (missed s) -> dsorted true (sinfo s) -> aget (sinfo s) a = Some si -> 0 <= si_offset si ->
  0 < p_window (pp s) < 256 ^ 8 -> handle_signature s a p sg = Some s' ->
  exists si', aget (sinfo s') a = Some si' /\
    (ring_eq (Z.to_nat (p_window (pp s))) (ring_of (missed s') a si')
             (ring_step (Z.to_nat (p_window (pp s))) (ring_of (missed s) a si) (negb sg)) \/
     ring_eq (Z.to_nat (p_window (pp s))) (ring_of (missed s') a si') ring0).
Proof. exact (handle_signature_is_ring_step s a p sg s' si). Qed.
(* ---- every reachable state of every history (staking addresses of one fixed length L: 20 in the implementation) ---- *)
Theorem C08_counter_equals_stored_misses_all_histories L ops s s' : missed_ok L s -> Forall (op_len_ok L) ops ->
  run ops s = Some s' -> missed_ok L s'.
Proof. exact (run_mok L ops s s'). Qed.
Theorem C08_counter_reading L s a si : missed_ok L s -> aget (sinfo s) a = Some si ->
  si_missed si = Z.of_nat (length (filter (fun p => snd p && key_of a (fst p)) (missed s))).
Proof. exact (counter_is_the_number_of_missed_entries L s a si). Qed.
Theorem C08_genesis L s0 gvals dao s ups : missed_ok L s0 -> NoDup (map (fun g => fst (fst g)) gvals) ->
  (forall g, In g gvals -> length (fst (fst g)) = L /\ aget (sinfo s0) (fst (fst g)) = None) ->
  init_chain s0 gvals dao = Some (s, ups) -> missed_ok L s.
Proof. exact (init_chain_mok L s0 gvals dao s ups). Qed.
Example C08_ex_premises : missed_ok 2 ex_s0 /\ Forall (op_len_ok 2) ex_ops /\
  (exists s ups, ex_genesis = Some (s, ups) /\ missed_ok 2 s).
Proof.
  assert (H0 : missed_ok 2 ex_s0).
  { split; [exact I|]. split; [exact I|]. split; [intros a si E; discriminate E|]. intros a _ _. reflexivity. }
  split; [exact H0|]. split; [repeat constructor|].
  destruct ex_genesis as [[s ups]|] eqn:E; [|vm_compute in E; discriminate]. exists s, ups. split; auto.
  unfold ex_genesis in E. eapply C08_genesis; [exact H0| | |exact E].
  - repeat constructor. intros [].
  - intros g [<-|[]]. split; reflexivity.
Qed.
Example C08_ex_ring : snd (fst (fold_left (ring_step 3) [true; true; false; true; false; false] ring0)) = 1.
Proof. vm_compute. reflexivity. Qed.
Example C08_ex_half_of_odd_window :
  min_signed_per_window {| p_unstaking_time := 0; p_max_validators := 1; p_min_stake := 0; p_max_evidence_age := 0;
     p_window := 5; p_min_signed := 500000000000000000; p_downtime_jail := 0; p_slash_ds := 0; p_slash_dt := 0 |} = 2 /\
  min_signed_per_window {| p_unstaking_time := 0; p_max_validators := 1; p_min_stake := 0; p_max_evidence_age := 0;
     p_window := 7; p_min_signed := 500000000000000000; p_downtime_jail := 0; p_slash_ds := 0; p_slash_dt := 0 |} = 4.
Proof. split; vm_compute; reflexivity. Qed.
(* the stored key of a window position: every position of the int64 range has its own key, and validators (addresses of one
   length) never share one - what the counter-equals-stored-misses theorem silently relies on, compared with
   GetValMissedBlockKey by the KM stream *)
Theorem C08_window_positions_have_their_own_keys a i j : 0 <= i < 256 ^ 8 -> 0 <= j < 256 ^ 8 ->
  missed_key a i = missed_key a j -> i = j.
Proof. exact (missed_key_inj a i j). Qed.
Theorem C08_validators_never_share_a_position_key a b i j : length a = length b -> 0 <= i < 256 ^ 8 -> 0 <= j < 256 ^ 8 ->
  missed_key a i = missed_key b j -> a = b /\ i = j.
Proof. exact (missed_key_inj2 a b i j). Qed.
(* counter = stored misses in every history under the key-type restriction as well *)
Theorem C08_counter_equals_stored_misses_under_key_restriction L r ops s s' :
  missed_ok L s -> Forall (op_len_ok L) ops -> run_cp r ops s = Some s' -> missed_ok L s'.
Proof. exact (run_cp_mok L r ops s s'). Qed.
Print Assumptions C08_counter_equals_stored_misses_under_key_restriction.
Print Assumptions C08_validators_never_share_a_position_key.
Print Assumptions C08_threshold_partial.
Print Assumptions C08_ring_buffer_is_sliding_window.
Print Assumptions C08_one_vote_is_one_ring_step.
Print Assumptions C08_counter_equals_stored_misses_all_histories.
