(* C13 — A crash during Commit never corrupts the store. Statements only.
   The crash points are enumerated IN the theorems: [units] are a substore's atomic write batches, a crash
   leaves any prefix of them on disk; for the multistore the crash budget counts the units over all substores. Physical atomicity of one tm-db batch is
   the library's contract (hypothesis of the model). *)
From Coq Require Import List ZArith NArith Bool Permutation.
From PM Require Import Base.Bytes Store.KV Store.MergeProofs Store.RootMulti Store.RootMultiProofs Store.MultiCrash.
Import ListNotations.
Local Open Scope Z_scope.

(* with keepRecent >= 1: after ANY prefix of a substore's write units the previous version loads
   with exactly its old content (the root, whose flush is the last unit, still points at it) *)
Theorem C13_substore_crash_safe p t old tf units : 1 <= keep_recent p -> tree_ok t old ->
  store_commit p t = Some (tf, units) ->
  forall u, In u (t :: units) -> load_version (t_disk u) (t_ver t) =
    (if t_ver t =? 0 then load_version (t_disk u) 0 else Some {| t_disk := t_disk u; t_work := old; t_ver := t_ver t |}).
Proof. exact (store_commit_crash_safe p t old tf units). Qed.
(* THE WHOLE MULTISTORE, any number of substores, any crash point: if rootmulti.Commit is cut short anywhere (any
   number of write units of any substore reached the disk; the root's own flush, the last unit, did not), reopening
   gives every substore at the OLD version with its OLD content - exactly the store as it was before the commit *)
Theorem C13_multistore_crash_safe ms ci olds budget ms' : 1 <= keep_recent (ms_prune ms) -> consistent ms ci olds ->
  commit ms budget = Some (ms', true) ->
  exists ms2, reopen ms' = Some ms2 /\ ms_latest ms2 = ms_latest ms /\ fst (ms_last ms2) = ms_latest ms /\
    Forall2 (fun l no => fst l = fst (fst no) /\ t_work (snd l) = snd no /\ t_ver (snd l) = t_ver (snd (fst no)))
            (ms_trees ms2) (combine (ms_trees ms) olds).
Proof. exact (multistore_crash_safe ms ci olds budget ms'). Qed.
Example C13_ex_premises : consistent ex_ms1 [([1]%N, (1, [([10]%N, [11]%N)])); ([2]%N, (1, [([20]%N, [21]%N)]))]
                                     [[([10]%N, [11]%N)]; [([20]%N, [21]%N)]].
Proof. exact ex_ms1_consistent. Qed.
(* the full statement is FALSE of the code as it is: with keepRecent = 0 (PruneEverything, the
   zero-value default) the version the root still points at is deleted before the flush (finding F8) *)
Theorem C13_refuted_for_keep_recent_0 :
  exists p t old tf units, keep_recent p = 0 /\ tree_ok t old /\ store_commit p t = Some (tf, units) /\
    exists u, In u units /\ load_version (t_disk u) (t_ver t) = None.
Proof. exact store_commit_crash_unsafe_when_keep_recent_0. Qed.
(* replay after a crash: SaveVersion onto a version already on disk with the same content is idempotent *)
Theorem C13_replay_idempotent t c : vget (t_disk t) (t_ver t + 1) = Some c -> kv_eqb c (t_work t) = true ->
  save_version t = Some {| t_disk := t_disk t; t_work := t_work t; t_ver := t_ver t + 1 |}.
Proof. intros E K. unfold save_version. rewrite E, K. reflexivity. Qed.
(* the whole multistore, every crash point of a two-substore commit under keepRecent = 1 (finite sweep, bound stated) *)
Example C13_ex_all_crash_points :
  let ms0 := ms_init [[97]%N; [98]%N] {| keep_recent := 1; keep_every := 0 |} in
  match commit_in_order (ms_set ms0 [97]%N [1]%N [10]%N) [] None with
  | Some (ms1, false) =>
    match commit_in_order (ms_set ms1 [98]%N [2]%N [20]%N) [] None with
    | Some (ms2, false) =>
      let blk := ms_set (ms_set ms2 [97]%N [1]%N [11]%N) [98]%N [3]%N [30]%N in
      forallb (fun k => match commit_in_order blk [] (Some k) with
                        | Some (m, true) => match reopen m with
                                            | Some r => (fst (ms_last r) =? 2) && kv_eqb (match ms_trees r with (_, t) :: _ => t_work t | [] => [] end) [([1]%N, [10]%N)]
                                            | None => false end
                        | Some (m, false) => (fst (ms_last m) =? 3)
                        | None => false end) [0;1;2;3;4;5;6]%nat = true
    | _ => False end
  | _ => False end.
Proof. vm_compute. reflexivity. Qed.
Print Assumptions C13_substore_crash_safe.
Print Assumptions C13_multistore_crash_safe.
Print Assumptions C13_refuted_for_keep_recent_0.
