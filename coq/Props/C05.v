(* C05 — Validator updates keep Tendermint's set equal to the staked set. Statements only. *)
From Coq Require Import List ZArith NArith Bool.
From PM Require Import Base.Bytes Store.KV Store.MergeProofs Num.IntModel Num.DecModel Num.DecProofs
  App.Model App.BankProofs App.TxProofs App.KeyProofs App.IndexProofs App.PoolProofs App.UpdateProofs App.TmProofs App.TombProofs App.Examples App.Invariants.
Import ListNotations.
Local Open Scope Z_scope.

(* the power index orders by (power, inverted address): walking it backwards gives power
   descending and, among equal powers, address ascending - the tie-break at the cut-off *)
Theorem C05_rank_key_order t1 a1 t2 a2 :
  0 <= power_of t1 < 2 ^ 64 -> 0 <= power_of t2 < 2 ^ 64 -> wf_bytes a1 -> wf_bytes a2 -> length a1 = length a2 ->
  bcompare (rank_key t1 a1) (rank_key t2 a2) = match power_of t1 ?= power_of t2 with Eq => bcompare a2 a1 | c => c end.
Proof. exact (rank_key_order t1 a1 t2 a2). Qed.
Theorem C05_rank_key_injective t1 a1 t2 a2 :
  0 <= power_of t1 < 2 ^ 64 -> 0 <= power_of t2 < 2 ^ 64 -> wf_bytes a1 -> wf_bytes a2 -> length a1 = length a2 ->
  rank_key t1 a1 = rank_key t2 a2 -> power_of t1 = power_of t2 /\ a1 = a2.
Proof. exact (rank_key_injective t1 a1 t2 a2). Qed.
Theorem C05_updates_conserve s s' ups : bank_ok s -> update_tm_validators s = Some (s', ups) -> bank_ok s'.
Proof. exact (update_tm_validators_pres s s' ups). Qed.
(* in every reachable state of every history, every entry of the power index (the candidates walked by
   UpdateTendermintValidators) is an existing validator that is staked, not jailed, under the key of its
   current stake: jailed, unstaking and unstaked validators are never offered to Tendermint *)
Theorem C05_index_entries_are_staked_unjailed_all_histories ops s s' k a :
  idx_sound s -> run ops s = Some s' -> aget (powidx s') k = Some a ->
  exists v, get_val s' a = Some v /\ v_status v = 2%N /\ v_jailed v = false /\ k = rank_key (v_tokens v) a.
Proof. intros H E. exact (indexed_is_staked_unjailed s' k a (run_is ops s s' H E)). Qed.
(* the batch returned by EndBlock / InitChain can always be applied to the set the module has told Tendermint
   so far (prevpow): no address twice, no negative power, a removal only of an address that set contains; and the
   module's record afterwards is that set with the batch applied *)
Theorem C05_updates_always_applicable s s' ups : idx_sound s -> (forall a v, get_val s a = Some v -> 0 <= v_tokens v) ->
  dsorted true (prevpow s) -> update_tm_validators s = Some (s', ups) ->
  applicable (prevpow s) ups /\ prevpow s' = apply_updates ups (prevpow s) /\ dsorted true (prevpow s').
Proof. exact (updates_applicable s s' ups). Qed.
(* ... and what that set IS afterwards: exactly the first MaxValidators entries of the power index walked from the top
   (by C05_rank_key_order: power descending, address ascending; by C06: exactly the staked unjailed validators), each
   with power floor(stake / 10^6); everybody else is absent *)
Theorem C05_set_is_the_top_of_the_index s s' ups : idx_sound s -> dsorted true (prevpow s) -> update_tm_validators s = Some (s', ups) ->
  let walked := map snd (firstn (Z.to_nat (p_max_validators (pp s))) (rev (powidx s))) in
  forall a, aget (prevpow s') a = if mem a walked then option_map (fun v => power_of (v_tokens v)) (get_val s a) else None.
Proof. exact (tm_set_is_top_of_index s s' ups). Qed.
(* the whole history, as Tendermint sees it: it starts with the set the module has on record and applies the batch of every
   EndBlock; then every batch of every EndBlock is applicable to the set it has at that moment, and after every EndBlock
   its set equals the module's record - which by C05_set_is_the_top_of_the_index is the top MaxValidators of the index.
   Nothing but EndBlock's update touches that record (App/TmProofs.v, App/Frames.v) *)
Theorem C05_whole_history_as_seen_by_tendermint MA ops s s' : tinv MA s -> Forall (op_ok MA) ops -> run ops s = Some s' ->
  tm_run ops s (prevpow s) s' (prevpow s') /\ tinv MA s'.
Proof. exact (history_as_seen_by_tendermint MA ops s s'). Qed.
Theorem C05_tm_run_reading_end s tm r s' tm' : tm_run (OEnd :: r) s tm s' tm' ->
  exists s1 ups, end_block s = Some (s1, ups) /\ applicable tm ups /\ tm_run r s1 (apply_updates ups tm) s' tm'.
Proof. intros H. inversion H; subst; [eauto|]. match goal with N : OEnd <> OEnd |- _ => contradiction end. Qed.
Example C05_ex_tinv : exists s ups, ex_genesis = Some (s, ups) /\ pool_ok ex_ma s /\ idx_sound s.
Proof. destruct ex_genesis_all_ok as (s & ups & E & _ & I & P & _). exists s, ups. auto. Qed.
Theorem C05_genesis_index_sound s0 gvals dao s ups :
  idx_sound s0 -> NoDup (map g_addr gvals) -> (forall g, In g gvals -> aget (vals s0) (g_addr g) = None) ->
  init_chain s0 gvals dao = Some (s, ups) -> idx_sound s.
Proof. exact (init_chain_is s0 gvals dao s ups). Qed.
Example C05_ex : match ex_genesis with Some (s, ups) => ups = [(A1, 2)] /\ aget (prevpow s) A1 = Some 2 | None => False end.
Proof. vm_compute. split; reflexivity. Qed.
Print Assumptions C05_rank_key_order.
Print Assumptions C05_rank_key_injective.
Print Assumptions C05_index_entries_are_staked_unjailed_all_histories.
Print Assumptions C05_updates_always_applicable.
Print Assumptions C05_set_is_the_top_of_the_index.
Print Assumptions C05_whole_history_as_seen_by_tendermint.
