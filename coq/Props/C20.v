(* C20 — Encodings round-trip, sign bytes are canonical, malformed input is refused.
   Statements only; every proof is [exact <lemma>].  What is PROVED here is the byte-level logic
   the property rests on: the uvarint length prefix of amino frames, the decoders' range checks
   for Int/Uint text, canonical JSON (the sign bytes) and the store keys.  The reflection-driven
   amino struct codec itself (go-amino) is not modelled: its round trips and its behaviour on
   hostile bytes are decided by the correspondence/oracle streams of the `codec` engine only -
   the property is therefore labelled partial for that part (DESIGN.md). *)
From Coq Require Import List ZArith NArith Bool Permutation.
From PM Require Import Base.Bytes Store.KV Num.IntModel Num.IntProofs App.Model App.KeyProofs Codec.CodecModel Codec.CodecProofs Codec.DecText.
Import ListNotations.
Local Open Scope Z_scope.

(* length-prefixed frames decode back to the payload and the untouched remainder *)
Theorem C20_uvarint_roundtrip z rest : 0 <= z < 2 ^ 64 -> uvarint_decode (uvarint z ++ rest) = Some (z, rest).
Proof. exact (uvarint_roundtrip z rest). Qed.
Theorem C20_frame_roundtrip bare rest : Z.of_nat (length bare) < 2 ^ 64 -> unframe (frame bare ++ rest) = Some (bare, rest).
Proof. exact (frame_roundtrip bare rest). Qed.

(* Int / Uint text decoders accept exactly the representable range (malformed = out of range is refused) *)
Theorem C20_int_unmarshal z : (in_int z /\ int_unmarshal z = Some z) \/ (~ in_int z /\ int_unmarshal z = None).
Proof. exact (int_unmarshal_exact z). Qed.
Theorem C20_uint_unmarshal z : (in_uint z /\ uint_unmarshal z = Some z) \/ (~ in_uint z /\ uint_unmarshal z = None).
Proof. exact (uint_unmarshal_exact z). Qed.

(* the text form of a decimal (Dec.String: eighteen fractional digits, zero padding and placement of the point done by
   hand) parses back (NewDecFromStr) to exactly the same value, for every value *)
Theorem C20_dec_text_roundtrip z : text_to_dec (dec_to_text z) = Some z.
Proof. exact (dec_text_roundtrip z). Qed.

(* sign bytes: the same logical content gives the same bytes ... *)
Theorem C20_object_field_order_irrelevant l1 l2 :
  NoDup (map fst l1) -> Permutation l1 l2 -> sort_json (JObj l1) = sort_json (JObj l2).
Proof. intros N P. unfold sort_json. f_equal. exact (canon_perm l1 l2 N P). Qed.
Theorem C20_same_content_same_canonical_object l1 l2 :
  (forall k, clook l1 k = clook l2 k) -> sort_json (JObj l1) = sort_json (JObj l2).
Proof. intros E. unfold sort_json. f_equal. exact (canon_obj_ext l1 l2 E). Qed.
Theorem C20_sign_bytes_canonical c e m f g f' g' :
  canon f = canon f' -> canon g = canon g' -> sign_bytes c e m f g = sign_bytes c e m f' g'.
Proof. exact (sign_bytes_canonical c e m f g f' g'). Qed.
(* ... and different content gives different bytes (chain id, entropy, memo, fee, message) *)
Theorem C20_sign_bytes_injective c e m f g c' e' m' f' g' :
  wf_bytes c -> wf_bytes e -> wf_bytes m -> json_wf f -> json_wf g ->
  wf_bytes c' -> wf_bytes e' -> wf_bytes m' -> json_wf f' -> json_wf g' ->
  sign_bytes c e m f g = sign_bytes c' e' m' f' g' ->
  c = c' /\ e = e' /\ m = m' /\ canon f = canon f' /\ canon g = canon g'.
Proof. exact (sign_bytes_injective c e m f g c' e' m' f' g'). Qed.
Theorem C20_render_injective j1 j2 : json_wf j1 -> json_wf j2 -> render j1 = render j2 -> j1 = j2.
Proof. exact (render_injective j1 j2). Qed.

(* keys order the way the values do, and decode back to them *)
Theorem C20_rank_key_order t1 a1 t2 a2 :
  0 <= power_of t1 < 2 ^ 64 -> 0 <= power_of t2 < 2 ^ 64 -> wf_bytes a1 -> wf_bytes a2 -> length a1 = length a2 ->
  bcompare (rank_key t1 a1) (rank_key t2 a2) = match power_of t1 ?= power_of t2 with Eq => bcompare a2 a1 | c => c end.
Proof. exact (rank_key_order t1 a1 t2 a2). Qed.
Theorem C20_rank_key_injective t1 a1 t2 a2 :
  0 <= power_of t1 < 2 ^ 64 -> 0 <= power_of t2 < 2 ^ 64 -> wf_bytes a1 -> wf_bytes a2 -> length a1 = length a2 ->
  rank_key t1 a1 = rank_key t2 a2 -> power_of t1 = power_of t2 /\ a1 = a2.
Proof. exact (rank_key_injective t1 a1 t2 a2). Qed.
Theorem C20_time_key_order a b : tfields_ok a -> tfields_ok b -> bcompare (time_text a) (time_text b) = tfields_compare a b.
Proof. exact (time_text_order a b). Qed.
Theorem C20_time_key_injective a b : tfields_ok a -> tfields_ok b -> time_text a = time_text b -> a = b.
Proof. exact (time_text_injective a b). Qed.

(* non-vacuity: concrete values meet the hypotheses and exercise the definitions *)
Example C20_ex_uvarint : uvarint 300 = [172; 2]%N /\ uvarint_decode [172; 2; 7]%N = Some (300, [7%N]).
Proof. vm_compute. split; reflexivity. Qed.
Example C20_ex_overlong : uvarint_decode [255; 255; 255; 255; 255; 255; 255; 255; 255; 2]%N = None.
Proof. vm_compute. reflexivity. Qed.
Example C20_ex_canon :
  sort_json (JObj [([98]%N, JStr [34; 60]%N); ([97]%N, JArr [JNull; JBool true]); ([98]%N, JStr [120]%N)])
  = [123; 34; 97; 34; 58; 91; 110; 117; 108; 108; 44; 116; 114; 117; 101; 93; 44; 34; 98; 34; 58; 34; 120; 34; 125]%N.
Proof. vm_compute. reflexivity. Qed.
Example C20_ex_time : tfields_ok {| t_year := 2020; t_month := 9; t_day := 13; t_hour := 12; t_min := 26; t_sec := 40; t_nano := 5 |}
  /\ time_text {| t_year := 2020; t_month := 9; t_day := 13; t_hour := 12; t_min := 26; t_sec := 40; t_nano := 5 |}
     = [50;48;50;48;45;48;57;45;49;51;84;49;50;58;50;54;58;52;48;46;48;48;48;48;48;48;48;48;53]%N.
Proof. split; [unfold tfields_ok; cbn; repeat split; discriminate || reflexivity|vm_compute; reflexivity]. Qed.
Print Assumptions C20_uvarint_roundtrip.
Print Assumptions C20_frame_roundtrip.
Print Assumptions C20_int_unmarshal.
Print Assumptions C20_uint_unmarshal.
Print Assumptions C20_dec_text_roundtrip.
Print Assumptions C20_object_field_order_irrelevant.
Print Assumptions C20_same_content_same_canonical_object.
Print Assumptions C20_sign_bytes_canonical.
Print Assumptions C20_sign_bytes_injective.
Print Assumptions C20_render_injective.
Print Assumptions C20_rank_key_order.
Print Assumptions C20_rank_key_injective.
Print Assumptions C20_time_key_order.
Print Assumptions C20_time_key_injective.
