(* C17 — Governance: only the listed owner changes a parameter or moves DAO funds. Statements only. *)
From Coq Require Import List ZArith NArith Bool.
From PM Require Import Base.Bytes Store.KV Store.MergeProofs Num.IntModel Num.DecModel Num.DecProofs
  App.Model App.BankProofs App.TxProofs App.KeyProofs App.GovProofs App.PoolProofs App.DaoProofs App.Examples App.Invariants App.KeyTypes App.KeyTypesMore.
Import ListNotations.
Local Open Scope Z_scope.

Theorem C17_params_change_needs_owner s m s' : handle s m = HOk s' -> gov_view s' <> gov_view s ->
  (exists f key v raw wf, m = MChangeParam f key v raw wf /\ beqb (owner_of (acl s) key) f = true) \/
  (exists f h raw, m = MUpgrade f h raw /\ beqb (owner_of (acl s) [103;111;118;47;117;112;103;114;97;100;101]%N) f = true).
Proof. exact (params_change_needs_owner s m s'). Qed.
Theorem C17_change_alters_that_parameter_alone s f key v raw s' : dsorted true (params_raw s) ->
  handle s (MChangeParam f key v raw true) = HOk s' ->
  forall k, k <> key -> aget (params_raw s') k = aget (params_raw s) k.
Proof. exact (param_change_alters_one s f key v raw s'). Qed.
Theorem C17_dao_needs_owner s f t amt act s' : handle s (MDao f t amt act) = HOk s' ->
  beqb (dao_owner s) f = true /\
  ((act = 1%N /\ bank_send s (m_dao (ma s)) t amt = Some s') \/ (act = 2%N /\ bank_burn s (m_dao (ma s)) amt = Some s')) /\
  0 <= amt <= bal s (m_dao (ma s)).
Proof. exact (dao_needs_owner s f t amt act s'). Qed.
(* over the whole block cycle: NO operation (BeginBlock with votes / evidence / rewards / burns, EndBlock, awards,
   burns, commits, any other transaction) changes any parameter, the ACL, the DAO owner or the upgrade plan -
   only a delivered change-parameter / upgrade transaction whose sender is the ACL owner of that key *)
Theorem C17_only_the_owners_tx_changes_parameters s o s' : step s o = Some s' -> gov_view s' <> gov_view s ->
  exists t s1, o = OTx t /\ ante s t = Some s1 /\ acl s1 = acl s /\
    ((exists f key v raw wf, t_msg t = MChangeParam f key v raw wf /\ beqb (owner_of (acl s) key) f = true /\ msg_signer (t_msg t) = f) \/
     (exists f h raw, t_msg t = MUpgrade f h raw /\ beqb (owner_of (acl s) [103;111;118;47;117;112;103;114;97;100;101]%N) f = true)).
Proof. exact (params_change_only_by_owner_tx s o s'). Qed.
(* ... and the same when the consensus parameters admit ed25519 validator keys only (step_cp, App/KeyTypes.v) *)
Theorem C17_only_the_owners_tx_changes_parameters_under_key_restriction r s o s' : step_cp r s o = Some s' -> gov_view s' <> gov_view s ->
  exists t s1, o = OTx t /\ ante s t = Some s1 /\ acl s1 = acl s /\
    ((exists f key v raw wf, t_msg t = MChangeParam f key v raw wf /\ beqb (owner_of (acl s) key) f = true /\ msg_signer (t_msg t) = f) \/
     (exists f h raw, t_msg t = MUpgrade f h raw /\ beqb (owner_of (acl s) [103;111;118;47;117;112;103;114;97;100;101]%N) f = true)).
Proof. exact (params_change_only_by_owner_tx_cp r s o s'). Qed.
(* an ACL that lists a parameter more than once: the FIRST entry names its owner, entries for the same key further down
   change nothing whatever address they carry (ACL.GetOwner's loop; ModifyParam installs any list unchecked) *)
Theorem C17_first_acl_entry_owns l1 k a l2 :
  (forall p, In p l1 -> fst p <> k) -> owner_of (l1 ++ (k, a) :: l2) k = a.
Proof. exact (owner_of_first_entry l1 k a l2). Qed.
Theorem C17_later_acl_entries_for_a_key_are_ignored l1 k a l2 l2' :
  (forall p, In p l1 -> fst p <> k) -> owner_of (l1 ++ (k, a) :: l2) k = owner_of (l1 ++ (k, a) :: l2') k.
Proof. exact (owner_of_ignores_later_entries l1 k a l2 l2'). Qed.

Theorem C17_begin_block_changes_no_parameter s h t prop votes evs s' : begin_block s h t prop votes evs = Some s' -> gov_view s' = gov_view s.
Proof. exact (gv_begin_block s h t prop votes evs s'). Qed.
Theorem C17_end_block_changes_no_parameter s s' ups : end_block s = Some (s', ups) -> gov_view s' = gov_view s.
Proof. exact (gv_end_block s s' ups). Qed.
(* DAO funds, over the whole block cycle: in every step of every history (module accounts at distinct addresses, no
   transaction signed by the pool's or the DAO's address) the DAO balance does not go down - except in a delivered DAO
   message whose sender is the DAO owner, and then by at most the stated amount (App/DaoProofs.v) *)
Theorem C17_dao_balance_falls_only_by_the_owners_message MA s o s' : m_fee MA <> m_dao MA -> m_pos MA <> m_dao MA ->
  pool_ok MA s -> op_okd MA o -> step s o = Some s' ->
  pool_ok MA s' /\
  (bal s (m_dao MA) <= bal s' (m_dao MA) \/
   exists t f to amt act, o = OTx t /\ t_msg t = MDao f to amt act /\ beqb (dao_owner s) f = true /\ 0 <= amt /\
                          bal s (m_dao MA) - amt <= bal s' (m_dao MA)).
Proof. intros Df Dp. exact (step_dao MA Df Dp s o s'). Qed.
Example C17_ex_dao_premises : m_fee ex_ma <> m_dao ex_ma /\ m_pos ex_ma <> m_dao ex_ma /\ Forall (op_okd ex_ma) ex_ops /\
  (exists s ups, ex_genesis = Some (s, ups) /\ pool_ok ex_ma s).
Proof.
  split; [discriminate|]. split; [discriminate|]. split; [repeat constructor; cbn; discriminate|].
  destruct ex_genesis_all_ok as (s & ups & E & _ & _ & P & _). exists s, ups. auto.
Qed.
Example C17_ex : match ex_genesis with
  | Some (s, _) => handle s (MDao A2 A3 5 1) = HErr s /\ (exists s', handle s (MDao A1 A3 5 1) = HOk s' /\ bal s' DAO = 495)
  | None => False end.
Proof. vm_compute. split; [reflexivity|eexists; split; reflexivity]. Qed.
Print Assumptions C17_params_change_needs_owner.
Print Assumptions C17_dao_needs_owner.
Print Assumptions C17_only_the_owners_tx_changes_parameters.
Print Assumptions C17_only_the_owners_tx_changes_parameters_under_key_restriction.
Print Assumptions C17_dao_balance_falls_only_by_the_owners_message.
Print Assumptions C17_first_acl_entry_owns.
Print Assumptions C17_later_acl_entries_for_a_key_are_ignored.
