(* C09 — Jailed validators have no power; unjail and tombstone rules hold. Statements only. *)
From Coq Require Import List ZArith NArith Bool.
From PM Require Import Base.Bytes Store.KV Store.MergeProofs Num.IntModel Num.DecModel Num.DecProofs
  App.Model App.BankProofs App.TxProofs App.KeyProofs App.PosProofs App.IndexProofs App.TombProofs App.UpdateProofs App.KeyTypes App.KeyTypesMore App.Examples App.Invariants.
Import ListNotations.
Local Open Scope Z_scope.

Theorem C09_unjail_preconditions s a s' : handle s (MUnjail a) = HOk s' ->
  exists v si, get_val s a = Some v /\ v_jailed v = true /\ p_min_stake (pp s) <= v_tokens v /\
    aget (sinfo s) a = Some si /\ si_tomb si = false /\ si_jailed_until si <= btime s /\ unjail s a = Some s'.
Proof. exact (unjail_preconditions s a s'). Qed.
Theorem C09_unjail_effect s a s' v : dsorted true (vals s) -> dsorted true (powidx s) -> get_val s a = Some v -> unjail s a = Some s' ->
  exists v', get_val s' a = Some v' /\ v_jailed v' = false /\ v_tokens v' = v_tokens v /\ v_status v' = v_status v /\
    (v_status v = 2%N -> aget (powidx s') (rank_key (v_tokens v) a) = Some a).
Proof. exact (unjail_effect s a s' v). Qed.
Theorem C09_jailed_leaves_index s a s' v : dsorted true (vals s) -> dsorted true (powidx s) ->
  get_val s a = Some v -> jail s a = Some s' ->
  aget (powidx s') (rank_key (v_tokens v) a) = None /\ exists v', get_val s' a = Some v' /\ v_jailed v' = true.
Proof. exact (jail_removes_from_index s a s' v). Qed.
Theorem C09_jailed_never_indexed s a v : v_jailed v = true \/ v_status v <> 2%N -> set_staked s a v = s.
Proof. exact (set_staked_skips_jailed s a v). Qed.
Theorem C09_double_sign_tombstones s a h t p s' : handle_double_sign s a h t p = Some s' ->
  exists si, aget (sinfo s') a = Some si /\ si_tomb si = true /\ si_jailed_until si = double_sign_jail_end.
Proof. exact (double_sign_tombstones s a h t p s'). Qed.
Theorem C09_tombstoned_never_unjails s a si : aget (sinfo s) a = Some si -> si_tomb si = true ->
  forall s', handle s (MUnjail a) <> HOk s'.
Proof. exact (tombstoned_never_unjails s a si). Qed.
(* ---- every continuation of every history ---- *)
(* a jailed validator has no entry in the power index, in every reachable state *)
Theorem C09_jailed_never_in_index_all_histories ops s s' a v : idx_sound s -> run ops s = Some s' ->
  get_val s' a = Some v -> v_jailed v = true -> forall k, aget (powidx s') k <> Some a.
Proof. intros H E. exact (jailed_never_indexed s' a v (run_is ops s s' H E)). Qed.
(* tombstoned and jailed permanently (finding F24 repaired: a tombstoned address never stakes again) *)
Theorem C09_tombstoned_forever ops s s' a : tomb_ok s -> tombed (sinfo s) a -> run ops s = Some s' ->
  tombed (sinfo s') a /\ forall v, get_val s' a = Some v -> v_jailed v = true.
Proof. exact (tombstoned_forever ops s s' a). Qed.
Theorem C09_tombstoned_never_regains_power ops s s' a : tomb_ok s -> idx_sound s -> tombed (sinfo s) a ->
  run ops s = Some s' -> forall k, aget (powidx s') k <> Some a.
Proof. exact (tombstoned_never_indexed ops s s' a). Qed.
(* the same over every history run under consensus parameters that admit ed25519 validator keys only *)
Theorem C09_tombstoned_forever_under_key_restriction r ops s s' a : tomb_ok s -> tombed (sinfo s) a -> run_cp r ops s = Some s' ->
  tombed (sinfo s') a /\ forall v, get_val s' a = Some v -> v_jailed v = true.
Proof. exact (tombstoned_forever_cp r ops s s' a). Qed.
Theorem C09_tombstoned_never_regains_power_under_key_restriction r ops s s' a : tomb_ok s -> idx_sound s -> tombed (sinfo s) a ->
  run_cp r ops s = Some s' -> forall k, aget (powidx s') k <> Some a.
Proof. exact (tombstoned_never_indexed_cp r ops s s' a). Qed.
Theorem C09_genesis_tomb_ok s0 gvals dao s ups : tomb_ok s0 -> (forall a, ~ tombed (sinfo s0) a) ->
  init_chain s0 gvals dao = Some (s, ups) -> tomb_ok s.
Proof. exact (init_chain_tomb s0 gvals dao s ups). Qed.
(* "From the validator-set update following its jailing ... absent from Tendermint's set": after ANY update of the set
   (EndBlock of any reachable state) a validator that is jailed or not staked is not in the set the module reports to
   Tendermint, and every member is a staked, unjailed validator with exactly the power of its stake *)
Theorem C09_jailed_absent_from_the_reported_set s s' ups a v : idx_sound s -> dsorted true (prevpow s) ->
  update_tm_validators s = Some (s', ups) -> get_val s a = Some v -> (v_jailed v = true \/ v_status v <> 2%N) ->
  aget (prevpow s') a = None.
Proof. exact (jailed_absent_from_tm_set s s' ups a v). Qed.
Theorem C09_members_have_the_power_of_their_stake s s' ups a p : idx_sound s -> dsorted true (prevpow s) ->
  update_tm_validators s = Some (s', ups) -> aget (prevpow s') a = Some p ->
  exists v, get_val s a = Some v /\ v_status v = 2%N /\ v_jailed v = false /\ p = power_of (v_tokens v).
Proof. exact (member_has_the_power_of_its_stake s s' ups a p). Qed.
Example C09_ex : match ex_genesis with
  | Some (s, _) => match handle_double_sign (set_block s 5 50) A1 4 40 2 with
                   | Some s' => option_map v_jailed (get_val s' A1) = Some true /\ powidx s' = [] /\
                                (forall s'', handle s' (MUnjail A1) <> HOk s'')
                   | None => False end
  | None => False end.
Proof. vm_compute. repeat split; try reflexivity. intros s'' H; discriminate H. Qed.
Print Assumptions C09_unjail_preconditions.
Print Assumptions C09_double_sign_tombstones.
Print Assumptions C09_tombstoned_forever.
Print Assumptions C09_tombstoned_never_regains_power_under_key_restriction.
Print Assumptions C09_tombstoned_never_regains_power.
Print Assumptions C09_jailed_never_in_index_all_histories.
Print Assumptions C09_jailed_absent_from_the_reported_set.
