(* Byte strings as lists of N (each < 256 when well formed) with Go's bytes.Compare /
   string comparison: lexicographic, a proper prefix sorts first. *)
From Coq Require Import List NArith Bool Lia.
Import ListNotations.
Local Open Scope N_scope.

Definition byte := N.
Definition bytes := list byte.

Fixpoint bcompare (a b : bytes) : comparison :=
  match a, b with
  | [], [] => Eq
  | [], _ :: _ => Lt
  | _ :: _, [] => Gt
  | x :: a', y :: b' => match x ?= y with Eq => bcompare a' b' | c => c end
  end.

Definition bltb (a b : bytes) : bool := match bcompare a b with Lt => true | _ => false end.
Definition bleb (a b : bytes) : bool := match bcompare a b with Gt => false | _ => true end.
Definition beqb (a b : bytes) : bool := match bcompare a b with Eq => true | _ => false end.

Fixpoint has_prefix (p k : bytes) : bool :=
  match p, k with
  | [], _ => true
  | _ :: _, [] => false
  | x :: p', y :: k' => (x =? y) && has_prefix p' k'
  end.

Definition wf_bytes (b : bytes) : Prop := Forall (fun x => x < 256) b.
Definition wf_bytesb (b : bytes) : bool := forallb (fun x => x <? 256) b.

Lemma bcompare_refl a : bcompare a a = Eq.
Proof. induction a as [|x a IH]; simpl; auto. rewrite N.compare_refl; auto. Qed.

Lemma bcompare_eq a b : bcompare a b = Eq <-> a = b.
Proof.
  split; [|intros ->; apply bcompare_refl].
  revert b; induction a as [|x a IH]; intros [|y b]; simpl; try discriminate; auto.
  destruct (x ?= y) eqn:E; try discriminate.
  apply N.compare_eq in E; subst. intros H; f_equal; auto.
Qed.

Lemma bcompare_antisym a b : bcompare b a = CompOpp (bcompare a b).
Proof.
  revert b; induction a as [|x a IH]; intros [|y b]; simpl; auto.
  rewrite (N.compare_antisym x y). destruct (x ?= y); simpl; auto.
Qed.

Lemma bcompare_lt_trans a b c : bcompare a b = Lt -> bcompare b c = Lt -> bcompare a c = Lt.
Proof.
  revert b c; induction a as [|x a IH]; intros [|y b] [|z c]; simpl; try discriminate; auto.
  destruct (x ?= y) eqn:E1; try discriminate; destruct (y ?= z) eqn:E2; try discriminate; intros H1 H2.
  - apply N.compare_eq in E1, E2; subst. rewrite N.compare_refl; eauto.
  - apply N.compare_eq in E1; subst. rewrite E2; auto.
  - apply N.compare_eq in E2; subst. rewrite E1; auto.
  - rewrite N.compare_lt_iff in *. assert (x < z) by lia. rewrite <- N.compare_lt_iff in H. rewrite H; auto.
Qed.

Lemma bltb_irrefl a : bltb a a = false.
Proof. unfold bltb; rewrite bcompare_refl; auto. Qed.

Lemma bltb_trans a b c : bltb a b = true -> bltb b c = true -> bltb a c = true.
Proof.
  unfold bltb; destruct (bcompare a b) eqn:E1; try discriminate;
  destruct (bcompare b c) eqn:E2; try discriminate; intros _ _.
  rewrite (bcompare_lt_trans _ _ _ E1 E2); auto.
Qed.

Lemma bltb_antisym a b : bltb a b = true -> bltb b a = false.
Proof. unfold bltb; rewrite (bcompare_antisym a b); destruct (bcompare a b); simpl; auto; discriminate. Qed.

Lemma bltb_total a b : bltb a b = true \/ a = b \/ bltb b a = true.
Proof.
  unfold bltb; rewrite (bcompare_antisym a b); destruct (bcompare a b) eqn:E; simpl; auto.
  apply bcompare_eq in E; auto.
Qed.

Lemma beqb_eq a b : beqb a b = true <-> a = b.
Proof. unfold beqb; rewrite <- bcompare_eq; destruct (bcompare a b); split; auto; discriminate. Qed.

Lemma has_prefix_app p k : has_prefix p k = true <-> exists s, k = p ++ s.
Proof.
  revert k; induction p as [|x p IH]; intros k; simpl.
  - split; eauto.
  - destruct k as [|y k]; [split; [discriminate|intros [s Hs]; discriminate]|].
    rewrite andb_true_iff, N.eqb_eq, IH. split.
    + intros [-> [s ->]]; eauto.
    + intros [s Hs]; inversion Hs; eauto.
Qed.
