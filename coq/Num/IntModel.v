(* L0 model of types/int.go and types/uint.go: big.Int-backed integers with a
   bit-length bound checked after (Int, Uint) or before+after (Int.Mul) each operation.
   A Go panic is [None]. Model only; proofs live in IntProofs.v. *)
From Coq Require Import ZArith Bool.
Local Open Scope Z_scope.

(* big.Int.BitLen: length of |z| in bits, 0 for 0 *)
Definition bitlen (z : Z) : Z := if z =? 0 then 0 else Z.log2 (Z.abs z) + 1.

Definition max_bit_len : Z := 255.          (* types/int.go: maxBitLen *)

(* ---- Int ---- *)
Definition int_ok (z : Z) : bool := bitlen z <=? max_bit_len.
Definition int_chk (z : Z) : option Z := if int_ok z then Some z else None.

Definition int_new_from_big (z : Z) : option Z := int_chk z.           (* NewIntFromBigInt *)
Definition int_add (a b : Z) : option Z := int_chk (a + b).
Definition int_sub (a b : Z) : option Z := int_chk (a - b).
Definition int_mul (a b : Z) : option Z :=
  if bitlen a + bitlen b - 1 >? max_bit_len then None else int_chk (a * b).
(* big.Int.Quo truncates toward zero; Int.Quo only checks the divisor *)
Definition int_quo (a b : Z) : option Z := if b =? 0 then None else Some (Z.quot a b).
(* big.Int.Mod is Euclidean: result in [0,|b|) *)
Definition euclid_mod (a b : Z) : Z := a mod (Z.abs b).
Definition int_mod (a b : Z) : option Z := if b =? 0 then None else Some (euclid_mod a b).
Definition int_neg (a : Z) : Z := - a.
Definition int_min (a b : Z) : Z := if a >? b then b else a.
Definition int_max (a b : Z) : Z := if a <? b then b else a.
Definition is_int64 (z : Z) : bool := (- 2^63 <=? z) && (z <? 2^63).
Definition int_int64 (a : Z) : option Z := if is_int64 a then Some a else None.

(* ---- Uint ---- *)
(* UintOverflow: sign >= 0 and BitLen <= 256 *)
Definition uint_ok (z : Z) : bool := (0 <=? z) && (bitlen z <=? 256).
Definition uint_chk (z : Z) : option Z := if uint_ok z then Some z else None.
Definition uint_add (a b : Z) : option Z := uint_chk (a + b).
Definition uint_sub (a b : Z) : option Z := uint_chk (a - b).
Definition uint_mul (a b : Z) : option Z := uint_chk (a * b).
(* div-by-zero panics inside big.Int.Quo *)
Definition uint_quo (a b : Z) : option Z := if b =? 0 then None else uint_chk (Z.quot a b).
Definition is_uint64 (z : Z) : bool := (0 <=? z) && (z <? 2^64).
Definition uint_uint64 (a : Z) : option Z := if is_uint64 a then Some a else None.

(* text decoders: Int uses the 255-bit check (types/int.go unmarshalText), Uint its own range
   (types/uint.go unmarshalUintText, after the repair of F10). [z] is the parsed number. *)
Definition int_unmarshal (z : Z) : option Z := int_chk z.
Definition uint_unmarshal (z : Z) : option Z := uint_chk z.

(* types/staking.go *)
Definition power_reduction : Z := 10^6.
Definition tokens_to_power (t : Z) : option Z :=
  match int_quo t power_reduction with Some q => int_int64 q | None => None end.
Definition tokens_from_power (p : Z) : option Z := int_mul p power_reduction.

(* boolean form of the Uint range, for the specification side of the decoder check *)
Definition in_uint_b (z : Z) : bool := (0 <=? z) && (z <? 2^256).
