(* Proofs about DecModel: chopPrecisionAndRound is round-half-even of d / 10^18 for every
   sign, the Truncate variants are toward zero, RoundUp is the ceiling, Mul/MulTruncate/
   QuoTruncate are exact; Quo and QuoRoundUp are NOT (double rounding, finding F9). *)
From Coq Require Import ZArith Bool Lia.
From PM Require Import Num.IntModel Num.IntProofs Num.DecModel.
Local Open Scope Z_scope.

Lemma P_val : P = 1000000000000000000. Proof. reflexivity. Qed.
Lemma P_pos : 0 < P. Proof. rewrite P_val; lia. Qed.
Lemma five_val : five_precision = 500000000000000000. Proof. reflexivity. Qed.
Lemma P_five : P = 2 * five_precision. Proof. rewrite P_val, five_val; lia. Qed.
Global Opaque P five_precision.

(* ---- the specification of rounding half to even ---- *)
Definition is_rhe (n d q : Z) : Prop :=
  2 * Z.abs (d * q - n) <= d /\ (2 * Z.abs (d * q - n) = d -> Z.even q = true).

Lemma round_half_even_ok n d : 0 < d -> is_rhe n d (round_half_even n d).
Proof.
  intros Hd. unfold is_rhe, round_half_even.
  pose proof (Z.div_mod n d ltac:(lia)) as E. pose proof (Z.mod_pos_bound n d Hd) as B.
  set (q := n / d) in *. set (r := n mod d) in *.
  destruct (Z.compare_spec (2 * r) d) as [H|H|H].
  - destruct (Z.even q) eqn:Ev.
    + split; [nia|auto].
    + split; [nia|]. intros _. rewrite Z.even_add, Ev. reflexivity.
  - split; [nia|]. intros; nia.
  - split; [nia|]. intros; nia.
Qed.

Lemma round_half_even_unique n d q1 q2 : 0 < d -> is_rhe n d q1 -> is_rhe n d q2 -> q1 = q2.
Proof.
  intros Hd [A1 E1] [A2 E2].
  assert (Z.abs (q1 - q2) <= 1) by nia.
  destruct (Z.eq_dec q1 q2); auto.
  assert (q1 = q2 + 1 \/ q2 = q1 + 1) as [->| ->] by lia.
  - assert (2 * Z.abs (d * (q2 + 1) - n) = d) by nia. assert (2 * Z.abs (d * q2 - n) = d) by nia.
    specialize (E1 ltac:(auto)). specialize (E2 ltac:(auto)).
    rewrite Z.even_add, E2 in E1. discriminate.
  - assert (2 * Z.abs (d * (q1 + 1) - n) = d) by nia. assert (2 * Z.abs (d * q1 - n) = d) by nia.
    specialize (E1 ltac:(auto)). specialize (E2 ltac:(auto)).
    rewrite Z.even_add, E1 in E2. discriminate.
Qed.

Lemma is_rhe_opp n d q : is_rhe n d q -> is_rhe (- n) d (- q).
Proof.
  unfold is_rhe. intros [A E]. replace (d * - q - - n) with (- (d * q - n)) by lia.
  rewrite Z.abs_opp, Z.even_opp. auto.
Qed.

Lemma chop_round_pos_eq d : 0 <= d -> chop_round_pos d = round_half_even d P.
Proof.
  intros Hd. pose proof P_pos. apply (round_half_even_unique d P); auto; [|apply round_half_even_ok; auto].
  unfold is_rhe, chop_round_pos.
  pose proof (Z.div_mod d P ltac:(lia)) as E. pose proof (Z.mod_pos_bound d P ltac:(lia)) as B.
  set (q := d / P) in *. set (r := d mod P) in *. pose proof P_five.
  destruct (Z.eqb_spec r 0) as [R0|R0]; [split; [nia|intros; nia]|].
  destruct (Z.compare_spec r five_precision) as [Hc|Hc|Hc].
  - destruct (Z.even q) eqn:Ev.
    + split; [nia|auto].
    + split; [nia|]. intros _. rewrite Z.even_add, Ev. reflexivity.
  - split; [nia|]. intros; nia.
  - split; [nia|]. intros; nia.
Qed.

(* C18: Dec rounding is half-to-even, for either sign *)
Theorem chop_round_spec d : is_rhe d P (chop_round d).
Proof.
  unfold chop_round. destruct (Z.ltb_spec d 0).
  - rewrite chop_round_pos_eq by lia.
    replace d with (- - d) at 1 by lia. apply is_rhe_opp, round_half_even_ok, P_pos.
  - rewrite chop_round_pos_eq by lia. apply round_half_even_ok, P_pos.
Qed.
Theorem chop_round_eq d : chop_round d = round_half_even d P.
Proof.
  apply (round_half_even_unique d P); [apply P_pos|apply chop_round_spec|apply round_half_even_ok, P_pos].
Qed.
Theorem chop_round_opp d : chop_round (- d) = - chop_round d.
Proof.
  apply (round_half_even_unique (- d) P); [apply P_pos|apply chop_round_spec|apply is_rhe_opp, chop_round_spec].
Qed.

(* truncation is toward zero; round-up is the ceiling *)
Theorem chop_trunc_spec d : chop_trunc d = Z.quot d P.
Proof. reflexivity. Qed.
Lemma ceil_div_spec n d : 0 < d -> d * (ceil_div n d - 1) < n <= d * ceil_div n d.
Proof.
  intros Hd. unfold ceil_div.
  pose proof (Z.div_mod (- n) d ltac:(lia)). pose proof (Z.mod_pos_bound (- n) d Hd). nia.
Qed.
Theorem chop_round_up_eq d : chop_round_up d = ceil_div d P.
Proof.
  pose proof P_pos as HP. pose proof (ceil_div_spec d P HP) as C.
  unfold chop_round_up, chop_trunc. destruct (Z.ltb_spec d 0).
  - rewrite Z.quot_div_nonneg by lia. unfold ceil_div. reflexivity.
  - pose proof (Z.div_mod d P ltac:(lia)). pose proof (Z.mod_pos_bound d P HP).
    destruct (Z.eqb_spec (d mod P) 0); nia.
Qed.

(* the range check of Dec results: |z| < 2^315 *)
Definition in_dec (z : Z) : Prop := Z.abs z < 2 ^ 315.
Lemma dec_chk_spec z : (in_dec z /\ dec_chk z = Some z) \/ (~ in_dec z /\ dec_chk z = None).
Proof.
  unfold dec_chk, dec_ok, dec_bits, in_dec. destruct (Z.leb_spec (bitlen z) (255 + 60)) as [H|H].
  - left; split; auto. apply bitlen_le in H; lia.
  - right; split; auto. intros Hn. apply bitlen_le in Hn; lia.
Qed.

Theorem dec_mul_exact a b : dec_mul a b = dec_chk (round_half_even (a * b) P).
Proof. unfold dec_mul. rewrite chop_round_eq. reflexivity. Qed.
Theorem dec_mul_truncate_exact a b : dec_mul_truncate a b = dec_chk (Z.quot (a * b) P).
Proof. reflexivity. Qed.

(* QuoTruncate is exact: trunc(trunc(a*10^36 / b) / 10^18) = trunc(a*10^18 / b) *)
Theorem dec_quo_truncate_exact a b : b <> 0 ->
  dec_quo_truncate a b = dec_chk (spec_quo_truncate a b).
Proof.
  intros Hb. pose proof P_pos. unfold dec_quo_truncate, spec_quo_truncate, chop_trunc.
  destruct (Z.eqb_spec b 0); [contradiction|].
  rewrite Z.quot_quot by lia. rewrite Z.quot_mul_cancel_r by lia. reflexivity.
Qed.

(* Ceil is the ceiling *)
Theorem dec_ceil_exact a : dec_ceil a = ceil_div a P * P.
Proof.
  pose proof P_pos as HP. pose proof (ceil_div_spec a P HP) as C.
  unfold dec_ceil. pose proof (Z.quot_rem' a P) as E.
  destruct (Z.eqb_spec (Z.rem a P) 0) as [R|R].
  - f_equal. nia.
  - destruct (Z.ltb_spec (Z.rem a P) 0) as [L|L].
    + assert (a < 0). { destruct (Z.lt_ge_cases a 0); auto. pose proof (Z.rem_bound_pos a P ltac:(lia) ltac:(lia)). lia. }
      pose proof (Z.rem_bound_pos_neg a P ltac:(lia) ltac:(lia)). f_equal. nia.
    + assert (0 <= a). { destruct (Z.lt_ge_cases a 0); auto. pose proof (Z.rem_nonpos a P ltac:(lia) ltac:(lia)). lia. }
      pose proof (Z.rem_bound_pos a P ltac:(lia) ltac:(lia)). f_equal. nia.
Qed.

(* ---- Quo and QuoRoundUp: refuted against exact rounding (F9) ---- *)
Theorem dec_quo_refuted : exists a b, b <> 0 /\ dec_quo a b <> dec_chk (spec_quo a b).
Proof. exists 1, 1999999999999999999. split; [lia|]. vm_compute. discriminate. Qed.
Theorem dec_quo_round_up_refuted : exists a b, b <> 0 /\ dec_quo_round_up a b <> dec_chk (spec_quo_round_up a b).
Proof. exists 1, 2000000000000000000000000000000000000. split; [lia|]. vm_compute. discriminate. Qed.

(* what Quo does compute: half-even rounding of the 36-digit TRUNCATED quotient *)
Theorem dec_quo_partial a b : b <> 0 ->
  dec_quo a b = dec_chk (round_half_even (Z.quot (a * P * P) b) P).
Proof. intros Hb. unfold dec_quo. destruct (Z.eqb_spec b 0); [contradiction|]. rewrite chop_round_eq; auto. Qed.
Theorem dec_quo_round_up_partial a b : b <> 0 ->
  dec_quo_round_up a b = dec_chk (ceil_div (Z.quot (a * P * P) b) P).
Proof. intros Hb. unfold dec_quo_round_up. destruct (Z.eqb_spec b 0); [contradiction|]. rewrite chop_round_up_eq; auto. Qed.

(* and it is exact whenever the division at 36 digits is exact (no second rounding) *)
Lemma rhe_scale n d k : 0 < d -> 0 < k -> round_half_even (n * k) (d * k) = round_half_even n d.
Proof.
  intros Hd Hk. apply (round_half_even_unique (n * k) (d * k)); [nia|apply round_half_even_ok; nia|].
  destruct (round_half_even_ok n d Hd) as [A E]. unfold is_rhe. set (q := round_half_even n d) in *.
  replace (d * k * q - n * k) with ((d * q - n) * k) by lia. rewrite Z.abs_mul, (Z.abs_eq k) by lia.
  split; [nia|]. intros; apply E; nia.
Qed.
Theorem dec_quo_exact_when_divisible a b : 0 < b -> Z.rem (a * P * P) b = 0 ->
  dec_quo a b = dec_chk (spec_quo a b).
Proof.
  intros Hb Hr. rewrite dec_quo_partial by lia. f_equal. unfold spec_quo.
  destruct (Z.ltb_spec b 0); [lia|]. pose proof P_pos.
  pose proof (Z.quot_rem' (a * P * P) b) as E. rewrite Hr in E.
  set (t := Z.quot (a * P * P) b) in *.
  rewrite <- (rhe_scale t P b) by lia. rewrite <- (rhe_scale (a * P) b P) by lia.
  f_equal; lia.
Qed.
