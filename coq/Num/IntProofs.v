(* Proofs about IntModel: the bit-length checks are exactly range checks, every operation is
   the exact Z operation when the result is representable and a panic exactly otherwise. *)
From Coq Require Import ZArith Bool Lia.
From PM Require Import Num.IntModel.
Local Open Scope Z_scope.

Lemma bitlen_nonneg z : 0 <= bitlen z.
Proof. unfold bitlen; destruct (Z.eqb_spec z 0); [lia|]. pose proof (Z.log2_nonneg (Z.abs z)); lia. Qed.

Lemma bitlen_le z n : 0 <= n -> (bitlen z <= n <-> Z.abs z < 2 ^ n).
Proof.
  intros Hn. unfold bitlen. destruct (Z.eqb_spec z 0) as [->|Hz].
  - simpl. split; intros _; [apply Z.pow_pos_nonneg; lia|lia].
  - assert (0 < Z.abs z) by lia. split; intros H1.
    + apply Z.log2_lt_pow2; lia.
    + apply Z.log2_lt_pow2 in H1; lia.
Qed.

Lemma bitlen_abs z : bitlen (Z.abs z) = bitlen z.
Proof. unfold bitlen. rewrite Z.abs_involutive. destruct (Z.eqb_spec z 0), (Z.eqb_spec (Z.abs z) 0); lia. Qed.

Lemma bitlen_opp z : bitlen (- z) = bitlen z.
Proof. rewrite <- bitlen_abs, Z.abs_opp, bitlen_abs; auto. Qed.

Lemma bitlen_lower z : z <> 0 -> 2 ^ (bitlen z - 1) <= Z.abs z.
Proof.
  intros Hz. unfold bitlen. destruct (Z.eqb_spec z 0); [lia|].
  replace (Z.log2 (Z.abs z) + 1 - 1) with (Z.log2 (Z.abs z)) by lia.
  apply Z.log2_spec. lia.
Qed.

Lemma int_ok_spec z : int_ok z = true <-> Z.abs z < 2 ^ 255.
Proof. unfold int_ok, max_bit_len. rewrite Z.leb_le. apply bitlen_le; lia. Qed.

Lemma int_ok_range z : int_ok z = true <-> - 2 ^ 255 < z < 2 ^ 255.
Proof. rewrite int_ok_spec. lia. Qed.

Lemma uint_ok_spec z : uint_ok z = true <-> 0 <= z < 2 ^ 256.
Proof.
  unfold uint_ok. rewrite andb_true_iff, !Z.leb_le, (bitlen_le z 256) by lia. lia.
Qed.

Definition in_int (z : Z) : Prop := - 2 ^ 255 < z < 2 ^ 255.
Definition in_uint (z : Z) : Prop := 0 <= z < 2 ^ 256.

Lemma int_chk_spec z : (in_int z /\ int_chk z = Some z) \/ (~ in_int z /\ int_chk z = None).
Proof.
  unfold int_chk, in_int. destruct (int_ok z) eqn:E.
  - left; split; auto. apply int_ok_range; auto.
  - right; split; auto. rewrite <- int_ok_range. congruence.
Qed.

Lemma uint_chk_spec z : (in_uint z /\ uint_chk z = Some z) \/ (~ in_uint z /\ uint_chk z = None).
Proof.
  unfold uint_chk, in_uint. destruct (uint_ok z) eqn:E.
  - left; split; auto. apply uint_ok_spec; auto.
  - right; split; auto. rewrite <- uint_ok_spec. congruence.
Qed.

(* Add / Sub: exact, panic iff out of range *)
Theorem int_add_exact a b :
  (in_int (a + b) /\ int_add a b = Some (a + b)) \/ (~ in_int (a + b) /\ int_add a b = None).
Proof. apply int_chk_spec. Qed.
Theorem int_sub_exact a b :
  (in_int (a - b) /\ int_sub a b = Some (a - b)) \/ (~ in_int (a - b) /\ int_sub a b = None).
Proof. apply int_chk_spec. Qed.

(* Mul: the pre-check is implied by the post-check, so Mul is exact as well. *)
(* the redundancy needs operands that are themselves Ints (always true for values built
   through the API) *)
Lemma mul_precheck_redundant a b :
  in_int a -> in_int b -> bitlen a + bitlen b - 1 > max_bit_len -> ~ in_int (a * b).
Proof.
  unfold max_bit_len, in_int. intros Ha Hb H.
  assert (La : bitlen a <= 255) by (apply bitlen_le; lia).
  assert (Lb : bitlen b <= 255) by (apply bitlen_le; lia).
  assert (a <> 0). { intros ->. unfold bitlen at 1 in H; simpl in H. lia. }
  assert (b <> 0). { intros ->. unfold bitlen at 2 in H; simpl in H. lia. }
  pose proof (bitlen_lower a ltac:(auto)) as Ba. pose proof (bitlen_lower b ltac:(auto)) as Bb.
  pose proof (bitlen_nonneg a). pose proof (bitlen_nonneg b).
  assert (1 <= bitlen a). { unfold bitlen. destruct (Z.eqb_spec a 0); [lia|]. pose proof (Z.log2_nonneg (Z.abs a)); lia. }
  assert (1 <= bitlen b). { unfold bitlen. destruct (Z.eqb_spec b 0); [lia|]. pose proof (Z.log2_nonneg (Z.abs b)); lia. }
  assert (2 ^ 255 <= Z.abs (a * b)).
  { rewrite Z.abs_mul.
    apply Z.le_trans with (2 ^ (bitlen a - 1) * 2 ^ (bitlen b - 1)).
    - rewrite <- Z.pow_add_r by lia. apply Z.pow_le_mono_r; lia.
    - apply Z.mul_le_mono_nonneg; auto; apply Z.pow_nonneg; lia. }
  lia.
Qed.

Theorem int_mul_exact a b : in_int a -> in_int b ->
  (in_int (a * b) /\ int_mul a b = Some (a * b)) \/ (~ in_int (a * b) /\ int_mul a b = None).
Proof.
  intros Ha Hb. unfold int_mul.
  destruct (Z.gtb_spec (bitlen a + bitlen b - 1) max_bit_len) as [H|H].
  - right; split; auto. apply mul_precheck_redundant; auto. lia.
  - apply int_chk_spec.
Qed.

(* Quo / Mod / Neg / Min / Max stay in range, so the absence of a check is sound *)
Theorem int_quo_exact a b : in_int a ->
  (b = 0 /\ int_quo a b = None) \/ (b <> 0 /\ int_quo a b = Some (Z.quot a b) /\ in_int (Z.quot a b)).
Proof.
  intros Ha. unfold int_quo. destruct (Z.eqb_spec b 0); [left; auto|right; split; [auto|split; [auto|]]].
  unfold in_int in *.
  assert (Z.abs (Z.quot a b) <= Z.abs a).
  { rewrite <- Z.quot_abs by auto. rewrite Z.quot_div_nonneg by lia. apply Z.div_le_upper_bound; nia. } lia.
Qed.

Theorem int_mod_exact a b : in_int b ->
  (b = 0 /\ int_mod a b = None) \/
  (b <> 0 /\ exists r, int_mod a b = Some r /\ 0 <= r < Z.abs b /\ (exists q, a = q * b + r) /\ in_int r).
Proof.
  intros Hb. unfold int_mod, euclid_mod. destruct (Z.eqb_spec b 0); [left; auto|right; split; auto].
  exists (a mod Z.abs b). pose proof (Z.mod_pos_bound a (Z.abs b) ltac:(lia)) as Hr.
  split; [auto|]. split; [lia|]. split; [|unfold in_int in *; lia].
  - exists (a / Z.abs b * Z.sgn b). pose proof (Z.div_mod a (Z.abs b) ltac:(lia)).
    rewrite <- Z.mul_assoc, (Z.mul_comm (Z.sgn b) b), <- Z.abs_sgn. lia.
Qed.

Theorem int_neg_in a : in_int a -> in_int (int_neg a).
Proof. unfold in_int, int_neg; lia. Qed.
Theorem int_min_spec a b : int_min a b = Z.min a b.
Proof. unfold int_min. destruct (Z.gtb_spec a b); lia. Qed.
Theorem int_max_spec a b : int_max a b = Z.max a b.
Proof. unfold int_max. destruct (Z.ltb_spec a b); lia. Qed.

Theorem int_int64_exact a :
  (- 2 ^ 63 <= a < 2 ^ 63 /\ int_int64 a = Some a) \/ (~ (- 2 ^ 63 <= a < 2 ^ 63) /\ int_int64 a = None).
Proof.
  unfold int_int64, is_int64.
  destruct (Z.leb_spec (- 2 ^ 63) a), (Z.ltb_spec a (2 ^ 63)); simpl; [left|right|right|right]; split; auto; lia.
Qed.

(* Uint *)
Theorem uint_add_exact a b :
  (in_uint (a + b) /\ uint_add a b = Some (a + b)) \/ (~ in_uint (a + b) /\ uint_add a b = None).
Proof. apply uint_chk_spec. Qed.
Theorem uint_sub_exact a b :
  (in_uint (a - b) /\ uint_sub a b = Some (a - b)) \/ (~ in_uint (a - b) /\ uint_sub a b = None).
Proof. apply uint_chk_spec. Qed.
Theorem uint_mul_exact a b :
  (in_uint (a * b) /\ uint_mul a b = Some (a * b)) \/ (~ in_uint (a * b) /\ uint_mul a b = None).
Proof. apply uint_chk_spec. Qed.
Theorem uint_quo_exact a b : in_uint a -> in_uint b ->
  (b = 0 /\ uint_quo a b = None) \/ (b <> 0 /\ uint_quo a b = Some (a / b) /\ in_uint (a / b)).
Proof.
  intros Ha Hb. unfold uint_quo. destruct (Z.eqb_spec b 0); [left; auto|right; split; auto].
  unfold in_uint in *. rewrite Z.quot_div_nonneg by lia.
  assert (0 <= a / b <= a). { split; [apply Z.div_pos; lia|apply Z.div_le_upper_bound; nia]. }
  destruct (uint_chk_spec (a / b)) as [[_ ->]|[Hn _]]; [split; auto; lia|unfold in_uint in Hn; lia].
Qed.

(* the Uint text decoder accepts exactly the Uint range (after the repair of F10) *)
Theorem uint_unmarshal_exact z :
  (in_uint z /\ uint_unmarshal z = Some z) \/ (~ in_uint z /\ uint_unmarshal z = None).
Proof. apply uint_chk_spec. Qed.
Theorem int_unmarshal_exact z :
  (in_int z /\ int_unmarshal z = Some z) \/ (~ in_int z /\ int_unmarshal z = None).
Proof. apply int_chk_spec. Qed.

(* power conversion: floor(t / 10^6), a panic when that does not fit an int64 *)
Theorem tokens_to_power_exact t : 0 <= t ->
  (t < 2 ^ 63 * 10 ^ 6 /\ tokens_to_power t = Some (t / 10 ^ 6)) \/
  (2 ^ 63 * 10 ^ 6 <= t /\ tokens_to_power t = None).
Proof.
  intros H0. unfold tokens_to_power, power_reduction, int_quo. simpl (10 ^ 6 =? 0).
  rewrite Z.quot_div_nonneg by lia.
  assert (0 <= t / 10 ^ 6) by (apply Z.div_pos; lia).
  destruct (Z.lt_ge_cases t (2 ^ 63 * 10 ^ 6)) as [Hl|Hg]; [left|right]; split; auto.
  - assert (t / 10 ^ 6 < 2 ^ 63) by (apply Z.div_lt_upper_bound; lia).
    destruct (int_int64_exact (t / 10 ^ 6)) as [[_ ->]|[Hn _]]; auto. lia.
  - assert (2 ^ 63 <= t / 10 ^ 6) by (apply Z.div_le_lower_bound; lia).
    destruct (int_int64_exact (t / 10 ^ 6)) as [[Hn _]|[_ ->]]; auto. lia.
Qed.
