(* Proofs about CoinsModel: canonical form is preserved, Add is the per-denomination sum,
   Sub its inverse, SafeSub's flag is exact, AmountOf's binary search is a lookup, the
   comparisons are per-denomination comparisons. *)
From Coq Require Import List ZArith Bool Lia.
From PM Require Import Base.Bytes Num.IntModel Num.IntProofs Num.CoinsModel.
Import ListNotations.
Local Open Scope Z_scope.

Fixpoint ssorted (cs : coins) : Prop :=
  match cs with
  | [] => True
  | c :: r => (forall c', In c' r -> bltb (fst c) (fst c') = true) /\ ssorted r
  end.
Definition nonzero (cs : coins) : Prop := Forall (fun c => snd c <> 0) cs.
Definition canon (cs : coins) : Prop := ssorted cs /\ nonzero cs.
Definition all_int (cs : coins) : Prop := Forall (fun c => in_int (snd c)) cs.
Definition all_pos (cs : coins) : Prop := Forall (fun c => 0 < snd c) cs.

Lemma beqb_refl d : beqb d d = true. Proof. apply beqb_eq; auto. Qed.
Lemma bltb_neq a b : bltb a b = true -> beqb a b = false.
Proof. unfold bltb, beqb. destruct (bcompare a b); auto; discriminate. Qed.
Lemma bltb_neq' a b : bltb a b = true -> beqb b a = false.
Proof. intros H. destruct (beqb b a) eqn:E; auto. apply beqb_eq in E; subst. rewrite bltb_irrefl in H; discriminate. Qed.

Lemma lookup_above d cs : (forall c, In c cs -> bltb d (fst c) = true) -> lookup cs d = 0.
Proof.
  induction cs as [|[d0 a0] r IH]; simpl; auto. intros H.
  rewrite (bltb_neq' d d0) by (apply (H (d0, a0)); auto). apply IH; auto.
Qed.
Lemma lookup_below d d' cs : (forall c, In c cs -> bltb d (fst c) = true) ->
  bltb d' d = true -> lookup cs d' = 0.
Proof.
  intros H L. apply lookup_above. intros c Hc. eapply bltb_trans; eauto.
Qed.

Lemma remove_zero_lookup cs d : ssorted cs -> lookup (remove_zero cs) d = lookup cs d.
Proof.
  induction cs as [|[d0 a0] r IH]; simpl; auto. intros [H S].
  destruct (Z.eqb_spec a0 0); simpl; rewrite IH; auto. subst. destruct (beqb d0 d) eqn:E; auto.
  apply beqb_eq in E; subst. apply lookup_above; auto.
Qed.
Lemma remove_zero_in c cs : In c (remove_zero cs) -> In c cs /\ snd c <> 0.
Proof.
  induction cs as [|[d0 a0] r IH]; simpl; [tauto|].
  destruct (Z.eqb_spec a0 0); simpl; intros H.
  - apply IH in H; tauto.
  - destruct H as [<-|H]; [simpl; auto|apply IH in H; tauto].
Qed.
Lemma remove_zero_sorted cs : ssorted cs -> ssorted (remove_zero cs).
Proof.
  induction cs as [|[d0 a0] r IH]; simpl; auto. intros [H1 H2].
  destruct (Z.eqb_spec a0 0); simpl; auto. split; auto.
  intros c Hc. apply remove_zero_in in Hc. apply H1; tauto.
Qed.
Lemma remove_zero_nonzero cs : nonzero (remove_zero cs).
Proof.
  induction cs as [|[d0 a0] r IH]; simpl; [constructor|].
  destruct (Z.eqb_spec a0 0); auto. constructor; auto.
Qed.
Lemma remove_zero_id cs : nonzero cs -> remove_zero cs = cs.
Proof.
  induction 1 as [|[d a] r H _ IH]; simpl; auto. simpl in H.
  destruct (Z.eqb_spec a 0); [contradiction|]. f_equal; auto.
Qed.

(* two canonical coin sets with the same amounts are the same list *)
Lemma canon_ext a b : canon a -> canon b -> (forall d, lookup a d = lookup b d) -> a = b.
Proof.
  revert b; induction a as [|[da xa] a IH]; intros [|[db xb] b] [Sa Na] [Sb Nb] E; auto.
  - specialize (E db). simpl in E. rewrite beqb_refl in E. inversion Nb; simpl in *; lia.
  - specialize (E da). simpl in E. rewrite beqb_refl in E. inversion Na; simpl in *; lia.
  - destruct Sa as [Ha Sa], Sb as [Hb Sb]. inversion Na as [|? ? Za Na']; inversion Nb as [|? ? Zb Nb']; subst. simpl in *.
    assert (da = db) as ->.
    { destruct (bltb_total da db) as [L|[->|L]]; auto; exfalso.
      - pose proof (E da) as E1. simpl in E1. rewrite beqb_refl, (bltb_neq' da db L) in E1.
        rewrite (lookup_above da b) in E1; [lia|]. intros c Hc. eapply bltb_trans; eauto.
      - pose proof (E db) as E1. simpl in E1. rewrite beqb_refl, (bltb_neq' db da L) in E1.
        rewrite (lookup_above db a) in E1; [lia|]. intros c Hc. eapply bltb_trans; eauto. }
    pose proof (E db) as E0. simpl in E0. rewrite beqb_refl in E0. subst xb.
    f_equal. apply IH; try (split; auto). intros d. specialize (E d). simpl in E.
    destruct (beqb db d) eqn:Eq; auto. apply beqb_eq in Eq; subst.
    rewrite !lookup_above; auto.
Qed.

(* unfolding of the merge *)
Lemma safe_add_nil_l b : safe_add [] b = Some (remove_zero b).
Proof. destruct b; reflexivity. Qed.
Lemma safe_add_nil_r a : safe_add a [] = Some (remove_zero a).
Proof. destruct a as [|[d x] a]; reflexivity. Qed.
Lemma safe_add_cons da xa a db xb b :
  safe_add ((da, xa) :: a) ((db, xb) :: b) =
  match bcompare da db with
  | Lt => match safe_add a ((db, xb) :: b) with
          | Some r => Some (if xa =? 0 then r else (da, xa) :: r) | None => None end
  | Eq => match int_add xa xb, safe_add a b with
          | Some s, Some r => Some (if s =? 0 then r else (da, s) :: r)
          | _, _ => None end
  | Gt => match safe_add ((da, xa) :: a) b with
          | Some r => Some (if xb =? 0 then r else (db, xb) :: r) | None => None end
  end.
Proof. reflexivity. Qed.

Definition lower_bounded (d : bytes) (cs : coins) : Prop := forall c, In c cs -> bltb d (fst c) = true.

(* the merge invariant: sorted, nonzero, per-denomination sum, and no new small denominations *)
Lemma safe_add_spec a : forall b r, ssorted a -> ssorted b -> safe_add a b = Some r ->
  ssorted r /\ nonzero r /\ (forall d, lookup r d = lookup a d + lookup b d) /\
  (forall d, lower_bounded d a -> lower_bounded d b -> lower_bounded d r).
Proof.
  induction a as [|[da xa] a IHa].
  - intros b r _ Sb. rewrite safe_add_nil_l. intros [= <-].
    split; [apply remove_zero_sorted; auto|]. split; [apply remove_zero_nonzero|].
    split; [intros; rewrite remove_zero_lookup; auto|].
    intros d _ Lb c Hc. apply remove_zero_in in Hc. apply Lb; tauto.
  - induction b as [|[db xb] b IHb]; intros r Sa Sb.
    + intros E. rewrite safe_add_nil_r in E.
      assert (r = remove_zero ((da, xa) :: a)) as -> by (inversion E; reflexivity). clear E.
      split; [apply (remove_zero_sorted ((da, xa) :: a)); auto|].
      split; [apply (remove_zero_nonzero ((da, xa) :: a))|].
      split; [intros; rewrite (remove_zero_lookup ((da, xa) :: a)) by auto; simpl; lia|].
      intros d La _ c Hc. apply (remove_zero_in c ((da, xa) :: a)) in Hc. apply La; tauto.
    + rewrite safe_add_cons. pose proof Sa as Sa0. pose proof Sb as Sb0. destruct Sa as [Ha Sa']. destruct Sb as [Hb Sb'].
      destruct (bcompare da db) eqn:C.
      * (* equal denoms *)
        apply bcompare_eq in C; subst db.
        destruct (int_add xa xb) as [s|] eqn:Es; [|discriminate].
        destruct (safe_add a b) as [r0|] eqn:Er; [|discriminate]. intros [= <-].
        destruct (IHa b r0 Sa' Sb' Er) as (S0 & N0 & L0 & B0).
        assert (s = xa + xb). { destruct (int_add_exact xa xb) as [[_ E]|[_ E]]; congruence. } subst s.
        assert (LB : lower_bounded da r0) by (apply B0; auto).
        destruct (Z.eqb_spec (xa + xb) 0) as [Z0|Z0].
        -- split; auto. split; auto. split.
           ++ intros d. simpl. rewrite L0. destruct (beqb da d) eqn:E; auto.
              apply beqb_eq in E; subst. rewrite !lookup_above by auto. lia.
           ++ intros d La Lb c Hc. eapply bltb_trans; [apply (La (da, xa)); simpl; auto|apply LB; auto].
        -- split; [simpl; auto|]. split; [constructor; auto|]. split.
           ++ intros d. simpl. rewrite L0. destruct (beqb da d) eqn:E; auto.
           ++ intros d La Lb c [<-|Hc]; [apply (La (da, xa)); simpl; auto|].
              eapply bltb_trans; [apply (La (da, xa)); simpl; auto|apply LB; auto].
      * (* da < db *)
        assert (Lt1 : bltb da db = true) by (unfold bltb; rewrite C; auto).
        destruct (safe_add a ((db, xb) :: b)) as [r0|] eqn:Er; [|discriminate]. intros [= <-].
        destruct (IHa _ r0 Sa' Sb0 Er) as (S0 & N0 & L0 & B0).
        assert (LB : lower_bounded da r0).
        { apply B0; auto. intros c [<-|Hc]; auto. eapply bltb_trans; eauto. }
        assert (Lk : forall d, (if beqb da d then xa else lookup r0 d) =
                     (if beqb da d then xa else lookup a d) + (if beqb db d then xb else lookup b d)).
        { intros d. destruct (beqb da d) eqn:E; [|apply L0].
          apply beqb_eq in E; subst. rewrite (bltb_neq' _ _ Lt1).
          rewrite (lookup_above d b); [lia|]. intros c Hc. eapply bltb_trans; eauto. }
        destruct (Z.eqb_spec xa 0) as [Z0|Z0].
        -- split; auto. split; auto. split.
           ++ intros d. simpl. specialize (Lk d). rewrite L0. simpl. destruct (beqb da d) eqn:E; auto.
              apply beqb_eq in E; subst. rewrite (lookup_above d a) by auto. lia.
           ++ intros d La Lb c Hc. eapply bltb_trans; [apply (La (da, xa)); simpl; auto|apply LB; auto].
        -- split; [simpl; auto|]. split; [constructor; auto|]. split.
           ++ intros d. simpl. apply Lk.
           ++ intros d La Lb c [<-|Hc]; [apply (La (da, xa)); simpl; auto|].
              eapply bltb_trans; [apply (La (da, xa)); simpl; auto|apply LB; auto].
      * (* da > db *)
        assert (Lt1 : bltb db da = true) by (unfold bltb; rewrite bcompare_antisym, C; auto).
        destruct (safe_add ((da, xa) :: a) b) as [r0|] eqn:Er; [|discriminate]. intros [= <-].
        destruct (IHb r0 Sa0 Sb' Er) as (S0 & N0 & L0 & B0).
        assert (LB : lower_bounded db r0).
        { apply B0; auto. intros c [<-|Hc]; auto. eapply bltb_trans; eauto. }
        assert (Lk : forall d, (if beqb db d then xb else lookup r0 d) =
                     (if beqb da d then xa else lookup a d) + (if beqb db d then xb else lookup b d)).
        { intros d. destruct (beqb db d) eqn:E; [|apply L0].
          apply beqb_eq in E; subst. rewrite (bltb_neq' _ _ Lt1).
          rewrite (lookup_above d a); [lia|]. intros c Hc. eapply bltb_trans; eauto. }
        destruct (Z.eqb_spec xb 0) as [Z0|Z0].
        -- split; auto. split; auto. split.
           ++ intros d. specialize (Lk d). rewrite L0. simpl. simpl in L0. destruct (beqb db d) eqn:E; auto.
              apply beqb_eq in E; subst. rewrite (lookup_above d b) by auto. lia.
           ++ intros d La Lb c Hc. eapply bltb_trans; [apply (Lb (db, xb)); simpl; auto|apply LB; auto].
        -- split; [simpl; auto|]. split; [constructor; auto|]. split.
           ++ intros d. simpl. apply Lk.
           ++ intros d La Lb c [<-|Hc]; [apply (Lb (db, xb)); simpl; auto|].
              eapply bltb_trans; [apply (Lb (db, xb)); simpl; auto|apply LB; auto].
Qed.

(* C18: Add keeps the canonical form and is the per-denomination sum *)
Theorem safe_add_canon a b r : ssorted a -> ssorted b -> safe_add a b = Some r ->
  canon r /\ forall d, lookup r d = lookup a d + lookup b d.
Proof. intros Sa Sb E. destruct (safe_add_spec a b r Sa Sb E) as (S & N & L & _). repeat split; auto. Qed.

(* Add panics exactly when some per-denomination sum leaves the Int range *)
Lemma safe_add_total a : forall b, ssorted a -> ssorted b ->
  (forall d, in_int (lookup a d + lookup b d)) -> exists r, safe_add a b = Some r.
Proof.
  induction a as [|[da xa] a IHa].
  - intros; rewrite safe_add_nil_l; eauto.
  - induction b as [|[db xb] b IHb]; intros Sa Sb H.
    + rewrite safe_add_nil_r; eauto.
    + rewrite safe_add_cons. pose proof Sa as Sa0. pose proof Sb as Sb0. destruct Sa as [Ha Sa']. destruct Sb as [Hb Sb'].
      destruct (bcompare da db) eqn:C.
      * apply bcompare_eq in C; subst db.
        pose proof (H da) as H0. simpl in H0. rewrite beqb_refl in H0.
        destruct (int_add_exact xa xb) as [[_ ->]|[N _]]; [|contradiction].
        destruct (IHa b Sa' Sb') as [r ->]; eauto.
        intros d. specialize (H d). simpl in H. destruct (beqb da d) eqn:E; auto.
        apply beqb_eq in E; subst. rewrite !lookup_above by auto. unfold in_int; lia.
      * assert (Lt1 : bltb da db = true) by (unfold bltb; rewrite C; auto).
        destruct (IHa ((db, xb) :: b) Sa' Sb0) as [r ->]; eauto.
        intros d. specialize (H d). simpl in *. destruct (beqb da d) eqn:E; auto.
        apply beqb_eq in E; subst. rewrite (bltb_neq' _ _ Lt1) in *.
        rewrite (lookup_above d a) by auto. rewrite (lookup_above d b). { unfold in_int; lia. }
        intros c Hc. eapply bltb_trans; eauto.
      * assert (Lt1 : bltb db da = true) by (unfold bltb; rewrite bcompare_antisym, C; auto).
        destruct (safe_add ((da, xa) :: a) b) as [r0|] eqn:Er; eauto.
        destruct (IHb Sa0 Sb') as [r Er']; [|discriminate (eq_trans (eq_sym Er') Er : Some r = None)].
        intros d. specialize (H d). simpl in *. destruct (beqb db d) eqn:E; auto.
        apply beqb_eq in E; subst. rewrite (bltb_neq' _ _ Lt1) in *.
        rewrite (lookup_above d b) by auto. rewrite (lookup_above d a). { unfold in_int; lia. }
        intros c Hc. eapply bltb_trans; eauto.
Qed.

Lemma negative_sorted b : ssorted b -> ssorted (negative b).
Proof.
  induction b as [|[d x] b IH]; simpl; auto. intros [H S]. split; auto.
  intros c Hc. unfold negative in Hc. apply in_map_iff in Hc. destruct Hc as [c0 [<- Hc0]]. simpl. apply H; auto.
Qed.
Lemma negative_lookup b d : lookup (negative b) d = - lookup b d.
Proof. induction b as [|[d0 x] b IH]; simpl; auto. destruct (beqb d0 d); auto. Qed.

Lemma is_any_negative_spec cs : ssorted cs ->
  (is_any_negative cs = true <-> exists d, lookup cs d < 0).
Proof.
  induction cs as [|[d0 x] r IH]; simpl.
  - intros _; split; [discriminate|intros [d H]; lia].
  - intros [H S]. rewrite orb_true_iff, IH by auto. simpl. split.
    + intros [L|[d L]].
      * exists d0. rewrite beqb_refl. lia.
      * exists d. destruct (beqb d0 d) eqn:E; auto. apply beqb_eq in E; subst.
        rewrite lookup_above in L by auto. lia.
    + intros [d L]. destruct (beqb d0 d) eqn:E; [left; lia|right; eauto].
Qed.

(* C18: SafeSub is the per-denomination difference and its flag is exact *)
Theorem safe_sub_spec a b r flag : ssorted a -> ssorted b -> safe_sub a b = Some (r, flag) ->
  canon r /\ (forall d, lookup r d = lookup a d - lookup b d) /\
  (flag = true <-> exists d, lookup a d - lookup b d < 0).
Proof.
  unfold safe_sub. intros Sa Sb. destruct (safe_add a (negative b)) as [r0|] eqn:E; [|discriminate].
  intros [= <- <-]. destruct (safe_add_canon _ _ _ Sa (negative_sorted b Sb) E) as [C L].
  assert (L' : forall d, lookup r0 d = lookup a d - lookup b d) by (intros; rewrite L, negative_lookup; lia).
  repeat split; auto; try apply C.
  - intros F. apply is_any_negative_spec in F; [|apply C]. destruct F as [d F]. exists d. rewrite <- L'; auto.
  - intros [d F]. apply is_any_negative_spec; [apply C|]. exists d. rewrite L'; auto.
Qed.

Lemma all_pos_lookup_nonneg a d : all_pos a -> 0 <= lookup a d.
Proof. induction 1 as [|[d0 x] r H _ IH]; simpl in *; [lia|]. destruct (beqb d0 d); lia. Qed.
Lemma all_int_lookup a d : all_int a -> in_int (lookup a d).
Proof. induction 1 as [|[d0 x] r H _ IH]; simpl in *; [unfold in_int; lia|]. destruct (beqb d0 d); auto. Qed.
Lemma all_pos_nonzero a : all_pos a -> nonzero a.
Proof. unfold all_pos, nonzero. apply Forall_impl. intros; lia. Qed.

(* C18: Add and Sub are inverse on canonical non-negative operands *)
Theorem add_sub_inverse a b s : ssorted a -> all_pos a -> all_int a -> ssorted b -> all_pos b ->
  safe_add a b = Some s -> coins_sub s b = Some a.
Proof.
  intros Sa Pa Ia Sb Pb E. destruct (safe_add_canon _ _ _ Sa Sb E) as [[Ss Ns] Ls].
  unfold coins_sub.
  destruct (safe_add_total s (negative b) Ss (negative_sorted b Sb)) as [r Er].
  { intros d. rewrite negative_lookup, Ls. replace (lookup a d + lookup b d + - lookup b d) with (lookup a d) by lia.
    apply all_int_lookup; auto. }
  unfold safe_sub. rewrite Er.
  destruct (safe_add_canon _ _ _ Ss (negative_sorted b Sb) Er) as [Cr Lr].
  assert (r = a) as ->.
  { apply canon_ext; auto. { split; auto. apply all_pos_nonzero; auto. }
    intros d. rewrite Lr, negative_lookup, Ls. lia. }
  destruct (is_any_negative a) eqn:F; auto.
  apply is_any_negative_spec in F; auto. destruct F as [d F].
  pose proof (all_pos_lookup_nonneg a d Pa). lia.
Qed.

(* IsValid = canonical + positive + denom syntax of the first coin *)
Lemma valid_tail_spec low cs : valid_tail low cs = true ->
  ssorted cs /\ all_pos cs /\ lower_bounded low cs.
Proof.
  revert low; induction cs as [|[d x] r IH]; simpl; intros low.
  - intros _. repeat split; [constructor|intros c []].
  - rewrite !andb_true_iff. intros [[L Px] T]. destruct (IH d T) as (S & Pp & LB).
    repeat split; auto.
    + constructor; auto. simpl. lia.
    + intros c [<-|Hc]; auto. eapply bltb_trans; eauto.
Qed.
Theorem coins_valid_canon cs : coins_valid cs = true -> ssorted cs /\ all_pos cs.
Proof.
  destruct cs as [|[d x] r]; simpl; [intros _; split; [auto|constructor]|].
  rewrite !andb_true_iff. intros [[_ Px] T]. destruct (valid_tail_spec d r T) as (S & Pp & LB).
  split; [split; auto|constructor; auto; simpl; lia].
Qed.

Lemma lookup_in cs d x : ssorted cs -> In (d, x) cs -> lookup cs d = x.
Proof.
  induction cs as [|[d0 x0] r IH]; simpl; [tauto|]. intros [H S] [E|Hin].
  - inversion E; subst. rewrite beqb_refl; auto.
  - pose proof (H _ Hin) as L. simpl in L. rewrite (bltb_neq _ _ L). auto.
Qed.

(* C18: results of Add on valid operands are valid-shaped (sorted, no dups, positive) *)
Theorem safe_add_valid_shape a b r : ssorted a -> all_pos a -> ssorted b -> all_pos b ->
  safe_add a b = Some r -> ssorted r /\ all_pos r.
Proof.
  intros Sa Pa Sb Pb E. destruct (safe_add_canon _ _ _ Sa Sb E) as [[S N] L]. split; auto.
  apply Forall_forall. intros [d x] Hin. simpl.
  pose proof (lookup_in r d x S Hin) as Lx. rewrite L in Lx.
  pose proof (all_pos_lookup_nonneg a d Pa). pose proof (all_pos_lookup_nonneg b d Pb).
  unfold nonzero in N. rewrite Forall_forall in N. specialize (N _ Hin). simpl in N. lia.
Qed.

(* ---- AmountOf: the binary search is a lookup on sorted coins ---- *)
Lemma ssorted_app l1 c l2 : ssorted (l1 ++ c :: l2) ->
  ssorted l1 /\ ssorted l2 /\ (forall c', In c' l1 -> bltb (fst c') (fst c) = true) /\
  (forall c', In c' l2 -> bltb (fst c) (fst c') = true).
Proof.
  induction l1 as [|c1 l1 IH]; simpl.
  - intros [H S]. repeat split; auto; intros c' [].
  - intros [H S]. destruct (IH S) as (S1 & S2 & A & B). repeat split; auto.
    + intros c' Hc. apply H. apply in_or_app; auto.
    + intros c' [<-|Hc]; auto. apply (H c). apply in_or_app; right; left; auto.
Qed.
Lemma lookup_app_r0 l1 l2 d : lookup l2 d = 0 -> lookup (l1 ++ l2) d = lookup l1 d.
Proof.
  intros H. induction l1 as [|[d0 x0] l1 IH]; simpl; auto. destruct (beqb d0 d); auto.
Qed.
Lemma lookup_app_skip l1 l2 d : (forall c, In c l1 -> beqb (fst c) d = false) ->
  lookup (l1 ++ l2) d = lookup l2 d.
Proof.
  induction l1 as [|[d0 x0] l1 IH]; simpl; auto. intros H.
  pose proof (H (d0, x0) (or_introl eq_refl)) as E. simpl in E. rewrite E. apply IH; auto.
Qed.

Lemma skipn_mid {A} (l1 : list A) c l2 : skipn (S (length l1)) (l1 ++ c :: l2) = l2.
Proof. induction l1; simpl; auto. Qed.
Lemma firstn_mid {A} (l1 : list A) c l2 : firstn (length l1) (l1 ++ c :: l2) = l1.
Proof. induction l1; simpl; f_equal; auto. Qed.

Lemma amount_of_fuel_unfold f (cs : coins) d : (2 <= length cs)%nat ->
  amount_of_fuel (S f) cs d =
  match nth_error cs (Nat.div2 (length cs)) with
  | None => 0
  | Some (dm, am) =>
    match bcompare d dm with
    | Lt => amount_of_fuel f (firstn (Nat.div2 (length cs)) cs) d
    | Eq => am
    | Gt => amount_of_fuel f (skipn (S (Nat.div2 (length cs))) cs) d
    end
  end.
Proof.
  destruct cs as [|[d0 a0] [|c1 r]]; simpl length; try lia. intros _. reflexivity.
Qed.

Lemma amount_of_fuel_lookup fuel : forall cs d, (length cs <= fuel)%nat -> ssorted cs ->
  amount_of_fuel fuel cs d = lookup cs d.
Proof.
  induction fuel as [|f IH]; intros cs d Hl Hs.
  - destruct cs; simpl in *; [auto|lia].
  - destruct (Nat.lt_ge_cases (length cs) 2) as [Hlt|Hge].
    { destruct cs as [|[d0 a0] [|c1 r]]; [reflexivity|simpl; destruct (beqb d0 d); reflexivity|simpl in Hlt; lia]. }
    rewrite amount_of_fuel_unfold by auto.
    assert (Hm : (Nat.div2 (length cs) < length cs)%nat) by (apply Nat.lt_div2; simpl; lia).
    destruct (nth_error cs (Nat.div2 (length cs))) as [[dm am]|] eqn:En;
      [|apply nth_error_None in En; lia].
    destruct (nth_error_split cs _ En) as (l1 & l2 & Ecs & Hlen).
    assert (F1 : firstn (Nat.div2 (length cs)) cs = l1).
    { rewrite <- Hlen, Ecs. apply firstn_mid. }
    assert (F2 : skipn (S (Nat.div2 (length cs))) cs = l2).
    { rewrite <- Hlen, Ecs. apply skipn_mid. }
    rewrite F1, F2. rewrite Ecs in Hs. destruct (ssorted_app _ _ _ Hs) as (S1 & S2 & A & B). simpl in A, B.
    assert (Hl1 : (length l1 <= f)%nat) by (rewrite Ecs, app_length in Hl; simpl in Hl; lia).
    assert (Hl2 : (length l2 <= f)%nat) by (rewrite Ecs, app_length in Hl; simpl in Hl; lia).
    rewrite Ecs. destruct (bcompare d dm) eqn:C.
    + apply bcompare_eq in C; subst dm. rewrite lookup_app_skip.
      * simpl. rewrite beqb_refl; auto.
      * intros c Hc. apply bltb_neq; auto.
    + assert (L : bltb d dm = true) by (unfold bltb; rewrite C; auto).
      rewrite IH by auto. symmetry. apply lookup_app_r0. simpl. rewrite (bltb_neq' _ _ L).
      apply lookup_above. intros c Hc. eapply bltb_trans; eauto.
    + assert (L : bltb dm d = true) by (unfold bltb; rewrite bcompare_antisym, C; auto).
      rewrite IH by auto. rewrite lookup_app_skip.
      * simpl. rewrite (bltb_neq _ _ L). auto.
      * intros c Hc. apply bltb_neq. eapply bltb_trans; eauto.
Qed.

Theorem amount_of_spec cs d : ssorted cs -> valid_denom d = true -> amount_of cs d = Some (lookup cs d).
Proof. intros S V. unfold amount_of. rewrite V. f_equal. apply amount_of_fuel_lookup; auto. Qed.
Lemma ao_lookup cs d : ssorted cs -> ao cs d = lookup cs d.
Proof. intros. apply amount_of_fuel_lookup; auto. Qed.

(* C18: comparisons agree with per-denomination comparison (valid = sorted, positive) *)
Lemma lookup_notin cs d : (forall c, In c cs -> fst c <> d) -> lookup cs d = 0.
Proof.
  induction cs as [|[d0 x] r IH]; simpl; auto. intros H.
  destruct (beqb d0 d) eqn:E; [apply beqb_eq in E; exfalso; apply (H (d0, x)); auto|auto].
Qed.
Lemma gte_forall (a b : coins) : ssorted a -> all_pos a -> ssorted b ->
  (forallb (fun cb => negb (snd cb >? ao a (fst cb))) b = true <-> forall d, lookup b d <= lookup a d).
Proof.
  intros Sa Pa Sb. rewrite forallb_forall. split.
  - intros H d. destruct (In_dec (list_eq_dec N.eq_dec) d (map fst b)) as [I|I].
    + apply in_map_iff in I. destruct I as [[d' x] [<- Hin]]. specialize (H _ Hin). simpl in *.
      rewrite ao_lookup in H by auto. rewrite (lookup_in b d' x Sb Hin).
      destruct (Z.gtb_spec x (lookup a d')); [discriminate|lia].
    + rewrite (lookup_notin b d). { apply all_pos_lookup_nonneg; auto. }
      intros c Hc E. apply I. apply in_map_iff. exists c; auto.
  - intros H [d x] Hin. simpl. rewrite ao_lookup by auto. specialize (H d).
    rewrite (lookup_in b d x Sb Hin) in H. destruct (Z.gtb_spec x (lookup a d)); auto; lia.
Qed.
Theorem is_all_gte_spec a b : ssorted a -> all_pos a -> ssorted b -> all_pos b ->
  (is_all_gte a b = true <-> forall d, lookup b d <= lookup a d).
Proof.
  intros Sa Pa Sb Pb. unfold is_all_gte.
  destruct b as [|cb b0] eqn:Eb; [split; auto; intros _ d; simpl; apply all_pos_lookup_nonneg; auto|].
  destruct a as [|ca a0] eqn:Ea.
  - split; [discriminate|]. intros H. destruct cb as [d x]. specialize (H d). simpl in H.
    rewrite beqb_refl in H. inversion Pb; simpl in *; lia.
  - apply gte_forall; auto.
Qed.
