(* L0 model of types/decimal.go: Dec is a big.Int holding value * 10^18.
   A Go panic is [None]. The double rounding of Quo/QuoRoundUp is modelled as coded. *)
From Coq Require Import ZArith Bool.
From PM Require Import Num.IntModel.
Local Open Scope Z_scope.

Definition precision : Z := 18.
Definition P : Z := 10 ^ 18.                   (* precisionReuse *)
Definition five_precision : Z := P / 2.        (* fivePrecision *)
Definition dec_bits : Z := 255 + 60.           (* 255 + DecimalPrecisionBits *)

Definition dec_ok (z : Z) : bool := bitlen z <=? dec_bits.
Definition dec_chk (z : Z) : option Z := if dec_ok z then Some z else None.

(* chopPrecisionAndRound on a non-negative argument *)
Definition chop_round_pos (d : Z) : Z :=
  let q := d / P in let r := d mod P in
  if r =? 0 then q else
  match r ?= five_precision with
  | Lt => q
  | Gt => q + 1
  | Eq => if Z.even q then q else q + 1
  end.
Definition chop_round (d : Z) : Z := if d <? 0 then - chop_round_pos (- d) else chop_round_pos d.

(* chopPrecisionAndTruncate: big.Int.Quo, toward zero *)
Definition chop_trunc (d : Z) : Z := Z.quot d P.

(* chopPrecisionAndRoundUp: negative -> truncate(|d|) negated; else quo (+1 if rem<>0) *)
Definition chop_round_up (d : Z) : Z :=
  if d <? 0 then - chop_trunc (- d)
  else let q := d / P in if d mod P =? 0 then q else q + 1.

Definition dec_add (a b : Z) : option Z := dec_chk (a + b).
Definition dec_sub (a b : Z) : option Z := dec_chk (a - b).
Definition dec_mul (a b : Z) : option Z := dec_chk (chop_round (a * b)).
Definition dec_mul_truncate (a b : Z) : option Z := dec_chk (chop_trunc (a * b)).
Definition dec_mul_int (a i : Z) : option Z := dec_chk (a * i).
(* Quo: (a * 10^36) Quo b, then chop -- division by zero panics in big.Int.Quo *)
Definition dec_quo (a b : Z) : option Z :=
  if b =? 0 then None else dec_chk (chop_round (Z.quot (a * P * P) b)).
Definition dec_quo_truncate (a b : Z) : option Z :=
  if b =? 0 then None else dec_chk (chop_trunc (Z.quot (a * P * P) b)).
Definition dec_quo_round_up (a b : Z) : option Z :=
  if b =? 0 then None else dec_chk (chop_round_up (Z.quot (a * P * P) b)).
Definition dec_quo_int (a i : Z) : option Z := if i =? 0 then None else Some (Z.quot a i).
Definition dec_is_integer (a : Z) : bool := Z.rem a P =? 0.
Definition dec_round_int64 (a : Z) : option Z := int_int64 (chop_round a).
Definition dec_round_int (a : Z) : option Z := int_new_from_big (chop_round a).
Definition dec_truncate_int64 (a : Z) : option Z := int_int64 (chop_trunc a).
Definition dec_truncate_int (a : Z) : option Z := int_new_from_big (chop_trunc a).
Definition dec_truncate_dec (a : Z) : Z := chop_trunc a * P.
(* Ceil: QuoRem is truncated division; remainder has the sign of the dividend *)
Definition dec_ceil (a : Z) : Z :=
  let q := Z.quot a P in let r := Z.rem a P in
  if r =? 0 then q * P else if r <? 0 then q * P else (q + 1) * P.
Definition dec_from_int (i : Z) : Z := i * P.     (* Int.ToDec / NewDecFromInt *)

(* ---- exact specifications (what C18 states), on rationals n/d with d > 0 ---- *)
(* round n/d half-to-even *)
Definition round_half_even (n d : Z) : Z :=
  let q := n / d in let r := n mod d in     (* floor division, 0 <= r < d *)
  match 2 * r ?= d with
  | Lt => q
  | Gt => q + 1
  | Eq => if Z.even q then q else q + 1
  end.
Definition ceil_div (n d : Z) : Z := - ((- n) / d).
(* exact Dec quotient a/b at 18 decimals, half-even: round (a*P / b) *)
Definition spec_quo (a b : Z) : Z :=
  if b <? 0 then round_half_even (- (a * P)) (- b) else round_half_even (a * P) b.
Definition spec_quo_round_up (a b : Z) : Z :=
  if b <? 0 then ceil_div (- (a * P)) (- b) else ceil_div (a * P) b.
Definition spec_quo_truncate (a b : Z) : Z := Z.quot (a * P) b.
Definition spec_mul (a b : Z) : Z := round_half_even (a * b) P.
