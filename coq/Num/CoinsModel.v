(* L0 model of types/coin.go: Coins is a slice of (denom, amount). A Go panic is [None].
   Denominations are byte strings compared as Go compares strings. *)
From Coq Require Import List ZArith Bool.
From PM Require Import Base.Bytes Num.IntModel.
Import ListNotations.
Local Open Scope Z_scope.

Definition coin := (bytes * Z)%type.
Definition coins := list coin.

(* validateDenom: ^[a-z][a-z0-9]{2,15}$ *)
Definition is_lower (c : N) : bool := (N.leb 97 c) && (N.leb c 122).
Definition is_digit (c : N) : bool := (N.leb 48 c) && (N.leb c 57).
Definition valid_denom (d : bytes) : bool :=
  match d with
  | [] => false
  | c :: r => is_lower c && forallb (fun x => is_lower x || is_digit x) r
              && (Nat.leb 2 (length r)) && (Nat.leb (length r) 15)
  end.

Fixpoint remove_zero (cs : coins) : coins :=
  match cs with
  | [] => []
  | (d, a) :: r => if a =? 0 then remove_zero r else (d, a) :: remove_zero r
  end.

(* safeAdd: merge of two denom-sorted lists; equal denoms are added with Int.Add (may panic),
   zero results and zero inputs are dropped *)
Fixpoint safe_add (a : coins) : coins -> option coins :=
  fix go (b : coins) : option coins :=
    match a, b with
    | [], _ => Some (remove_zero b)
    | _, [] => Some (remove_zero a)
    | (da, xa) :: a', (db, xb) :: b' =>
      match bcompare da db with
      | Lt => match safe_add a' b with
              | Some r => Some (if xa =? 0 then r else (da, xa) :: r) | None => None end
      | Eq => match int_add xa xb, safe_add a' b' with
              | Some s, Some r => Some (if s =? 0 then r else (da, s) :: r)
              | _, _ => None end
      | Gt => match go b' with
              | Some r => Some (if xb =? 0 then r else (db, xb) :: r) | None => None end
      end
    end.

Definition negative (cs : coins) : coins := map (fun c => (fst c, - snd c)) cs.
Definition is_any_negative (cs : coins) : bool := existsb (fun c => snd c <? 0) cs.
(* SafeSub: (diff, hasNeg) *)
Definition safe_sub (a b : coins) : option (coins * bool) :=
  match safe_add a (negative b) with
  | Some d => Some (d, is_any_negative d)
  | None => None
  end.
Definition coins_sub (a b : coins) : option coins :=
  match safe_sub a b with
  | Some (d, false) => Some d
  | _ => None
  end.

(* Coins.IsValid *)
Fixpoint valid_tail (low : bytes) (cs : coins) : bool :=
  match cs with
  | [] => true
  | (d, a) :: r => bltb low d && (0 <? a) && valid_tail d r
  end.
Definition coins_valid (cs : coins) : bool :=
  match cs with
  | [] => true
  | (d, a) :: r => valid_denom d && (0 <? a) && valid_tail d r
  end.

(* AmountOf: binary search as coded (mustValidateDenom panics on a bad denom).
   Fuel = length suffices since each call strictly shrinks the slice. *)
Fixpoint amount_of_fuel (fuel : nat) (cs : coins) (d : bytes) : Z :=
  match fuel with
  | O => 0
  | S f =>
    match cs with
    | [] => 0
    | [(d0, a0)] => if beqb d0 d then a0 else 0
    | _ =>
      let mid := Nat.div2 (length cs) in
      match nth_error cs mid with
      | None => 0
      | Some (dm, am) =>
        match bcompare d dm with
        | Lt => amount_of_fuel f (firstn mid cs) d
        | Eq => am
        | Gt => amount_of_fuel f (skipn (S mid) cs) d
        end
      end
    end
  end.
Definition amount_of (cs : coins) (d : bytes) : option Z :=
  if valid_denom d then Some (amount_of_fuel (length cs) cs d) else None.
(* the plain specification of AmountOf on any list *)
Fixpoint lookup (cs : coins) (d : bytes) : Z :=
  match cs with
  | [] => 0
  | (d0, a0) :: r => if beqb d0 d then a0 else lookup r d
  end.

Definition ao (cs : coins) (d : bytes) : Z := amount_of_fuel (length cs) cs d.

Definition is_all_gte (a b : coins) : bool :=
  match b with
  | [] => true
  | _ => match a with
         | [] => false
         | _ => forallb (fun cb => negb (snd cb >? ao a (fst cb))) b
         end
  end.
Definition denoms_subset_of (a b : coins) : bool :=
  if Nat.ltb (length b) (length a) then false
  else forallb (fun c => negb (ao b (fst c) =? 0)) a.
Definition is_all_gt (a b : coins) : bool :=
  match a with
  | [] => false
  | _ => match b with
         | [] => true
         | _ => denoms_subset_of b a && forallb (fun cb => ao a (fst cb) >? snd cb) b
         end
  end.
Definition is_any_gte (a b : coins) : bool :=
  match b with
  | [] => false
  | _ => existsb (fun c => (snd c >=? ao b (fst c)) && negb (ao b (fst c) =? 0)) a
  end.
Definition coins_is_zero (a : coins) : bool := forallb (fun c => snd c =? 0) a.
(* IsEqual on sorted operands (Sort is the identity there) *)
Fixpoint coins_equal (a b : coins) : option bool :=
  match a, b with
  | [], [] => Some true
  | (da, xa) :: a', (db, xb) :: b' =>
    if Nat.eqb (length a') (length b') then
      if beqb da db then
        if xa =? xb then coins_equal a' b' else Some false
      else None                                  (* Coin.IsEqual panics on denom mismatch *)
    else Some false
  | _, _ => Some false
  end.

(* NewCoins: drop zero coins, sort by denomination, panic on a duplicate or an invalid set *)
Fixpoint insert_coin (c : coin) (l : coins) : coins :=
  match l with
  | [] => [c]
  | x :: r => match bcompare (fst c) (fst x) with Gt => x :: insert_coin c r | _ => c :: l end
  end.
Definition sort_coins (l : coins) : coins := fold_right insert_coin [] l.
Fixpoint has_dup (l : coins) : bool :=
  match l with
  | x :: ((y :: _) as r) => beqb (fst x) (fst y) || has_dup r
  | _ => false
  end.
Definition new_coins (cs : coins) : option coins :=
  match remove_zero cs with
  | [] => Some []
  | nz => let s := sort_coins nz in
          if has_dup s then None else if coins_valid s then Some s else None
  end.
