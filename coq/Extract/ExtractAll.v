(* Extraction of the executable models to OCaml. ExtrOcamlBasic only: Z, N, positive, nat
   stay the extracted inductive datatypes. Output lands in the directory coqc runs in. *)
Require Extraction.
Require Import ExtrOcamlBasic.
From PM Require Import Base.Bytes Num.IntModel Num.DecModel Num.CoinsModel Store.KV Store.RootMulti Crypto.KeysModel App.Model App.KeyTypes Codec.CodecModel Codec.DecText.
Extraction Language OCaml.
Extraction "model.ml"
  Coq.ZArith.BinInt.Z.add Coq.ZArith.BinInt.Z.mul Coq.ZArith.BinInt.Z.sub Coq.ZArith.BinInt.Z.opp
  Coq.ZArith.BinInt.Z.div_eucl Coq.ZArith.BinInt.Z.compare Coq.ZArith.BinInt.Z.of_N Coq.ZArith.BinInt.Z.to_N
  Coq.NArith.BinNat.N.add Coq.NArith.BinNat.N.mul Coq.NArith.BinNat.N.compare
  bcompare
  int_new_from_big int_add int_sub int_mul int_quo int_mod int_neg int_min int_max int_int64
  uint_chk uint_add uint_sub uint_mul uint_quo uint_uint64 int_unmarshal uint_unmarshal
  tokens_to_power tokens_from_power
  dec_add dec_sub dec_mul dec_mul_truncate dec_mul_int dec_quo dec_quo_truncate dec_quo_round_up
  dec_quo_int dec_is_integer dec_round_int64 dec_round_int dec_truncate_int64 dec_truncate_int
  dec_truncate_dec dec_ceil dec_from_int dec_chk
  spec_quo spec_quo_round_up spec_quo_truncate spec_mul in_uint_b
  safe_add safe_sub coins_sub coins_valid amount_of is_all_gte is_all_gt is_any_gte coins_equal coins_is_zero new_coins
  verify kstep
  ms_init commit_in_order reopen load_ms ms_set ms_delete ms_tset ms_query ms_set_pruning
  init_chain begin_block end_block deliver_tx deliver_tx_cp k_award k_burn bank_mint set_bank rank_key time_key be_bytes
  aset s_get s_has s_set s_delete s_iter s_iter_all c_write at_depth it_valid it_key it_value it_next consume
  uvarint uvarint_decode frame unframe time_text sort_json sign_bytes dec_to_text text_to_dec
  kv_gas_config c_empty prefix_end_bytes inclusive_end_bytes merge_run.
